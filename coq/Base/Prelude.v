(* Shared definitions: bytes as Z, association lookups, Python tuple comparison. *)
From Coq Require Export ZArith List Bool String Lia.
Export ListNotations.
Open Scope Z_scope.

Definition byte_ok (b : Z) : bool := (0 <=? b) && (b <? 256).
Definition bytes_ok (l : list Z) : bool := forallb byte_ok l.

Fixpoint zassoc {A} (k : Z) (l : list (Z * A)) : option A :=
  match l with
  | [] => None
  | (k', v) :: r => if k =? k' then Some v else zassoc k r
  end.

Fixpoint sassoc {A} (k : string) (l : list (string * A)) : option A :=
  match l with
  | [] => None
  | (k', v) :: r => if String.eqb k k' then Some v else sassoc k r
  end.

Definition zmem (k : Z) (l : list Z) : bool := existsb (Z.eqb k) l.
Definition smem (k : string) (l : list string) : bool := existsb (String.eqb k) l.

Fixpoint zlist_eqb (a b : list Z) : bool :=
  match a, b with
  | [], [] => true
  | x :: a', y :: b' => (x =? y) && zlist_eqb a' b'
  | _, _ => false
  end.

Lemma zlist_eqb_eq a b : zlist_eqb a b = true <-> a = b.
Proof.
  revert b; induction a as [|x a IH]; intros [|y b]; cbn; split; intros H; try congruence; try discriminate.
  - apply andb_true_iff in H as [H1 H2]. apply Z.eqb_eq in H1. apply IH in H2. congruence.
  - inversion H; subst. rewrite Z.eqb_refl. cbn. apply IH. reflexivity.
Qed.

(* Python's lexicographic comparison of int tuples (prefix is smaller). *)
Fixpoint tuple_cmp (a b : list Z) : comparison :=
  match a, b with
  | [], [] => Eq
  | [], _ :: _ => Lt
  | _ :: _, [] => Gt
  | x :: a', y :: b' => match x ?= y with Eq => tuple_cmp a' b' | c => c end
  end.
Definition tuple_geb a b := match tuple_cmp a b with Lt => false | _ => true end.
Definition tuple_gtb a b := match tuple_cmp a b with Gt => true | _ => false end.
Definition tuple_leb a b := match tuple_cmp a b with Gt => false | _ => true end.
Definition tuple_ltb a b := match tuple_cmp a b with Lt => true | _ => false end.
Definition tuple_eqb a b := match tuple_cmp a b with Eq => true | _ => false end.

Definition is_some {A} (o : option A) : bool := match o with Some _ => true | None => false end.

(* first n elements / python slicing helpers *)
Definition firstn_z {A} (n : Z) (l : list A) := firstn (Z.to_nat n) l.
Definition skipn_z {A} (n : Z) (l : list A) := skipn (Z.to_nat n) l.
Definition zlen {A} (l : list A) : Z := Z.of_nat (List.length l).

(* Results with Python exception classes as error values. *)
From Xdis Require Import Base.Prelude.

Inductive err :=
| EOFErr | ValueErr | StructErr | IndexErr | KeyErr | TypeErr | UnicodeErr | AssertErr
| AttributeErr | RuntimeErr | ImportErr | RecursionErr | MemoryErr | OverflowErr | StopIter
| ZeroDivErr | OutOfFuel.

Inductive result (A : Type) := Ok (a : A) | Err (e : err).
Arguments Ok {A} a.
Arguments Err {A} e.

Definition bind {A B} (r : result A) (f : A -> result B) : result B :=
  match r with Ok a => f a | Err e => Err e end.
Notation "'do' x <- r ; k" := (bind r (fun x => k)) (at level 200, x pattern, r at level 100, k at level 200).

Definition err_code (e : err) : Z :=
  match e with
  | EOFErr => 1 | ValueErr => 2 | StructErr => 3 | IndexErr => 4 | KeyErr => 5 | TypeErr => 6
  | UnicodeErr => 7 | AssertErr => 8 | AttributeErr => 9 | RuntimeErr => 10 | ImportErr => 11
  | RecursionErr => 12 | MemoryErr => 13 | OverflowErr => 14 | StopIter => 15 | ZeroDivErr => 16 | OutOfFuel => 99
  end.
Notation "'do2' p <- r ; k" := (bind r (fun x => let 'p := x in k))
  (at level 200, p strict pattern, r at level 100, k at level 200).

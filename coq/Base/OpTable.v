(* Record types for opcode tables (instantiated by Gen/Opcodes.v from /repo and
   Gen/RefOpcodes.v from the installed interpreters). *)
From Xdis Require Import Base.Prelude.
Local Open Scope string_scope.

Record optable := {
  t_name : string;
  t_version : list Z;
  t_pypy : bool;
  t_have_argument : Z;
  t_extended_arg : Z;
  t_shift : Z;
  t_opname : list string;            (* index = opcode number *)
  t_opmap : list (string * Z);
  t_oppop : list Z;
  t_oppush : list Z;
  t_hasjrel : list Z;
  t_hasjabs : list Z;
  t_hasconst : list Z;
  t_hasname : list Z;
  t_haslocal : list Z;
  t_hasfree : list Z;
  t_hascompare : list Z;
  t_hasnargs : list Z;
  t_hasvargs : list Z;
  t_nofollow : list Z;
  t_jrel_ops : list Z;               (* the frozensets the decoder reads *)
  t_jabs_ops : list Z;
  t_const_ops : list Z;
  t_name_ops : list Z;
  t_local_ops : list Z;
  t_free_ops : list Z;
  t_compare_ops : list Z;
  t_findlabels : string;             (* "cross_dis.findlabels" / "wordcode.findlabels" *)
  t_cmp_op : list string;
  t_hasarg : list Z                  (* opcode.hasarg of the table ([] where the module has none: before 3.12) *)
}.

Record reftable := {
  r_version : list Z;
  r_opmap : list (string * Z);
  r_opname : list string;
  r_have_argument : Z;
  r_extended_arg : Z;
  r_hasjrel : list Z;
  r_hasjabs : list Z;
  r_hasconst : list Z;
  r_hasname : list Z;
  r_haslocal : list Z;
  r_hasfree : list Z;
  r_hascompare : list Z;
  r_hasarg : list Z;
  r_cache : list (string * Z);
  r_cmp_op : list string
}.

Definition opname_of (t : optable) (op : Z) : string :=
  if (op <? 0)%Z then "" else nth (Z.to_nat op) (t_opname t) "".
Close Scope string_scope.

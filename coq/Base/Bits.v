(* Bit-level facts: a finite sweep over all 256 byte values lifted to a universally
   quantified lemma, and "lor of disjoint bit ranges is addition". *)
From Xdis Require Import Base.Prelude.
From Coq Require Import ZifyBool.
Ltac Zify.zify_post_hook ::= Z.to_euclidean_division_equations.

Lemma byte_sweep (P : Z -> bool) :
  forallb P (map Z.of_nat (seq 0 256)) = true -> forall b, 0 <= b < 256 -> P b = true.
Proof.
  intros H b Hb. rewrite forallb_forall in H. apply H.
  replace b with (Z.of_nat (Z.to_nat b)) by lia. apply in_map. apply in_seq. lia.
Qed.

Definition byte_facts (b : Z) : bool :=
  (Z.land b 63 =? b mod 64) && (Z.land b 7 =? b mod 8) && (Z.land b 15 =? b mod 16) && (Z.land b 1 =? b mod 2)
  && Bool.eqb (Z.land b 64 =? 0) ((b / 64) mod 2 =? 0)
  && Bool.eqb (Z.land b 128 =? 0) (b <? 128)
  && (Z.land (Z.shiftr b 3) 15 =? (b / 8) mod 16)
  && (Z.shiftr (Z.land b 120) 3 =? (b / 8) mod 16)
  && (Z.shiftr b 3 =? b / 8)
  && (Z.land (Z.shiftr b 4) 7 =? (b / 16) mod 8)
  && (Z.land b 127 =? b mod 128).

Lemma byte_facts_all : forallb byte_facts (map Z.of_nat (seq 0 256)) = true.
Proof. vm_compute. reflexivity. Qed.

Lemma byte_fact b : 0 <= b < 256 ->
  Z.land b 63 = b mod 64 /\ Z.land b 7 = b mod 8 /\ Z.land b 15 = b mod 16 /\ Z.land b 1 = b mod 2
  /\ (Z.land b 64 =? 0) = ((b / 64) mod 2 =? 0)
  /\ (Z.land b 128 =? 0) = (b <? 128)
  /\ Z.land (Z.shiftr b 3) 15 = (b / 8) mod 16
  /\ Z.shiftr (Z.land b 120) 3 = (b / 8) mod 16
  /\ Z.shiftr b 3 = b / 8
  /\ Z.land (Z.shiftr b 4) 7 = (b / 16) mod 8
  /\ Z.land b 127 = b mod 128.
Proof.
  intros H. pose proof (byte_sweep byte_facts byte_facts_all b H) as F. unfold byte_facts in F.
  repeat (apply andb_true_iff in F; destruct F as [F ?]).
  repeat match goal with
         | H : (_ =? _) = true |- _ => apply Z.eqb_eq in H
         | H : Bool.eqb _ _ = true |- _ => apply Bool.eqb_prop in H
         end.
  repeat split; assumption.
Qed.

Lemma land_low_shiftl a d n : 0 <= n -> 0 <= a < 2 ^ n -> Z.land a (Z.shiftl d n) = 0.
Proof.
  intros Hn Ha. apply Z.bits_inj'. intros k Hk. rewrite Z.land_spec, Z.bits_0.
  destruct (Z_lt_le_dec k n) as [Hlt|Hge].
  - rewrite (Z.shiftl_spec_low d n k Hlt). apply andb_false_r.
  - assert (Z.testbit a k = false) as ->; [|reflexivity].
    destruct (Z.eq_dec a 0) as [->|Hnz]; [apply Z.bits_0|].
    apply Z.bits_above_log2; [lia|].
    assert (Z.log2 a < n) by (apply Z.log2_lt_pow2; lia). lia.
Qed.

Lemma lor_shiftl_add a d n : 0 <= n -> 0 <= a < 2 ^ n -> Z.lor a (Z.shiftl d n) = a + d * 2 ^ n.
Proof.
  intros Hn Ha. pose proof (land_low_shiftl a d n Hn Ha) as L.
  rewrite <- Z.lxor_lor by exact L. rewrite <- Z.add_nocarry_lxor by exact L.
  rewrite Z.shiftl_mul_pow2 by lia. reflexivity.
Qed.

Lemma shiftr1_div2 v : Z.shiftr v 1 = v / 2.
Proof. rewrite Z.shiftr_div_pow2 by lia. reflexivity. Qed.

Lemma land1_mod2 v : 0 <= v -> Z.land v 1 = v mod 2.
Proof. intros H. change 1 with (Z.ones 1). rewrite Z.land_ones by lia. reflexivity. Qed.

(* UTF-8 well-formedness as Python's decoder sees it with errors="surrogatepass"
   (three-byte encodings of U+D800..U+DFFF are let through, as marshal does). *)
From Xdis Require Import Base.Prelude.

Definition cont (b : Z) : bool := (128 <=? b) && (b <=? 191).

Fixpoint utf8_ok (l : list Z) : bool :=
  match l with
  | [] => true
  | b0 :: r =>
      if b0 <=? 127 then utf8_ok r
      else if (194 <=? b0) && (b0 <=? 223) then
        match r with b1 :: r' => cont b1 && utf8_ok r' | _ => false end
      else if b0 =? 224 then
        match r with b1 :: b2 :: r' => (160 <=? b1) && (b1 <=? 191) && cont b2 && utf8_ok r' | _ => false end
      else if (225 <=? b0) && (b0 <=? 239) then
        match r with b1 :: b2 :: r' => cont b1 && cont b2 && utf8_ok r' | _ => false end
      else if b0 =? 240 then
        match r with b1 :: b2 :: b3 :: r' => (144 <=? b1) && (b1 <=? 191) && cont b2 && cont b3 && utf8_ok r' | _ => false end
      else if (241 <=? b0) && (b0 <=? 243) then
        match r with b1 :: b2 :: b3 :: r' => cont b1 && cont b2 && cont b3 && utf8_ok r' | _ => false end
      else if b0 =? 244 then
        match r with b1 :: b2 :: b3 :: r' => (128 <=? b1) && (b1 <=? 143) && cont b2 && cont b3 && utf8_ok r' | _ => false end
      else false
  end.

(* Little-endian integer readers over byte lists (struct.unpack "<I", "<Q", "<H", "<i", "<h"). *)
From Xdis Require Import Base.Prelude.

Definition le16 (b0 b1 : Z) : Z := b0 + 256 * b1.
Definition le32 (b0 b1 b2 b3 : Z) : Z := b0 + 256 * b1 + 65536 * b2 + 16777216 * b3.
Definition le64 (b0 b1 b2 b3 b4 b5 b6 b7 : Z) : Z := le32 b0 b1 b2 b3 + 4294967296 * le32 b4 b5 b6 b7.
Definition s16 (x : Z) : Z := if x <? 32768 then x else x - 65536.
Definition s32 (x : Z) : Z := if x <? 2147483648 then x else x - 4294967296.
Definition s64 (x : Z) : Z := if x <? 9223372036854775808 then x else x - 18446744073709551616.
Definition sgn8 (x : Z) : Z := if x <? 128 then x else x - 256.

Definition enc32 (x : Z) : list Z := [x mod 256; (x / 256) mod 256; (x / 65536) mod 256; (x / 16777216) mod 256].

Definition le32_list (l : list Z) : option Z :=
  match l with [a; b; c; d] => Some (le32 a b c d) | _ => None end.
Definition le64_list (l : list Z) : option Z :=
  match l with [a; b; c; d; e; f; g; h] => Some (le64 a b c d e f g h) | _ => None end.

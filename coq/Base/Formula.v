(* A small language of stack-effect formulas: functions of the operand `arg` into option Z
   (None = Python's None / CPython's ValueError).  Both the translated xstack_effect and the
   reference stack effects are expressed in it, so that agreement for ALL operands is a
   syntactic equality checked by vm_compute. *)
From Xdis Require Import Base.Prelude.

Inductive formula :=
| FConst (c : Z)                         (* c *)
| FLin (a c : Z)                         (* a * arg + c, a <> 0 *)
| FBit (mask c1 c0 : Z)                  (* c1 if arg & mask else c0 *)
| FMaskEq (mask v c1 c0 : Z)             (* c1 if (arg & mask) == v else c0 *)
| FEq (v c1 c0 : Z)                      (* c1 if arg == v else c0 *)
| FLoHi (c : Z)                          (* (arg & 0xFF) + (arg >> 8) + c *)
| FPop4 (c : Z)                          (* c - (arg&1 != 0) - (arg&2 != 0) - (arg&4 != 0) - (arg&8 != 0) *)
| FTable (lo hi : Z) (l : list Z)        (* l[arg] if lo <= arg <= hi else None *)
| FNone.

Definition mk_lin (a c : Z) : formula := if a =? 0 then FConst c else FLin a c.

Definition b2z (b : bool) : Z := if b then 1 else 0.

Definition eval_formula (f : formula) (arg : Z) : option Z :=
  match f with
  | FConst c => Some c
  | FLin a c => Some (a * arg + c)
  | FBit mask c1 c0 => Some (if negb (Z.land arg mask =? 0) then c1 else c0)
  | FMaskEq mask v c1 c0 => Some (if Z.land arg mask =? v then c1 else c0)
  | FEq v c1 c0 => Some (if arg =? v then c1 else c0)
  | FLoHi c => Some (Z.land arg 255 + Z.shiftr arg 8 + c)
  | FPop4 c => Some (c - b2z (negb (Z.land arg 1 =? 0)) - b2z (negb (Z.land arg 2 =? 0))
                       - b2z (negb (Z.land arg 4 =? 0)) - b2z (negb (Z.land arg 8 =? 0)))
  | FTable lo hi l => if (lo <=? arg) && (arg <=? hi) then nth_error l (Z.to_nat arg) else None
  | FNone => None
  end.

Definition formula_eqb (f g : formula) : bool :=
  match f, g with
  | FConst a, FConst b => a =? b
  | FLin a c, FLin a' c' => (a =? a') && (c =? c')
  | FBit m a b, FBit m' a' b' => (m =? m') && (a =? a') && (b =? b')
  | FMaskEq m v a b, FMaskEq m' v' a' b' => (m =? m') && (v =? v') && (a =? a') && (b =? b')
  | FEq v a b, FEq v' a' b' => (v =? v') && (a =? a') && (b =? b')
  | FLoHi c, FLoHi c' => c =? c'
  | FPop4 c, FPop4 c' => c =? c'
  | FTable lo hi l, FTable lo' hi' l' => (lo =? lo') && (hi =? hi') && zlist_eqb l l'
  | FNone, FNone => true
  | _, _ => false
  end.

Lemma formula_eqb_sound f g : formula_eqb f g = true -> forall arg, eval_formula f arg = eval_formula g arg.
Proof.
  destruct f, g; cbn [formula_eqb]; intros H arg; try discriminate; try reflexivity;
    repeat (apply andb_true_iff in H; destruct H as [H ?]);
    repeat match goal with
           | E : (_ =? _) = true |- _ => apply Z.eqb_eq in E; subst
           | E : zlist_eqb _ _ = true |- _ => apply zlist_eqb_eq in E; subst
           end; reflexivity.
Qed.

(* "where CPython rejects the combination xdis may return anything" *)
Definition formula_refines (model spec : formula) : bool :=
  match spec with FNone => true | _ => formula_eqb model spec end.

Lemma formula_refines_sound m s : formula_refines m s = true ->
  forall arg r, eval_formula s arg = Some r -> eval_formula m arg = Some r.
Proof.
  intros H arg r Hs. destruct s; try (cbn [formula_refines] in H; rewrite (formula_eqb_sound _ _ H arg); exact Hs).
  discriminate Hs.
Qed.

(* (arg & m) == m  is  arg & m != 0  when m is a single bit: FMaskEq m m is brought to FBit m *)
Definition pow2s : list Z := map (fun k => 2 ^ Z.of_nat k) (seq 0 31).
Definition canon (f : formula) : formula :=
  match f with
  | FMaskEq m v c1 c0 => if (m =? v) && zmem m pow2s then FBit m c1 c0 else f
  | _ => f
  end.

Lemma land_pow2_cases a k : 0 <= k -> Z.land a (2 ^ k) = 0 \/ Z.land a (2 ^ k) = 2 ^ k.
Proof.
  intros Hk. destruct (Z.testbit a k) eqn:E.
  - right. apply Z.bits_inj'. intros n Hn. rewrite Z.land_spec, Z.pow2_bits_eqb by lia.
    destruct (Z.eqb_spec k n); [subst; rewrite E; reflexivity | apply andb_false_r].
  - left. apply Z.bits_inj'. intros n Hn. rewrite Z.land_spec, Z.pow2_bits_eqb, Z.bits_0 by lia.
    destruct (Z.eqb_spec k n); [subst; rewrite E; reflexivity | apply andb_false_r].
Qed.

Lemma canon_sound f arg : eval_formula (canon f) arg = eval_formula f arg.
Proof.
  destruct f; try reflexivity. cbn [canon]. destruct ((mask =? v) && zmem mask pow2s) eqn:E; [|reflexivity].
  apply andb_true_iff in E as [E1 E2]. apply Z.eqb_eq in E1. subst v.
  unfold zmem, pow2s in E2. rewrite existsb_exists in E2. destruct E2 as (x & Hx & Ex). apply Z.eqb_eq in Ex. subst x.
  apply in_map_iff in Hx. destruct Hx as (k & Hk & _). subst mask.
  cbn [eval_formula]. f_equal.
  destruct (land_pow2_cases arg (Z.of_nat k) ltac:(apply Nat2Z.is_nonneg)) as [H|H]; rewrite H.
  - assert (0 < 2 ^ Z.of_nat k) by (apply Z.pow_pos_nonneg; [reflexivity | apply Nat2Z.is_nonneg]).
    rewrite Z.eqb_refl. cbn [negb]. destruct (0 =? 2 ^ Z.of_nat k) eqn:E0; [apply Z.eqb_eq in E0; rewrite <- E0 in H0; inversion H0 | reflexivity].
  - rewrite Z.eqb_refl.
    assert (0 < 2 ^ Z.of_nat k) by (apply Z.pow_pos_nonneg; [reflexivity | apply Nat2Z.is_nonneg]).
    destruct (2 ^ Z.of_nat k =? 0) eqn:E0; [apply Z.eqb_eq in E0; rewrite E0 in H0; inversion H0 | reflexivity].
Qed.

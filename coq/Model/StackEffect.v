(* xdis.cross_dis.xstack_effect(opcode, opc, oparg): the translated decision chain
   (Gen.StackEffectX, from the AST) applied to the table's pop/push/category data. *)
From Xdis Require Import Base.Prelude Base.OpTable Base.Formula Model.Instr Gen.StackEffectX.

Definition nthz (l : list Z) (i : Z) : Z := nth (Z.to_nat i) l 0.

Definition xse (T : optable) (op : Z) : formula :=
  xse_formula (t_version T) (opname_of T op) (nthz (t_oppop T) op) (nthz (t_oppush T) op)
              (zmem op (t_hasvargs T)) (zmem op (t_hasnargs T)).

Definition xstack_effect (T : optable) (op arg : Z) : option Z := eval_formula (xse T op) arg.

(* every row (name, opcode, reference formula) of an interpreter's table is refined by xdis's formula *)
Definition se_row_ok (T : optable) (row : string * Z * formula) : bool :=
  let '(name, op, f) := row in
  String.eqb (opname_of T op) name && formula_refines (canon (xse T op)) (canon f).
Definition se_failures (T : optable) (ref : list (string * Z * formula)) : list (string * Z * formula * formula) :=
  map (fun '(name, op, f) => (name, op, xse T op, f)) (filter (fun row => negb (se_row_ok T row)) ref).

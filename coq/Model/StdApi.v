(* C20 - the glue of xdis.std around the decoders: object-to-code coercion (get_code_object vs dis._get_code_object)
   and the first_line shift.  Chains are regenerated from the sources (Gen/StdApi.v). *)
From Coq Require Import ZArith List String Bool.
From Xdis Require Import Base.Prelude Gen.StdApi.
Import ListNotations.
Local Open Scope Z_scope.

(* a Python object as far as the chains look at it: is it a str, and its attributes (finite trees) *)
Inductive pyobj := PyObj (is_str : bool) (attrs : list (string * pyobj)).

Definition attrs_of (o : pyobj) := match o with PyObj _ a => a end.
Definition is_str_of (o : pyobj) := match o with PyObj s _ => s end.
Definition getattr (o : pyobj) (a : string) : option pyobj := sassoc a (attrs_of o).
Definition hasattr (o : pyobj) (a : string) : bool := is_some (getattr o a).

Inductive outcome := OCode (o : pyobj) | OTypeError | OAttributeError | ONone.

(* if hasattr(x, t1): x = x.h1 elif hasattr(x, t2): x = x.h2 ...   (None: the attribute read raised AttributeError) *)
Fixpoint eval_cascade (l : list (string * string)) (o : pyobj) : option pyobj :=
  match l with
  | [] => Some o
  | (t, h) :: tl => if hasattr o t then getattr o h else eval_cascade tl o
  end.

Section Chain.
  Variable compile : pyobj -> pyobj.     (* _try_compile(source, "<disassembly>") *)

  Fixpoint eval_chain (ch : list cstep) (o : pyobj) : outcome :=
    match ch with
    | [] => ONone
    | SCascade l :: tl => match eval_cascade l o with Some o' => eval_chain tl o' | None => OAttributeError end
    | SCompileStr :: tl => eval_chain tl (if is_str_of o then compile o else o)
    | SReturnIfHas a :: tl => if hasattr o a then OCode o else eval_chain tl o
    | SRaise :: _ => OTypeError
    end.
End Chain.

(* no object in the tree has attribute d *)
Fixpoint lacks (d : string) (o : pyobj) : bool :=
  match o with
  | PyObj _ attrs =>
      (fix go (l : list (string * pyobj)) : bool :=
         match l with
         | [] => true
         | kv :: tl => negb (String.eqb (fst kv) d) && lacks d (snd kv) && go tl
         end) attrs
  end.

(* the two chains are the same except that the first may test, in its cascades, attribute d as well *)
Fixpoint cascade_mod (d : string) (x dd : list (string * string)) : bool :=
  match x, dd with
  | [], [] => true
  | (t, h) :: x', (t', h') :: dd' =>
      if String.eqb t t' && String.eqb h h' then cascade_mod d x' dd'
      else String.eqb t d && cascade_mod d x' dd
  | (t, h) :: x', [] => String.eqb t d && cascade_mod d x' []
  | [], _ :: _ => false
  end.

Definition step_mod (d : string) (a b : cstep) : bool :=
  match a, b with
  | SCascade x, SCascade y => cascade_mod d x y
  | SCompileStr, SCompileStr => true
  | SReturnIfHas p, SReturnIfHas q => String.eqb p q
  | SRaise, SRaise => true
  | _, _ => false
  end.

Fixpoint chain_mod (d : string) (x y : list cstep) : bool :=
  match x, y with
  | [], [] => true
  | a :: x', b :: y' => step_mod d a b && chain_mod d x' y'
  | _, _ => false
  end.

(* first_line: dis and xdis both report starts_line + (first_line - co_firstlineno) *)
Definition shift_line (first_line : option Z) (firstlineno : Z) (starts_line : option Z) : option Z :=
  match starts_line with
  | None => None
  | Some l => Some (l + match first_line with Some f => f - firstlineno | None => 0 end)
  end.

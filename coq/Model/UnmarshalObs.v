(* Configurations of the reader (xdis / CPython per version), the canonical observation of a value
   (twin: tools/harness/ops_marshal.py), and the expected dispatch table. *)
From Xdis Require Import Base.Prelude Base.Result Base.LE Model.Unmarshal Model.LoadObs Gen.Magics Gen.Dispatch.

(* ---- xdis: strict = false, every code of its dispatch table, FLAG_REF always honoured ---- *)
Definition xdis_codes : list Z := map (fun '(k, _, _) => k) dispatch_tbl.
Definition magic_version (m : Z) : list Z :=
  match zassoc m magic_tuple with Some (Some t) => t | _ => [] end.
Definition xdis_cfg (magic : Z) : cfg :=
  {| strict := false; magic_int := magic; version := magic_version magic; flag_ref_ok := true;
     mask_flag := true; unknown_err := false; code_ok := fun t => zmem t xdis_codes; neg_size_err := false |}.

(* ---- CPython's marshal.c for the bytecode version v ---- *)
Definition cpy_code_ok (v : list Z) (t : Z) : bool :=
  let ge a := tuple_geb v a in
  let py3 := ge [3; 0] in
  zmem t [48; 78; 105; 108; 102; 115; 40; 91; 123; 99; 63]          (* 0 N i l f s ( [ { c ? *)
  || (zmem t [46; 120; 83] && ge [1; 4])                              (* . x S *)
  || (zmem t [84; 70] && ge [2; 3])                                   (* T F *)
  || ((t =? 117) && ge [1; 6])                                        (* u *)
  || ((t =? 73) && negb (ge [3; 4]))                                  (* I *)
  || (zmem t [103; 121; 60; 62] && ge [2; 5])                         (* g y < > *)
  || ((t =? 116) && ((ge [2; 4] && negb py3) || ge [3; 4]))           (* t *)
  || ((t =? 82) && ge [2; 4] && negb py3)                             (* R *)
  || (zmem t [97; 65; 122; 90; 41; 114] && ge [3; 4])                 (* a A z Z ) r *)
  || ((t =? 67) && negb (ge [1; 3])).                                  (* C: the oldest code object form *)
Definition cpy_cfg (magic : Z) : cfg :=
  let v := magic_version magic in
  {| strict := true; magic_int := magic; version := v; flag_ref_ok := tuple_geb v [3; 4] && negb (zmem magic [3250; 3260; 3270]) || tuple_geb v [3; 4];
     mask_flag := true; unknown_err := true; code_ok := cpy_code_ok v; neg_size_err := true |}.

Definition init_state (bs : list Z) : mstate := {| inp := bs; refs := []; strs := [] |}.
Definition load (c : cfg) (bs : list Z) : result (pv * mstate) := r_object (S (List.length bs)) c (init_state bs).

(* ---- observation ---- *)
Fixpoint lex_leb (a b : list Z) : bool :=
  match a, b with
  | [], _ => true
  | _ :: _, [] => false
  | x :: a', y :: b' => if x <? y then true else if y <? x then false else lex_leb a' b'
  end.
Fixpoint insert_sorted (x : list Z) (l : list (list Z)) : list (list Z) :=
  match l with [] => [x] | y :: r => if lex_leb x y then x :: l else y :: insert_sorted x r end.
Definition sort_obs (l : list (list Z)) : list (list Z) := fold_right insert_sorted [] l.

Definition float_tbl := list (list Z * Z).
Fixpoint ft_lookup (s : list Z) (ft : float_tbl) : Z :=
  match ft with [] => -1 | (k, v) :: r => if zlist_eqb k s then v else ft_lookup s r end.

Fixpoint obs_pv (ft : float_tbl) (v : pv) {struct v} : list Z :=
  let obs_list := fix go (l : list pv) : list (list Z) := match l with [] => [] | x :: r => obs_pv ft x :: go r end in
  match v with
  | PNull => [0] | PNone => [1] | PTrue => [2] | PFalse => [3] | PEllipsis => [4] | PStopIter => [5]
  | PInt z => [6; z]
  | PLong z => [17; z]
  | PFloat b => [7; b]
  | PFloatText s => [7; ft_lookup s ft]
  | PComplex a b => 8 :: tl (obs_pv ft a) ++ tl (obs_pv ft b)
  | PBin b => 9 :: zlen b :: b
  | PText b => 10 :: zlen b :: b
  | PTuple l => 11 :: zlen l :: List.concat (obs_list l)
  | PList l => 12 :: zlen l :: List.concat (obs_list l)
  | PSet l => 13 :: zlen l :: List.concat (sort_obs (obs_list l))
  | PFrozenSet l => 14 :: zlen l :: List.concat (sort_obs (obs_list l))
  | PDict kv => 15 :: zlen kv ::
      List.concat (sort_obs ((fix go (l : list (pv * pv)) : list (list Z) := match l with [] => [] | (k, x) :: r => (obs_pv ft k ++ obs_pv ft x) :: go r end) kv))
  | PCode ints objs => 16 :: ints ++ List.concat (obs_list objs)
  end.

(* PyPy 3.2 (magic 3187, written '0' + 12) marshals the names, variable names, file name and name of a code object as 's' byte strings;
   load_code hands them out as text, as the interpreter sees them (unmarshal.py t_code: names_bytes_for_s).  The reader model keeps the
   bytes; this adapter, applied to what the model read from a PyPy 3.2 payload, is how the correspondence states that convention:
   in every code object of the tree, byte strings in those six fields (inside their tuples) become text; constants are left alone. *)
Definition bin_to_text (v : pv) : pv := match v with PBin b => PText b | _ => v end.
Definition names_to_text (v : pv) : pv :=
  match v with PTuple l => PTuple (map bin_to_text l) | PList l => PList (map bin_to_text l) | _ => bin_to_text v end.
Fixpoint pypy32_fix (v : pv) : pv :=
  let all := fix go (l : list pv) : list pv := match l with [] => [] | x :: r => pypy32_fix x :: go r end in
  match v with
  | PTuple l => PTuple (all l) | PList l => PList (all l) | PSet l => PSet (all l) | PFrozenSet l => PFrozenSet (all l)
  | PCode ints [code; consts; names; varn; freev; cellv; fname; name; qn; lnotab; exc] =>
      PCode ints [code; pypy32_fix consts; names_to_text names; names_to_text varn; names_to_text freev; names_to_text cellv;
                  bin_to_text fname; bin_to_text name; qn; lnotab; exc]
  | _ => v
  end.
Definition obs_load_pypy32 (c : cfg) (ft : float_tbl) (bs : list Z) : list Z :=
  match load c bs with
  | Err e => [1; err_code e]
  | Ok (v, st) => 0 :: zlen (inp st) :: obs_pv ft (pypy32_fix v)
  end.

(* value, then how many bytes were left unread *)
Definition obs_load (c : cfg) (ft : float_tbl) (bs : list Z) : list Z :=
  match load c bs with
  | Err e => [1; err_code e]
  | Ok (v, st) => 0 :: zlen (inp st) :: obs_pv ft v
  end.

(* ---- the dispatch table the model assumes: code -> reader name ---- *)
Definition expected_dispatch : list (Z * string) :=
  [(40, "tuple"); (41, "small_tuple"); (46, "Ellipsis"); (48, "C_NULL"); (60, "set"); (62, "frozenset"); (63, "unknown");
   (65, "ASCII_interned"); (67, "code"); (70, "False"); (73, "int64"); (78, "None"); (82, "python2_string_reference");
   (83, "stopIteration"); (84, "True"); (90, "short_ASCII_interned"); (91, "list"); (97, "ASCII"); (99, "code");
   (102, "float"); (103, "binary_float"); (105, "int32"); (108, "long"); (114, "object_reference"); (115, "string");
   (116, "interned"); (117, "unicode"); (120, "complex"); (121, "binary_complex"); (122, "short_ASCII"); (123, "dict")]%string.
Definition dispatch_ok : bool :=
  Nat.eqb (List.length dispatch_tbl) (List.length expected_dispatch)
  && forallb (fun '(k, n, h) => h && match zassoc k expected_dispatch with Some n' => String.eqb n n' | None => false end) dispatch_tbl.

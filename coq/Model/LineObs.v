(* Canonical observations (flat list Z) for the line-table family; the Python twin is
   tools/harness/ops_lines.py. *)
From Xdis Require Import Base.Prelude Base.Result Model.LineStarts Model.CoLines Model.LoadObs.

Definition obs_pairs (ps : list (Z * Z)) : list Z :=
  [0; zlen ps] ++ flat_map (fun '(a, b) => [a; 1; b]) ps.
Definition obs_pairs_opt (ps : list (Z * option Z)) : list Z :=
  [0; zlen ps] ++ flat_map (fun '(a, b) => a :: oopt b) ps.
Definition obs_triples (ts : list (Z * Z * option Z)) : list Z :=
  [0; zlen ts] ++ flat_map (fun '(a, b, l) => [a; b] ++ oopt l) ts.
Definition obs_res {A} (f : A -> list Z) (r : result A) : list Z :=
  match r with Ok a => f a | Err e => [1; err_code e] end.

Definition obs_lnotab (version : option (list Z)) (dup : bool) (first codelen : Z) (tab : list Z) : list Z :=
  obs_pairs (findlinestarts_lnotab version dup first codelen tab).
Definition obs_colines310 (first : Z) (tab : list Z) : list Z := obs_res obs_triples (co_lines_310 first tab).
Definition obs_colines311 (first : Z) (tab : list Z) : list Z := obs_triples (parse_linetable first tab).
Definition obs_positions311 (first : Z) (tab : list Z) : list Z :=
  obs_res (fun es => [0; zlen es] ++ flat_map (fun '(n, a, b, c, d) => n :: oopt a ++ oopt b ++ oopt c ++ oopt d) es)
          (parse_location_entries first tab).

(* findlinestarts through an opcode module of version v on a 3.10 / 3.11+ portable code object *)
Definition obs_fls_code (v : list Z) (first : Z) (tab : list Z) : list Z :=
  let lines := if tuple_eqb v [3; 10] then co_lines_310 first tab else Ok (parse_linetable first tab) in
  match lines with
  | Err e => [1; err_code e]
  | Ok ls => if tuple_geb v [3; 13] then obs_pairs_opt (fls_colines_313 ls None) else obs_pairs (fls_colines ls None)
  end.

Definition obs_offset2line (offset : Z) (ls : list (Z * Z)) : list Z :=
  match offset2line offset ls with Some l => [0; l] | None => [1; 99] end.

From Xdis Require Import Model.ExcTable.
Definition obs_exc (tab : list Z) : list Z :=
  let es := parse_exception_table tab in
  [0; zlen es] ++ flat_map (fun '(s, e, t, d, l) => [s; e; t; d; if l : bool then 1 else 0]) es.

From Xdis Require Import Model.Freeze.
Definition obs_bytes (l : list Z) : list Z := 0 :: zlen l :: l.
Definition mk_pairs (l : list Z) : list (Z * Z) := pairs l.

(* freeze(): encoded table, then findlinestarts(frozen) top-level (version not given) and
   through the opcode module of version v *)
Definition obs_freeze_lnotab (enc : Z -> list (Z * Z) -> list Z) (v : list Z) (first codelen : Z) (m : list (Z * Z)) : list Z :=
  let tab := enc first m in
  obs_bytes tab ++ obs_pairs (findlinestarts_lnotab None false first codelen tab)
  ++ obs_pairs (findlinestarts_lnotab (Some v) false first codelen tab).
Definition obs_freeze_310 (first codelen : Z) (m : list (Z * Z)) : list Z :=
  let tab := encode_lineno_tab_310_full first codelen m in
  match co_lines_310 first tab with
  | Err e => [1; err_code e]
  | Ok ls => obs_bytes tab ++ obs_pairs (fls_colines ls None) ++ obs_pairs (fls_colines ls None)
  end.

From Xdis Require Import Model.Listing.
Definition obs_exc_text (tab : list Z) : list Z := 0 :: exc_table_text (parse_exception_table tab).

(* Hand model of xdis/magics.py: int2magic, magic2int (struct "<Hcc"), and of
   xdis/disasm.py:get_opcode's lookup-key construction.  Definitions only. *)
From Xdis Require Import Base.Prelude.
From Coq Require Import DecimalString.

(* struct.pack("<H", i) raises struct.error outside 0..65535 *)
Definition int2magic (i : Z) : option (list Z) :=
  if (0 <=? i) && (i <? 65536) then
    if (i =? 39170) || (i =? 39171) then Some [i mod 256; i / 256; 153; 0]
    else Some [i mod 256; i / 256; 13; 10]
  else None.

(* struct.unpack("<Hcc", magic)[0]; struct.error unless exactly 4 bytes *)
Definition magic2int (b : list Z) : option Z :=
  match b with
  | [b0; b1; _; _] => Some (b0 + 256 * b1)
  | _ => None
  end.

Definition z2str (z : Z) : string := NilZero.string_of_int (Z.to_int z).

Fixpoint join_dot (l : list Z) : string :=
  match l with
  | [] => ""
  | [x] => z2str x
  | x :: r => z2str x ++ "." ++ join_dot r
  end.

(* get_opcode: lookup = ".".join(str(i) for i in version_tuple) (+ "pypy") *)
Definition get_opcode_key (t : list Z) (pypy : bool) : string :=
  (join_dot t ++ (if pypy then "pypy" else ""))%string.

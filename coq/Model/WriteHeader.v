(* Hand model of the header part of xdis/load.py:write_bytecode_file. Definitions only. *)
From Xdis Require Import Base.Prelude Base.Result Base.LE Model.Magic Model.Load Gen.Magics.

(* compilation_ts must be a non-zero int here (0/None mean "now", a datetime is converted by the host) *)
Definition write_header (magic_int ts filesize : Z) : result (list Z) :=
  match version_of magic_int with
  | Err e => Err e
  | Ok version =>
      Ok ([magic_int mod 256; (magic_int / 256) mod 256; 13; 10]
          ++ (if tuple_geb version [3; 7] then [0; 0; 0; 0] else [])
          ++ enc32 ts
          ++ (if tuple_geb version [3; 3] then enc32 filesize else []))
  end.

(* Boolean checkers over the regenerated opcode tables used by Proofs/ResolveProofs.v, in a file without proofs so that the
   search for a failing table row still loads when an obligation no longer checks. *)
From Xdis Require Import Base.Prelude Base.Result Base.OpTable Model.Instr Spec.Dis Model.Resolve Gen.Opcodes Gen.RefOpcodes.

Definition res_pairs : list (optable * reftable) :=
  [(opcode_27, ref_27); (opcode_36, ref_36); (opcode_37, ref_37); (opcode_38, ref_38); (opcode_39, ref_39);
   (opcode_310, ref_310); (opcode_311, ref_311); (opcode_312, ref_312); (opcode_313, ref_313)].

(* wherever CPython's dis resolves the operand, xdis resolves it the same way *)
Definition plan_ok (T : optable) (R : reftable) (op : Z) : bool :=
  match spec_plan R op with PlNone => true | p => plan_eqb (model_plan T op) p end.
Definition ops256 : list Z := map Z.of_nat (seq 0 256).
Definition plans_ok (T : optable) (R : reftable) : bool := forallb (plan_ok T R) ops256.
Definition plan_failures (T : optable) (R : reftable) : list (Z * string) :=
  map (fun op => (op, opname_of T op)) (filter (fun op => negb (plan_ok T R op)) ops256).

(* comparison-operator spellings: where xdis's cmp_op differs from the interpreter's *)
Fixpoint cmp_diff (a b : list string) (i : Z) : list Z :=
  match a, b with
  | x :: a', y :: b' => if String.eqb x y then cmp_diff a' b' (i + 1) else i :: cmp_diff a' b' (i + 1)
  | _, _ => []
  end.

(* Hand model of xdis/marsh.py:
     _Marshaller.dump* + the chunk-to-bytes assembly of dumps(), on a Python 3 host for plain values
       (None, bool, Ellipsis, StopIteration, int -> dump_long, float/complex -> text repr, bytes,
        str -> UTF-8, tuple, list, set, frozenset, dict);
     _FastUnmarshaller (loads) as the shared reader with its own configuration (no FLAG_REF, its own
       dispatch table, unknown code = ValueError).
   repr(float) is not defined here: `repr_float` maps a bit pattern to the decimal string Python prints. *)
From Xdis Require Import Base.Prelude Base.Result Base.LE Model.Unmarshal.

(* w_long: 4 bytes, two's complement *)
Definition w_long (x : Z) : list Z := enc32 (x mod 4294967296).
Definition w_short (x : Z) : list Z := [x mod 256; (x / 256) mod 256].

(* dump_long: digits of |x| in base 2^15, least significant first *)
Fixpoint to_digits (fuel : nat) (x : Z) : list Z :=
  match fuel with
  | O => []
  | S f => if x =? 0 then [] else (x mod 32768) :: to_digits f (x / 32768)
  end.
Definition digits_fuel (x : Z) : nat := S (Z.to_nat (Z.log2 x / 15 + 1)).
Definition dump_long (x : Z) : list Z :=
  let ds := to_digits (digits_fuel (Z.abs x)) (Z.abs x) in
  108 :: w_long (zlen ds * (if x <? 0 then -1 else 1)) ++ flat_map w_short ds.

Section Dumps.
  Variable repr_float : Z -> list Z.
  Variable has_pos : bool.          (* the code objects written have co_posonlyargcount (Code38, Code310): dump_code3 writes it *)
  Variable int_i : bool.            (* false: xdis.marsh.dumps on a Python 3 host (every int is written as 'l');
                                       true: CPython's own w_object (TYPE_INT 'i' when the value fits in 32 bits, else 'l') *)

  Definition dump_float_text (b : Z) : list Z := let s := repr_float b in zlen s :: s.

  Fixpoint dumps (v : pv) : list Z :=
    let dump_all := fix go (l : list pv) : list Z := match l with [] => [] | x :: r => dumps x ++ go r end in
    match v with
    | PNull => [48]
    | PNone => [78] | PTrue => [84] | PFalse => [70] | PEllipsis => [46] | PStopIter => [83]
    | PInt z => if int_i && (-2147483648 <=? z) && (z <? 2147483648) then 105 :: w_long z else dump_long z
    | PLong z => dump_long z           (* LongTypeForPython3 is an int subclass: dispatch by mro finds dump_long *)
    | PFloat b => 102 :: dump_float_text b
    | PFloatText s => 102 :: zlen s :: s
    | PComplex (PFloat a) (PFloat b) => 120 :: dump_float_text a ++ dump_float_text b
    | PComplex _ _ => []
    | PBin b => 115 :: w_long (zlen b) ++ b
    | PText b => 117 :: w_long (zlen b) ++ b
    | PTuple l => 40 :: w_long (zlen l) ++ dump_all l
    | PList l => 91 :: w_long (zlen l) ++ dump_all l
    | PSet l => 60 :: w_long (zlen l) ++ dump_all l
    | PFrozenSet l => 62 :: w_long (zlen l) ++ dump_all l
    | PDict kv => 123 :: (fix go (l : list (pv * pv)) : list Z := match l with [] => [] | (k, x) :: r => dumps k ++ dumps x ++ go r end) kv ++ [48]
    (* dump_code3 (Python 3.0-3.10 targets): 'c', the integer fields, then each object field in turn *)
    | PCode [argc; pos; kw; nloc; stk; fl; first] [code; consts; names; varn; freev; cellv; fname; name; _; lnotab; _] =>
        99 :: w_long argc ++ (if has_pos then w_long pos else []) ++ w_long kw ++ w_long nloc ++ w_long stk ++ w_long fl
           ++ dumps code ++ dumps consts ++ dumps names ++ dumps varn ++ dumps freev ++ dumps cellv ++ dumps fname ++ dumps name
           ++ w_long first ++ dumps lnotab
    | PCode _ _ => []
    end.

  (* what a reader of text floats returns for a dumped value *)
  Fixpoint textify (v : pv) : pv :=
    let all := fix go (l : list pv) : list pv := match l with [] => [] | x :: r => textify x :: go r end in
    match v with
    | PFloat b => PFloatText (repr_float b)
    | PComplex (PFloat a) (PFloat b) => PComplex (PFloatText (repr_float a)) (PFloatText (repr_float b))
    | PTuple l => PTuple (all l) | PList l => PList (all l) | PSet l => PSet (all l) | PFrozenSet l => PFrozenSet (all l)
    | PDict kv => PDict ((fix go (l : list (pv * pv)) := match l with [] => [] | (k, x) :: r => (textify k, textify x) :: go r end) kv)
    | PCode ints objs => PCode ints (all objs)
    | _ => v
    end.
End Dumps.

(* ---- Python 2 targets: _Marshaller.dump with python_version < (3, 0) on a Python 3 host, and dump_code2 ----
   What the unmarshaller produced for Python 2 bytecode is written back by kind: a Python 2 str (a host str when its bytes
   are UTF-8, else bytes) with dump_string as 's' + UTF-8/raw bytes; a Python 2 unicode (UnicodeForPython3) with
   dump_unicode as 'u' + its payload; a Python 2 int with dump_int ('i', or 'I' + 8 bytes beyond 32 bits); a Python 2 long
   (LongTypeForPython3) with dump_long.  dump_code2 writes the integer fields with 32 bits from 2.3 and 16 bits before
   (`ge23`), the code string, names, varnames, filename, name and lnotab with dump_string, the rest with dump. *)
Definition w_long64 (x : Z) : list Z := w_long x ++ w_long (x / 4294967296).
Definition dump_int (x : Z) : list Z :=
  let y := x / 2147483648 in
  if negb (y =? 0) && negb (y =? -1) then 73 :: w_long64 x else 105 :: w_long x.
Definition dump_string (v : pv) : list Z := match v with PBin b => 115 :: w_long (zlen b) ++ b | _ => [] end.

Section Dumps2.
  Variable repr_float : Z -> list Z.
  Variable ge23 : bool.
  Definition w_field (x : Z) : list Z := if ge23 then w_long x else w_short x.

  Fixpoint dumps2 (v : pv) : list Z :=
    let dump_all := fix go (l : list pv) : list Z := match l with [] => [] | x :: r => dumps2 x ++ go r end in
    match v with
    | PNull => [48]
    | PNone => [78] | PTrue => [84] | PFalse => [70] | PEllipsis => [46] | PStopIter => [83]
    | PInt z => dump_int z
    | PLong z => dump_long z
    | PFloat b => 102 :: dump_float_text repr_float b
    | PFloatText s => 102 :: zlen s :: s
    | PComplex (PFloat a) (PFloat b) => 120 :: dump_float_text repr_float a ++ dump_float_text repr_float b
    | PComplex _ _ => []
    | PBin b => 115 :: w_long (zlen b) ++ b
    | PText b => 117 :: w_long (zlen b) ++ b
    | PTuple l => 40 :: w_long (zlen l) ++ dump_all l
    | PList l => 91 :: w_long (zlen l) ++ dump_all l
    | PSet l => 60 :: w_long (zlen l) ++ dump_all l
    | PFrozenSet l => 62 :: w_long (zlen l) ++ dump_all l
    | PDict kv => 123 :: (fix go (l : list (pv * pv)) : list Z := match l with [] => [] | (k, x) :: r => dumps2 k ++ dumps2 x ++ go r end) kv ++ [48]
    | PCode [argc; _; _; nloc; stk; fl; first] [code; consts; PTuple names; PTuple varn; freev; cellv; fname; name; _; lnotab; _] =>
        99 :: w_field argc ++ w_field nloc ++ w_field stk ++ w_field fl
           ++ dump_string code ++ dumps2 consts
           ++ (40 :: w_long (zlen names) ++ flat_map dump_string names)
           ++ (40 :: w_long (zlen varn) ++ flat_map dump_string varn)
           ++ dumps2 freev ++ dumps2 cellv ++ dump_string fname ++ dump_string name
           ++ w_field first ++ dump_string lnotab
    | PCode _ _ => []
    end.
End Dumps2.

(* does the tree hold a float that was read from its decimal text (marshal 'f' / 'x', bytecode before 2.5)?  The writer prints such a
   float again with the host's repr(), which the correspondence cannot predict from the text: those payloads are compared by value only. *)
Fixpoint has_float_text (v : pv) : bool :=
  let any := fix go (l : list pv) : bool := match l with [] => false | x :: r => has_float_text x || go r end in
  match v with
  | PFloatText _ => true
  | PComplex a b => has_float_text a || has_float_text b
  | PTuple l | PList l | PSet l | PFrozenSet l => any l
  | PDict kv => (fix go (l : list (pv * pv)) : bool := match l with [] => false | (k, x) :: r => has_float_text k || has_float_text x || go r end) kv
  | PCode _ objs => any objs
  | _ => false
  end.

(* does the tree hold a set or frozenset with two or more members?  The writer emits the members in the host's iteration order. *)
Fixpoint has_multi_set (v : pv) : bool :=
  let any := fix go (l : list pv) : bool := match l with [] => false | x :: r => has_multi_set x || go r end in
  match v with
  | PSet l | PFrozenSet l => (1 <? zlen l) || any l
  | PComplex a b => false
  | PTuple l | PList l => any l
  | PDict kv => (fix go (l : list (pv * pv)) : bool := match l with [] => false | (k, x) :: r => has_multi_set k || has_multi_set x || go r end) kv
  | PCode _ objs => any objs
  | _ => false
  end.

(* xdis.marsh.loads: the codes of _FastUnmarshaller.dispatch (code objects aside) *)
Definition marsh_codes : list Z := [48; 78; 84; 70; 83; 46; 105; 73; 108; 102; 120; 115; 116; 82; 117; 40; 91; 123; 60; 62].
Definition marsh_cfg : cfg :=
  {| strict := false; magic_int := 0; version := [3; 0]; flag_ref_ok := false; mask_flag := false; unknown_err := true;
     code_ok := fun t => zmem t marsh_codes; neg_size_err := true |}.

(* Hand model of xdis/bytecode.py:_parse_varint and parse_exception_table. Definitions only. *)
From Xdis Require Import Base.Prelude.

(* None = StopIteration from next(iterator) *)
Fixpoint parse_varint_go (l : list Z) (val : Z) : option (Z * list Z) :=
  match l with
  | [] => None
  | b :: r => let val' := Z.lor (Z.shiftl val 6) (Z.land b 63) in
              if negb (Z.land b 64 =? 0) then parse_varint_go r val' else Some (val', r)
  end.
Definition parse_varint (l : list Z) : option (Z * list Z) :=
  match l with
  | [] => None
  | b :: r => let val := Z.land b 63 in
              if negb (Z.land b 64 =? 0) then parse_varint_go r val else Some (val, r)
  end.

(* (start, end, target, depth, lasti) *)
Definition exc_entry := (Z * Z * Z * Z * bool)%type.

Fixpoint parse_exception_table_go (fuel : nat) (l : list Z) (acc : list exc_entry) : list exc_entry :=
  match fuel with
  | O => rev acc
  | S f =>
      match parse_varint l with None => rev acc | Some (s, l1) =>
      match parse_varint l1 with None => rev acc | Some (len, l2) =>
      match parse_varint l2 with None => rev acc | Some (t, l3) =>
      match parse_varint l3 with None => rev acc | Some (dl, l4) =>
        let start := s * 2 in
        parse_exception_table_go f l4 ((start, start + len * 2, t * 2, Z.shiftr dl 1, negb (Z.land dl 1 =? 0)) :: acc)
      end end end end
  end.
Definition parse_exception_table (tab : list Z) : list exc_entry :=
  parse_exception_table_go (S (List.length tab)) tab [].

(* Hand model of xdis/load.py:load_module_from_file_object (header part) and
   is_pypy.  Mirrors the code branch by branch; tables come from Gen.Magics.
   Definitions only. *)
From Xdis Require Import Base.Prelude Base.Result Base.LE Model.Magic Gen.Magics.

Record header := {
  h_version : list Z;         (* item 0: tuple_version *)
  h_timestamp : option Z;     (* item 1 *)
  h_magic_int : Z;            (* item 2 *)
  h_pypy : bool;              (* item 4 *)
  h_size : option Z;          (* item 5 *)
  h_sip : option Z;           (* item 6 *)
  h_rest : list Z             (* bytes from which the code object is read *)
}.

(* is_pypy(magic_int, filename); the filename enters only through endswith("pypy38.pyc") *)
Definition is_pypy (magic_int : Z) (name_pypy38 : bool) : bool :=
  (zmem magic_int [3413; 3414] && name_pypy38)
  || zmem magic_int ([62211 + 7; 3180 + 7] ++ pypy3_magics).

(* What the code decides from the 4 magic bytes before it touches the rest. *)
Inductive decision :=
| DErr (e : err)
| DDropbox
| DHeader (tuple_version : list Z) (magic_int : Z) (version : list Z).

Definition version_of (magic_int : Z) : result (list Z) :=
  match zassoc magic_int magic_tuple with
  | None => Err KeyErr                 (* magicint2version[magic_int] *)
  | Some None => Err RuntimeErr        (* py_str2tuple *)
  | Some (Some t) => Ok t
  end.

Definition versions_has (magic : list Z) : bool :=
  existsb (fun '(k, _) => zlist_eqb k magic) versions_tbl.

Definition decide (magic : list Z) : decision :=
  match magic2int magic with
  | None => DErr StructErr
  | Some magic_int =>
      let magic' := if match magic with b0 :: b1 :: _ => (b0 =? 48) && (b1 =? 0) | _ => false end   (* magic[0:2] == b"0\x00": PyPy 3.2's 48 *)
                    then match int2magic (3180 + 7) with Some m => m | None => magic end else magic in
      match version_of magic_int with
      | Err KeyErr => DErr ImportErr
      | Err e => DErr e
      | Ok tuple_version =>
          if zmem magic_int interim_rejected then DErr ImportErr
          else if zmem magic_int dropbox_fix_magic then DDropbox
          else if zmem magic_int other_rejected then DErr ImportErr
          else
            match magic2int magic' with
            | None => DErr ImportErr
            | Some mi' => match version_of mi' with
                          | Ok v => DHeader tuple_version mi' v
                          | Err _ => DErr ImportErr      (* inside the try *)
                          end
            end
      end
  end.

(* fp.read(n) *)
Definition take (n : nat) (l : list Z) : list Z * list Z := (firstn n l, skipn n l).

Definition unpack32 (l : list Z) : result Z :=
  match le32_list l with Some v => Ok v | None => Err StructErr end.
Definition unpack64 (l : list Z) : result Z :=
  match le64_list l with Some v => Ok v | None => Err StructErr end.

(* lines 287-314; every exception in here is converted to ImportError by the
   enclosing `except Exception` (modelled in parse_header) *)
Definition parse_fields (magic_int : Z) (version : list Z) (r : list Z)
  : result (option Z * option Z * option Z * list Z) :=
  let '(ts, r1) := take 4 r in
  if zmem magic_int [3439] || tuple_geb version [3; 7] then
    match ts with
    | [] => Err IndexErr
    | pep_bits :: _ =>                      (* ts[0]: low byte of the little-endian flag word *)
        if negb (Z.land pep_bits 1 =? 0) || (magic_int =? 3393) then
          let '(h, r2) := take 8 r1 in
          do v <- unpack64 h; Ok (None, None, Some v, r2)
        else
          let '(t, r2) := take 4 r1 in
          do tv <- unpack32 t;
          let '(s, r3) := take 4 r2 in
          do sv <- unpack32 s; Ok (Some tv, Some sv, None, r3)
    end
  else
    do tv <- unpack32 ts;
    if ((3200 <=? magic_int) && (magic_int <? 20121) && tuple_geb version [1; 5]) || zmem magic_int pypy3_magics then
      let '(s, r2) := take 4 r1 in
      do sv <- unpack32 s; Ok (Some tv, Some sv, None, r2)
    else Ok (Some tv, None, None, r1).

Definition parse_header (name_pypy38 : bool) (bs : list Z) : result header :=
  let '(magic, r) := take 4 bs in
  match decide magic with
  | DErr e => Err e
  | DDropbox => Err OutOfFuel     (* fix_dropbox_pyc is not modelled; never compared *)
  | DHeader tv mi v =>
      match parse_fields mi v r with
      | Err _ => Err ImportErr
      | Ok (ts, sz, sip, rest) =>
          Ok {| h_version := tv; h_timestamp := ts; h_magic_int := mi; h_pypy := is_pypy mi name_pypy38;
                h_size := sz; h_sip := sip; h_rest := rest |}
      end
  end.

(* Hand model of the instruction decoder and the label finders:
     xdis/bytecode.py: get_logical_instruction_at_offset + get_instructions_bytes
       (modelled as one flat loop carrying extended_arg and the EXTENDED_ARG count; the
        two-level generator structure recomputes exactly this state),
     xdis/cross_dis.py: unpack_opargs_bytecode, unpack_opargs_bytecode_310, findlabels_pre_310,
       findlabels_310, _get_cache_size_313, _get_jump_cache_size,
     xdis/wordcode.py: unpack_opargs_wordcode, findlabels,
   parametrised by an opcode table (Gen.Opcodes).  Definitions only. *)
From Xdis Require Import Base.Prelude Base.Result Base.OpTable Gen.Small.

Definition py36 (T : optable) : bool := tuple_geb (t_version T) [3; 6]%Z.
(* cross_dis.op_has_argument: from 3.13 membership in the table's hasarg (dis does the same: WITH_EXCEPT_START is >= HAVE_ARGUMENT
   but takes no operand), before that the HAVE_ARGUMENT threshold *)
Definition has_arg (T : optable) (op : Z) : bool :=
  if tuple_geb (t_version T) [3; 13]%Z then zmem op (t_hasarg T) else (t_have_argument T <=? op)%Z.
(* instruction_size *)
Definition instruction_size (T : optable) (op : Z) : Z :=
  if (op <? t_have_argument T)%Z then (if py36 T then 2 else 1)%Z else (if py36 T then 2 else 3)%Z.
Definition is_ext_name (T : optable) (op : Z) : bool := String.eqb (opname_of T op) "EXTENDED_ARG"%string.

Record instr := { i_offset : Z; i_op : Z; i_arg : option Z; i_size : Z; i_has_ext : bool }.

Definition mk_instr (T : optable) (i op : Z) (arg : option Z) (cnt : Z) : instr :=
  {| i_offset := i; i_op := op; i_arg := arg;
     i_size := (instruction_size T op + cnt * instruction_size T (t_extended_arg T))%Z;
     i_has_ext := negb (cnt =? 0)%Z |}.

(* The loops walk the code by index; here they recurse on the remaining bytes, `i` being
   the index of their first byte.  Reading past the end is Python's IndexError. *)

(* word code (3.6+): every instruction is two bytes *)
Fixpoint instrs_word (T : optable) (code : list Z) (i ext cnt : Z) : result (list instr) :=
  match code with
  | [] => Ok []
  | op :: tl =>
      if has_arg T op then
        match tl with
        | [] => Err IndexErr
        | b :: r =>
            let arg := Z.lor b ext in
            do rest <- instrs_word T r (i + 2) (if is_ext_name T op then Z.shiftl arg 8 else 0)
                                   (if is_ext_name T op then cnt + 1 else 0)%Z;
            Ok (mk_instr T i op (Some arg) cnt :: rest)
        end
      else
        match tl with
        | [] => Ok [mk_instr T i op None cnt]
        | _ :: r => do rest <- instrs_word T r (i + 2) 0 0; Ok (mk_instr T i op None cnt :: rest)
        end
  end.

(* byte code (before 3.6): one byte, or three with a little-endian 16-bit operand *)
Fixpoint instrs_byte (T : optable) (code : list Z) (i ext cnt : Z) : result (list instr) :=
  match code with
  | [] => Ok []
  | op :: tl =>
      if has_arg T op then
        match tl with
        | b1 :: b2 :: r =>
            let arg := (b1 + b2 * 256 + ext)%Z in
            do rest <- instrs_byte T r (i + 3) (if is_ext_name T op then arg * 65536 else 0)%Z
                                   (if is_ext_name T op then cnt + 1 else 0)%Z;
            Ok (mk_instr T i op (Some arg) cnt :: rest)
        | _ => Err IndexErr
        end
      else
        do rest <- instrs_byte T tl (i + 1) 0 0; Ok (mk_instr T i op None cnt :: rest)
  end.

Definition instrs (T : optable) (code : list Z) : result (list instr) :=
  if py36 T then instrs_word T code 0 0 0 else instrs_byte T code 0 0 0.

Definition triple (x : instr) : Z * Z * option Z := (i_offset x, i_op x, i_arg x).

(* ---- the unpackers the label finders use ---- *)
(* unpack_opargs_wordcode / unpack_opargs_bytecode_310: for offset in range(0, n, 2) *)
Fixpoint unpack_word (T : optable) (code : list Z) (i ext : Z) : result (list (Z * Z * option Z)) :=
  match code with
  | [] => Ok []
  | op :: tl =>
      if has_arg T op then
        match tl with
        | [] => Err IndexErr
        | b :: r =>
            let arg := Z.lor b ext in
            do rest <- unpack_word T r (i + 2) (if (op =? t_extended_arg T)%Z then Z.shiftl arg (t_shift T) else 0);
            Ok ((i, op, Some arg) :: rest)
        end
      else
        match tl with
        | [] => Ok [(i, op, None)]
        | _ :: r => do rest <- unpack_word T r (i + 2) ext; Ok ((i, op, None) :: rest)
        end
  end.

(* unpack_opargs_bytecode (before 3.6) *)
Fixpoint unpack_byte (T : optable) (code : list Z) (i ext : Z) : result (list (Z * Z * option Z)) :=
  match code with
  | [] => Ok []
  | op :: tl =>
      if has_arg T op then
        match tl with
        | b1 :: b2 :: r =>
            let arg := Z.lor (b1 + b2 * 256) ext in
            do rest <- unpack_byte T r (i + 3) (if (op =? t_extended_arg T)%Z then Z.shiftl arg (t_shift T) else 0);
            Ok ((i, op, Some arg) :: rest)
        | _ => Err IndexErr
        end
      else
        do rest <- unpack_byte T tl (i + 1) ext; Ok ((i, op, None) :: rest)
  end.

(* ---- jump targets ---- *)
Definition contains (sub s : string) : bool := is_some (String.index 0 sub s).

Definition cache_size_313 (name : string) : Z := match sassoc name cache_size_313_tbl with Some n => n | None => 0%Z end.
Definition jump_cache_size (name : string) (v : list Z) : Z :=
  if tuple_geb v jump_cache_thr1 then cache_size_313 name
  else if tuple_geb v jump_cache_thr2 then (if smem name jump_cache_names_2 then jump_cache_in_2 else jump_cache_notin_2)
  else jump_cache_default.

Definition add_label (l : Z) (acc : list Z) : list Z := if zmem l acc then acc else acc ++ [l].

(* cross_dis.findlabels_pre_310 *)
Definition labels_pre_310 (T : optable) (us : list (Z * Z * option Z)) : list Z :=
  fold_left (fun acc '(offset, op, arg) =>
    match arg with
    | None => acc
    | Some a =>
        let j := if zmem op (t_jrel_ops T) then (offset + instruction_size T op + a)%Z
                 else if zmem op (t_jabs_ops T) then a else (-1)%Z in
        if (0 <=? j)%Z then add_label j acc else acc
    end) us [].

(* cross_dis.findlabels_310 and wordcode.findlabels compute the same thing after the fix;
   `scaled` says whether operands count code units (3.10+) *)
Definition jrel_target (T : optable) (offset op a : Z) : Z :=
  let name := opname_of T op in
  let a' := if tuple_geb (t_version T) [3; 11]%Z && contains "JUMP_BACKWARD"%string name then (- a)%Z else a in
  (offset + 2 + (if tuple_geb (t_version T) [3; 10]%Z then a' * 2 else a') + 2 * jump_cache_size name (t_version T))%Z.

Definition labels_word (T : optable) (us : list (Z * Z * option Z)) : list Z :=
  fold_left (fun acc '(offset, op, arg) =>
    match arg with
    | None => acc
    | Some a =>
        if zmem op (t_jrel_ops T) then add_label (jrel_target T offset op a) acc
        else if zmem op (t_jabs_ops T) then add_label (if tuple_geb (t_version T) [3; 10]%Z then a * 2 else a)%Z acc
        else acc
    end) us [].

(* opc.findlabels(code, opc): which finder the table binds (Gen.Opcodes.t_findlabels) *)
Definition findlabels (T : optable) (code : list Z) : result (list Z) :=
  if String.eqb (t_findlabels T) "wordcode.findlabels"%string then
    (* unpack_opargs_wordcode (used below 3.10) looks at code[0] first *)
    if tuple_ltb (t_version T) [3; 10]%Z && (zlen code =? 0)%Z then Err IndexErr else
    do us <- unpack_word T code 0 0; Ok (labels_word T us)
  else if tuple_ltb (t_version T) [3; 10]%Z then
    do us <- unpack_byte T code 0 0; Ok (labels_pre_310 T us)
  else
    do us <- unpack_word T code 0 0; Ok (labels_word T us).

(* argval of a jump instruction (bytecode.py); `i` is the offset just after the instruction *)
Definition jump_argval (T : optable) (x : instr) : option Z :=
  match i_arg x with
  | None => None
  | Some a =>
      let name := opname_of T (i_op x) in
      let scale z := if tuple_geb (firstn 2 (t_version T)) [3; 10]%Z then (z * 2)%Z else z in
      if zmem (i_op x) (t_jrel_ops T) then
        let signed := if contains "JUMP_BACKWARD"%string name then (- a)%Z else a in
        Some (i_offset x + instruction_size T (i_op x) + scale signed + 2 * jump_cache_size name (t_version T))%Z
      else if zmem (i_op x) (t_jabs_ops T) then Some (scale a)
      else None
  end.

(* is_jump_target: offset in labels (+ exception handler targets) *)
Definition is_jump_target (labels exc_targets : list Z) (x : instr) : bool :=
  zmem (i_offset x) labels || zmem (i_offset x) exc_targets.

(* C16 - codeType2Portable / to_native / replace as attribute plumbing, over the tables regenerated from
   /repo/xdis/codetype (Gen/CodeType.v) and from the installed interpreters (Gen/RefCodeType.v).
   Objects are attribute dictionaries over an arbitrary value type. *)
From Coq Require Import ZArith List String Bool.
From Xdis Require Import Base.Prelude Gen.CodeType Gen.RefCodeType.
Import ListNotations.
Local Open Scope Z_scope.

Fixpoint vassoc {A} (k : list Z) (l : list (list Z * A)) : option A :=
  match l with
  | [] => None
  | (k', v) :: tl => if zlist_eqb k k' then Some v else vassoc k tl
  end.

Definition vmem (k : list Z) (l : list (list Z)) : bool := existsb (zlist_eqb k) l.

Fixpoint mapM {A B} (f : A -> option B) (l : list A) : option (list B) :=
  match l with
  | [] => Some []
  | x :: tl => match f x, mapM f tl with Some y, Some ys => Some (y :: ys) | _, _ => None end
  end.

Section Conv.
  Variable V : Type.
  Definition obj := list (string * V).          (* attribute -> value; hasattr = membership *)

  Definition get (o : obj) (a : string) : option V := sassoc a o.
  Definition has (o : obj) (a : string) : bool := is_some (get o a).

  (* line_table_field = "<first>" if hasattr(code, "<first>") else "<second>" *)
  Definition line_table_field (o : obj) : option string :=
    match ct_line_pref with
    | [a; b] => Some (if has o a then a else b)
    | _ => None
    end.

  Definition eval_src (o : obj) (s : src) : option V :=
    match s with
    | SAttr a => get o a
    | SLineTable => match line_table_field o with Some f => get o f | None => None end
    end.

  (* Class(param=value ...): the constructor stores each parameter in its attribute *)
  Definition construct (cls : string) (params : list (string * V)) : option (string * obj) :=
    match sassoc cls ct_ctor with
    | Some amap =>
        match mapM (fun ap : string * string => match sassoc (snd ap) params with Some v => Some (fst ap, v) | None => None end) amap with
        | Some attrs => Some (cls, attrs)
        | None => None
        end
    | None => None
    end.

  Definition to_portable (ver : list Z) (o : obj) : option (string * obj) :=
    match vassoc ver ct_conv with
    | Some (cls, args) =>
        match mapM (fun ps : string * src => match eval_src o (snd ps) with Some v => Some (fst ps, v) | None => None end) args with
        | Some params => construct cls params
        | None => None
        end
    | None => None
    end.

  (* to_native(): host guard, then types.CodeType(code.a1, code.a2, ...) *)
  Definition to_native_args (host : list Z) (p : string * obj) : option (list V) :=
    match sassoc (fst p) ct_native with
    | Some (hosts, attrs) => if vmem host hosts then mapM (get (snd p)) attrs else None
    | None => None
    end.

  (* the host's constructor: positional value k becomes attribute k of its signature *)
  Definition host_construct (host : list Z) (vals : list V) : option obj :=
    match vassoc host ref_code with
    | Some (_, ctor) => if (List.length ctor =? List.length vals)%nat then Some (combine ctor vals) else None
    | None => None
    end.

  Definition roundtrip (host : list Z) (o : obj) : option obj :=
    match to_portable host o with
    | Some p => match to_native_args host p with Some vs => host_construct host vs | None => None end
    | None => None
    end.

  (* a native code object of that host: every data attribute it has, with some value *)
  Definition native_obj (host : list Z) (val : string -> V) : obj :=
    match vassoc host ref_code with
    | Some (attrs, _) => map (fun a => (a, val a)) attrs
    | None => []
    end.

  Definition ctor_view (host : list Z) (val : string -> V) : obj :=
    match vassoc host ref_code with
    | Some (_, ctor) => map (fun a => (a, val a)) ctor
    | None => []
    end.

  (* replace with keyword arguments: on the attribute dictionary of a deep copy *)
  Fixpoint set_attr (o : obj) (a : string) (v : V) : obj :=
    match o with
    | [] => []
    | (k, w) :: tl => if String.eqb k a then (k, v) :: tl else (k, w) :: set_attr tl a v
    end.

  Definition replace (p : string * obj) (a : string) (v : V) : option (string * obj) :=
    if has (snd p) a then Some (fst p, set_attr (snd p) a v) else None.
End Conv.

Definition c16_hosts : list (list Z) := [[3; 8]; [3; 9]; [3; 10]; [3; 11]; [3; 12]; [3; 13]].

(* the class for a host: 3.8/3.9 Code38, 3.10 Code310, 3.11+ Code311 *)
Definition spec_class (host : list Z) : string :=
  (if tuple_geb host [3; 11] then "Code311" else if tuple_geb host [3; 10] then "Code310" else if tuple_geb host [3; 8] then "Code38"
   else if tuple_geb host [3; 0] then "Code3" else if tuple_gtb host [2; 0] then "Code2" else if tuple_geb host [1; 5] then "Code15" else "Code13")%string.

(* One reader for the marshal format, instantiated twice:
     strict = false : xdis/unmarshal.py (_VersionIndependentUnmarshaller), with Python's permissive
                      behaviours (negative sizes read to the end, short reads are not errors, negative
                      list indices wrap, an empty tuple / None sits in a reserved reference slot);
     strict = true  : CPython's marshal.c r_object of the bytecode's own version (a NULL sits in a
                      reserved slot, references are range- and NULL-checked, sizes and digits are
                      validated, only the type codes of that marshal version exist).
   The two share the per-type-code structure, which is the structure of both sources; every
   behavioural difference is an explicit `if strict` below.  Definitions only. *)
From Xdis Require Import Base.Prelude Base.Result Base.LE Base.Utf8.

Inductive pv :=
| PNull | PNone | PTrue | PFalse | PEllipsis | PStopIter
| PInt (z : Z)
| PLong (z : Z)                      (* Python 2 long (marshal 'l' in 1.x/2.x bytecode); 3.x has one int type *)
| PFloat (bits : Z)                  (* IEEE-754 double, little-endian bit pattern *)
| PFloatText (s : list Z)            (* text float: the decimal string as written *)
| PComplex (re im : pv)
| PBin (b : list Z)                  (* bytes (3.x) / str (2.x) *)
| PText (b : list Z)                 (* str (3.x) / unicode (2.x): UTF-8 payload *)
| PTuple (l : list pv) | PList (l : list pv) | PSet (l : list pv) | PFrozenSet (l : list pv)
| PDict (l : list (pv * pv))
| PCode (ints : list Z) (objs : list pv).
(* PCode ints = [argcount; posonlyargcount or -1; kwonlyargcount; nlocals; stacksize; flags; firstlineno]
         objs = [code; consts; names; varnames; freevars; cellvars; filename; name; qualname; linetable; exceptiontable] *)

Record mstate := { inp : list Z; refs : list pv; strs : list pv }.

Record cfg := {
  strict : bool;
  magic_int : Z;
  version : list Z;
  flag_ref_ok : bool;          (* FLAG_REF honoured (marshal version >= 3); xdis: always *)
  mask_flag : bool;            (* bit 7 of the type byte is the FLAG_REF flag (xdis.unmarshal, marshal.c) or part of the code (xdis.marsh) *)
  unknown_err : bool;          (* an unknown type code raises (marshal.c, xdis.marsh) or yields None (xdis.unmarshal) *)
  code_ok : Z -> bool;         (* which type codes exist; xdis: its whole dispatch table *)
  neg_size_err : bool          (* the reader works on an in-memory buffer with its own bounds checks (xdis.marsh._FastUnmarshaller): a negative size is a
                                  ValueError and any read past the end an EOFError, where a file object (io.BytesIO.read) reads to the end / returns less *)
}.

Definition err_eof (c : cfg) : err := if strict c then EOFErr else if neg_size_err c then EOFErr else StructErr.

(* fp.read(n): a negative n reads everything (io.BytesIO), a short read is not an error *)
Definition read_n (c : cfg) (n : Z) (l : list Z) : result (list Z * list Z) :=
  if n <? 0 then (if strict c then Err ValueErr else if neg_size_err c then Err ValueErr else Ok (l, []))
  else if zlen l <? n then (if strict c then Err EOFErr else if neg_size_err c then Err EOFErr else Ok (l, []))
  else Ok (firstn (Z.to_nat n) l, skipn (Z.to_nat n) l).

Definition read_u8 (c : cfg) (l : list Z) : result (Z * list Z) :=
  match l with b :: r => Ok (b, r) | [] => Err (err_eof c) end.
Definition read_s16 (c : cfg) (l : list Z) : result (Z * list Z) :=
  match l with a :: b :: r => Ok (s16 (le16 a b), r) | _ => Err (err_eof c) end.
Definition read_s32 (c : cfg) (l : list Z) : result (Z * list Z) :=
  match l with a :: b :: d :: e :: r => Ok (s32 (le32 a b d e), r) | _ => Err (err_eof c) end.
Definition read_u64 (c : cfg) (l : list Z) : result (Z * list Z) :=
  match l with a :: b :: d :: e :: f :: g :: h :: i :: r => Ok (le64 a b d e f g h i, r) | _ => Err (err_eof c) end.

(* Python list indexing, negative indices from the end *)
Definition py_index {A} (l : list A) (i : Z) : option A :=
  let n := zlen l in
  if (0 <=? i) && (i <? n) then nth_error l (Z.to_nat i)
  else if (i <? 0) && (- n <=? i) then nth_error l (Z.to_nat (n + i)) else None.

Fixpoint set_nth {A} (l : list A) (i : nat) (x : A) : list A :=
  match l, i with
  | [], _ => []
  | _ :: r, O => x :: r
  | y :: r, S j => y :: set_nth r j x
  end.

(* r_ref / r_ref_reserve / r_ref_insert *)
Definition r_ref (save : bool) (v : pv) (st : mstate) (rest : list Z) : mstate :=
  {| inp := rest; refs := if save then refs st ++ [v] else refs st; strs := strs st |}.
Definition with_inp (st : mstate) (rest : list Z) : mstate := {| inp := rest; refs := refs st; strs := strs st |}.
Definition reserve (save : bool) (ph : pv) (st : mstate) (rest : list Z) : mstate * option nat :=
  if save then ({| inp := rest; refs := refs st ++ [ph]; strs := strs st |}, Some (List.length (refs st)))
  else (with_inp st rest, None).
Definition insert (i : option nat) (v : pv) (st : mstate) : mstate :=
  match i with
  | Some k => {| inp := inp st; refs := set_nth (refs st) k v; strs := strs st |}
  | None => st
  end.

(* the placeholder a reserved slot holds while its object is being read *)
Definition ph_container (c : cfg) : pv := if strict c then PNull else PTuple [].
Definition ph_code (c : cfg) : pv := if strict c then PNull else PNone.

(* read n objects *)
Fixpoint read_objs (r : mstate -> result (pv * mstate)) (k : nat) (n : Z) (acc : list pv) (st : mstate)
  : result (list pv * mstate) :=
  if n <=? 0 then Ok (rev acc, st) else
  match k with
  | O => Err OutOfFuel
  | S k' => do2 (v, st') <- r st; read_objs r k' (n - 1) (v :: acc) st'
  end.

(* dict: key/value pairs until NULL *)
Fixpoint read_dict (r : mstate -> result (pv * mstate)) (k : nat) (acc : list (pv * pv)) (st : mstate)
  : result (list (pv * pv) * mstate) :=
  match k with
  | O => Err OutOfFuel
  | S k' =>
      do2 (key, st1) <- r st;
      match key with
      | PNull => Ok (rev acc, st1)
      | _ => do2 (val, st2) <- r st1;
             match val with
             | PNull => Ok (rev acc, st2)
             | _ => read_dict r k' ((key, val) :: acc) st2
             end
      end
  end.

Fixpoint digits_value (ds : list Z) (j : Z) : Z :=
  match ds with [] => 0 | d :: r => d * 2 ^ (15 * j) + digits_value r (j + 1) end.
Fixpoint read_digits (c : cfg) (k : nat) (n : Z) (acc : list Z) (l : list Z) : result (list Z * list Z) :=
  if n <=? 0 then Ok (rev acc, l) else
  match k with
  | O => Err OutOfFuel
  | S k' => do2 (d, l') <- read_s16 c l;
            if strict c && ((d <? 0) || ((n =? 1) && (d =? 0))) then Err ValueErr   (* digit out of range / unnormalized *)
            else read_digits c k' (n - 1) (d :: acc) l'
  end.

Definition no_null (vs : list pv) : bool := forallb (fun v => match v with PNull => false | _ => true end) vs.

(* code object layout by version: which integer fields are stored and how wide *)
Definition w_int (c : cfg) (ge23 ge_small : bool) (l : list Z) : result (Z * list Z) :=
  if ge23 then read_s32 c l else if ge_small then read_s16 c l else Ok (0, l).

Definition vge (c : cfg) (v : list Z) : bool := tuple_geb (version c) v.

(* 3.11+: varnames / cellvars / freevars from localsplusnames + localspluskinds *)
Fixpoint split_localsplus (names : list pv) (kinds : list Z) : list pv * list pv * list pv :=
  match names, kinds with
  | nm :: ns, k :: ks =>
      let '(vs, cs, fs) := split_localsplus ns ks in
      if negb (Z.land k 32 =? 0) then (nm :: vs, (if negb (Z.land k 64 =? 0) then nm :: cs else cs), fs)
      else if negb (Z.land k 64 =? 0) then (vs, nm :: cs, fs)
      else if negb (Z.land k 128 =? 0) then (vs, cs, nm :: fs)
      else (vs, cs, fs)
  | _, _ => ([], [], [])
  end.

Definition as_list (v : pv) : option (list pv) :=
  match v with PTuple l | PList l => Some l | _ => None end.
Definition as_bytes (v : pv) : option (list Z) :=
  match v with PBin b | PText b => Some b | _ => None end.

(* 3.x text is decoded (UTF-8, surrogatepass): ill-formed bytes raise UnicodeDecodeError in both readers;
   2.x unicode objects keep their payload undecoded *)
Definition text_bad (c : cfg) (s : list Z) : bool := vge c [3; 0] && negb (utf8_ok s).

(* ---- leaves: no recursion ---- *)
Definition r_leaf (c : cfg) (save : bool) (t : Z) (st : mstate) (l : list Z) : option (result (pv * mstate)) :=
  let len := List.length l in
  if t =? 48 then Some (Ok (PNull, with_inp st l))                       (* '0' *)
  else if t =? 78 then Some (Ok (PNone, with_inp st l))                  (* 'N' *)
  else if t =? 70 then Some (Ok (PFalse, with_inp st l))                 (* 'F' *)
  else if t =? 84 then Some (Ok (PTrue, with_inp st l))                  (* 'T' *)
  else if t =? 46 then Some (Ok (PEllipsis, with_inp st l))              (* '.' *)
  else if t =? 83 then Some (Ok (PStopIter, with_inp st l))              (* 'S' *)
  else if t =? 105 then Some (                                           (* 'i' *)
    do2 (n, l1) <- read_s32 c l; Ok (PInt n, r_ref save (PInt n) st l1))
  else if t =? 73 then Some (                                            (* 'I' *)
    do2 (n, l1) <- read_u64 c l; Ok (PInt (s64 n), r_ref save (PInt (s64 n)) st l1))
  else if t =? 108 then Some (                                           (* 'l' *)
    do2 (n, l1) <- read_s32 c l;
    do2 (ds, l2) <- read_digits c len (Z.abs n) [] l1;
    let d := digits_value ds 0 in
    let z := if n <? 0 then - d else d in
    let v := if vge c [3; 0] then PInt z else PLong z in
    Ok (v, r_ref save v st l2))
  else if t =? 103 then Some (                                           (* 'g' *)
    do2 (b, l1) <- read_u64 c l; Ok (PFloat b, r_ref save (PFloat b) st l1))
  else if t =? 102 then Some (                                           (* 'f' *)
    do2 (n, l1) <- read_u8 c l; do2 (s, l2) <- read_n c n l1;
    Ok (PFloatText s, r_ref save (PFloatText s) st l2))
  else if t =? 120 then Some (                                           (* 'x' *)
    do2 (n1, l1) <- read_u8 c l; do2 (s1, l2) <- read_n c n1 l1;
    do2 (n2, l3) <- read_u8 c l2; do2 (s2, l4) <- read_n c n2 l3;
    let v := PComplex (PFloatText s1) (PFloatText s2) in Ok (v, r_ref save v st l4))
  else if t =? 121 then Some (                                           (* 'y' *)
    do2 (a, l1) <- read_u64 c l; do2 (b, l2) <- read_u64 c l1;
    let v := PComplex (PFloat a) (PFloat b) in Ok (v, r_ref save v st l2))
  else if t =? 115 then Some (                                           (* 's' *)
    do2 (n, l1) <- read_s32 c l; do2 (s, l2) <- read_n c n l1;
    Ok (PBin s, r_ref save (PBin s) st l2))
  else if t =? 116 then Some (                                           (* 't': interned; str in 2.x, unicode in 3.x *)
    do2 (n, l1) <- read_s32 c l; do2 (s, l2) <- read_n c n l1;
    let v := if vge c [3; 0] then PText s else PBin s in
    let st' := r_ref save v st l2 in
    Ok (v, {| inp := inp st'; refs := refs st'; strs := strs st' ++ [v] |}))
  else if (t =? 117) || (t =? 97) || (t =? 65) then Some (               (* 'u' 'a' 'A' *)
    do2 (n, l1) <- read_s32 c l; do2 (s, l2) <- read_n c n l1;
    if (t =? 117) && text_bad c s then Err UnicodeErr else
    let st' := r_ref save (PText s) st l2 in
    Ok (PText s, if t =? 65 then {| inp := inp st'; refs := refs st'; strs := strs st' ++ [PText s] |} else st'))
  else if (t =? 122) || (t =? 90) then Some (                            (* 'z' 'Z' *)
    do2 (n, l1) <- read_u8 c l; do2 (s, l2) <- read_n c n l1;
    let st' := r_ref save (PText s) st l2 in
    Ok (PText s, if t =? 90 then {| inp := inp st'; refs := refs st'; strs := strs st' ++ [PText s] |} else st'))
  else if t =? 82 then Some (                                            (* 'R' *)
    do2 (n, l1) <- read_s32 c l;
    match (if strict c then (if (0 <=? n) && (n <? zlen (strs st)) then nth_error (strs st) (Z.to_nat n) else None)
           else py_index (strs st) n) with
    | Some v => Ok (v, with_inp st l1)
    | None => Err (if strict c then ValueErr else IndexErr)
    end)
  else if t =? 114 then Some (                                           (* 'r' *)
    do2 (n, l1) <- read_s32 c l;
    match (if strict c then (if (0 <=? n) && (n <? zlen (refs st)) then nth_error (refs st) (Z.to_nat n) else None)
           else py_index (refs st) n) with
    | Some v => if strict c && match v with PNull => true | _ => false end then Err ValueErr
                else Ok (v, with_inp st l1)
    | None => Err (if strict c then ValueErr else IndexErr)
    end)
  else if t =? 63 then Some (Err (if strict c then ValueErr else KeyErr))   (* '?' *)
  else None.

(* ---- containers: children read by `robj` ---- *)
Definition r_container (c : cfg) (robj : mstate -> result (pv * mstate)) (save : bool) (t : Z) (st : mstate) (l : list Z)
  : option (result (pv * mstate)) :=
  let len := S (List.length l) in      (* loop fuel: each object takes at least one byte; one extra round to meet the end *)
  if (t =? 41) || (t =? 40) || (t =? 60) || (t =? 62) then Some (         (* ')' '(' '<' '>' *)
    do2 (n, l1) <- (if t =? 41 then read_u8 c l else read_s32 c l);
    if strict c && (n <? 0) then Err ValueErr else
    let '(st1, i) := reserve save (ph_container c) st l1 in
    do2 (vs, st2) <- read_objs robj len n [] st1;
    if strict c && negb (no_null vs) then Err TypeErr else
    let v := if t =? 60 then PSet vs else if t =? 62 then PFrozenSet vs else PTuple vs in
    Ok (v, insert i v st2))
  else if t =? 91 then Some (                                            (* '[' *)
    do2 (n, l1) <- read_s32 c l;
    if strict c && (n <? 0) then Err ValueErr else
    (* the list object is registered first and filled in place: reserve / insert *)
    let '(st1, i) := reserve save (PList []) st l1 in
    do2 (vs, st2) <- read_objs robj len n [] st1;
    if strict c && negb (no_null vs) then Err TypeErr else
    Ok (PList vs, insert i (PList vs) st2))
  else if t =? 123 then Some (                                           (* '{' *)
    let '(st1, i) := reserve save (PDict []) st l in
    do2 (kv, st2) <- read_dict robj len [] st1;
    Ok (PDict kv, insert i (PDict kv) st2))
  else None.

(* ---- code objects: field layout by version ---- *)
Definition r_code (c : cfg) (robj : mstate -> result (pv * mstate)) (save : bool) (st : mstate) (l : list Z) : result (pv * mstate) :=
  let '(st0, i) := reserve save (ph_code c) st l in
  let l0 := inp st0 in
  do2 (argcount, l1) <- w_int c (vge c [2; 3]) (vge c [1; 3]) l0;
  (* co_posonlyargcount is stored from magic 3410 on (CPython's registry: "3.8a1 3410 (PEP570 Python Positional-Only Parameters)"); the two
     earlier 3.8 pre-release magics have the 3.7 layout *)
  do2 (posonly, l2) <- (if vge c [3; 8] then (if zmem (magic_int c) [3400; 3401] then Ok (0, l1) else read_s32 c l1) else Ok (-1, l1));
  do2 (kwonly, l3) <- (if vge c [3; 0] then read_s32 c l2 else Ok (0, l2));
  do2 (nlocals, l4) <- (if vge c [3; 11] then Ok (0, l3) else w_int c (vge c [2; 3]) (vge c [1; 3]) l3);
  do2 (stacksize, l5) <- w_int c (vge c [2; 3]) (vge c [1; 5]) l4;
  do2 (flags, l6) <- w_int c (vge c [2; 3]) (vge c [1; 3]) l5;
  do2 (code, s1) <- robj (with_inp st0 l6);
  do2 (consts, s2) <- robj s1;
  do2 (names, s3) <- robj s2;
  if vge c [3; 11] then
    do2 (lpnames, s4) <- robj s3;
    do2 (lpkinds, s5) <- robj s4;
    do2 (filename, s6) <- robj s5;
    do2 (name, s7) <- robj s6;
    do2 (qualname, s8) <- robj s7;
    do2 (firstlineno, l9) <- read_s32 c (inp s8);
    do2 (linetable, s10) <- robj (with_inp s8 l9);
    do2 (exctable, s11) <- robj s10;
    match as_list lpnames, as_bytes lpkinds with
    | Some nl, Some kl =>
        let '(vs, cs, fs) := split_localsplus nl kl in
        let v := PCode [argcount; posonly; kwonly; zlen vs; stacksize; flags; firstlineno]
                       [code; consts; names; PTuple vs; PTuple fs; PTuple cs; filename; name; qualname; linetable; exctable] in
        Ok (v, insert i v s11)
    | _, _ => Err TypeErr
    end
  else
    do2 (varnames, s4) <- (if vge c [1; 3] then robj s3 else Ok (PTuple [], s3));
    do2 (freevars, s5) <- (if vge c [2; 1] then robj s4 else Ok (PTuple [], s4));
    do2 (cellvars, s6) <- (if vge c [2; 1] then robj s5 else Ok (PTuple [], s5));
    do2 (filename, s7) <- robj s6;
    do2 (name, s8) <- robj s7;
    do2 (firstlineno, l9) <- (if vge c [1; 5] then w_int c (vge c [2; 3]) true (inp s8) else Ok (-1, inp s8));
    do2 (lnotab, s10) <- (if vge c [1; 5] then robj (with_inp s8 l9) else Ok (PBin [], with_inp s8 l9));
    let v := PCode [argcount; posonly; kwonly; nlocals; stacksize; flags; firstlineno]
                   [code; consts; names; varnames; freevars; cellvars; filename; name; PNone; lnotab; PNone] in
    Ok (v, insert i v s10).

Fixpoint r_object (fuel : nat) (c : cfg) (st : mstate) {struct fuel} : result (pv * mstate) :=
  match fuel with
  | O => Err OutOfFuel
  | S f =>
      match inp st with
      | [] => Err (if strict c then EOFErr else if neg_size_err c then EOFErr else TypeErr)          (* ord(b'') / end of buffer *)
      | byte1 :: l =>
          let flag := mask_flag c && negb (Z.land byte1 128 =? 0) in
          if strict c && flag && negb (flag_ref_ok c) then Err ValueErr else
          let t := if mask_flag c then Z.land byte1 127 else byte1 in
          if negb (code_ok c t) then (if unknown_err c then Err ValueErr else Ok (PNone, with_inp st l)) else
          match r_leaf c flag t st l with
          | Some r => r
          | None =>
              match r_container c (r_object f c) flag t st l with
              | Some r => r
              | None =>
                  if (t =? 99) || (t =? 67) then r_code c (r_object f c) flag st l     (* 'c' 'C' *)
                  else (if unknown_err c then Err ValueErr else Ok (PNone, with_inp st l))
              end
          end
      end
  end.

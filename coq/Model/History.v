(* C18 - each call's result is independent of what the process did before.
   (1) A generic frame theorem: if the cells operations may write are cells no operation's result depends on, the result
       of a probe after any history equals its result in the initial state.
   (2) The instance: the inventory of shared mutable state and of the statements that change it after import is
       regenerated from /repo's AST (Gen/MutState.v); every such statement must fall in a class of this file. *)
From Coq Require Import ZArith List String Bool Ascii.
From Xdis Require Import Base.Prelude Gen.MutState.
Import ListNotations.
Local Open Scope Z_scope.

Section Frame.
  Variables cell V op out : Type.
  Variable weak : cell -> bool.                 (* cells that may change after import *)
  Definition state := cell -> V.
  Definition agree (s s' : state) : Prop := forall c, weak c = false -> s c = s' c.
  Variable step : state -> op -> state * out.
  Hypothesis frame : forall s o c, weak c = false -> fst (step s o) c = s c.
  Hypothesis reads : forall s s' o, agree s s' -> snd (step s o) = snd (step s' o).

  Definition run (ops : list op) (s : state) : state := fold_left (fun s o => fst (step s o)) ops s.

  Lemma run_agree : forall ops s, agree (run ops s) s.
  Proof.
    induction ops as [|o ops IH]; intros s c Hc; [reflexivity|].
    cbn [run fold_left]. fold (run ops (fst (step s o))). rewrite (IH (fst (step s o)) c Hc). apply frame. exact Hc.
  Qed.

  Theorem history_independent : forall ops s probe, snd (step (run ops s) probe) = snd (step s probe).
  Proof. intros ops s probe. apply reads. apply run_agree. Qed.

  Theorem repeat_same : forall s o, snd (step (fst (step s o)) o) = snd (step s o).
  Proof. intros s o. apply (history_independent [o] s o). Qed.
End Frame.

(* ---- classes of the statements that change shared state inside function bodies ---- *)
Inductive cls :=
  | ImportTime        (* runs only while the package is imported: table builders called from module level *)
  | PerCallObject     (* the object is created by the caller for this call and dropped afterwards *)
  | WriteOnlyCell     (* shared, written on every call, content never read *)
  | DefaultNeverUsed  (* a mutable default that every caller inside the package overrides *)
  | Excluded.         (* explicit opcode remapping: the documented exception *)

Definition starts_with (p s : string) : bool := String.eqb (substring 0 (String.length p) s) p.

Definition module_of (f : string) : string :=
  match index 0 ":" f with Some i => substring 0 i f | None => f end.
Definition func_of (f : string) : string :=
  match index 0 ":" f with Some i => substring (S i) (String.length f - S i) f | None => f end.

Local Open Scope string_scope.

(* objects handed over by the caller that live for one call *)
Definition per_call : list (string * string) :=
  [ ("xdis.bytecode:get_logical_instruction_at_offset", "arg:labels");          (* findlabels' fresh list *)
    ("xdis.disasm:disco_loop", "arg:queue");                                      (* deque([co]) made by disco *)
    ("xdis.disasm:disco_loop_asm_format", "arg:all_fns");                         (* set([]) made by disco *)
    ("xdis.disasm:disco_loop_asm_format", "arg:fn_name_map");                     (* {} made by disco *)
    ("xdis.disasm:disco_loop_asm_format", "arg:co");                              (* codeType2Portable copy / loaded code *)
    ("xdis.dropbox.decrypt25:patch", "arg:code");                                 (* bytearray(code) of this call *)
    ("xdis.dropbox.decrypt25:tea_decipher", "arg:v");                             (* local key schedule *)
    ("xdis.codetype.code13:Code13.freeze", "arg:self");
    ("xdis.codetype.code15:Code15.freeze", "arg:self");
    ("xdis.codetype.code30:Code3.freeze", "arg:self");
    ("xdis.codetype.code310:Code310.freeze", "arg:self") ].

Definition pair_mem (f t : string) (l : list (string * string)) : bool :=
  existsb (fun p => String.eqb (fst p) f && String.eqb (snd p) t) l.

(* the function name after the last dot, as Gen.site_callers lists it *)
Fixpoint last_dot (s acc : string) : string :=
  match s with
  | EmptyString => acc
  | String c t => if Ascii.eqb c (ascii_of_nat 46) then last_dot t EmptyString else last_dot t (acc ++ String c EmptyString)
  end.
Definition simple_name (f : string) : string := last_dot (func_of f) EmptyString.

Definition callers_of (nm : string) : option (list string * Z) :=
  match find (fun e => String.eqb (fst (fst e)) nm) site_callers with
  | Some e => Some (snd (fst e), snd e)
  | None => None
  end.

(* called from module level only, or from functions of the table-builder module itself *)
Definition import_time_fn (f : string) : bool :=
  match callers_of (simple_name f) with
  | Some (inside, toplevel) => forallb (fun m => String.eqb m "xdis.opcodes.base") inside && (String.eqb (module_of f) "xdis.opcodes.base" || match inside with [] => true | _ => false end)
                               && ((0 <? toplevel)%Z || String.eqb (module_of f) "xdis.opcodes.base")
  | None => false
  end.

Definition classify (site : string * string * string) : option cls :=
  let '(f, t, k) := site in
  if pair_mem f t per_call then Some PerCallObject
  else if String.eqb f "xdis.op_imports:remap_opcodes" && String.eqb t "arg:op_obj" then Some Excluded
  else if String.eqb f "xdis.unmarshal:_VersionIndependentUnmarshaller.t_code" && String.eqb t "self.code_objects" then Some WriteOnlyCell
  else if String.eqb f "xdis.instruction:Instruction.disassemble" && String.eqb t "param:instructions" then Some DefaultNeverUsed
  else if String.eqb f "xdis.dropbox.decrypt25:patch" && String.eqb t "global:misses" then Some WriteOnlyCell
  else if (starts_with "xdis.opcodes." f || starts_with "xdis.magics:" f) && import_time_fn f then Some ImportTime
  else None.

Definition all_classified : bool := forallb (fun s => is_some (classify s)) mutation_sites.

(* cells classed write-only: nothing in the package reads the content of a cell of that name *)
Definition write_only_names : list string := ["code_objects"].
Definition write_only_unread : bool :=
  forallb (fun r : string * string * string => negb (smem (fst (fst r)) write_only_names)) content_reads.

(* the mutable defaults that some statement mutates are exactly the two classified above *)
Definition mutated_defaults_known : bool :=
  forallb (fun c => smem c ["code_objects"; "instructions"]) mutated_default_cells.

(* ---- the instance: cells by name; weak = the cells run-time statements may write ---- *)
Definition weak_cell (c : string) : bool := smem c ["unmarshal.code_objects"; "instruction.disassemble.instructions"; "dropbox.decrypt25.misses"].

Section Instance.
  Variables V op out : Type.
  Variable upd : op -> (string -> V) -> string -> V.        (* what an operation stores in the weak cells *)
  Variable result : op -> (string -> V) -> out.             (* its result, as a function of the strong cells *)
  Variable dflt : V.
  Definition strong_part (s : string -> V) : string -> V := fun c => if weak_cell c then dflt else s c.
  Definition step (s : string -> V) (o : op) : (string -> V) * out :=
    (fun c => if weak_cell c then upd o s c else s c, result o (strong_part s)).
End Instance.

(* Hand model of the outcome of xdis/load.py:load_module on an arbitrary byte string:
   which statements are inside the `try ... except Exception -> ImportError`, the size check, the
   magic checks, the header fields and the unmarshaller.  fix_dropbox_pyc (TEA decryption) is not
   modelled: its result is a parameter; its exceptions are converted like the others. *)
From Xdis Require Import Base.Prelude Base.Result Base.LE Model.Magic Model.Load Model.Unmarshal Model.UnmarshalObs Gen.Magics.

Inductive outcome := Returned | Raised (e : err).

Definition load_module_outcome (dropbox_ok : bool) (bs : list Z) : outcome :=
  if zlen bs <? 50 then Raised ImportErr else              (* "too short to be a valid pyc file" *)
  let '(magic, r) := take 4 bs in
  match decide magic with
  | DErr e => Raised e                                      (* raised before / outside the inner try *)
  | DDropbox => if dropbox_ok then Returned else Raised ImportErr
  | DHeader tv mi v =>
      match parse_fields mi v r with
      | Err _ => Raised ImportErr
      | Ok (_, _, _, rest) =>
          match load (xdis_cfg mi) rest with
          | Ok _ => Returned
          | Err _ => Raised ImportErr                       (* every exception of the unmarshaller, incl. RecursionError / MemoryError *)
          end
      end
  end.

(* the part of the outcome decided before the payload is read: `Returned` here means "the header passes; the payload decides".
   Used by the correspondence check: a file the header stage rejects must make the implementation raise ImportError.
   (The payload stage is not compared outcome by outcome: the unmarshaller only learns the bytecode's version when it meets a
   code object, so a hostile payload whose top-level object is not code is read with other string rules than the reader
   model's, which describes values inside a code object - C10.) *)
Definition header_outcome (bs : list Z) : outcome :=
  if zlen bs <? 50 then Raised ImportErr else
  let '(magic, r) := take 4 bs in
  match decide magic with
  | DErr e => Raised e
  | DDropbox => Returned
  | DHeader tv mi v => match parse_fields mi v r with Err _ => Raised ImportErr | Ok _ => Returned end
  end.

(* Hand model of operand resolution in xdis/bytecode.py:get_logical_instruction_at_offset
   (the category chain with its per-version special cases), as a PLAN per opcode - which table is
   indexed and how the operand is turned into an index - plus the shared meaning of a plan.
   Spec side (CPython's dis._get_instructions_bytes, 2.7 .. 3.13) in the same vocabulary.  Definitions only. *)
From Xdis Require Import Base.Prelude Base.Result Base.OpTable Model.Instr Spec.Dis.

Inductive plan :=
| PlNone                 (* not a table-indexed operand *)
| PlConst                (* co_consts[arg] *)
| PlName (shift : Z)     (* co_names[arg >> shift] *)
| PlVar                  (* co_varnames[arg] *)
| PlCells                (* (co_cellvars + co_freevars)[arg] *)
| PlPlus                 (* localsplus[arg]  (3.11+) *)
| PlPair                 (* (localsplus[arg >> 4], localsplus[arg & 15])  (3.13 super-instructions) *)
| PlCmp (shift : Z).     (* cmp_op[arg >> shift] *)

Definition plan_eqb (a b : plan) : bool :=
  match a, b with
  | PlNone, PlNone | PlConst, PlConst | PlVar, PlVar | PlCells, PlCells | PlPlus, PlPlus | PlPair, PlPair => true
  | PlName x, PlName y | PlCmp x, PlCmp y => x =? y
  | _, _ => false
  end.

(* ---- xdis ---- *)
Definition model_plan (T : optable) (op : Z) : plan :=
  let v := t_version T in
  let name := opname_of T op in
  let is s := String.eqb name s in
  if zmem op (t_const_ops T) then PlConst
  else if zmem op (t_name_ops T) then
    (if tuple_geb v [3; 11] && is "LOAD_GLOBAL"%string then PlName 1
     else if tuple_geb v [3; 12] && is "LOAD_ATTR"%string then PlName 1
     else if tuple_geb v [3; 12] && is "LOAD_SUPER_ATTR"%string then PlName 2
     else PlName 0)
  else if zmem op (t_jrel_ops T) then PlNone
  else if zmem op (t_jabs_ops T) then PlNone
  else if zmem op (t_local_ops T) then
    (if tuple_geb v [3; 13] && (is "LOAD_FAST_LOAD_FAST"%string || is "STORE_FAST_LOAD_FAST"%string || is "STORE_FAST_STORE_FAST"%string) then PlPair
     else if tuple_geb v [3; 11] then PlPlus else PlVar)
  else if zmem op (t_free_ops T) then (if tuple_geb v [3; 11] then PlPlus else PlCells)
  else if zmem op (t_compare_ops T) then
    (if tuple_geb v [3; 13] then PlCmp 5 else if tuple_geb v [3; 12] then PlCmp 4 else PlCmp 0)
  else PlNone.

(* ---- CPython's dis ---- *)
Definition spec_plan (R : reftable) (op : Z) : plan :=
  let v := r_version R in
  let name := rname R op in
  let is s := String.eqb name s in
  if zmem op (r_hasconst R) then
    (* 3.11's dis resolves the constant only for LOAD_CONST (argval of KW_NAMES stays UNKNOWN); 3.12 and 3.13 for every hasconst opcode *)
    (if tuple_geb v [3; 11] && tuple_ltb v [3; 12] && negb (is "LOAD_CONST"%string) then PlNone else PlConst)
  else if zmem op (r_hasname R) then
    (if tuple_geb v [3; 11] && is "LOAD_GLOBAL"%string then PlName 1
     else if tuple_geb v [3; 12] && is "LOAD_ATTR"%string then PlName 1
     else if tuple_geb v [3; 12] && is "LOAD_SUPER_ATTR"%string then PlName 2
     else PlName 0)
  else if zmem op (r_hasjrel R) || zmem op (r_hasjabs R) then PlNone
  else if tuple_geb v [3; 11] && (zmem op (r_haslocal R) || zmem op (r_hasfree R)) then
    (if tuple_geb v [3; 13] && (is "LOAD_FAST_LOAD_FAST"%string || is "STORE_FAST_LOAD_FAST"%string || is "STORE_FAST_STORE_FAST"%string) then PlPair else PlPlus)
  else if zmem op (r_haslocal R) then PlVar
  else if zmem op (r_hascompare R) then
    (if tuple_geb v [3; 13] then PlCmp 5 else if tuple_geb v [3; 12] then PlCmp 4 else PlCmp 0)
  else if zmem op (r_hasfree R) then PlCells
  else PlNone.

(* ---- tables and the meaning of a plan ---- *)
Record tabs := { tb_consts : list Z; tb_names : list Z; tb_vars : list Z; tb_cells : list Z; tb_frees : list Z; tb_ncmp : Z }.

(* xdis (CellNames carries the number of cells): varnames + [c for i, c in enumerate(cellvars + freevars) if i >= n_cellvars or c not in varnames] *)
Fixpoint model_merge (vars : list Z) (n_cells : nat) (l : list Z) : list Z :=
  match l with
  | [] => []
  | c :: l' => match n_cells with
               | O => c :: model_merge vars O l'
               | S n => if zmem c vars then model_merge vars n l' else c :: model_merge vars n l'
               end
  end.
Definition model_localsplus (tb : tabs) : list Z :=
  tb_vars tb ++ model_merge (tb_vars tb) (List.length (tb_cells tb)) (tb_cells tb ++ tb_frees tb).
(* CPython 3.11+: locals, then the cells that are not already locals, then the free variables *)
Definition spec_localsplus (tb : tabs) : list Z :=
  tb_vars tb ++ filter (fun c => negb (zmem c (tb_vars tb))) (tb_cells tb) ++ tb_frees tb.

Definition idx (l : list Z) (i : Z) : option Z := if i <? 0 then None else nth_error l (Z.to_nat i).

(* observation: [kind; value...]; an index past the end of a NAME table leaves the raw number (kind 9), of the others it is an IndexError (kind 8) *)
Definition apply_plan (lp : list Z) (tb : tabs) (p : plan) (arg : Z) : list Z :=
  let named l i := match idx l i with Some x => [2; x] | None => [9; i] end in
  match p with
  | PlNone => [0]
  | PlConst => match idx (tb_consts tb) arg with Some x => [1; x] | None => [8] end
  | PlName s => named (tb_names tb) (Z.shiftr arg s)
  | PlVar => named (tb_vars tb) arg
  | PlCells => named (tb_cells tb ++ tb_frees tb) arg
  | PlPlus => named lp arg
  | PlPair => [6] ++ named lp (Z.shiftr arg 4) ++ named lp (Z.land arg 15)
  | PlCmp s => if (0 <=? Z.shiftr arg s) && (Z.shiftr arg s <? tb_ncmp tb) then [5; Z.shiftr arg s] else [8]
  end.

Definition model_resolve (T : optable) (tb : tabs) (op arg : Z) : list Z := apply_plan (model_localsplus tb) tb (model_plan T op) arg.
Definition spec_resolve (R : reftable) (tb : tabs) (op arg : Z) : list Z := apply_plan (spec_localsplus tb) tb (spec_plan R op) arg.

(* Canonical observations for the instruction stream / labels (twin: tools/harness/ops_instr.py). *)
From Xdis Require Import Base.Prelude Base.Result Base.OpTable Model.LoadObs Model.Instr.

Definition obs_instrs (T : optable) (code : list Z) : list Z :=
  match findlabels T code with
  | Err e => [1; err_code e]
  | Ok labels =>
      match instrs T code with
      | Err e => [1; err_code e]
      | Ok is => [0; zlen is] ++ flat_map (fun x =>
            [i_offset x; i_op x] ++ oopt (i_arg x) ++ [i_size x; if i_has_ext x then 1 else 0; if is_jump_target labels [] x then 1 else 0]
            ++ oopt (jump_argval T x)) is
      end
  end.

Definition obs_labels (T : optable) (code : list Z) : list Z :=
  match findlabels T code with Err e => [1; err_code e] | Ok ls => [0; zlen ls] ++ ls end.

(* the public xdis.findlabels = cross_dis.findlabels, whatever the table binds *)
Definition obs_xdis_findlabels (T : optable) (code : list Z) : list Z :=
  let r := if tuple_ltb (t_version T) [3; 10] then (do us <- unpack_byte T code 0 0; Ok (labels_pre_310 T us))
           else (do us <- unpack_word T code 0 0; Ok (labels_word T us)) in
  match r with Err e => [1; err_code e] | Ok ls => [0; zlen ls] ++ ls end.

(* Canonical observations for the instruction stream / labels (twin: tools/harness/ops_instr.py). *)
From Xdis Require Import Base.Prelude Base.Result Base.OpTable Model.LoadObs Model.Instr.

Definition obs_instrs (T : optable) (code : list Z) : list Z :=
  match findlabels T code with
  | Err e => [1; err_code e]
  | Ok labels =>
      match instrs T code with
      | Err e => [1; err_code e]
      | Ok is => [0; zlen is] ++ flat_map (fun x =>
            [i_offset x; i_op x] ++ oopt (i_arg x) ++ [i_size x; if i_has_ext x then 1 else 0; if is_jump_target labels [] x then 1 else 0]
            ++ oopt (jump_argval T x)) is
      end
  end.

Definition obs_labels (T : optable) (code : list Z) : list Z :=
  match findlabels T code with Err e => [1; err_code e] | Ok ls => [0; zlen ls] ++ ls end.

(* the public xdis.findlabels = cross_dis.findlabels, whatever the table binds *)
Definition obs_xdis_findlabels (T : optable) (code : list Z) : list Z :=
  let r := if tuple_ltb (t_version T) [3; 10] then (do us <- unpack_byte T code 0 0; Ok (labels_pre_310 T us))
           else (do us <- unpack_word T code 0 0; Ok (labels_word T us)) in
  match r with Err e => [1; err_code e] | Ok ls => [0; zlen ls] ++ ls end.

(* ---- operand resolution over marker tables (twin: tools/harness/ops_instr.py:op_resolve) ---- *)
From Xdis Require Import Spec.Dis Model.Resolve.
Definition marker_tabs (ncmp : Z) : tabs :=
  {| tb_consts := map (fun i => 1000 + Z.of_nat i) (seq 0 30); tb_names := map (fun i => 110000 + Z.of_nat i) (seq 0 20);
     tb_vars := map (fun i => 118000 + Z.of_nat i) (seq 0 4); tb_cells := [118000; 99001]; tb_frees := [102000; 118001]; tb_ncmp := ncmp |}.

Definition obs_rows (rows : list (list Z)) : list Z :=
  if existsb (fun r => match r with _ :: 8 :: _ => true | _ => false end) rows then [1; 4]
  else [0; zlen rows] ++ List.concat rows.

Definition obs_resolve (T : optable) (code : list Z) : list Z :=
  match instrs T code with
  | Err e => [1; err_code e]
  | Ok is => obs_rows (flat_map (fun x => match i_arg x with
                                         | None => []
                                         | Some a => match model_plan T (i_op x) with
                                                     | PlNone => []
                                                     | _ => [i_offset x :: model_resolve T (marker_tabs (zlen (t_cmp_op T))) (i_op x) a]
                                                     end end) is)
  end.

(* CPython's view: instructions from its own unpacking, operands by its own plan *)
Definition obs_spec_resolve (R : reftable) (code : list Z) : list Z :=
  match spec_unpack R code with
  | Err e => [1; err_code e]
  | Ok us => obs_rows (flat_map (fun '(off, op, arg) => match arg with
                                         | None => []
                                         | Some a => match spec_plan R op with
                                                     | PlNone => []
                                                     | _ => [off :: spec_resolve R (marker_tabs (zlen (r_cmp_op R))) op a]
                                                     end end) us)
  end.

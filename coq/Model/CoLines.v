(* Hand models of xdis/codetype/code310.py:Code310.co_lines and of
   xdis/codetype/code311.py: parse_linetable (Code311.co_lines),
   parse_location_entries (Code311.co_positions).  Definitions only. *)
From Xdis Require Import Base.Prelude Base.Result Base.LE Model.LineStarts.

(* ---------------- 3.10 ---------------- *)
(* struct.iter_unpack('=Bb', co_linetable): struct.error unless the length is even *)
Fixpoint co_lines_310_go (ps : list (Z * Z)) (end_offset line : Z) : list (Z * Z * option Z) :=
  match ps with
  | [] => []
  | (offset_delta, ldb) :: r =>
      let line_delta := sgn8 ldb in
      let start_offset := end_offset in
      let end_offset' := end_offset + offset_delta in
      let line' := if line_delta =? -128 then line else line + line_delta in
      let display := if line_delta =? -128 then None else Some line' in
      if start_offset =? end_offset' then co_lines_310_go r end_offset' line'
      else (start_offset, end_offset', display) :: co_lines_310_go r end_offset' line'
  end.

Definition co_lines_310 (first : Z) (tab : list Z) : result (list (Z * Z * option Z)) :=
  if Z.even (zlen tab) then Ok (co_lines_310_go (pairs tab) 0 first) else Err StructErr.

(* ---------------- 3.11+ : parse_linetable ---------------- *)
(* _scan_varint over the shared iterator: returns the value and the remaining bytes *)
Fixpoint scan_varint_go (l : list Z) (shift : Z) (value : Z) : Z * list Z :=
  match l with
  | [] => (value, [])
  | read :: r =>
      let value' := Z.lor value (Z.shiftl (Z.land read 63) (shift * 6)) in
      if Z.land read 64 =? 0 then (value', r) else scan_varint_go r (shift + 1) value'
  end.
Definition scan_varint (l : list Z) : Z * list Z := scan_varint_go l 0 0.
Definition scan_signed_varint (l : list Z) : Z * list Z :=
  let '(v, r) := scan_varint l in
  (if negb (Z.land v 1 =? 0) then - (Z.shiftr v 1) else Z.shiftr v 1, r).

Record lt_entry := { lt_line_delta : Z; lt_code_delta : Z; lt_no_line : bool }.

(* _get_line_delta *)
Definition get_line_delta (code_byte : Z) (rest : list Z) : Z * list Z :=
  let c := Z.land (Z.shiftr code_byte 3) 15 in
  if c =? 15 then (0, rest)
  else if (c =? 13) || (c =? 14) then scan_signed_varint rest
  else if c =? 10 then (0, rest)
  else if c =? 11 then (1, rest)
  else if c =? 12 then (2, rest)
  else (0, rest).

(* _go_to_next_code_byte: skip until a byte with bit 7 set *)
Fixpoint go_to_next_code_byte (l : list Z) : option (Z * list Z) :=
  match l with
  | [] => None
  | b :: r => if negb (Z.land b 128 =? 0) then Some (b, r) else go_to_next_code_byte r
  end.

Fixpoint lt_entries (fuel : nat) (l : list Z) : list lt_entry :=
  match fuel with
  | O => []
  | S f =>
      match go_to_next_code_byte l with
      | None => []
      | Some (cb, r) =>
          let '(ld, r') := get_line_delta cb r in
          {| lt_line_delta := ld; lt_code_delta := (Z.land cb 7 + 1) * 2; lt_no_line := Z.shiftr cb 3 =? 31 |}
          :: lt_entries f r'
      end
  end.

(* the merging pass of parse_linetable *)
Fixpoint lt_merge (es : list lt_entry) (code_start code_end line : Z) (no_line : bool) : list (Z * Z * option Z) :=
  match es with
  | [] => [(code_start, code_end, if no_line then None else Some line)]
  | e :: r =>
      if negb (lt_line_delta e =? 0) || negb (Bool.eqb (lt_no_line e) no_line) then
        (code_start, code_end, if no_line then None else Some line)
        :: lt_merge r code_end (code_end + lt_code_delta e) (line + lt_line_delta e) (lt_no_line e)
      else lt_merge r code_start (code_end + lt_code_delta e) line no_line
  end.

Definition parse_linetable (first : Z) (tab : list Z) : list (Z * Z * option Z) :=
  match lt_entries (S (List.length tab)) tab with
  | [] => []
  | e :: r => lt_merge r 0 (lt_code_delta e) (first + lt_line_delta e) (lt_no_line e)
  end.

(* ---------------- 3.11+ : parse_location_entries (co_positions) ---------------- *)
(* iter_location_codes: split at bytes with bit 7 set; the first byte always opens a group *)
Fixpoint loc_groups_go (l : list Z) (cur : list Z) : list (list Z) :=
  match l with
  | [] => [rev cur]
  | b :: r => if negb (Z.land b 128 =? 0) then rev cur :: loc_groups_go r [b] else loc_groups_go r (b :: cur)
  end.
Definition loc_groups (l : list Z) : list (list Z) :=
  match l with [] => [] | b :: r => loc_groups_go r [b] end.

(* iter_varints over one group's payload *)
Fixpoint iter_varints_go (l : list Z) (cur shift : Z) : list Z :=
  match l with
  | [] => []
  | b :: r =>
      let cur' := cur + Z.shiftl (Z.land b 63) shift in
      if negb (Z.land b 64 =? 0) then iter_varints_go r cur' (shift + 6)
      else cur' :: iter_varints_go r 0 0
  end.
Definition iter_varints (l : list Z) : list Z := iter_varints_go l 0 0.
Definition decode_signed_varint (s : Z) : Z := if negb (Z.land s 1 =? 0) then - (Z.shiftr s 1) else Z.shiftr s 1.

(* (code units, start line, end line, start column, end column) *)
Definition pos_entry := (Z * option Z * option Z * option Z * option Z)%type.

Definition nth_byte (g : list Z) (i : nat) : result Z :=
  match nth_error g i with Some b => Ok b | None => Err IndexErr end.

Definition loc_entry_of (g : list Z) (last_line : Z) : result (pos_entry * Z) :=
  do fb <- nth_byte g 0;
  let len := Z.land fb 7 + 1 in
  let code := Z.shiftr (Z.land fb 120) 3 in
  if code <=? 9 then
    do sb <- nth_byte g 1;
    let sc := code * 8 + Z.land (Z.shiftr sb 4) 7 in
    Ok ((len, Some last_line, Some last_line, Some sc, Some (sc + Z.land sb 15)), last_line)
  else if code <=? 12 then
    do c1 <- nth_byte g 1; do c2 <- nth_byte g 2;
    let sl := last_line + code - 10 in
    Ok ((len, Some sl, Some sl, Some c1, Some c2), sl)
  else if code =? 13 then
    match iter_varints (tl g) with
    | [d] => let sl := last_line + decode_signed_varint d in Ok ((len, Some sl, Some sl, None, None), sl)
    | _ => Err ValueErr
    end
  else if code =? 14 then
    match iter_varints (tl g) with
    | [d; eld; sc; ec] =>
        let sl := last_line + decode_signed_varint d in
        (* columns are stored +1; 0 means "no column" (None), as CPython's co_positions reports *)
        Ok ((len, Some sl, Some (sl + eld), (if sc =? 0 then None else Some (sc - 1)), (if ec =? 0 then None else Some (ec - 1))), sl)
    | _ => Err ValueErr
    end
  else Ok ((len, None, None, None, None), last_line).

Fixpoint loc_entries_go (gs : list (list Z)) (last_line : Z) : result (list pos_entry) :=
  match gs with
  | [] => Ok []
  | g :: r => match loc_entry_of g last_line with
              | Err e => Err e
              | Ok (e, ll) => do es <- loc_entries_go r ll; Ok (e :: es)
              end
  end.

Definition parse_location_entries (first : Z) (tab : list Z) : result (list pos_entry) :=
  loc_entries_go (loc_groups tab) first.

(* C07 - results do not depend on the host Python or on the loader path.
   Every test on the host's identity in the decode / listing path (regenerated from /repo's AST, Gen/HostSites.v) must
   have the same value on the six supported hosts, or be one of the tests that are meant to differ; every place where
   the host's identity flows on as a value must be a known one. *)
From Coq Require Import ZArith List String Bool.
From Xdis Require Import Base.Prelude Gen.HostSites.
Import ListNotations.
Local Open Scope string_scope.

Fixpoint all_eq (b : bool) (l : list bool) : bool :=
  match l with
  | [] => true
  | x :: tl => Bool.eqb x b && all_eq b tl
  end.

Definition constant (l : list bool) : bool :=
  match l with
  | [] => false
  | x :: tl => all_eq x tl
  end.

(* tests that are meant to tell hosts apart: building a native code object only exists for the host's own version *)
Definition meant_to_vary : list string :=
  [ "xdis.codetype.code30:Code3.to_native"; "xdis.codetype.code38:Code38.to_native"; "xdis.codetype.code310:Code310.to_native";
    "xdis.codetype.code311:Code311.to_native"; "xdis.codetype.code20:Code2.to_native"; "xdis.codetype.code15:Code15.to_native";
    "xdis.codetype.code13:Code13.to_native" ].

Definition test_ok (s : string * string * list bool) : bool :=
  let '(site, _, vals) := s in
  (Nat.eqb (List.length vals) (List.length host_list)) && (constant vals || smem site meant_to_vary).

(* places where the host's identity is used as a value, each with the reason it does not reach a decoded result of a file *)
Definition value_use_sites : list string :=
  [ "xdis.bytecode:Bytecode.from_traceback";           (* a live traceback is host code by definition *)
    "xdis.codetype.__init__:codeType2Portable";        (* default version of a NATIVE code object = the host's (C16) *)
    "xdis.codetype.__init__:portableCodeType";
    "xdis.codetype.__init__:to_portable";              (* default only; the unmarshaller passes the file's version *)
    "xdis.disasm:disassemble_file";                    (* fallback: compile a SOURCE file with the host *)
    "xdis.disasm:disco_loop";                          (* asm_format 'dis' (host dis) asserts same version *)
    "xdis.load:load_module_from_file_object";          (* the fast-path switch: decided by C01 (both readers agree) *)
    "xdis.magics:<module>"; "xdis.magics:sysinfo2magic"; "xdis.magics:test";
    "xdis.marsh:_Marshaller.dump"; "xdis.marsh:dumps"; (* writing, C13/C14 *)
    "xdis.op_imports:get_opcode_module";               (* default version only *)
    "xdis.opcodes.base:opcode_check";                  (* self-test against the host's opcode module *)
    "xdis.std:_StdApi.__init__"; "xdis.std:make_std_api";   (* the dis drop-in is about the host by default (C20) *)
    "xdis.verify:verify_file" ].

Definition use_ok (u : string * string) : bool := smem (fst u) value_use_sites.

Definition host_tests_ok : bool := forallb test_ok host_tests.
Definition host_uses_ok : bool := forallb use_ok host_value_uses.
Definition failing_tests := filter (fun s => negb (test_ok s)) host_tests.
Definition failing_uses := filter (fun u => negb (use_ok u)) host_value_uses.

(* C12 - the listing loop of xdis/bytecode.py:disassemble_bytes and the per-instruction line of
   xdis/instruction.py:Instruction.disassemble, for the formats classic and bytes (complete text) and for the
   extended formats (the part of each line that does not depend on the stack-simulating operand formatter).

   Input: the Instruction records get_instructions_bytes yields (tied to the byte code by C02/C03/C05).
   Output: the exact text Bytecode.dis() returns, as a list of code points. *)
From Coq Require Import ZArith List Bool String Ascii.
From Xdis Require Import Base.Prelude.
Import ListNotations.
Local Open Scope Z_scope.

Fixpoint s2z (s : string) : list Z :=
  match s with
  | EmptyString => []
  | String a t => Z.of_nat (nat_of_ascii a) :: s2z t
  end.

Record linstr := mk_linstr {
  li_off : Z;
  li_op : Z;
  li_name : list Z;          (* opname *)
  li_arg : option Z;
  li_repr : list Z;          (* argrepr; [] for None or '' *)
  li_argval : option Z;      (* argval when it is an int (SET_LINENO uses it) *)
  li_target : bool;
  li_line : option Z;        (* starts_line *)
  li_size : Z;               (* inst_size *)
  li_hasarg : bool
}.

Inductive lfmt := Classic | Bytes | Extended | ExtendedBytes.

Definition with_line (i : linstr) (ln : option Z) : linstr :=
  mk_linstr (li_off i) (li_op i) (li_name i) (li_arg i) (li_repr i) (li_argval i) (li_target i) ln (li_size i) (li_hasarg i).

Definition name_is (i : linstr) (s : string) : bool := zlist_eqb (li_name i) (s2z s).
Definition is_setlineno (i : linstr) := name_is i "SET_LINENO".
Definition is_cache (i : linstr) := name_is i "CACHE".
Definition is_reserve_fast (i : linstr) := name_is i "RESERVE_FAST".

(* `instr.opname == "CACHE" and asm_format not in ("extended_bytes", "bytes")`: the tuple spells extended_bytes with an
   underscore, the format is called extended-bytes, so only `bytes` shows CACHE entries *)
Definition hides_cache (f : lfmt) : bool := match f with Bytes => false | _ => true end.
Definition hidden (f : lfmt) (i : linstr) : bool := is_cache i && hides_cache f.

Inductive event := EBlank | ERow (i : linstr) | EWarn.

(* the loop: `pend` = Some n when the previous instruction was SET_LINENO with argval n *)
Definition blank_before (i : linstr) : bool :=
  match li_line i with Some _ => 0 <? li_off i | None => false end.

Fixpoint events (f : lfmt) (pend : option (option Z)) (is : list linstr) : list event :=
  match is with
  | [] => []
  | i0 :: tl =>
      let i := match pend with Some ln => with_line i0 ln | None => i0 end in
      let pend' := if is_setlineno i then Some (li_argval i) else None in
      (if blank_before i then [EBlank] else []) ++
      (if hidden f i then [] else ERow i :: (if is_reserve_fast i then [EWarn] else [])) ++
      events f pend' tl
  end.

(* ---- text ---- *)
Definition digit_char (d : Z) : Z := if d <? 10 then 48 + d else 87 + d.   (* 0-9 a-f *)

Fixpoint radix_fuel (fuel : nat) (b n : Z) (acc : list Z) : list Z :=
  match fuel with
  | O => acc
  | S k => let acc' := digit_char (n mod b) :: acc in
           if n / b =? 0 then acc' else radix_fuel k b (n / b) acc'
  end.

Definition radix (b n : Z) : list Z := radix_fuel (S (Z.to_nat (Z.log2 n))) b n [].
Definition dec (n : Z) : list Z := if n <? 0 then 45 :: radix 10 (- n) else radix 10 n.
Definition hex (n : Z) : list Z := if n <? 0 then 45 :: radix 16 (- n) else radix 16 n.

Definition spaces (n : Z) : list Z := repeat 32 (Z.to_nat n).
Definition rjust (w : Z) (s : list Z) : list Z := spaces (w - zlen s) ++ s.
Definition ljust (w : Z) (s : list Z) : list Z := s ++ spaces (w - zlen s).
(* "%02x" *)
Definition hex2 (n : Z) : list Z := let h := hex n in if zlen h <? 2 then 48 :: h else h.

Fixpoint join_sp (fs : list (list Z)) : list Z :=
  match fs with
  | [] => []
  | [x] => x
  | x :: tl => x ++ 32 :: join_sp tl
  end.

Definition line_field (i : linstr) : list Z :=
  match li_line i with
  | Some n => rjust 3 (dec n) ++ [58]
  | None => spaces 4
  end.

Definition mark_field (i : linstr) : list Z := if li_target i then s2z ">>" else spaces 2.

Definition hex_field (i : linstr) : list Z :=
  let h0 := 124 :: hex2 (li_op i) in
  let h1 := if li_size i =? 1 then h0 ++ spaces 6 else h0 in
  let h2 :=
    if li_size i =? 2 then
      match li_hasarg i, li_arg i with
      | true, Some a => h1 ++ 32 :: hex2 (a mod 256)
      | _, _ => h1 ++ s2z " 00"
      end
    else if li_size i =? 3 then
      match li_arg i with
      | Some a => h1 ++ 32 :: hex2 (a / 256) ++ 32 :: hex2 (a mod 256)
      | None => h1
      end
    else h1 in
  h2 ++ [124].

(* the fields up to the opcode name: the same in all four formats but for the byte column *)
Definition has_bytes (f : lfmt) : bool := match f with Bytes | ExtendedBytes => true | _ => false end.

Definition prefix_fields (f : lfmt) (i : linstr) : list (list Z) :=
  [line_field i; spaces 3; mark_field i; rjust 4 (dec (li_off i))] ++ (if has_bytes f then [hex_field i] else []).

(* classic / bytes operand: "(argrepr)" when there is one, else repr(arg); nothing when there is no operand,
   and then the rstrip() removes the padding of the name column *)
Definition row_text (f : lfmt) (i : linstr) : list Z :=
  match li_arg i with
  | None => join_sp (prefix_fields f i ++ [li_name i])
  | Some a =>
      join_sp (prefix_fields f i ++ [ljust 20 (li_name i); match li_repr i with [] => dec a | r => 40 :: r ++ [41] end])
  end.

(* what every format's line starts with *)
Definition row_prefix (f : lfmt) (i : linstr) : list Z := join_sp (prefix_fields f i ++ [li_name i]).

Definition warn_text : list Z :=
  s2z "# Warning: subsequent LOAD_FAST and STORE_FAST after RESERVE_FAST are inaccurate here in Python before 1.5".

Definition event_text (f : lfmt) (e : event) : list Z :=
  match e with
  | EBlank => [10]
  | ERow i => row_text f i ++ [10]
  | EWarn => warn_text ++ [10]
  end.

Definition listing_text (f : lfmt) (is : list linstr) : list Z :=
  List.concat (map (event_text f) (events f None is)).

(* lines of the extended formats: every emitted line starts with the row prefix; blank lines are empty *)
Definition event_prefix (f : lfmt) (e : event) : list Z :=
  match e with
  | EBlank => []
  | ERow i => row_prefix f i
  | EWarn => warn_text
  end.

Fixpoint is_prefix (p l : list Z) : bool :=
  match p, l with
  | [], _ => true
  | x :: p', y :: l' => (x =? y) && is_prefix p' l'
  | _ :: _, [] => false
  end.

(* the expected prefixes occur, in order, as beginnings of lines of the text (operand text of the extended formats may
   itself contain line breaks: dictionary keys are inserted raw) *)
Fixpoint lines_ok (ps : list (list Z)) (ls : list (list Z)) : bool :=
  match ps with
  | [] => true
  | p :: ps' =>
      (fix find (ls : list (list Z)) : bool :=
         match ls with
         | [] => false
         | l :: ls' => if is_prefix p l then lines_ok ps' ls' else find ls'
         end) ls
  end.

Definition listing_prefixes (f : lfmt) (is : list linstr) : list (list Z) := map (event_prefix f) (events f None is).

(* ---- the "ExceptionTable:" section (cross_dis.format_exception_table): one line per entry of the parsed table ---- *)
Definition exc_line (e : Z * Z * Z * Z * bool) : list Z :=
  let '(s, en, t, d, l) := e in
  s2z "  " ++ dec s ++ s2z " to " ++ dec (en - 2) ++ s2z " -> " ++ dec t ++ s2z " [" ++ dec d ++ s2z "]" ++ (if l then s2z " lasti" else []).
Definition exc_lines (es : list (Z * Z * Z * Z * bool)) : list (list Z) := s2z "ExceptionTable:" :: map exc_line es.
Fixpoint join_nl (ls : list (list Z)) : list Z :=
  match ls with
  | [] => []
  | [x] => x
  | x :: tl => x ++ 10 :: join_nl tl
  end.
Definition exc_table_text (es : list (Z * Z * Z * Z * bool)) : list Z := join_nl (exc_lines es).

(* Hand model of the freeze() line-table encoders:
     xdis/codetype/code15.py:Code15.encode_lineno_tab   (1.5 - 2.x)
     xdis/codetype/code30.py:Code3.encode_lineno_tab    (3.0 - 3.9)
     xdis/codetype/code310.py:Code310.encode_lineno_tab (3.10)
   The Python `while` loops are modelled by their closed forms (the number of
   iterations is a quotient); the correspondence check runs both on the same inputs.
   Input: the (offset, line) list freeze() hands over (a dict is sorted by offset first). *)
From Xdis Require Import Base.Prelude.

(* while od > 255: emit (255, 0); od -= 255 *)
Definition off_steps (od : Z) : Z := if od >? 255 then (od - 1) / 255 else 0.
(* while ld > 127: emit (od, 127); od = 0; ld -= 127 *)
Definition pos_steps (ld : Z) : Z := if ld >? 127 then (ld - 1) / 127 else 0.
(* while ld < -128: emit (od, 0x80); od = 0; ld += 128 *)
Definition neg_steps (ld : Z) : Z := if ld <? -128 then (- ld - 1) / 128 else 0.

Definition bytes_of_pairs (ps : list (Z * Z)) : list Z := flat_map (fun '(a, b) => [a; b]) ps.

(* line-increment bytes of one step, in emission order; the first is paired with the
   remaining address increment, the others with 0 *)
Definition attach (od1 : Z) (cs : list Z) : list (Z * Z) :=
  match cs with [] => [] | c :: r => (od1, c) :: map (fun c => (0, c)) r end.

Definition chunks3 (ld : Z) : list Z :=
  let qp := pos_steps ld in
  let ld1 := ld - 127 * qp in
  let qn := neg_steps ld1 in
  let ld2 := ld1 + 128 * qn in
  repeat 127 (Z.to_nat qp) ++ repeat 128 (Z.to_nat qn) ++ [ld2 mod 256].

(* the pairs one (offset_diff, line_diff) step produces - Code3 (signed) *)
Definition enc3_entry (od ld : Z) : list (Z * Z) :=
  let qo := off_steps od in
  repeat (255, 0) (Z.to_nat qo) ++ attach (od - 255 * qo) (chunks3 ld).

Fixpoint enc3_go (m : list (Z * Z)) (prev_off prev_line : Z) : list (Z * Z) :=
  match m with
  | [] => []
  | (o, l) :: r => enc3_entry (o - prev_off) (l - prev_line) ++ enc3_go r o l
  end.
Definition encode_lineno_tab_30 (first : Z) (m : list (Z * Z)) : list Z := bytes_of_pairs (enc3_go m 0 first).

(* Code15: entries with a negative line step are skipped (`continue`), increments <= 127 *)
Definition chunks15 (ld : Z) : list Z :=
  let qp := pos_steps ld in
  repeat 127 (Z.to_nat qp) ++ [ld - 127 * qp].
Definition enc15_entry (od ld : Z) : list (Z * Z) :=
  let qo := off_steps od in
  repeat (255, 0) (Z.to_nat qo) ++ attach (od - 255 * qo) (chunks15 ld).

Fixpoint enc15_go (m : list (Z * Z)) (prev_off prev_line : Z) : list (Z * Z) :=
  match m with
  | [] => []
  | (o, l) :: r => if l - prev_line <? 0 then enc15_go r prev_off prev_line
                   else enc15_entry (o - prev_off) (l - prev_line) ++ enc15_go r o l
  end.
Definition encode_lineno_tab_15 (first : Z) (m : list (Z * Z)) : list Z := bytes_of_pairs (enc15_go m 0 first).

(* Code310: one range per mapping entry, ending where the next one starts (the last at len(co_code)) *)
Definition pos_steps310 (ld : Z) : Z := if ld >? 127 then (ld - 1) / 127 else 0.
Definition neg_steps310 (ld : Z) : Z := if ld <? -127 then (- ld - 1) / 127 else 0.
Definition off_steps310 (od : Z) : Z := if od >? 254 then (od - 1) / 254 else 0.

Definition enc310_entry (od ld : Z) : list (Z * Z) :=
  let qp := pos_steps310 ld in
  let ld1 := ld - 127 * qp in
  let qn := neg_steps310 ld1 in
  let ld2 := ld1 + 127 * qn in
  let qo := off_steps310 od in
  let od1 := od - 254 * qo in
  repeat (0, 127) (Z.to_nat qp) ++ repeat (0, 129) (Z.to_nat qn)
  ++ (if qo >? 0 then (254, ld2 mod 256) :: repeat (254, 0) (Z.to_nat (qo - 1)) else [])
  ++ [(od1, (if qo >? 0 then 0 else ld2 mod 256))].

Fixpoint enc310_go (m : list (Z * Z)) (prev_line code_len : Z) : list (Z * Z) :=
  match m with
  | [] => []
  | (o, l) :: r =>
      let end_offset := match r with (o', _) :: _ => o' | [] => Z.max code_len o end in
      enc310_entry (end_offset - o) (l - prev_line) ++ enc310_go r l code_len
  end.
Definition encode_lineno_tab_310 (first code_len : Z) (m : list (Z * Z)) : list Z := bytes_of_pairs (enc310_go m first code_len).

(* code before the first entry belongs to no line: ranges of up to 254 bytes whose line delta is -128 (the byte 128) *)
Definition lead310 (o : Z) : list (Z * Z) :=
  if o >? 0 then repeat (254, 128) (Z.to_nat ((o - 1) / 254)) ++ [(o - 254 * ((o - 1) / 254), 128)] else [].
(* Code310.encode_lineno_tab as it is: the lead-in, then the entries *)
Definition encode_lineno_tab_310_full (first code_len : Z) (m : list (Z * Z)) : list Z :=
  bytes_of_pairs ((match m with (o, _) :: _ => lead310 o | [] => [] end) ++ enc310_go m first code_len).

(* Canonical observation (a flat list Z) of the header parser, shared with
   tools/harness/impl_run.py:op_header. *)
From Xdis Require Import Base.Prelude Base.Result Model.Load.

Definition oopt (o : option Z) : list Z := match o with None => [0] | Some x => [1; x] end.

Definition obs_header (name38 : bool) (bs : list Z) : list Z :=
  match parse_header name38 bs with
  | Err e => [1; err_code e]
  | Ok h => [0; zlen (h_version h)] ++ h_version h ++ oopt (h_timestamp h)
            ++ [h_magic_int h; if h_pypy h then 1 else 0] ++ oopt (h_size h) ++ oopt (h_sip h) ++ [zlen (h_rest h)]
  end.

(* Hand model of xdis/cross_dis.py:findlinestarts (the co_lnotab branch and the
   co_lines branch) and xdis/bytecode.py:offset2line.  Definitions only. *)
From Xdis Require Import Base.Prelude Base.LE.

(* zip(lnotab[0::2], lnotab[1::2]) *)
Fixpoint pairs (l : list Z) : list (Z * Z) :=
  match l with a :: b :: r => (a, b) :: pairs r | _ => [] end.

Definition differs (lineno : Z) (last : option Z) : bool :=
  match last with None => true | Some l => negb (lineno =? l) end.

Record ls_state := {
  ls_offset : Z; ls_lineno : Z; ls_last : option Z; ls_bi : Z;   (* byte_incr of the last iteration *)
  ls_out : list (Z * Z);                                           (* reversed *)
  ls_stopped : bool                                                (* `return` inside the loop *)
}.

(* one iteration of `for byte_incr, line_delta in zip(...)` *)
Definition ls_step (signed stop dup : bool) (codelen : Z) (s : ls_state) (p : Z * Z) : ls_state :=
  if ls_stopped s then s else
  let '(bi, ld) := p in
  let s1 :=
    if bi =? 0 then {| ls_offset := ls_offset s; ls_lineno := ls_lineno s; ls_last := ls_last s; ls_bi := bi;
                       ls_out := ls_out s; ls_stopped := false |}
    else
      let emit := differs (ls_lineno s) (ls_last s) || (dup && (0 <? bi) && (bi <? 255)) in
      let off' := ls_offset s + bi in
      {| ls_offset := off'; ls_lineno := ls_lineno s;
         ls_last := if emit then Some (ls_lineno s) else ls_last s; ls_bi := bi;
         ls_out := if emit then (ls_offset s, ls_lineno s) :: ls_out s else ls_out s;
         ls_stopped := stop && (codelen <=? off') |} in
  if ls_stopped s1 then s1 else
  let ld' := if signed && (128 <=? ld) then ld - 256 else ld in
  {| ls_offset := ls_offset s1; ls_lineno := ls_lineno s1 + ld'; ls_last := ls_last s1; ls_bi := ls_bi s1;
     ls_out := ls_out s1; ls_stopped := false |}.

Definition ls_finish (dup : bool) (s : ls_state) : list (Z * Z) :=
  if ls_stopped s then rev (ls_out s)
  else if differs (ls_lineno s) (ls_last s) || (dup && (0 <? ls_bi s) && (ls_bi s <? 255))
       then rev ((ls_offset s, ls_lineno s) :: ls_out s) else rev (ls_out s).

(* version_tuple -> (signed_deltas, stop_at_end); None = version not given *)
Definition ls_flags (version : option (list Z)) : bool * bool :=
  match version with
  | None => (true, true)
  | Some v => (tuple_geb v [3; 6], tuple_geb v [3; 8])
  end.

(* findlinestarts on a bytes co_lnotab *)
Definition findlinestarts_lnotab (version : option (list Z)) (dup : bool) (first codelen : Z) (lnotab : list Z) : list (Z * Z) :=
  match lnotab with
  | [] => [(0, first)]
  | _ =>
      let '(signed, stop) := ls_flags version in
      ls_finish dup (fold_left (ls_step signed stop dup codelen) (pairs lnotab)
        {| ls_offset := 0; ls_lineno := first; ls_last := None; ls_bi := 0; ls_out := []; ls_stopped := false |})
  end.

(* findlinestarts on an object with co_lines(): (start, end, line-or-None) triples *)
Fixpoint fls_colines (ls : list (Z * Z * option Z)) (last : option Z) : list (Z * Z) :=
  match ls with
  | [] => []
  | (start, _, None) :: r => fls_colines r last
  | (start, _, Some l) :: r => if differs l last then (start, l) :: fls_colines r (Some l) else fls_colines r last
  end.

(* the 3.13 variant also reports None lines; lastline starts as the sentinel False *)
Fixpoint fls_colines_313 (ls : list (Z * Z * option Z)) (last : option (option Z)) : list (Z * option Z) :=
  match ls with
  | [] => []
  | (start, _, l) :: r =>
      let same := match last, l with
                  | Some (Some a), Some b => a =? b
                  | Some None, None => true
                  | _, _ => false end in
      if same then fls_colines_313 r last else (start, l) :: fls_colines_313 r (Some l)
  end.

(* ---- offset2line: the binary search as written ---- *)
Definition nth_off (ls : list (Z * Z)) (i : Z) : Z := fst (nth (Z.to_nat i) ls (0, 0)).
Definition nth_line (ls : list (Z * Z)) (i : Z) : Z := snd (nth (Z.to_nat i) ls (0, 0)).

Fixpoint o2l_loop (fuel : nat) (ls : list (Z * Z)) (offset low high mid : Z) : option Z :=
  match fuel with
  | O => None
  | S f =>
      if low <=? high then
        if nth_off ls mid >? offset then
          let high' := mid - 1 in o2l_loop f ls offset low high' ((low + high' + 1) / 2)
        else if nth_off ls mid <? offset then
          let low' := mid + 1 in o2l_loop f ls offset low' high ((low' + high + 1) / 2)
        else Some (nth_line ls mid)
      else
        if zlen ls <=? mid then Some (nth_line ls (zlen ls - 1)) else Some (nth_line ls high)
  end.

Definition offset2line (offset : Z) (ls : list (Z * Z)) : option Z :=
  match ls with
  | [] => Some 0
  | (o0, _) :: _ =>
      if offset <? o0 then Some 0
      else let high := zlen ls - 1 in
           o2l_loop (S (List.length ls)) ls offset 0 high ((0 + high + 1) / 2)
  end.

(* Boolean checkers for C09 over the generated opcode tables, each with a failure
   list so a false obligation names the offending (table, check, opcode). *)
From Xdis Require Import Base.Prelude Base.OpTable Model.Magic Gen.Opcodes Gen.RefOpcodes.
From Coq Require Import Ascii.
Local Open Scope string_scope.
Infix "+++" := (@app _) (at level 60, right associativity).

Fixpoint fix_name (s : string) : string :=
  match s with
  | EmptyString => EmptyString
  | String c r => String (if Ascii.eqb c "+"%char then "_"%char else c) (fix_name r)
  end.

Definition placeholder (n : Z) : string := "<" ++ z2str n ++ ">".
Definition defined (t : optable) (op : Z) : bool := zmem op (map snd (t_opmap t)).

Fixpoint nodup_z (l : list Z) : bool :=
  match l with [] => true | x :: r => negb (zmem x r) && nodup_z r end.
Fixpoint nodup_s (l : list string) : bool :=
  match l with [] => true | x :: r => negb (smem x r) && nodup_s r end.

Definition subset_z (a b : list Z) : bool := forallb (fun x => zmem x b) a.
Definition seteq_z (a b : list Z) : bool := subset_z a b && subset_z b a.

Definition F := (string * string * Z)%type.   (* table, check, opcode *)
Definition fails (t : optable) (chk : string) (l : list Z) : list F := map (fun op => (t_name t, chk, op)) l.
Definition fail_if (t : optable) (chk : string) (b : bool) : list F := if b then [] else [(t_name t, chk, (-1)%Z)].

(* --- names <-> numbers --- *)
Definition chk_bijection (t : optable) : list F :=
  fail_if t "opmap names unique" (nodup_s (map fst (t_opmap t)))
  +++ fail_if t "opmap numbers unique" (nodup_z (map snd (t_opmap t)))
  +++ fails t "opname[opmap[name]] <> name"
       (map snd (filter (fun '(nm, n) => negb (String.eqb (fix_name (opname_of t n)) nm)) (t_opmap t)))
  +++ fails t "opname[n] names an opcode opmap does not map to n"
       (filter (fun n => negb (String.eqb (opname_of t n) (placeholder n)
                               || match sassoc (fix_name (opname_of t n)) (t_opmap t) with Some m => (m =? n)%Z | None => false end))
               (map Z.of_nat (seq 0 (List.length (t_opname t))))).

(* --- categories --- *)
Definition categories (t : optable) : list (string * list Z) :=
  [("hasjrel", t_hasjrel t); ("hasjabs", t_hasjabs t); ("hasconst", t_hasconst t); ("hasname", t_hasname t);
   ("haslocal", t_haslocal t); ("hasfree", t_hasfree t); ("hascompare", t_hascompare t)].
Definition ref_categories (r : reftable) : list (string * list Z) :=
  [("hasjrel", r_hasjrel r); ("hasjabs", r_hasjabs r); ("hasconst", r_hasconst r); ("hasname", r_hasname r);
   ("haslocal", r_haslocal r); ("hasfree", r_hasfree r); ("hascompare", r_hascompare r)].

Definition ref_for (t : optable) : option reftable :=
  if t_pypy t then None
  else find (fun r => zlist_eqb (r_version r) (firstn 2 (t_version t))) all_refs.

(* "unless CPython's own table has the same gap": the reference lists op in the same
   category although it is undefined there or below its HAVE_ARGUMENT *)
Definition ref_same_gap (t : optable) (cat : string) (op : Z) : bool :=
  match ref_for t with
  | None => false
  | Some r => match sassoc cat (ref_categories r) with
              | Some l => zmem op l && (negb (zmem op (map snd (r_opmap r))) || (op <? r_have_argument r)%Z)
              | None => false end
  end.

Definition chk_categories (t : optable) : list F :=
  flat_map (fun '(cat, l) =>
      fails t (cat ++ " member undefined") (filter (fun op => negb (defined t op) && negb (ref_same_gap t cat op)) l)
      +++ fails t (cat ++ " member takes no operand") (filter (fun op => (op <? t_have_argument t)%Z && negb (ref_same_gap t cat op)) l))
    (categories t).

Definition chk_disjoint (t : optable) : list F :=
  fails t "both relative and absolute jump" (filter (fun op => zmem op (t_hasjabs t)) (t_hasjrel t)).

Definition chk_extended (t : optable) : list F :=
  fail_if t "EXTENDED_ARG is the opcode named so" (match sassoc "EXTENDED_ARG" (t_opmap t) with Some n => (n =? t_extended_arg t)%Z | None => false end)
  +++ fail_if t "EXTENDED_ARG shift" ((t_shift t =? (if tuple_ltb (t_version t) [3; 6]%Z then 16 else 8))%Z).

(* the frozensets the decoder actually consults are the category lists *)
Definition chk_frozen (t : optable) : list F :=
  fail_if t "JREL_OPS = hasjrel" (seteq_z (t_jrel_ops t) (t_hasjrel t))
  +++ fail_if t "JABS_OPS = hasjabs" (seteq_z (t_jabs_ops t) (t_hasjabs t))
  +++ fail_if t "CONST_OPS = hasconst" (seteq_z (t_const_ops t) (t_hasconst t))
  +++ fail_if t "NAME_OPS = hasname" (seteq_z (t_name_ops t) (t_hasname t))
  +++ fail_if t "LOCAL_OPS = haslocal" (seteq_z (t_local_ops t) (t_haslocal t))
  +++ fail_if t "FREE_OPS = hasfree" (seteq_z (t_free_ops t) (t_hasfree t))
  +++ fail_if t "COMPARE_OPS = hascompare" (seteq_z (t_compare_ops t) (t_hascompare t)).

(* which label finder a table binds: byte code (<= 3.5) or word code *)
Definition chk_finder (t : optable) : list F :=
  fail_if t "findlabels binding" (String.eqb (t_findlabels t)
     (if tuple_ltb (t_version t) [3; 6]%Z then "cross_dis.findlabels" else "wordcode.findlabels")).

(* opcodes whose jump class is the same in every CPython release that has them (opcode.py / dis.py: jrel_op, jabs_op), checked by NAME so that the
   tables of versions without an installed interpreter are covered too: FOR_LOOP (1.0-2.2, "number of bytes to skip"), JUMP_FORWARD, SETUP_LOOP,
   SETUP_EXCEPT, SETUP_FINALLY and FOR_ITER are relative; JUMP_ABSOLUTE and CONTINUE_LOOP are absolute *)
Definition always_rel : list string := ["FOR_LOOP"; "JUMP_FORWARD"; "SETUP_LOOP"; "SETUP_EXCEPT"; "FOR_ITER"]%string.
Definition always_abs : list string := ["JUMP_ABSOLUTE"; "CONTINUE_LOOP"]%string.
Definition chk_jump_names (t : optable) : list F :=
  fails t "a relative jump by name (jrel_op in every CPython that has it) is not in hasjrel"
        (flat_map (fun nm => match sassoc nm (t_opmap t) with Some n => if zmem n (t_hasjrel t) then [] else [n] | None => [] end) always_rel)
  +++ fails t "an absolute jump by name (jabs_op in every CPython that has it) is not in hasjabs"
        (flat_map (fun nm => match sassoc nm (t_opmap t) with Some n => if zmem n (t_hasjabs t) then [] else [n] | None => [] end) always_abs).

Definition table_failures (t : optable) : list F :=
  chk_bijection t +++ chk_categories t +++ chk_disjoint t +++ chk_extended t +++ chk_frozen t +++ chk_finder t.
Definition coherence_failures : list F := flat_map table_failures all_tables +++ flat_map chk_jump_names all_tables.

(* --- agreement with the interpreter's opcode module, where one is installed --- *)
Definition pair_eqb (a b : string * Z) : bool := String.eqb (fst a) (fst b) && (snd a =? snd b)%Z.
Definition opmap_subset (a b : list (string * Z)) : list Z :=
  map snd (filter (fun p => negb (existsb (pair_eqb p) b)) a).
Definition fix_pairs (l : list (string * Z)) := map (fun '(n, v) => (fix_name n, v)) l.

Definition oracle_failures_t (t : optable) : list F :=
  match ref_for t with
  | None => []
  | Some r =>
      fails t "opmap entry not in CPython's opmap" (opmap_subset (t_opmap t) (fix_pairs (r_opmap r)))
      +++ fails t "CPython opmap entry missing" (opmap_subset (fix_pairs (r_opmap r)) (t_opmap t))
      (* the name dis prints: opname[n], spelled as CPython spells it ('SLICE+1' keeps its '+'; only opmap's keys are normalised) *)
      +++ fails t "opname[n] is not CPython's name of n" (map snd (filter (fun '(nm, n) => negb (String.eqb (opname_of t n) nm)) (r_opmap r)))
      +++ fail_if t "HAVE_ARGUMENT" (t_have_argument t =? r_have_argument r)%Z
      +++ fail_if t "EXTENDED_ARG" (t_extended_arg t =? r_extended_arg r)%Z
      +++ flat_map (fun '(cat, l) => match sassoc cat (ref_categories r) with
                                    | Some l' => fails t (cat ++ " has extra member") (filter (fun op => negb (zmem op l')) l)
                                                 +++ fails t (cat ++ " misses member") (filter (fun op => negb (zmem op l)) l')
                                    | None => [] end) (categories t)
  end.
Definition oracle_failures : list F := flat_map oracle_failures_t all_tables.
Definition tables_with_oracle : list string := map t_name (filter (fun t => is_some (ref_for t)) all_tables).
Definition tables_without_oracle : list string := map t_name (filter (fun t => negb (is_some (ref_for t))) all_tables).

(* every op_imports key names a generated table *)
Definition keymap_failures : list string :=
  map fst (filter (fun '(k, m) => negb (smem m (map t_name all_tables))) key_map).

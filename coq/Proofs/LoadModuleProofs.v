From Xdis Require Import Base.Prelude Base.Result Base.LE Model.Magic Model.Load Model.Unmarshal Model.UnmarshalObs Model.LoadModule Gen.Magics.

(* every magic of the table has a version tuple: magic_int2tuple never raises RuntimeError *)
Definition tuples_ok : bool := forallb (fun '(_, t) => is_some t) magic_tuple.
Lemma tuples_ok_true : tuples_ok = true.
Proof. vm_compute. reflexivity. Qed.

Lemma zassoc_in {A} k (l : list (Z * A)) v : zassoc k l = Some v -> In (k, v) l.
Proof.
  induction l as [|[k' v'] l IH]; cbn; [discriminate|].
  destruct (k =? k') eqn:E; [intros H; inversion H; subst; left; f_equal; symmetry; apply Z.eqb_eq; exact E | intros H; right; auto].
Qed.

Lemma version_of_cases m : (exists t, version_of m = Ok t) \/ version_of m = Err KeyErr.
Proof.
  unfold version_of. destruct (zassoc m magic_tuple) as [[t|]|] eqn:E; [left; eauto| |right; reflexivity].
  exfalso. apply zassoc_in in E. pose proof (proj1 (forallb_forall _ _) tuples_ok_true _ E) as H. discriminate H.
Qed.

Lemma decide_cases magic : List.length magic = 4%nat ->
  decide magic = DErr ImportErr \/ decide magic = DDropbox \/ exists tv mi v, decide magic = DHeader tv mi v.
Proof.
  intros Hl. destruct magic as [|b0 [|b1 [|b2 [|b3 [|]]]]]; try discriminate Hl.
  unfold decide. cbn [magic2int].
  destruct (version_of_cases (b0 + 256 * b1)) as [[t Ht]|Hk]; rewrite ?Ht, ?Hk; [|left; reflexivity].
  destruct (zmem (b0 + 256 * b1) interim_rejected); [left; reflexivity|].
  destruct (zmem (b0 + 256 * b1) dropbox_fix_magic); [right; left; reflexivity|].
  destruct (zmem (b0 + 256 * b1) other_rejected); [left; reflexivity|].
  match goal with |- context [magic2int ?m] => destruct (magic2int m) as [mi|] end; [|left; reflexivity].
  destruct (version_of_cases mi) as [[t' Ht']|Hk']; rewrite ?Ht', ?Hk'; [right; right; eauto|left; reflexivity].
Qed.

Theorem only_importerror d bs : load_module_outcome d bs = Returned \/ load_module_outcome d bs = Raised ImportErr.
Proof.
  unfold load_module_outcome. destruct (zlen bs <? 50) eqn:E; [right; reflexivity|].
  assert (Hl : List.length (firstn 4 bs) = 4%nat).
  { rewrite firstn_length. unfold zlen in E. apply Z.ltb_ge in E. apply Nat.min_l. apply Nat2Z.inj_le. cbn. 
    eapply Z.le_trans; [|exact E]. discriminate. }
  unfold take. destruct (decide_cases (firstn 4 bs) Hl) as [H|[H|(tv & mi & v & H)]]; rewrite H.
  - right; reflexivity.
  - destruct d; [left|right]; reflexivity.
  - destruct (parse_fields mi v (skipn 4 bs)) as [[[[? ?] ?] rest]|e]; [|right; reflexivity].
    destruct (load (xdis_cfg mi) rest); [left|right]; reflexivity.
Qed.

(* C12 - what the listing loop emits, as a function of the instruction stream. *)
From Coq Require Import ZArith List Bool String Lia Sorted.
From Xdis Require Import Base.Prelude Model.Listing.
Import ListNotations.
Local Open Scope Z_scope.

(* ---- specification side: the instruction stream with SET_LINENO's line carried to the next instruction ---- *)
Fixpoint reline (pend : option (option Z)) (is : list linstr) : list linstr :=
  match is with
  | [] => []
  | i0 :: tl =>
      let i := match pend with Some ln => with_line i0 ln | None => i0 end in
      i :: reline (if is_setlineno i then Some (li_argval i) else None) tl
  end.

Definition rows (evs : list event) : list linstr :=
  flat_map (fun e => match e with ERow i => [i] | _ => [] end) evs.

Definition shown (f : lfmt) (i : linstr) : bool := negb (hidden f i).

(* everything of an instruction the listing line shows, except the line number *)
Definition key (i : linstr) := (li_off i, li_op i, li_name i, li_arg i, li_repr i, li_target i, li_size i, li_hasarg i).

Lemma rows_app a b : rows (a ++ b) = rows a ++ rows b.
Proof. unfold rows. apply flat_map_app. Qed.

Lemma rows_events f : forall is pend, rows (events f pend is) = filter (shown f) (reline pend is).
Proof.
  induction is as [|i0 tl IH]; intros pend; [reflexivity|].
  cbn [events reline filter].
  set (i := match pend with Some ln => with_line i0 ln | None => i0 end).
  rewrite !rows_app, IH. unfold shown at 2.
  destruct (blank_before i); destruct (hidden f i); destruct (is_reserve_fast i); reflexivity.
Qed.

Lemma with_line_key i ln : key (with_line i ln) = key i.
Proof. reflexivity. Qed.

Lemma hidden_key f i j : key i = key j -> hidden f i = hidden f j.
Proof. unfold key, hidden, is_cache, name_is. intros H. inversion H. congruence. Qed.

Lemma reline_keys f : forall is pend,
  map key (filter (shown f) (reline pend is)) = map key (filter (shown f) is).
Proof.
  induction is as [|i0 tl IH]; intros pend; [reflexivity|].
  cbn [reline filter].
  set (i := match pend with Some ln => with_line i0 ln | None => i0 end).
  assert (Hk : key i = key i0) by (subst i; destruct pend; reflexivity).
  assert (Hs : shown f i = shown f i0) by (unfold shown; rewrite (hidden_key f i i0 Hk); reflexivity).
  rewrite Hs. destruct (shown f i0); cbn [map]; rewrite ?Hk, IH; reflexivity.
Qed.

(* each instruction the format shows appears exactly once, in order, with its own fields *)
Lemma listing_rows_keys f is :
  map key (rows (events f None is)) = map key (filter (shown f) is).
Proof. rewrite rows_events. apply reline_keys. Qed.

Lemma shown_classic i : shown Classic i = negb (is_cache i).
Proof. unfold shown, hidden. cbn. rewrite andb_true_r. reflexivity. Qed.

Lemma shown_bytes i : shown Bytes i = true.
Proof. unfold shown, hidden. cbn. rewrite andb_false_r. reflexivity. Qed.

Lemma filter_all_true {A} (p : A -> bool) l : (forall x, p x = true) -> filter p l = l.
Proof. intros H. induction l as [|x l IH]; cbn; [reflexivity|]. rewrite H, IH. reflexivity. Qed.

Lemma listing_rows_bytes is : map key (rows (events Bytes None is)) = map key is.
Proof. rewrite listing_rows_keys, (filter_all_true (shown Bytes)); [reflexivity | apply shown_bytes]. Qed.

(* offsets: strictly increasing in, strictly increasing out; so no offset is listed twice *)
Lemma map_off_keys l1 l2 : map key l1 = map key l2 -> map li_off l1 = map li_off l2.
Proof.
  revert l2. induction l1 as [|a l1 IH]; destruct l2 as [|b l2]; cbn; intros H; try discriminate; [reflexivity|].
  assert (H0 : key a = key b) by congruence. assert (H1 : map key l1 = map key l2) by congruence.
  rewrite (IH l2 H1). unfold key in H0. assert (Ho : li_off a = li_off b) by congruence. rewrite Ho. reflexivity.
Qed.

Lemma sorted_filter (p : linstr -> bool) l :
  StronglySorted Z.lt (map li_off l) -> StronglySorted Z.lt (map li_off (filter p l)).
Proof.
  induction l as [|a l IH]; cbn; intros H; [constructor|].
  inversion H as [|x xs Hs Hall]; subst.
  destruct (p a); cbn; [constructor|]; auto.
  rewrite Forall_forall in *. intros y Hy. apply Hall.
  rewrite in_map_iff in *. destruct Hy as [z [Hz Hin]]. exists z. split; [assumption|].
  apply filter_In in Hin. tauto.
Qed.

Lemma sorted_nodup l : StronglySorted Z.lt l -> NoDup l.
Proof.
  induction 1 as [|a l Hs IH Hall]; constructor; [|assumption].
  intros Hin. rewrite Forall_forall in Hall. specialize (Hall a Hin). lia.
Qed.

Lemma listing_offsets_once f is :
  StronglySorted Z.lt (map li_off is) ->
  StronglySorted Z.lt (map li_off (rows (events f None is))) /\ NoDup (map li_off (rows (events f None is))).
Proof.
  intros H. rewrite (map_off_keys _ _ (listing_rows_keys f is)).
  pose proof (sorted_filter (shown f) is H). split; [assumption | apply sorted_nodup; assumption].
Qed.

(* line numbers: an instruction's own starts_line, unless it follows SET_LINENO *)
Fixpoint spec_lines (prev : option linstr) (is : list linstr) : list (option Z) :=
  match is with
  | [] => []
  | i :: tl =>
      (match prev with
       | Some p => if is_setlineno p then li_argval p else li_line i
       | None => li_line i
       end) :: spec_lines (Some i) tl
  end.

Definition pend_of (prev : option linstr) : option (option Z) :=
  match prev with Some p => if is_setlineno p then Some (li_argval p) else None | None => None end.

Lemma is_setlineno_with_line i ln : is_setlineno (with_line i ln) = is_setlineno i.
Proof. reflexivity. Qed.

Lemma reline_lines : forall is prev, map li_line (reline (pend_of prev) is) = spec_lines prev is.
Proof.
  induction is as [|i0 tl IH]; intros prev; [reflexivity|].
  cbn [reline spec_lines map].
  set (i := match pend_of prev with Some ln => with_line i0 ln | None => i0 end).
  assert (Hs : is_setlineno i = is_setlineno i0) by (subst i; destruct (pend_of prev); reflexivity).
  assert (Ha : li_argval i = li_argval i0) by (subst i; destruct (pend_of prev); reflexivity).
  f_equal.
  - subst i. unfold pend_of. destruct prev as [p|]; [destruct (is_setlineno p)|]; reflexivity.
  - rewrite Hs, Ha. apply (IH (Some i0)).
Qed.

Lemma listing_lines_bytes is :
  map li_line (rows (events Bytes None is)) = spec_lines None is.
Proof.
  rewrite rows_events, (filter_all_true (shown Bytes)) by apply shown_bytes.
  apply (reline_lines is None).
Qed.

(* with the hidden CACHE entries: the lines of the shown rows are those of the shown instructions *)
Definition lined (is : list linstr) : list linstr := reline None is.

Lemma listing_rows_lined f is : rows (events f None is) = filter (shown f) (lined is).
Proof. apply rows_events. Qed.

Lemma lined_lines is : map li_line (lined is) = spec_lines None is.
Proof. apply (reline_lines is None). Qed.

Lemma lined_keys is : map key (lined is) = map key is.
Proof.
  unfold lined. generalize (@None (option Z)). induction is as [|i0 tl IH]; intros pend; [reflexivity|].
  cbn [reline map]. rewrite IH. f_equal. destruct pend; reflexivity.
Qed.

(* ---- the line of text ---- *)
Lemma join_sp_cons x y tl : join_sp (x :: y :: tl) = x ++ 32 :: join_sp (y :: tl).
Proof. reflexivity. Qed.

(* line-number column, marker column, offset column lead every line, in this order *)
Lemma row_text_shape f i : exists rest,
  row_text f i = line_field i ++ 32 :: spaces 3 ++ 32 :: mark_field i ++ 32 :: rjust 4 (dec (li_off i)) ++ 32 :: rest.
Proof.
  unfold row_text, prefix_fields.
  destruct (li_arg i); destruct (has_bytes f); cbn [app]; rewrite !join_sp_cons; eexists; reflexivity.
Qed.

Lemma row_prefix_shape f i : exists rest,
  row_prefix f i = line_field i ++ 32 :: spaces 3 ++ 32 :: mark_field i ++ 32 :: rjust 4 (dec (li_off i)) ++ 32 :: rest.
Proof.
  unfold row_prefix, prefix_fields.
  destruct (has_bytes f); cbn [app]; rewrite !join_sp_cons; eexists; reflexivity.
Qed.

Lemma mark_iff_target i : mark_field i = s2z ">>" <-> li_target i = true.
Proof. unfold mark_field. destruct (li_target i); cbn; split; intros H; try reflexivity; discriminate. Qed.

Lemma line_field_none i : li_line i = None <-> line_field i = spaces 4.
Proof.
  unfold line_field. destruct (li_line i) as [n|]; split; intros H; try reflexivity; try discriminate.
  exfalso. assert (Hl : last (rjust 3 (dec n) ++ [58]) 0 = 58) by apply last_last.
  rewrite H in Hl. vm_compute in Hl. discriminate.
Qed.

Lemma line_field_some i n : li_line i = Some n -> line_field i = rjust 3 (dec n) ++ [58].
Proof. unfold line_field. intros ->. reflexivity. Qed.

(* ---- decimal numbers read back: the offset and line columns determine the numbers ---- *)
Definition undigits (b : Z) (l : list Z) : Z := fold_left (fun acc c => acc * b + (if c <? 58 then c - 48 else c - 87)) l 0.

Lemma undigits_app b l1 l2 : undigits b (l1 ++ l2) = fold_left (fun acc c => acc * b + (if c <? 58 then c - 48 else c - 87)) l2 (undigits b l1).
Proof. unfold undigits. apply fold_left_app. Qed.

Lemma digit_char_back d : 0 <= d < 16 -> (if digit_char d <? 58 then digit_char d - 48 else digit_char d - 87) = d.
Proof.
  intros H. unfold digit_char. destruct (d <? 10) eqn:E.
  - apply Z.ltb_lt in E. replace (48 + d <? 58) with true by (symmetry; apply Z.ltb_lt; lia). lia.
  - apply Z.ltb_ge in E. replace (87 + d <? 58) with false by (symmetry; apply Z.ltb_ge; lia). lia.
Qed.

Definition step (b : Z) := fun acc c => acc * b + (if c <? 58 then c - 48 else c - 87).

(* value of the digits produced, most significant first: prove via the accumulator invariant
   radix_fuel k b n acc = radix_fuel k b n [] ++ acc  and  undigits (radix_fuel k b n []) = n *)
Lemma radix_fuel_acc b : forall k n acc, radix_fuel k b n acc = radix_fuel k b n [] ++ acc.
Proof.
  induction k as [|k IH]; intros n acc; [reflexivity|].
  cbn [radix_fuel]. destruct (n / b =? 0); [reflexivity|].
  rewrite (IH (n / b) (digit_char (n mod b) :: acc)), (IH (n / b) [digit_char (n mod b)]).
  rewrite <- app_assoc. reflexivity.
Qed.

Lemma radix_fuel_S k b n acc :
  radix_fuel (S k) b n acc = if n / b =? 0 then digit_char (n mod b) :: acc else radix_fuel k b (n / b) (digit_char (n mod b) :: acc).
Proof. reflexivity. Qed.

Lemma radix_fuel_undigits b (Hb : 2 <= b <= 16) : forall k n, 0 <= n < b ^ Z.of_nat (S k) ->
  undigits b (radix_fuel (S k) b n []) = n.
Proof.
  induction k as [|k IH]; intros n Hn.
  - rewrite radix_fuel_S. change (Z.of_nat 1) with 1 in Hn. rewrite Z.pow_1_r in Hn.
    rewrite Z.div_small by lia. cbn [Z.eqb]. rewrite Z.mod_small by lia.
    unfold undigits. cbn [fold_left]. rewrite digit_char_back by lia. lia.
  - rewrite radix_fuel_S. destruct (n / b =? 0) eqn:E.
    + apply Z.eqb_eq in E. unfold undigits. cbn [fold_left].
      rewrite digit_char_back by (pose proof (Z.mod_pos_bound n b); lia).
      pose proof (Z.div_mod n b). nia.
    + rewrite radix_fuel_acc. rewrite undigits_app.
      assert (Hq : 0 <= n / b < b ^ Z.of_nat (S k)).
      { split; [apply Z.div_pos; lia|].
        rewrite (Nat2Z.inj_succ (S k)), Z.pow_succ_r in Hn by lia.
        apply Z.div_lt_upper_bound; [lia|]. lia. }
      rewrite (IH (n / b) Hq). cbn [fold_left].
      rewrite digit_char_back by (pose proof (Z.mod_pos_bound n b); lia).
      pose proof (Z.div_mod n b). nia.
Qed.

Lemma radix_undigits b n : 2 <= b <= 16 -> 0 <= n -> undigits b (radix b n) = n.
Proof.
  intros Hb Hn. unfold radix. apply (radix_fuel_undigits b Hb).
  rewrite Nat2Z.inj_succ, Z2Nat.id by apply Z.log2_nonneg.
  destruct (Z.eq_dec n 0) as [->|Hnz]; [cbn; lia|].
  split; [lia|]. pose proof (Z.log2_spec n) as H.
  assert (H0 : 0 < n) by lia. specialize (H H0).
  eapply Z.lt_le_trans; [apply H|]. apply Z.pow_le_mono_l. lia.
Qed.

Lemma dec_nonneg_inj a b : 0 <= a -> 0 <= b -> dec a = dec b -> a = b.
Proof.
  unfold dec. intros Ha Hb.
  replace (a <? 0) with false by (symmetry; apply Z.ltb_ge; lia).
  replace (b <? 0) with false by (symmetry; apply Z.ltb_ge; lia).
  intros H. rewrite <- (radix_undigits 10 a), <- (radix_undigits 10 b) by lia. rewrite H. reflexivity.
Qed.

(* ---- the offset column determines the offset ---- *)
Lemma digit_char_not_space d : 0 <= d -> digit_char d <> 32.
Proof. intros H. unfold digit_char. destruct (d <? 10) eqn:E; lia. Qed.

Lemma radix_fuel_head b (Hb : 2 <= b) : forall k n acc, 0 <= n ->
  exists d tl, 0 <= d /\ radix_fuel (S k) b n acc = digit_char d :: tl.
Proof.
  induction k as [|k IH]; intros n acc Hn.
  - rewrite radix_fuel_S. destruct (n / b =? 0).
    + exists (n mod b), acc. split; [apply Z.mod_pos_bound; lia | reflexivity].
    + cbn [radix_fuel]. exists (n mod b), acc. split; [apply Z.mod_pos_bound; lia | reflexivity].
  - rewrite radix_fuel_S. destruct (n / b =? 0).
    + exists (n mod b), acc. split; [apply Z.mod_pos_bound; lia | reflexivity].
    + apply IH. apply Z.div_pos; lia.
Qed.

Lemma dec_head n : 0 <= n -> exists c tl, dec n = c :: tl /\ c <> 32.
Proof.
  intros Hn. unfold dec. replace (n <? 0) with false by lia. unfold radix.
  destruct (radix_fuel_head 10 ltac:(lia) (Z.to_nat (Z.log2 n)) n [] Hn) as (d & tl & Hd & E).
  exists (digit_char d), tl. split; [exact E | apply digit_char_not_space; exact Hd].
Qed.

Lemma spaces_S k : (0 < k) -> spaces k = 32 :: spaces (k - 1).
Proof.
  intros H. unfold spaces. replace (Z.to_nat k) with (S (Z.to_nat (k - 1))) by lia. reflexivity.
Qed.

Lemma spaces_nonpos k : k <= 0 -> spaces k = [].
Proof. intros H. unfold spaces. replace (Z.to_nat k) with O by lia. reflexivity. Qed.

Lemma pad_inj : forall (n : nat) k k' s s', (Z.to_nat k <= n)%nat ->
  (forall c tl, s = c :: tl -> c <> 32) -> (forall c tl, s' = c :: tl -> c <> 32) -> s <> [] -> s' <> [] ->
  spaces k ++ s = spaces k' ++ s' -> s = s'.
Proof.
  induction n as [|n IH]; intros k k' s s' Hk Hs Hs' Hne Hne' E.
  - rewrite (spaces_nonpos k) in E by lia. cbn [app] in E.
    destruct (Z_le_gt_dec k' 0) as [Hle|Hgt]; [rewrite (spaces_nonpos k' Hle) in E; exact E|].
    rewrite (spaces_S k') in E by lia. cbn [app] in E. destruct s as [|c tl]; [contradiction|].
    inversion E; subst. exfalso. exact (Hs 32 _ eq_refl eq_refl).
  - destruct (Z_le_gt_dec k 0) as [Hle|Hgt].
    + rewrite (spaces_nonpos k Hle) in E. cbn [app] in E.
      destruct (Z_le_gt_dec k' 0) as [Hle'|Hgt']; [rewrite (spaces_nonpos k' Hle') in E; exact E|].
      rewrite (spaces_S k') in E by lia. cbn [app] in E. destruct s as [|c tl]; [contradiction|].
      inversion E; subst. exfalso. exact (Hs 32 _ eq_refl eq_refl).
    + rewrite (spaces_S k) in E by lia. cbn [app] in E.
      destruct (Z_le_gt_dec k' 0) as [Hle'|Hgt'].
      * rewrite (spaces_nonpos k' Hle') in E. cbn [app] in E. destruct s' as [|c tl]; [contradiction|].
        inversion E; subst. exfalso. exact (Hs' 32 _ eq_refl eq_refl).
      * rewrite (spaces_S k') in E by lia. cbn [app] in E. inversion E as [E'].
        apply (IH (k - 1) (k' - 1) s s'); try assumption. lia.
Qed.

Lemma offset_column_inj a b : 0 <= a -> 0 <= b -> rjust 4 (dec a) = rjust 4 (dec b) -> a = b.
Proof.
  intros Ha Hb E. unfold rjust in E.
  destruct (dec_head a Ha) as (ca & ta & Ea & Hca). destruct (dec_head b Hb) as (cb & tb & Eb & Hcb).
  apply dec_nonneg_inj; try assumption.
  apply (pad_inj (Z.to_nat (4 - zlen (dec a))) (4 - zlen (dec a)) (4 - zlen (dec b))); try exact E; try lia.
  - intros c tl H. rewrite Ea in H. inversion H; subst. exact Hca.
  - intros c tl H. rewrite Eb in H. inversion H; subst. exact Hcb.
  - rewrite Ea. discriminate.
  - rewrite Eb. discriminate.
Qed.

(* Table obligations of C08, re-checked against the regenerated Gen/Magics.v on every run. *)
From Xdis Require Import Base.Prelude Model.Magic Gen.Magics Gen.RefMagics Spec.Registry Proofs.MagicProofs.

Lemma registry_ok_true : registry_ok = true.            Proof. vm_compute. reflexivity. Qed.
Lemma installed_ok_true : installed_ok = true.          Proof. vm_compute. reflexivity. Qed.
Lemma resolves_ok_true : resolves_ok = true.            Proof. vm_compute. reflexivity. Qed.
Lemma get_opcode_model_ok_true : get_opcode_model_ok = true. Proof. vm_compute. reflexivity. Qed.
Lemma tables_coherent_true : tables_coherent = true.    Proof. vm_compute. reflexivity. Qed.
Lemma sysinfo_ok_true : sysinfo_ok = true.              Proof. vm_compute. reflexivity. Qed.

Lemma forallb_In {A} (f : A -> bool) l x : forallb f l = true -> In x l -> f x = true.
Proof. intros H Hx. rewrite forallb_forall in H. auto. Qed.

Lemma sysinfo_sound : forall name a b c, In (name, (a, b, c)) release_names ->
  exists bs m, sassoc name magics_tbl = Some bs /\ final_magic a b c = Some m /\ int2magic m = Some bs.
Proof.
  intros name a b c H.
  pose proof (forallb_In _ _ _ sysinfo_ok_true H) as E. cbv beta iota in E.
  destruct (sassoc name magics_tbl) as [bs|] eqn:E1; [|discriminate E].
  destruct (final_magic a b c) as [m|] eqn:E2; [|discriminate E].
  destruct (int2magic m) as [bs'|] eqn:E3; [|discriminate E].
  apply zlist_eqb_eq in E. subst bs'. exists bs, m. split; [reflexivity|split; [reflexivity|exact E3]].
Qed.

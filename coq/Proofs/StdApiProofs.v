(* C20 - xdis's get_code_object and dis._get_code_object choose the same code object. *)
From Coq Require Import ZArith List String Bool.
From Xdis Require Import Base.Prelude Gen.StdApi Model.StdApi.
Import ListNotations.
Local Open Scope Z_scope.

Lemma lacks_attrs d s attrs :
  lacks d (PyObj s attrs) = true ->
  sassoc d attrs = None /\ forall a o', sassoc a attrs = Some o' -> lacks d o' = true.
Proof.
  induction attrs as [|[k v] tl IH]; intros H.
  - split; [reflexivity | intros a o' Hx; discriminate].
  - cbn in H. apply andb_true_iff in H. destruct H as [H1 H3]. apply andb_true_iff in H1. destruct H1 as [H1 H2].
    cbn [fst snd] in *. specialize (IH H3). destruct IH as [IHa IHb].
    split.
    + cbn. destruct (String.eqb d k) eqn:E.
      * apply String.eqb_eq in E. subst k. rewrite String.eqb_refl in H1. discriminate.
      * exact IHa.
    + intros a o' Hx. cbn in Hx. destruct (String.eqb a k); [congruence | apply (IHb a o' Hx)].
Qed.

Lemma lacks_has d o : lacks d o = true -> hasattr o d = false.
Proof. destruct o as [s attrs]. intros H. unfold hasattr, getattr. cbn [attrs_of]. rewrite (proj1 (lacks_attrs d s attrs H)). reflexivity. Qed.

Lemma lacks_get d o a o' : lacks d o = true -> getattr o a = Some o' -> lacks d o' = true.
Proof. destruct o as [s attrs]. intros H Hg. exact (proj2 (lacks_attrs d s attrs H) a o' Hg). Qed.

Lemma cascade_lacks d : forall l o o', lacks d o = true -> eval_cascade l o = Some o' -> lacks d o' = true.
Proof.
  induction l as [|[t h] tl IH]; intros o o' Ho He; cbn in He.
  - congruence.
  - destruct (hasattr o t); [apply (lacks_get d o h o' Ho He) | apply (IH o o' Ho He)].
Qed.

Lemma cascade_sound d : forall x dd o, cascade_mod d x dd = true -> hasattr o d = false -> eval_cascade x o = eval_cascade dd o.
Proof.
  induction x as [|[t h] x' IH]; intros dd o Hm Hd.
  - destruct dd; [reflexivity | discriminate].
  - destruct dd as [|[t' h'] dd'].
    + cbn in Hm. apply andb_true_iff in Hm. destruct Hm as [Ht Hm]. apply String.eqb_eq in Ht. subst t.
      cbn [eval_cascade]. rewrite Hd. apply (IH [] o Hm Hd).
    + cbn [cascade_mod] in Hm. destruct (String.eqb t t' && String.eqb h h') eqn:E.
      * apply andb_true_iff in E. destruct E as [E1 E2]. apply String.eqb_eq in E1. apply String.eqb_eq in E2. subst t' h'.
        cbn [eval_cascade]. destruct (hasattr o t); [reflexivity | apply (IH dd' o Hm Hd)].
      * apply andb_true_iff in Hm. destruct Hm as [Ht Hm]. apply String.eqb_eq in Ht. subst t.
        rewrite <- (IH _ o Hm Hd). cbn [eval_cascade]. rewrite Hd. reflexivity.
Qed.

Lemma chain_sound d compile : (forall s, lacks d (compile s) = true) ->
  forall x y o, chain_mod d x y = true -> lacks d o = true -> eval_chain compile x o = eval_chain compile y o.
Proof.
  intros Hc. induction x as [|a x' IH]; intros y o Hm Ho.
  - destruct y; [reflexivity | discriminate].
  - destruct y as [|b y']; [discriminate|]. cbn [chain_mod] in Hm. apply andb_true_iff in Hm. destruct Hm as [Hs Hm].
    destruct a as [l| |p|]; destruct b as [l'| |q|]; try discriminate; cbn [step_mod] in Hs; cbn [eval_chain].
    + rewrite (cascade_sound d l l' o Hs (lacks_has d o Ho)).
      destruct (eval_cascade l' o) as [o'|] eqn:E; [|reflexivity].
      apply IH; [exact Hm|]. apply (cascade_lacks d l' o o' Ho E).
    + apply IH; [exact Hm|]. destruct (is_str_of o); [apply Hc | exact Ho].
    + apply String.eqb_eq in Hs. subst q. destruct (hasattr o p); [reflexivity | apply IH; assumption].
    + reflexivity.
Qed.

Definition chains_ok : bool :=
  forallb (fun hc : list Z * list cstep => chain_mod "func_code" xdis_code_chain (snd hc)) dis_code_chain
  && (zlen dis_code_chain =? 6).

Lemma chains_ok_true : chains_ok = true.
Proof. vm_compute. reflexivity. Qed.

Lemma shift_line_none fl f : shift_line fl f None = None.
Proof. reflexivity. Qed.

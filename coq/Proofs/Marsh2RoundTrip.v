(* C13, Python 2 targets - the reader of a Python 2.0-2.7 version (marshal.c, strict configuration, and xdis's own unmarshaller) reads
   back what _Marshaller.dump / dump_code2 (Model.Marsh.dumps2) wrote, for EVERY well-formed Python 2 value tree: ints by kind
   ('i' / 'I' for int, 'l' for long), str as 's', unicode as 'u', code objects with 32-bit fields from 2.3 and 16-bit fields before. *)
From Xdis Require Import Base.Prelude Base.Result Base.LE Base.Utf8 Model.Unmarshal Model.Marsh Proofs.MarshProofs Proofs.MarshRoundTrip.
From Coq Require Import ZifyBool Lia.
Ltac Zify.zify_post_hook ::= Z.to_euclidean_division_equations.

Local Open Scope Z_scope.

Definition in16 (x : Z) : Prop := - 32768 <= x < 32768.
Definition in64 (x : Z) : Prop := - 9223372036854775808 <= x < 9223372036854775808.

(* every type code dumps2 can emit *)
Definition used_codes2 : list Z := [48; 78; 84; 70; 46; 83; 105; 73; 108; 102; 120; 115; 117; 40; 91; 60; 62; 123; 99].

Lemma read_s16_w_short c x rest : in16 x -> read_s16 c (w_short x ++ rest) = Ok (x, rest).
Proof.
  unfold in16, w_short. intros H. cbn [app read_s16]. f_equal. f_equal.
  unfold s16, le16. destruct (x mod 256 + 256 * ((x / 256) mod 256) <? 32768) eqn:E; lia.
Qed.

Lemma le32_enc32 y : 0 <= y < 4294967296 -> le32 (y mod 256) ((y / 256) mod 256) ((y / 65536) mod 256) ((y / 16777216) mod 256) = y.
Proof. intros H. unfold le32. lia. Qed.

Lemma read_u64_w_long64 c x rest : in64 x -> read_u64 c (w_long64 x ++ rest) = Ok (x mod 18446744073709551616, rest).
Proof.
  unfold in64. intros H. unfold w_long64, w_long, enc32. cbn [app read_u64]. f_equal. f_equal.
  set (lo := x mod 4294967296). set (hi := (x / 4294967296) mod 4294967296).
  assert (Hlo : 0 <= lo < 4294967296) by (subst lo; apply Z.mod_pos_bound; lia).
  assert (Hhi : 0 <= hi < 4294967296) by (subst hi; apply Z.mod_pos_bound; lia).
  unfold le64. rewrite (le32_enc32 lo Hlo), (le32_enc32 hi Hhi). subst lo hi. lia.
Qed.

Lemma s64_mod x : in64 x -> s64 (x mod 18446744073709551616) = x.
Proof. unfold in64, s64. intros H. destruct (x mod 18446744073709551616 <? 9223372036854775808) eqn:E; lia. Qed.

Definition is_binb (v : pv) : bool := match v with PBin _ => true | _ => false end.

Section RT2.
  Variable repr_float : Z -> list Z.
  Variable ge23 : bool.
  Variable c : cfg.
  Hypothesis H30 : vge c [3; 0] = false.
  Hypothesis H311 : vge c [3; 11] = false.
  Hypothesis H38 : vge c [3; 8] = false.
  Hypothesis H23 : vge c [2; 3] = ge23.
  Hypothesis H13 : vge c [1; 3] = true.
  Hypothesis H20 : vge c [2; 1] = true.
  Hypothesis H15 : vge c [1; 5] = true.

  Definition in_field (x : Z) : Prop := if ge23 then in32 x else in16 x.
  Definition ok (t : Z) : Prop := code_ok c t = true.

  Inductive wfv2 : pv -> Prop :=
  | wf2_none : ok 78 -> wfv2 PNone
  | wf2_true : ok 84 -> wfv2 PTrue
  | wf2_false : ok 70 -> wfv2 PFalse
  | wf2_ell : ok 46 -> wfv2 PEllipsis
  | wf2_stop : ok 83 -> wfv2 PStopIter
  | wf2_int z : in64 z -> ok 105 -> ok 73 -> wfv2 (PInt z)
  | wf2_long z : zlen (to_digits (digits_fuel (Z.abs z)) (Z.abs z)) < 2147483648 -> ok 108 -> wfv2 (PLong z)
  | wf2_float b : ok 102 -> wfv2 (PFloat b)
  | wf2_complex a b : ok 120 -> wfv2 (PComplex (PFloat a) (PFloat b))
  | wf2_bin b : small_len b -> ok 115 -> wfv2 (PBin b)
  | wf2_text b : small_len b -> ok 117 -> wfv2 (PText b)
  | wf2_tuple l : small_len l -> ok 40 -> Forall wfv2 l -> wfv2 (PTuple l)
  | wf2_list l : small_len l -> ok 91 -> Forall wfv2 l -> wfv2 (PList l)
  | wf2_set l : small_len l -> ok 60 -> Forall wfv2 l -> wfv2 (PSet l)
  | wf2_fset l : small_len l -> ok 62 -> Forall wfv2 l -> wfv2 (PFrozenSet l)
  | wf2_dict kv : ok 123 -> ok 48 -> Forall (fun p => wfv2 (fst p) /\ wfv2 (snd p)) kv -> wfv2 (PDict kv)
  | wf2_code argc nloc stk fl first code consts names varn freev cellv fname name lnotab :
      ok 99 -> Forall in_field [argc; nloc; stk; fl; first] ->
      forallb is_binb [code; fname; name; lnotab] = true -> forallb is_binb names = true -> forallb is_binb varn = true ->
      Forall wfv2 [code; consts; PTuple names; PTuple varn; freev; cellv; fname; name; lnotab] ->
      wfv2 (PCode [argc; -1; 0; nloc; stk; fl; first] [code; consts; PTuple names; PTuple varn; freev; cellv; fname; name; PNone; lnotab; PNone]).

  Lemma textify2_not_null v : wfv2 v -> textify repr_float v <> PNull.
  Proof. intros H; inversion H; subst; cbn; discriminate. Qed.

  Definition dump_all2 := fix go (l : list pv) : list Z := match l with [] => [] | x :: r => dumps2 repr_float ge23 x ++ go r end.
  Definition dump_kv2 := fix go (l : list (pv * pv)) : list Z := match l with [] => [] | (k, x) :: r => dumps2 repr_float ge23 k ++ dumps2 repr_float ge23 x ++ go r end.
  Notation textify_all := (textify_all repr_float).
  Notation textify_kv := (textify_kv repr_float).

  Lemma dump_string_bin v : is_binb v = true -> dump_string v = dumps2 repr_float ge23 v.
  Proof. destruct v; try discriminate. reflexivity. Qed.
  Lemma flat_dump_string l : forallb is_binb l = true -> flat_map dump_string l = dump_all2 l.
  Proof.
    induction l as [|x l IH]; intros H; [reflexivity|]. cbn [forallb] in H. apply andb_true_iff in H. destruct H as [Hx Hl].
    cbn [flat_map dump_all2]. rewrite (dump_string_bin x Hx), (IH Hl). reflexivity.
  Qed.

  Lemma dump_int_nonempty z : (1 <= List.length (dump_int z))%nat.
  Proof. unfold dump_int. destruct (negb (z / 2147483648 =? 0) && negb (z / 2147483648 =? -1)); cbn [List.length]; lia. Qed.

  Lemma dumps2_nonempty v : wfv2 v -> (1 <= List.length (dumps2 repr_float ge23 v))%nat.
  Proof.
    intros H; inversion H; subst; cbn [dumps2]; try (cbn; lia);
      first [apply dump_int_nonempty | unfold dump_long; cbn [List.length]; lia].
  Qed.

  Lemma dump_all2_length l : Forall wfv2 l -> (List.length l <= List.length (dump_all2 l))%nat.
  Proof. induction 1 as [|x l Hx Hl IH]; cbn; [lia|]. rewrite app_length. pose proof (dumps2_nonempty x Hx). lia. Qed.

  Lemma no_null_textify2 l : Forall wfv2 l -> no_null (textify_all l) = true.
  Proof.
    induction 1 as [|x l Hx Hl IH]; [reflexivity|]. cbn [MarshRoundTrip.textify_all no_null forallb]. fold (no_null (textify_all l)). rewrite IH, andb_true_r.
    pose proof (textify2_not_null x Hx). destruct (textify repr_float x); try reflexivity. contradiction.
  Qed.

  Lemma type_byte2 t : In t used_codes2 ->
    (mask_flag c && negb (Z.land t 128 =? 0)) = false /\ (if mask_flag c then Z.land t 127 else t) = t.
  Proof.
    intros Hin. unfold used_codes2 in Hin. cbn [In] in Hin.
    repeat (destruct Hin as [<- | Hin]; [destruct (mask_flag c); split; reflexivity|]). contradiction.
  Qed.

  Lemma step2 f t l st : In t used_codes2 -> ok t ->
    r_object (S f) c (with_inp st (t :: l)) =
    match r_leaf c false t (with_inp st (t :: l)) l with
    | Some r => r
    | None => match r_container c (r_object f c) false t (with_inp st (t :: l)) l with
              | Some r => r
              | None => if (t =? 99) || (t =? 67) then r_code c (r_object f c) false (with_inp st (t :: l)) l
                        else (if unknown_err c then Err ValueErr else Ok (PNone, with_inp (with_inp st (t :: l)) l))
              end
    end.
  Proof.
    intros Hin Hc. destruct (type_byte2 t Hin) as (Hf & Ht). unfold ok in Hc.
    cbn [r_object inp with_inp]. rewrite Hf, Ht, Hc. rewrite andb_false_r. cbn [negb]. reflexivity.
  Qed.

  Ltac used2 := unfold used_codes2; cbn [In]; tauto.

  Definition RT2 (f : nat) (v : pv) : Prop :=
    forall st rest, r_object f c (with_inp st (dumps2 repr_float ge23 v ++ rest)) = Ok (textify repr_float v, with_inp st rest).

  Lemma read_objs_all2 f : forall l, Forall wfv2 l -> Forall (RT2 f) l ->
    forall k acc st rest, (List.length l <= k)%nat ->
    read_objs (r_object f c) k (zlen l) acc (with_inp st (dump_all2 l ++ rest)) = Ok (rev acc ++ textify_all l, with_inp st rest).
  Proof.
    induction l as [|x l IH]; intros Hw Hr k acc st rest Hk.
    - destruct k; cbn; rewrite app_nil_r; reflexivity.
    - inversion Hw as [|? ? Hx Hl]; subst. inversion Hr as [|? ? Rx Rl]; subst.
      destruct k as [|k]; [cbn in Hk; lia|].
      assert (Hz : zlen (x :: l) = zlen l + 1) by (unfold zlen; cbn [List.length]; lia).
      cbn [read_objs]. rewrite Hz. replace (zlen l + 1 <=? 0) with false by (unfold zlen; lia).
      cbn [dump_all2]. rewrite <- app_assoc. rewrite (Rx st (dump_all2 l ++ rest)). cbn [bind].
      replace (zlen l + 1 - 1) with (zlen l) by lia.
      rewrite (IH Hl Rl k (textify repr_float x :: acc) st rest) by (cbn in Hk; lia).
      cbn [rev MarshRoundTrip.textify_all]. rewrite <- app_assoc. reflexivity.
  Qed.

  Lemma r_object_null2 f st rest : ok 48 -> r_object (S f) c (with_inp st (48 :: rest)) = Ok (PNull, with_inp st rest).
  Proof. intros H. rewrite step2 by (used2 || exact H). reflexivity. Qed.

  Lemma dump_kv2_length kv : Forall (fun p => wfv2 (fst p) /\ wfv2 (snd p)) kv -> (List.length kv <= List.length (dump_kv2 kv))%nat.
  Proof.
    induction 1 as [|[k x] l [Hk Hx] Hl IH]; cbn; [lia|]. rewrite !app_length. cbn [fst snd] in *.
    pose proof (dumps2_nonempty k Hk). lia.
  Qed.

  Lemma read_dict_all2 f : ok 48 -> forall kv, Forall (fun p => wfv2 (fst p) /\ wfv2 (snd p)) kv -> Forall (fun p => RT2 (S f) (fst p) /\ RT2 (S f) (snd p)) kv ->
    forall k acc st rest, (List.length kv < k)%nat ->
    read_dict (r_object (S f) c) k acc (with_inp st (dump_kv2 kv ++ 48 :: rest)) = Ok (rev acc ++ textify_kv kv, with_inp st rest).
  Proof.
    intros H48. induction kv as [|[key x] kv IH]; intros Hw Hr k acc st rest Hk.
    - destruct k as [|k]; [cbn in Hk; lia|]. cbn [dump_kv2 app read_dict]. rewrite (r_object_null2 f st rest H48). cbn [bind MarshRoundTrip.textify_kv]. rewrite app_nil_r. reflexivity.
    - inversion Hw as [|? ? [Hwk Hwx] Hl]; subst. inversion Hr as [|? ? [Rk Rx] Rl]; subst. cbn [fst snd] in *.
      destruct k as [|k]; [cbn in Hk; lia|].
      cbn [dump_kv2 read_dict]. rewrite <- !app_assoc.
      rewrite (Rk st _). cbn [bind]. rewrite (not_null_match _ _ _ (textify2_not_null key Hwk)).
      rewrite (Rx st _). cbn [bind]. rewrite (not_null_match _ _ _ (textify2_not_null x Hwx)).
      rewrite (IH Hl Rl k _ st rest) by (cbn in Hk; lia).
      cbn [rev MarshRoundTrip.textify_kv]. rewrite <- app_assoc. reflexivity.
  Qed.

  Lemma lift_all2 f (IH : forall v, wfv2 v -> (depth v <= f)%nat -> RT2 f v) :
    forall l, Forall wfv2 l -> (depth_all l <= f)%nat -> Forall (RT2 f) l.
  Proof.
    induction l as [|x l IHl]; intros Hw Hd; constructor.
    - inversion Hw; subst. apply IH; [assumption|]. cbn [depth_all] in Hd. lia.
    - inversion Hw; subst. apply IHl; [assumption|]. cbn [depth_all] in Hd. lia.
  Qed.

  Lemma lift_kv2 f (IH : forall v, wfv2 v -> (depth v <= f)%nat -> RT2 f v) :
    forall kv, Forall (fun p => wfv2 (fst p) /\ wfv2 (snd p)) kv -> (depth_kv kv <= f)%nat -> Forall (fun p => RT2 f (fst p) /\ RT2 f (snd p)) kv.
  Proof.
    induction kv as [|[k x] kv IHl]; intros Hw Hd; constructor.
    - inversion Hw as [|? ? [Hk Hx] ?]; subst. cbn [fst snd depth_kv] in *. split; apply IH; try assumption; lia.
    - inversion Hw; subst. apply IHl; [assumption|]. cbn [depth_kv] in Hd. lia.
  Qed.

  Lemma seq_container2 f t l (mk : list pv -> pv) st rest :
    t = 40 \/ t = 91 \/ t = 60 \/ t = 62 -> ok t ->
    mk = (fun vs => if t =? 91 then PList vs else if t =? 60 then PSet vs else if t =? 62 then PFrozenSet vs else PTuple vs) ->
    small_len l -> Forall wfv2 l -> Forall (RT2 f) l ->
    r_object (S f) c (with_inp st (t :: w_long (zlen l) ++ dump_all2 l ++ rest)) = Ok (mk (textify_all l), with_inp st rest).
  Proof.
    intros Ht Hok Hmk Hs Hw Hr.
    assert (Hn : - 2147483648 <= zlen l < 2147483648) by (unfold small_len, zlen in *; lia).
    assert (Hlen : (List.length l <= S (List.length (w_long (zlen l) ++ dump_all2 l ++ rest)))%nat).
    { rewrite !app_length. pose proof (dump_all2_length l Hw). lia. }
    pose proof (read_objs_all2 f l Hw Hr (S (List.length (w_long (zlen l) ++ dump_all2 l ++ rest))) [] st rest Hlen) as Hro.
    assert (Hneg : (zlen l <? 0) = false) by (unfold zlen; lia).
    pose proof (no_null_textify2 l Hw) as Hnn.
    destruct Ht as [-> | [-> | [-> | ->]]]; subst mk; rewrite step2 by (used2 || exact Hok);
      cbn [Z.eqb Pos.eqb orb r_leaf r_container];
      rewrite (read_s32_w_long c (zlen l) (dump_all2 l ++ rest) Hn); cbn [bind reserve]; rewrite Hneg, andb_false_r;
      unfold with_inp in Hro |- *; cbn [inp refs strs] in Hro |- *; rewrite Hro; cbn [bind app rev]; rewrite Hnn; cbn [negb]; rewrite andb_false_r; reflexivity.
  Qed.

  Lemma w_int_w_field x rest : in_field x -> w_int c (vge c [2; 3]) true (w_field ge23 x ++ rest) = Ok (x, rest).
  Proof.
    unfold in_field, w_int, w_field. rewrite H23. destruct ge23; intros H.
    - apply read_s32_w_long. exact H.
    - apply read_s16_w_short. exact H.
  Qed.

  Theorem marsh2_roundtrip : forall f v, wfv2 v -> (depth v <= f)%nat -> RT2 f v.
  Proof.
    induction f as [|f IHf]; intros v Hw Hd.
    - destruct v; cbn in Hd; lia.
    - intros st rest. inversion Hw; subst.
      + cbn [dumps2 app]. rewrite step2 by (used2 || assumption). reflexivity.
      + cbn [dumps2 app]. rewrite step2 by (used2 || assumption). reflexivity.
      + cbn [dumps2 app]. rewrite step2 by (used2 || assumption). reflexivity.
      + cbn [dumps2 app]. rewrite step2 by (used2 || assumption). reflexivity.
      + cbn [dumps2 app]. rewrite step2 by (used2 || assumption). reflexivity.
      + (* Python 2 int: dump_int *)
        cbn [dumps2 textify]. unfold dump_int.
        destruct (negb (z / 2147483648 =? 0) && negb (z / 2147483648 =? -1)) eqn:Ey.
        * cbn [app]. rewrite step2 by (used2 || assumption). cbn [Z.eqb Pos.eqb orb r_leaf].
          rewrite (read_u64_w_long64 c z rest) by assumption. cbn [bind]. rewrite (s64_mod z) by assumption. reflexivity.
        * assert (Hz32 : - 2147483648 <= z < 2147483648).
          { apply andb_false_iff in Ey. destruct Ey as [Ey | Ey]; apply negb_false_iff in Ey; lia. }
          cbn [app]. rewrite step2 by (used2 || assumption). cbn [Z.eqb Pos.eqb orb r_leaf].
          rewrite (read_s32_w_long c z rest Hz32). cbn [bind]. reflexivity.
      + (* Python 2 long: dump_long *)
        cbn [dumps2 textify]. unfold dump_long.
        set (ds := to_digits (digits_fuel (Z.abs z)) (Z.abs z)) in *.
        pose proof (long_codec (Z.abs z) (Z.abs_nonneg z)) as (Hval & Hb & Hlast). fold ds in Hval, Hb, Hlast.
        set (n := zlen ds * (if z <? 0 then -1 else 1)).
        assert (Hn : - 2147483648 <= n < 2147483648) by (subst n; unfold zlen in *; destruct (z <? 0); lia).
        cbn [app]. rewrite step2 by (used2 || assumption). cbn [Z.eqb Pos.eqb orb r_leaf].
        rewrite <- app_assoc. rewrite (read_s32_w_long c n _ Hn). cbn [bind].
        assert (Habs : Z.abs n = zlen ds) by (subst n; unfold zlen; destruct (z <? 0); lia).
        rewrite Habs.
        rewrite (read_digits_w_short c ds _ [] rest Hb Hlast) by (rewrite !app_length, length_flat_w_short; lia).
        cbn [bind rev app]. rewrite Hval.
        assert (Hz : (if n <? 0 then - Z.abs z else Z.abs z) = z).
        { subst n. destruct (z <? 0) eqn:Ez.
          - assert (Hne : ds <> []).
            { intros E. rewrite E in Hval. cbn in Hval. lia. }
            destruct ds; [contradiction|]. unfold zlen. cbn [List.length]. destruct (Z.of_nat (S (List.length ds)) * -1 <? 0) eqn:E2; lia.
          - destruct (zlen ds * 1 <? 0) eqn:E2; unfold zlen in *; lia. }
        rewrite Hz. rewrite H30. reflexivity.
      + (* float: written as text *)
        cbn [dumps2 textify]. unfold dump_float_text.
        cbn [app]. rewrite step2 by (used2 || assumption). cbn [Z.eqb Pos.eqb orb r_leaf read_u8 bind].
        rewrite read_n_app. reflexivity.
      + (* complex *)
        cbn [dumps2 textify]. unfold dump_float_text.
        cbn [app]. rewrite step2 by (used2 || assumption). cbn [Z.eqb Pos.eqb orb r_leaf read_u8 bind].
        rewrite <- app_assoc. rewrite read_n_app. cbn [bind app read_u8]. rewrite read_n_app. reflexivity.
      + (* str *)
        cbn [dumps2 textify].
        assert (Hn : - 2147483648 <= zlen b < 2147483648) by (unfold small_len, zlen in *; lia).
        cbn [app]. rewrite step2 by (used2 || assumption). cbn [Z.eqb Pos.eqb orb r_leaf].
        rewrite <- app_assoc. rewrite (read_s32_w_long c _ _ Hn). cbn [bind]. rewrite read_n_app. reflexivity.
      + (* unicode: the payload is kept as written, never decoded for 2.x *)
        cbn [dumps2 textify].
        assert (Hn : - 2147483648 <= zlen b < 2147483648) by (unfold small_len, zlen in *; lia).
        cbn [app]. rewrite step2 by (used2 || assumption). cbn [Z.eqb Pos.eqb orb r_leaf].
        rewrite <- app_assoc. rewrite (read_s32_w_long c _ _ Hn). cbn [bind]. rewrite read_n_app. cbn [bind].
        unfold text_bad. rewrite H30. cbn [andb]. reflexivity.
      + cbn [dumps2 textify depth] in *. cbn [app]. rewrite <- app_assoc.
        apply (seq_container2 f 40 l (fun vs => PTuple vs) st rest); auto.
        apply (lift_all2 f IHf); [assumption|]. fold depth_all in Hd. lia.
      + cbn [dumps2 textify depth] in *. cbn [app]. rewrite <- app_assoc.
        apply (seq_container2 f 91 l (fun vs => PList vs) st rest); auto.
        apply (lift_all2 f IHf); [assumption|]. fold depth_all in Hd. lia.
      + cbn [dumps2 textify depth] in *. cbn [app]. rewrite <- app_assoc.
        apply (seq_container2 f 60 l (fun vs => PSet vs) st rest); auto.
        apply (lift_all2 f IHf); [assumption|]. fold depth_all in Hd. lia.
      + cbn [dumps2 textify depth] in *. cbn [app]. rewrite <- app_assoc.
        apply (seq_container2 f 62 l (fun vs => PFrozenSet vs) st rest); auto.
        apply (lift_all2 f IHf); [assumption|]. fold depth_all in Hd. lia.
      + (* dict *)
        cbn [dumps2 textify depth] in *. fold depth_kv in Hd. fold dump_kv2. fold (MarshRoundTrip.textify_kv repr_float).
        cbn [app]. rewrite step2 by (used2 || assumption). cbn [Z.eqb Pos.eqb orb r_leaf r_container reserve].
        rewrite <- app_assoc. cbn [app].
        destruct f as [|f']; [lia|].
        assert (Hr : Forall (fun p => RT2 (S f') (fst p) /\ RT2 (S f') (snd p)) kv) by (apply (lift_kv2 (S f') IHf); [assumption | lia]).
        pose proof (read_dict_all2 f' ltac:(assumption) kv ltac:(assumption) Hr (S (List.length (dump_kv2 kv ++ 48 :: rest))) [] st rest) as Hrd.
        unfold with_inp in Hrd |- *. cbn [inp refs strs] in Hrd |- *.
        rewrite Hrd by (rewrite app_length; pose proof (dump_kv2_length kv ltac:(assumption)); cbn [List.length]; lia).
        reflexivity.
      + (* code object: dump_code2 against r_code *)
        match goal with Hb : forallb is_binb [_; _; _; _] = true |- _ => cbn [forallb] in Hb; repeat (apply andb_true_iff in Hb; destruct Hb as [? Hb]) end.
        repeat match goal with Hf : Forall _ (_ :: _) |- _ => inversion Hf; clear Hf; subst end.
        cbn [depth] in Hd.
        assert (Hdd : (Nat.max (depth code) (Nat.max (depth consts) (Nat.max (depth (PTuple names)) (Nat.max (depth (PTuple varn)) (Nat.max (depth freev) (Nat.max (depth cellv)
                        (Nat.max (depth fname) (Nat.max (depth name) (Nat.max 1 (Nat.max (depth lnotab) (Nat.max 1 0)))))))))) <= f)%nat) by (cbn [depth] in Hd |- *; lia).
        repeat (apply Nat.max_lub_iff in Hdd; destruct Hdd as [? Hdd]).
        assert (Rcode := IHf code ltac:(assumption) ltac:(assumption)). assert (Rconsts := IHf consts ltac:(assumption) ltac:(assumption)).
        assert (Rnames := IHf (PTuple names) ltac:(assumption) ltac:(assumption)). assert (Rvarn := IHf (PTuple varn) ltac:(assumption) ltac:(assumption)).
        assert (Rfreev := IHf freev ltac:(assumption) ltac:(assumption)). assert (Rcellv := IHf cellv ltac:(assumption) ltac:(assumption)).
        assert (Rfname := IHf fname ltac:(assumption) ltac:(assumption)). assert (Rname := IHf name ltac:(assumption) ltac:(assumption)).
        assert (Rlnotab := IHf lnotab ltac:(assumption) ltac:(assumption)).
        cbn [dumps2 textify].
        rewrite (dump_string_bin code), (dump_string_bin fname), (dump_string_bin name), (dump_string_bin lnotab) by assumption.
        rewrite (flat_dump_string names), (flat_dump_string varn) by assumption.
        change (40 :: w_long (zlen names) ++ dump_all2 names) with (dumps2 repr_float ge23 (PTuple names)).
        change (40 :: w_long (zlen varn) ++ dump_all2 varn) with (dumps2 repr_float ge23 (PTuple varn)).
        cbn [app]. rewrite step2 by (used2 || assumption). cbn [Z.eqb Pos.eqb orb r_leaf r_container].
        unfold r_code. cbn [reserve inp with_inp]. rewrite H311, H30, H38, H13, H20, H15.
        repeat rewrite <- app_assoc.
        rewrite (w_int_w_field argc) by assumption. cbn [bind].
        rewrite (w_int_w_field nloc) by assumption. cbn [bind].
        rewrite (w_int_w_field stk) by assumption. cbn [bind].
        rewrite (w_int_w_field fl) by assumption. cbn [bind].
        rewrite (Rcode _ _). cbn [bind]. rewrite (Rconsts _ _). cbn [bind]. rewrite (Rnames _ _). cbn [bind].
        rewrite (Rvarn _ _). cbn [bind]. rewrite (Rfreev _ _). cbn [bind]. rewrite (Rcellv _ _). cbn [bind].
        rewrite (Rfname _ _). cbn [bind]. rewrite (Rname _ _). cbn [bind inp with_inp].
        rewrite (w_int_w_field first) by assumption. cbn [bind].
        rewrite (Rlnotab _ _). cbn [bind insert]. reflexivity.
  Qed.

  Lemma depth_le_len2 : forall n v, wfv2 v -> (depth v <= n)%nat -> (depth v <= List.length (dumps2 repr_float ge23 v))%nat.
  Proof.
    induction n as [|n IH]; intros v Hw Hd; [destruct v; cbn in Hd; lia|].
    assert (Hall : forall l, Forall wfv2 l -> (depth_all l <= n)%nat -> (depth_all l <= List.length (dump_all2 l))%nat).
    { induction l as [|x l IHl]; intros Hwl Hdl; [cbn; lia|]. inversion Hwl; subst. cbn [depth_all dump_all2] in *. rewrite app_length.
      pose proof (IH x ltac:(assumption) ltac:(lia)). pose proof (IHl ltac:(assumption) ltac:(lia)). lia. }
    assert (Hkv : forall kv, Forall (fun p => wfv2 (fst p) /\ wfv2 (snd p)) kv -> (depth_kv kv <= n)%nat -> (depth_kv kv <= List.length (dump_kv2 kv))%nat).
    { induction kv as [|[k x] kv IHl]; intros Hwl Hdl; [cbn; lia|]. inversion Hwl as [|? ? [Hk Hx] ?]; subst. cbn [depth_kv dump_kv2 fst snd] in *. rewrite !app_length.
      pose proof (IH k Hk ltac:(lia)). pose proof (IH x Hx ltac:(lia)). pose proof (IHl ltac:(assumption) ltac:(lia)). lia. }
    inversion Hw; subst; try (apply (dumps2_nonempty _ Hw)); cbn [depth dumps2] in *.
    - fold depth_all in *. fold dump_all2. cbn [List.length]. rewrite !app_length. pose proof (Hall l ltac:(assumption) ltac:(lia)). cbn. lia.
    - fold depth_all in *. fold dump_all2. cbn [List.length]. rewrite !app_length. pose proof (Hall l ltac:(assumption) ltac:(lia)). cbn. lia.
    - fold depth_all in *. fold dump_all2. cbn [List.length]. rewrite !app_length. pose proof (Hall l ltac:(assumption) ltac:(lia)). cbn. lia.
    - fold depth_all in *. fold dump_all2. cbn [List.length]. rewrite !app_length. pose proof (Hall l ltac:(assumption) ltac:(lia)). cbn. lia.
    - fold depth_kv in *. fold dump_kv2. cbn [List.length]. rewrite !app_length. pose proof (Hkv kv ltac:(assumption) ltac:(lia)). cbn [List.length]. lia.
    - match goal with Hb : forallb is_binb [_; _; _; _] = true |- _ => cbn [forallb] in Hb; repeat (apply andb_true_iff in Hb; destruct Hb as [? Hb]) end.
      repeat match goal with Hf : Forall _ (_ :: _) |- _ => inversion Hf; clear Hf; subst end.
      cbn [depth] in Hd.
      rewrite (dump_string_bin code), (dump_string_bin fname), (dump_string_bin name), (dump_string_bin lnotab) by assumption.
      rewrite (flat_dump_string names), (flat_dump_string varn) by assumption.
      change (40 :: w_long (zlen names) ++ dump_all2 names) with (dumps2 repr_float ge23 (PTuple names)).
      change (40 :: w_long (zlen varn) ++ dump_all2 varn) with (dumps2 repr_float ge23 (PTuple varn)).
      pose proof (IH code ltac:(assumption) ltac:(lia)). pose proof (IH consts ltac:(assumption) ltac:(lia)).
      pose proof (IH (PTuple names) ltac:(assumption) ltac:(cbn [depth] in Hd |- *; lia)). pose proof (IH (PTuple varn) ltac:(assumption) ltac:(cbn [depth] in Hd |- *; lia)).
      pose proof (IH freev ltac:(assumption) ltac:(lia)). pose proof (IH cellv ltac:(assumption) ltac:(lia)).
      pose proof (IH fname ltac:(assumption) ltac:(lia)). pose proof (IH name ltac:(assumption) ltac:(lia)). pose proof (IH lnotab ltac:(assumption) ltac:(lia)).
      cbn [List.length]. rewrite !app_length. cbn [depth] in *. lia.
  Qed.

  Theorem loads_dumps2 v : wfv2 v ->
    r_object (S (List.length (dumps2 repr_float ge23 v))) c {| inp := dumps2 repr_float ge23 v; refs := []; strs := [] |}
    = Ok (textify repr_float v, {| inp := []; refs := []; strs := [] |}).
  Proof.
    intros Hw.
    pose proof (marsh2_roundtrip (S (List.length (dumps2 repr_float ge23 v))) v Hw) as H.
    assert (Hd : (depth v <= S (List.length (dumps2 repr_float ge23 v)))%nat) by (pose proof (depth_le_len2 (depth v) v Hw (Nat.le_refl _)); lia).
    specialize (H Hd {| inp := []; refs := []; strs := [] |} []). unfold with_inp in H. cbn [inp refs strs] in H. rewrite app_nil_r in H. exact H.
  Qed.
End RT2.

From Xdis Require Import Base.Prelude Base.Result Base.OpTable Base.Bits Model.Instr Spec.Dis Model.Resolve Gen.Opcodes Gen.RefOpcodes
  Model.ResolveChecks Proofs.InstrProofs Proofs.C02Tables.

(* the two constructions of the merged table coincide: only the cells are merged with the locals *)
Lemma model_merge_frees vars l : model_merge vars 0 l = l.
Proof. induction l as [|c l IH]; cbn [model_merge]; [reflexivity | rewrite IH; reflexivity]. Qed.

Lemma model_merge_cells vars cells frees :
  model_merge vars (List.length cells) (cells ++ frees) = filter (fun c => negb (zmem c vars)) cells ++ frees.
Proof.
  induction cells as [|c l IH]; cbn [List.length app model_merge filter].
  - apply model_merge_frees.
  - rewrite IH. destruct (zmem c vars); reflexivity.
Qed.

Lemma localsplus_eq tb : model_localsplus tb = spec_localsplus tb.
Proof. unfold model_localsplus, spec_localsplus. rewrite model_merge_cells. reflexivity. Qed.

(* per-opcode plans agree, for the 9 tables with an installed interpreter *)
Lemma oracle_plans_ok : forallb (fun '(T, R) => plans_ok T R) oracle_pairs = true.
Proof. vm_compute. reflexivity. Qed.

Lemma plan_eqb_eq a b : plan_eqb a b = true -> a = b.
Proof. destruct a, b; cbn; intros H; try discriminate; try reflexivity; f_equal; apply Z.eqb_eq; exact H. Qed.

Theorem resolve_agree T R tb op arg : In (T, R) oracle_pairs -> 0 <= op < 256 -> spec_plan R op <> PlNone ->
  model_resolve T tb op arg = spec_resolve R tb op arg.
Proof.
  intros Hin Hop Hn. unfold model_resolve, spec_resolve. rewrite (localsplus_eq tb).
  pose proof (proj1 (forallb_forall _ _) oracle_plans_ok _ Hin) as H. cbv beta iota in H.
  pose proof (byte_sweep _ H op Hop) as Hp. unfold plan_ok in Hp.
  destruct (spec_plan R op) eqn:E; try congruence; apply plan_eqb_eq in Hp; rewrite Hp; reflexivity.
Qed.

Definition cmp_spelling_diffs : list (string * list Z) := map (fun '(T, R) => (t_name T, cmp_diff (t_cmp_op T) (r_cmp_op R) 0)) oracle_pairs.

(* the only spelling differences are the three documented ones (known finding D16) *)
Lemma cmp_spelling_known : forallb (fun '(_, d) => forallb (fun i => zmem i [7; 9; 10]) d) cmp_spelling_diffs = true.
Proof. vm_compute. reflexivity. Qed.

(* a parameter that is also a cell appears once; a free variable named like a local keeps its own slot *)
Lemma localsplus_example :
  let tb := {| tb_consts := []; tb_names := []; tb_vars := [118000; 118001; 118002; 118003]; tb_cells := [118000; 99001]; tb_frees := [102000; 118001]; tb_ncmp := 6 |} in
  model_localsplus tb = [118000; 118001; 118002; 118003; 99001; 102000; 118001].
Proof. reflexivity. Qed.

(* a free variable always has a slot of its own: slot number = locals + cells that are not locals + its index among the free variables *)
Lemma free_slot tb i : (i < List.length (tb_frees tb))%nat ->
  nth_error (model_localsplus tb)
    (List.length (tb_vars tb) + List.length (filter (fun c => negb (zmem c (tb_vars tb))) (tb_cells tb)) + i) = nth_error (tb_frees tb) i.
Proof.
  intros _. rewrite localsplus_eq. unfold spec_localsplus.
  rewrite <- Nat.add_assoc. rewrite nth_error_app2 by apply Nat.le_add_r.
  rewrite Nat.add_comm, Nat.add_sub.
  rewrite nth_error_app2 by apply Nat.le_add_r.
  rewrite Nat.add_comm, Nat.add_sub. reflexivity.
Qed.

(* C11 - the reader model never runs out of fuel: with the fuel `load` gives it (one more than the number of input bytes)
   every recursion and every loop of r_object ends because the input is used up, for EVERY configuration and byte string.
   So `Err OutOfFuel` is not an outcome the theorems about the reader hide behind. *)
From Xdis Require Import Base.Prelude Base.Result Base.LE Model.Unmarshal Model.UnmarshalObs.
From Coq Require Import Lia.
Import ListNotations.

Local Notation len := List.length.

(* a computation that does not run out of fuel and leaves at most n bytes *)
Definition goodL {A} (n : nat) (r : result (A * list Z)) : Prop :=
  r <> Err OutOfFuel /\ forall a l', r = Ok (a, l') -> (len l' <= n)%nat.
Definition goodS {A} (n : nat) (r : result (A * mstate)) : Prop :=
  r <> Err OutOfFuel /\ forall a st', r = Ok (a, st') -> (len (inp st') <= n)%nat.

Lemma goodL_err {A} n e : e <> OutOfFuel -> @goodL A n (Err e).
Proof. intros H. split; [congruence | discriminate]. Qed.
Lemma goodS_err {A} n e : e <> OutOfFuel -> @goodS A n (Err e).
Proof. intros H. split; [congruence | discriminate]. Qed.
Lemma goodL_ok {A} n (a : A) l : (len l <= n)%nat -> goodL n (Ok (a, l)).
Proof. intros H. split; [discriminate | intros a' l' E; inversion E; subst; exact H]. Qed.
Lemma goodS_ok {A} n (a : A) st : (len (inp st) <= n)%nat -> goodS n (Ok (a, st)).
Proof. intros H. split; [discriminate | intros a' l' E; inversion E; subst; exact H]. Qed.

Lemma goodL_mono {A} n m (r : result (A * list Z)) : (n <= m)%nat -> goodL n r -> goodL m r.
Proof. intros H [H1 H2]. split; [exact H1 | intros a l' E; specialize (H2 a l' E); lia]. Qed.
Lemma goodS_mono {A} n m (r : result (A * mstate)) : (n <= m)%nat -> goodS n r -> goodS m r.
Proof. intros H [H1 H2]. split; [exact H1 | intros a l' E; specialize (H2 a l' E); lia]. Qed.

(* binds: list -> list, list -> state, state -> state *)
Lemma bindLL {A B} n (r : result (A * list Z)) (k : A * list Z -> result (B * list Z)) :
  goodL n r -> (forall a l', (len l' <= n)%nat -> goodL n (k (a, l'))) -> goodL n (bind r k).
Proof.
  intros [H1 H2] Hk. destruct r as [[a l']|e]; cbn [bind].
  - apply Hk. apply (H2 a l' eq_refl).
  - apply goodL_err. congruence.
Qed.
Lemma bindLS {A B} n (r : result (A * list Z)) (k : A * list Z -> result (B * mstate)) :
  goodL n r -> (forall a l', (len l' <= n)%nat -> goodS n (k (a, l'))) -> goodS n (bind r k).
Proof.
  intros [H1 H2] Hk. destruct r as [[a l']|e]; cbn [bind].
  - apply Hk. apply (H2 a l' eq_refl).
  - apply goodS_err. congruence.
Qed.
Lemma bindSS {A B} n (r : result (A * mstate)) (k : A * mstate -> result (B * mstate)) :
  goodS n r -> (forall a st', (len (inp st') <= n)%nat -> goodS n (k (a, st'))) -> goodS n (bind r k).
Proof.
  intros [H1 H2] Hk. destruct r as [[a st']|e]; cbn [bind].
  - apply Hk. apply (H2 a st' eq_refl).
  - apply goodS_err. congruence.
Qed.

(* ---- primitives ---- *)
Lemma err_eof_ok c : err_eof c <> OutOfFuel.
Proof. unfold err_eof. destruct (strict c); [discriminate|]. destruct (neg_size_err c); discriminate. Qed.

Lemma read_u8_good c l : goodL (len l) (read_u8 c l).
Proof. destruct l as [|a l]; cbn; [apply goodL_err, err_eof_ok | apply goodL_ok; cbn; lia]. Qed.
Lemma read_s16_good c l : goodL (len l) (read_s16 c l).
Proof. destruct l as [|a [|b l]]; cbn; try (apply goodL_err, err_eof_ok). apply goodL_ok; cbn; lia. Qed.
Lemma read_s32_good c l : goodL (len l) (read_s32 c l).
Proof. destruct l as [|a [|b [|d [|e l]]]]; cbn; try (apply goodL_err, err_eof_ok). apply goodL_ok; cbn; lia. Qed.
Lemma read_u64_good c l : goodL (len l) (read_u64 c l).
Proof. destruct l as [|a [|b [|d [|e [|f [|g [|h [|i l]]]]]]]]; cbn; try (apply goodL_err, err_eof_ok). apply goodL_ok; cbn; lia. Qed.

(* exact consumption where a later fuel argument depends on it *)
Lemma read_s32_len c l n l1 : read_s32 c l = Ok (n, l1) -> len l = (len l1 + 4)%nat.
Proof. destruct l as [|a [|b [|d [|e l]]]]; cbn; intros H; try discriminate. inversion H; subst. cbn. lia. Qed.

Lemma read_n_good c n l : goodL (len l) (read_n c n l).
Proof.
  unfold read_n. destruct (n <? 0).
  - destruct (strict c); [apply goodL_err; discriminate |]. destruct (neg_size_err c); [apply goodL_err; discriminate | apply goodL_ok; cbn; lia].
  - destruct (zlen l <? n).
    + destruct (strict c); [apply goodL_err; discriminate |]. destruct (neg_size_err c); [apply goodL_err; discriminate | apply goodL_ok; cbn; lia].
    + apply goodL_ok. rewrite skipn_length. lia.
Qed.

Lemma w_int_good c a b l : goodL (len l) (w_int c a b l).
Proof. unfold w_int. destruct a; [apply read_s32_good|]. destruct b; [apply read_s16_good | apply goodL_ok; lia]. Qed.

(* digits: two bytes each, so `k` rounds suffice when the input is shorter than 2k bytes *)
Lemma read_digits_good c : forall k n acc l, (len l < 2 * k)%nat -> goodL (len l) (read_digits c k n acc l).
Proof.
  induction k as [|k IH]; intros n acc l Hk; [lia|].
  cbn [read_digits]. destruct (n <=? 0); [apply goodL_ok; lia|].
  destruct l as [|a [|b l]]; cbn [read_s16 bind]; try (apply goodL_err, err_eof_ok).
  destruct (strict c && ((s16 (le16 a b) <? 0) || ((n =? 1) && (s16 (le16 a b) =? 0)))); [apply goodL_err; discriminate|].
  eapply goodL_mono; [|apply IH]; cbn [len] in *; lia.
Qed.

(* ---- state plumbing keeps the input ---- *)
Lemma inp_insert i v st : inp (insert i v st) = inp st.
Proof. destruct i; reflexivity. Qed.
Lemma inp_r_ref s v st l : inp (r_ref s v st l) = l.
Proof. reflexivity. Qed.
Lemma inp_reserve s ph st l : inp (fst (reserve s ph st l)) = l.
Proof. unfold reserve. destruct s; reflexivity. Qed.

(* ---- a reader of one object that is good on every state with at most m bytes ---- *)
Definition robj_ok (robj : mstate -> result (pv * mstate)) (m : nat) : Prop :=
  forall st, (len (inp st) <= m)%nat ->
    robj st <> Err OutOfFuel /\ forall v st', robj st = Ok (v, st') -> (len (inp st') < len (inp st))%nat.

Lemma read_objs_good robj m : robj_ok robj m -> forall k n acc st,
  (len (inp st) <= m)%nat -> (len (inp st) < k)%nat -> goodS (len (inp st)) (read_objs robj k n acc st).
Proof.
  intros Hr. induction k as [|k IH]; intros n acc st Hm Hk; [lia|].
  cbn [read_objs]. destruct (n <=? 0); [apply goodS_ok; lia|].
  destruct (Hr st Hm) as [H1 H2]. destruct (robj st) as [[v st']|e] eqn:E; cbn [bind].
  - specialize (H2 v st' eq_refl). eapply goodS_mono; [|apply IH]; lia.
  - apply goodS_err. congruence.
Qed.

Lemma read_dict_good robj m : robj_ok robj m -> forall k acc st,
  (len (inp st) <= m)%nat -> (len (inp st) < k)%nat -> goodS (len (inp st)) (read_dict robj k acc st).
Proof.
  intros Hr. induction k as [|k IH]; intros acc st Hm Hk; [lia|].
  cbn [read_dict]. destruct (Hr st Hm) as [H1 H2]. destruct (robj st) as [[key st1]|e] eqn:E; cbn [bind]; [|apply goodS_err; congruence].
  specialize (H2 key st1 eq_refl).
  assert (Hend : goodS (len (inp st)) (Ok (rev acc, st1))) by (apply goodS_ok; lia).
  assert (Hrest : goodS (len (inp st))
            (do2 (val, st2) <- robj st1; match val with PNull => Ok (rev acc, st2) | _ => read_dict robj k ((key, val) :: acc) st2 end)).
  { destruct (Hr st1 ltac:(lia)) as [G1 G2]. destruct (robj st1) as [[val st2]|e] eqn:E2; cbn [bind]; [|apply goodS_err; congruence].
    specialize (G2 val st2 eq_refl).
    assert (Hrec : goodS (len (inp st)) (read_dict robj k ((key, val) :: acc) st2)) by (eapply goodS_mono; [|apply IH]; lia).
    destruct val; try exact Hrec. apply goodS_ok. lia. }
  destruct key; try exact Hrest. exact Hend.
Qed.

(* ---- leaves ---- *)
Ltac prim := first [apply read_s32_good | apply read_u8_good | apply read_u64_good | apply read_s16_good | apply read_n_good | apply w_int_good].
Ltac primM := eapply goodL_mono; [| prim]; lia.
Ltac finS := first [ apply goodS_ok; cbn [inp r_ref with_inp]; rewrite ?inp_insert; cbn [inp]; lia
                   | apply goodS_err; first [discriminate | match goal with |- (if ?b then _ else _) <> _ => destruct b; discriminate end] ].
Ltac stepLS := apply bindLS; [primM | intros ? ? ?; cbv beta match].
Ltac leaf := repeat first [ finS | stepLS
                          | match goal with |- goodS _ (if ?b then _ else _) => destruct b end
                          | match goal with |- goodS _ (Ok (_, if ?b then _ else _)) => destruct b end
                          | match goal with |- goodS _ (match ?o with Some _ => _ | None => _ end) => destruct o end ].

Lemma r_leaf_good c save t st l r : r_leaf c save t st l = Some r -> goodS (len l) r.
Proof.
  unfold r_leaf. intros H.
  repeat match type of H with
         | (if ?b then _ else _) = Some _ => destruct b
         end;
    try discriminate; inversion H; subst; clear H; try solve [leaf].
  (* 'l': the digit loop gets the whole remaining length as fuel *)
  destruct (read_s32 c l) as [[n l1]|e] eqn:E; cbn [bind]; [|apply goodS_err; pose proof (read_s32_good c l) as [G _]; congruence].
  pose proof (read_s32_len c l n l1 E) as Hl.
  apply bindLS; [eapply goodL_mono; [|apply read_digits_good]; lia | intros ? ? ?; cbv beta match; leaf].
Qed.

(* ---- containers ---- *)
Lemma reserve_inp s ph st l st1 i : reserve s ph st l = (st1, i) -> inp st1 = l.
Proof. intros H. pose proof (inp_reserve s ph st l) as E. rewrite H in E. exact E. Qed.

Lemma r_container_good c robj save t st l r : robj_ok robj (len l) -> r_container c robj save t st l = Some r -> goodS (len l) r.
Proof.
  intros Hr. unfold r_container. intros H.
  repeat match type of H with
         | (if ?b then _ else _) = Some _ => destruct b
         end;
    try discriminate; inversion H; subst; clear H.
  - (* tuple / small tuple / set / frozenset *)
    apply bindLS; [destruct (t =? 41); primM | intros n l1 Hl1; cbv beta match].
    destruct (strict c && (n <? 0)); [finS|].
    destruct (reserve save (ph_container c) st l1) as [st1 i] eqn:E. pose proof (reserve_inp _ _ _ _ _ _ E) as Hi.
    assert (G : goodS (len (inp st1)) (read_objs robj (S (len l)) n [] st1)) by (apply (read_objs_good robj (len l) Hr); rewrite Hi; lia).
    apply bindSS.
    + apply (goodS_mono (len (inp st1)) (len l) _ ltac:(rewrite Hi; lia) G).
    + intros vs st2 H2. cbv beta match. destruct (strict c && negb (no_null vs)); finS.
  - (* list *)
    apply bindLS; [primM | intros n l1 Hl1; cbv beta match].
    destruct (strict c && (n <? 0)); [finS|].
    destruct (reserve save (PList []) st l1) as [st1 i] eqn:E. pose proof (reserve_inp _ _ _ _ _ _ E) as Hi.
    assert (G : goodS (len (inp st1)) (read_objs robj (S (len l)) n [] st1)) by (apply (read_objs_good robj (len l) Hr); rewrite Hi; lia).
    apply bindSS.
    + apply (goodS_mono (len (inp st1)) (len l) _ ltac:(rewrite Hi; lia) G).
    + intros vs st2 H2. cbv beta match. destruct (strict c && negb (no_null vs)); finS.
  - (* dict *)
    destruct (reserve save (PDict []) st l) as [st1 i] eqn:E. pose proof (reserve_inp _ _ _ _ _ _ E) as Hi.
    assert (G : goodS (len (inp st1)) (read_dict robj (S (len l)) [] st1)) by (apply (read_dict_good robj (len l) Hr); rewrite Hi; lia).
    apply bindSS.
    + apply (goodS_mono (len (inp st1)) (len l) _ ltac:(rewrite Hi; lia) G).
    + intros kv st2 H2. cbv beta match. finS.
Qed.

(* ---- code objects ---- *)
Lemma robj_good robj m st : robj_ok robj m -> (len (inp st) <= m)%nat -> goodS m (robj st).
Proof.
  intros Hr Hm. destruct (Hr st Hm) as [H1 H2]. split; [exact H1|]. intros v st' E. specialize (H2 v st' E). lia.
Qed.

Ltac listStep :=
  apply bindLS;
  [ repeat match goal with |- goodL _ (if ?b then _ else _) => destruct b end; first [primM | apply goodL_ok; lia]
  | intros ? ? ?; cbv beta match ].
Ltac objStep Hr :=
  apply bindSS;
  [ repeat match goal with |- goodS _ (if ?b then _ else _) => destruct b end;
    first [apply (robj_good _ _ _ Hr); cbn [inp with_inp]; lia | apply goodS_ok; cbn [inp with_inp]; lia]
  | intros ? ? ?; cbv beta match ].

Lemma r_code_good c robj save st l : robj_ok robj (len l) -> goodS (len l) (r_code c robj save st l).
Proof.
  intros Hr. unfold r_code.
  destruct (reserve save (ph_code c) st l) as [st0 i] eqn:E. pose proof (reserve_inp _ _ _ _ _ _ E) as Hi.
  cbv zeta. rewrite Hi.
  do 6 listStep.
  do 3 (objStep Hr).
  destruct (vge c [3; 11]).
  - do 5 (objStep Hr). listStep. do 2 (objStep Hr).
    match goal with |- context [as_list ?a] => destruct (as_list a) end; [|finS].
    match goal with |- context [as_bytes ?b] => destruct (as_bytes b) end; [|finS].
    match goal with |- context [split_localsplus ?a ?b] => destruct (split_localsplus a b) as [[? ?] ?] end. finS.
  - do 5 (objStep Hr). listStep. objStep Hr. finS.
Qed.

(* ---- the reader ---- *)
Lemma robj_ok_mono robj m m' : (m' <= m)%nat -> robj_ok robj m -> robj_ok robj m'.
Proof. intros H Hr st Hs. apply Hr. lia. Qed.

Lemma goodS_to_ok {A} n (r : result (A * mstate)) : goodS n r ->
  r <> Err OutOfFuel /\ forall v st', r = Ok (v, st') -> (len (inp st') < S n)%nat.
Proof. intros [H1 H2]. split; [exact H1|]. intros v st' E. specialize (H2 v st' E). lia. Qed.

Theorem r_object_fuel : forall f c, robj_ok (r_object (S f) c) f.
Proof.
  induction f as [|f IH]; intros c st Hlen.
  - destruct (inp st) as [|b l] eqn:E; [|cbn in Hlen; lia].
    cbn [r_object]. rewrite E. split; [destruct (strict c); [discriminate|]; destruct (neg_size_err c); discriminate | intros v st' H; destruct (strict c); [discriminate|]; destruct (neg_size_err c); discriminate].
  - destruct (inp st) as [|byte1 l] eqn:E.
    + cbn [r_object]. rewrite E. split; [destruct (strict c); [discriminate|]; destruct (neg_size_err c); discriminate | intros v st' H; destruct (strict c); [discriminate|]; destruct (neg_size_err c); discriminate].
    + assert (Hl : (len l <= f)%nat) by (cbn in Hlen; lia).
      assert (Hr : robj_ok (r_object (S f) c) (len l)) by (apply (robj_ok_mono _ f); [exact Hl | apply IH]).
      change (r_object (S (S f)) c st) with
        (match inp st with
         | [] => Err (if strict c then EOFErr else if neg_size_err c then EOFErr else TypeErr)
         | byte1 :: l =>
             let flag := mask_flag c && negb (Z.land byte1 128 =? 0) in
             if strict c && flag && negb (flag_ref_ok c) then Err ValueErr else
             let t := if mask_flag c then Z.land byte1 127 else byte1 in
             if negb (code_ok c t) then (if unknown_err c then Err ValueErr else Ok (PNone, with_inp st l)) else
             match r_leaf c flag t st l with
             | Some r => r
             | None =>
                 match r_container c (r_object (S f) c) flag t st l with
                 | Some r => r
                 | None =>
                     if (t =? 99) || (t =? 67) then r_code c (r_object (S f) c) flag st l
                     else (if unknown_err c then Err ValueErr else Ok (PNone, with_inp st l))
                 end
             end
         end).
      rewrite E. cbv zeta.
      set (flag := mask_flag c && negb (Z.land byte1 128 =? 0)).
      set (t := if mask_flag c then Z.land byte1 127 else byte1).
      cbn [len]. apply goodS_to_ok.
      destruct (strict c && flag && negb (flag_ref_ok c)); [finS|].
      destruct (negb (code_ok c t)); [destruct (unknown_err c); finS|].
      destruct (r_leaf c flag t st l) as [r|] eqn:El; [apply (r_leaf_good _ _ _ _ _ _ El)|].
      destruct (r_container c (r_object (S f) c) flag t st l) as [r|] eqn:Ec; [apply (r_container_good _ _ _ _ _ _ _ Hr Ec)|].
      destruct ((t =? 99) || (t =? 67)); [apply (r_code_good _ _ _ _ _ Hr)|].
      destruct (unknown_err c); finS.
Qed.

(* `load` gives the reader one unit of fuel more than there are bytes *)
Theorem load_never_out_of_fuel : forall c bs, load c bs <> Err OutOfFuel.
Proof.
  intros c bs. unfold load.
  destruct (r_object_fuel (len bs) c (init_state bs)) as [H _]; [cbn; lia | exact H].
Qed.

(* ... and whatever it returns, it has consumed at least one byte *)
Theorem load_consumes : forall c bs v st, load c bs = Ok (v, st) -> (len (inp st) < len bs)%nat.
Proof.
  intros c bs v st H. unfold load in H.
  destruct (r_object_fuel (len bs) c (init_state bs)) as [_ H2]; [cbn; lia|]. exact (H2 v st H).
Qed.

From Xdis Require Import Base.Prelude Base.Result Base.LE Model.Unmarshal.
From Coq Require Import ZifyBool.

(* CPython keeps NULL in a reference slot that xdis fills with a placeholder *)
Definition slot_rel (s m : pv) : Prop := s = PNull \/ s = m.
Definition st_rel (ss sm : mstate) : Prop :=
  inp ss = inp sm /\ Forall2 slot_rel (refs ss) (refs sm) /\ strs ss = strs sm.

Record cfg_rel (cs cm : cfg) : Prop := {
  cr_s : strict cs = true;
  cr_m : strict cm = false;
  cr_magic : magic_int cs = magic_int cm;
  cr_version : version cs = version cm;
  cr_flag : flag_ref_ok cm = true;
  cr_mask_s : mask_flag cs = true;
  cr_mask_m : mask_flag cm = true;
  cr_unk : unknown_err cs = true;
  cr_codes : forall t, 0 <= t < 128 -> code_ok cs t = true -> code_ok cm t = true
}.

Definition sim (rs rm : mstate -> result (pv * mstate)) : Prop :=
  forall ss sm v ss', st_rel ss sm -> rs ss = Ok (v, ss') ->
  exists sm', rm sm = Ok (v, sm') /\ st_rel ss' sm'.

(* ---------- primitives ---------- *)
Lemma read_n_sim cs cm n l s r : strict cs = true -> strict cm = false ->
  read_n cs n l = Ok (s, r) -> read_n cm n l = Ok (s, r).
Proof.
  intros Hs Hm. unfold read_n. rewrite Hs, Hm.
  destruct (n <? 0); [discriminate|]. destruct (zlen l <? n); [discriminate|]. auto.
Qed.
Lemma read_u8_sim cs cm l x r : read_u8 cs l = Ok (x, r) -> read_u8 cm l = Ok (x, r).
Proof. unfold read_u8. destruct l; [discriminate|auto]. Qed.
Lemma read_s16_sim cs cm l x r : read_s16 cs l = Ok (x, r) -> read_s16 cm l = Ok (x, r).
Proof. unfold read_s16. destruct l as [|a [|b l]]; try discriminate; auto. Qed.
Lemma read_s32_sim cs cm l x r : read_s32 cs l = Ok (x, r) -> read_s32 cm l = Ok (x, r).
Proof. unfold read_s32. destruct l as [|a [|b [|d [|e l]]]]; try discriminate; auto. Qed.
Lemma read_u64_sim cs cm l x r : read_u64 cs l = Ok (x, r) -> read_u64 cm l = Ok (x, r).
Proof. unfold read_u64. destruct l as [|a [|b [|d [|e [|f [|g [|h [|i l]]]]]]]]; try discriminate; auto. Qed.

Lemma read_digits_sim cs cm : strict cm = false -> forall k n acc l ds r,
  read_digits cs k n acc l = Ok (ds, r) -> read_digits cm k n acc l = Ok (ds, r).
Proof.
  intros Hm. induction k as [|k IH]; intros n acc l ds r H; cbn [read_digits] in *.
  - destruct (n <=? 0); [exact H|discriminate].
  - destruct (n <=? 0); [exact H|].
    destruct (read_s16 cs l) as [[d l']|e] eqn:E; [|discriminate]. cbn [bind] in H.
    rewrite (read_s16_sim cs cm _ _ _ E). cbn [bind]. rewrite Hm. cbn [andb].
    destruct (strict cs && ((d <? 0) || ((n =? 1) && (d =? 0)))); [discriminate|]. apply IH. exact H.
Qed.

Lemma w_int_sim cs cm a b l x r : w_int cs a b l = Ok (x, r) -> w_int cm a b l = Ok (x, r).
Proof.
  unfold w_int. destruct a; [apply read_s32_sim|]. destruct b; [apply read_s16_sim|auto].
Qed.

(* ---------- reference table ---------- *)
Lemma st_rel_with_inp ss sm l : st_rel ss sm -> st_rel (with_inp ss l) (with_inp sm l).
Proof. intros (H1 & H2 & H3). unfold st_rel, with_inp. cbn. auto. Qed.

Lemma st_rel_r_ref save v ss sm l : st_rel ss sm -> st_rel (r_ref save v ss l) (r_ref save v sm l).
Proof.
  intros (H1 & H2 & H3). unfold st_rel, r_ref. cbn. repeat split; auto.
  destruct save; [|exact H2]. apply Forall2_app; [exact H2|]. constructor; [right; reflexivity|constructor].
Qed.

Lemma st_rel_strs ss sm v : st_rel ss sm ->
  st_rel {| inp := inp ss; refs := refs ss; strs := strs ss ++ [v] |} {| inp := inp sm; refs := refs sm; strs := strs sm ++ [v] |}.
Proof. intros (H1 & H2 & H3). unfold st_rel. cbn. rewrite H3. auto. Qed.

Lemma Forall2_len {A B} (R : A -> B -> Prop) a b : Forall2 R a b -> List.length a = List.length b.
Proof. induction 1; cbn; congruence. Qed.

Lemma st_rel_reserve save phs phm ss sm l ss1 i : st_rel ss sm -> slot_rel phs phm ->
  reserve save phs ss l = (ss1, i) ->
  exists sm1, reserve save phm sm l = (sm1, i) /\ st_rel ss1 sm1.
Proof.
  intros (H1 & H2 & H3) Hp. unfold reserve. destruct save; intros E; inversion E; subst; clear E.
  - rewrite (Forall2_len _ _ _ H2). eexists. split; [reflexivity|]. unfold st_rel. cbn. repeat split; auto.
    apply Forall2_app; [exact H2|]. constructor; [exact Hp|constructor].
  - eexists. split; [reflexivity|]. apply st_rel_with_inp. unfold st_rel; auto.
Qed.

Lemma set_nth_rel (v : pv) : forall (a b : list pv) k, Forall2 slot_rel a b -> Forall2 slot_rel (set_nth a k v) (set_nth b k v).
Proof.
  intros a b k H. revert k. induction H as [|x y a b Hxy H IH]; intros k; cbn [set_nth]; [constructor|].
  destruct k; constructor; auto. right; reflexivity.
Qed.

Lemma st_rel_insert i v ss sm : st_rel ss sm -> st_rel (insert i v ss) (insert i v sm).
Proof.
  intros (H1 & H2 & H3). unfold insert. destruct i as [k|]; [|unfold st_rel; auto].
  unfold st_rel. cbn. repeat split; auto. apply set_nth_rel. exact H2.
Qed.

Lemma nth_error_rel : forall (a b : list pv) n x, Forall2 slot_rel a b -> nth_error a n = Some x -> x <> PNull -> nth_error b n = Some x.
Proof.
  intros a b n x H. revert n. induction H as [|p q a b Hpq H IH]; intros n Hn Hx; destruct n; cbn in *; try discriminate.
  - inversion Hn; subst. destruct Hpq as [Hp|Hp]; [congruence|subst; reflexivity].
  - apply IH; assumption.
Qed.

(* ---------- loops ---------- *)
Lemma read_objs_sim rs rm : sim rs rm -> forall k n acc ss sm vs ss', st_rel ss sm ->
  read_objs rs k n acc ss = Ok (vs, ss') -> exists sm', read_objs rm k n acc sm = Ok (vs, sm') /\ st_rel ss' sm'.
Proof.
  intros Hsim. induction k as [|k IH]; intros n acc ss sm vs ss' Hr H; cbn [read_objs] in *.
  - destruct (n <=? 0); [inversion H; subst; eauto|discriminate].
  - destruct (n <=? 0); [inversion H; subst; eauto|].
    destruct (rs ss) as [[v s1]|e] eqn:E; [|discriminate]. cbn [bind] in H.
    destruct (Hsim _ _ _ _ Hr E) as (sm1 & Em & Hr1). rewrite Em. cbn [bind]. eapply IH; eauto.
Qed.

Lemma read_dict_sim rs rm : sim rs rm -> forall k acc ss sm kv ss', st_rel ss sm ->
  read_dict rs k acc ss = Ok (kv, ss') -> exists sm', read_dict rm k acc sm = Ok (kv, sm') /\ st_rel ss' sm'.
Proof.
  intros Hsim. induction k as [|k IH]; intros acc ss sm kv ss' Hr H; cbn [read_dict] in *; [discriminate|].
  destruct (rs ss) as [[key s1]|e] eqn:E; [|discriminate]. cbn [bind] in H.
  destruct (Hsim _ _ _ _ Hr E) as (sm1 & Em & Hr1). rewrite Em. cbn [bind].
  destruct key; try (destruct (rs s1) as [[val s2]|e2] eqn:E2; [|discriminate]; cbn [bind] in H;
    destruct (Hsim _ _ _ _ Hr1 E2) as (sm2 & Em2 & Hr2); rewrite Em2; cbn [bind];
    destruct val; try (eapply IH; eauto; fail); inversion H; subst; eauto).
  inversion H; subst; eauto.
Qed.

(* ---------- leaves ---------- *)
Lemma some_inj {A} (a b : A) : Some a = Some b -> a = b.
Proof. intros H; inversion H; reflexivity. Qed.

Ltac prim Hs Hm :=
  match goal with
  | H : bind (read_s32 ?cs ?l) _ = Ok _ |- context [read_s32 ?cm ?l] =>
      let E := fresh "E" in destruct (read_s32 cs l) as [[? ?]|?] eqn:E; [|discriminate H]; cbn [bind] in H;
      rewrite (read_s32_sim cs cm _ _ _ E); cbn [bind]
  | H : bind (read_u8 ?cs ?l) _ = Ok _ |- context [read_u8 ?cm ?l] =>
      let E := fresh "E" in destruct (read_u8 cs l) as [[? ?]|?] eqn:E; [|discriminate H]; cbn [bind] in H;
      rewrite (read_u8_sim cs cm _ _ _ E); cbn [bind]
  | H : bind (read_u64 ?cs ?l) _ = Ok _ |- context [read_u64 ?cm ?l] =>
      let E := fresh "E" in destruct (read_u64 cs l) as [[? ?]|?] eqn:E; [|discriminate H]; cbn [bind] in H;
      rewrite (read_u64_sim cs cm _ _ _ E); cbn [bind]
  | H : bind (read_n ?cs ?n ?l) _ = Ok _ |- context [read_n ?cm ?n ?l] =>
      let E := fresh "E" in destruct (read_n cs n l) as [[? ?]|?] eqn:E; [|discriminate H]; cbn [bind] in H;
      rewrite (read_n_sim cs cm _ _ _ _ Hs Hm E); cbn [bind]
  | H : bind (read_digits ?cs ?k ?n ?a ?l) _ = Ok _ |- context [read_digits ?cm ?k ?n ?a ?l] =>
      let E := fresh "E" in destruct (read_digits cs k n a l) as [[? ?]|?] eqn:E; [|discriminate H]; cbn [bind] in H;
      rewrite (read_digits_sim cs cm Hm _ _ _ _ _ _ E); cbn [bind]
  end.

Ltac solve_rel Hr :=
  let R1 := fresh "R" in let R2 := fresh "R" in let R3 := fresh "R" in
  destruct Hr as (R1 & R2 & R3); unfold st_rel, r_ref, with_inp; cbn [inp refs strs];
  repeat split; try reflexivity; try (rewrite R3; reflexivity);
  try (match goal with |- Forall2 slot_rel (if ?b then _ else _) _ => destruct b end;
       [apply Forall2_app; [exact R2 | constructor; [right; reflexivity | constructor]] | exact R2]);
  try exact R2.

Ltac fin Hr :=
  match goal with
  | H : Ok _ = Ok _ |- _ => inversion H; subst; clear H; eexists; split; [reflexivity|]; solve_rel Hr
  end.

Lemma leaf_sim cs cm save t ss sm l v ss' : cfg_rel cs cm -> st_rel ss sm ->
  r_leaf cs save t ss l = Some (Ok (v, ss')) ->
  exists sm', r_leaf cm save t sm l = Some (Ok (v, sm')) /\ st_rel ss' sm'.
Proof.
  intros Hc Hr. pose proof (cr_s _ _ Hc) as Hs. pose proof (cr_m _ _ Hc) as Hm. pose proof (cr_version _ _ Hc) as Hv.
  unfold r_leaf. unfold vge. rewrite <- Hv.
  repeat match goal with |- context [if ?b then Some _ else _] => destruct b eqn:? end;
    intros H; try discriminate H; apply some_inj in H; rename H into H';
    try (repeat prim Hs Hm; fin Hr; fail).
  - (* 'A' / 'u' / 'a' *) repeat prim Hs Hm. unfold text_bad, vge in *. rewrite <- Hv.
    match goal with H : (if ?b then Err _ else _) = Ok _ |- _ => destruct b; [discriminate H|] end. destruct (t =? 65); fin Hr.
  - (* 'z' 'Z' *) repeat prim Hs Hm. destruct (t =? 90); fin Hr.
  - (* 'R' *) repeat prim Hs Hm. rewrite Hs in H'. rewrite Hm. destruct Hr as (R1 & R2 & R3). rewrite <- R3.
    destruct ((0 <=? z) && (z <? zlen (strs ss))) eqn:Eb; [|discriminate H'].
    unfold py_index. rewrite Eb.
    destruct (nth_error (strs ss) (Z.to_nat z)) eqn:En; [|discriminate H']. inversion H'; subst.
    eexists. split; [reflexivity|]. apply st_rel_with_inp. unfold st_rel; auto.
  - (* 'r' *) repeat prim Hs Hm. rewrite Hs in H'. rewrite Hm. cbn [andb] in *. destruct Hr as (R1 & R2 & R3).
    destruct ((0 <=? z) && (z <? zlen (refs ss))) eqn:Eb; [|discriminate H'].
    destruct (nth_error (refs ss) (Z.to_nat z)) as [x|] eqn:En; [|discriminate H'].
    assert (Hx : x <> PNull) by (intros ->; discriminate H').
    assert (Hv' : x = v /\ with_inp ss l0 = ss') by (destruct x; inversion H'; auto; congruence).
    destruct Hv' as [-> <-].
    unfold py_index. unfold zlen in *. rewrite <- (Forall2_len _ _ _ R2). rewrite Eb.
    rewrite (nth_error_rel _ _ _ _ R2 En Hx).
    eexists. split; [reflexivity|]. apply st_rel_with_inp. unfold st_rel; auto.
Qed.

Lemma leaf_none cs cm save t ss sm l : r_leaf cs save t ss l = None -> r_leaf cm save t sm l = None.
Proof.
  unfold r_leaf.
  repeat match goal with |- context [if ?b then Some _ else _] => destruct b eqn:? end; intros H; try discriminate H; reflexivity.
Qed.

(* ---------- containers ---------- *)
Lemma slot_ph_container cs cm : strict cs = true -> slot_rel (ph_container cs) (ph_container cm).
Proof. intros H. unfold ph_container. rewrite H. left. reflexivity. Qed.
Lemma slot_ph_code cs cm : strict cs = true -> slot_rel (ph_code cs) (ph_code cm).
Proof. intros H. unfold ph_code. rewrite H. left. reflexivity. Qed.
Lemma slot_refl x : slot_rel x x.
Proof. right. reflexivity. Qed.

Lemma container_sim cs cm rs rm save t ss sm l v ss' : cfg_rel cs cm -> sim rs rm -> st_rel ss sm ->
  r_container cs rs save t ss l = Some (Ok (v, ss')) ->
  exists sm', r_container cm rm save t sm l = Some (Ok (v, sm')) /\ st_rel ss' sm'.
Proof.
  intros Hc Hsim Hr. pose proof (cr_s _ _ Hc) as Hs. pose proof (cr_m _ _ Hc) as Hm.
  unfold r_container. rewrite Hs, Hm. cbn [andb].
  repeat match goal with |- context [if ?b then Some _ else _] => destruct b eqn:? end;
    intros H; try discriminate H; apply some_inj in H.
  - (* tuples and sets *)
    assert (Hn : exists n l1, (if t =? 41 then read_u8 cs l else read_s32 cs l) = Ok (n, l1) /\
                              (if t =? 41 then read_u8 cm l else read_s32 cm l) = Ok (n, l1)).
    { destruct (t =? 41).
      - destruct (read_u8 cs l) as [[n l1]|e] eqn:E; [|discriminate H]. exists n, l1. split; [reflexivity|]. exact (read_u8_sim cs cm _ _ _ E).
      - destruct (read_s32 cs l) as [[n l1]|e] eqn:E; [|discriminate H]. exists n, l1. split; [reflexivity|]. exact (read_s32_sim cs cm _ _ _ E). }
    destruct Hn as (n & l1 & En & Enm). rewrite En in H. rewrite Enm. cbn [bind] in *.
    destruct (n <? 0); [discriminate H|].
    destruct (reserve save (ph_container cs) ss l1) as [ss1 i] eqn:Eres.
    destruct (st_rel_reserve save _ (ph_container cm) ss sm l1 ss1 i Hr (slot_ph_container cs cm Hs) Eres) as (sm1 & Eresm & Hr1).
    rewrite Eresm.
    destruct (read_objs rs (S (List.length l)) n [] ss1) as [[vs ss2]|e] eqn:Eo; [|discriminate H]. cbn [bind] in H.
    destruct (read_objs_sim rs rm Hsim _ _ _ _ _ _ _ Hr1 Eo) as (sm2 & Eom & Hr2). rewrite Eom. cbn [bind].
    destruct (negb (no_null vs)); [discriminate H|]. inversion H; subst.
    eexists. split; [reflexivity|]. apply st_rel_insert. exact Hr2.
  - (* list *)
    destruct (read_s32 cs l) as [[n l1]|e] eqn:E; [|discriminate H]. rewrite (read_s32_sim cs cm _ _ _ E). cbn [bind] in *.
    destruct (n <? 0); [discriminate H|].
    destruct (reserve save (PList []) ss l1) as [ss1 i] eqn:Eres.
    destruct (st_rel_reserve save _ (PList []) ss sm l1 ss1 i Hr (slot_refl _) Eres) as (sm1 & Eresm & Hr1).
    rewrite Eresm.
    destruct (read_objs rs (S (List.length l)) n [] ss1) as [[vs ss2]|e] eqn:Eo; [|discriminate H]. cbn [bind] in H.
    destruct (read_objs_sim rs rm Hsim _ _ _ _ _ _ _ Hr1 Eo) as (sm2 & Eom & Hr2). rewrite Eom. cbn [bind].
    destruct (negb (no_null vs)); [discriminate H|]. inversion H; subst.
    eexists. split; [reflexivity|]. apply st_rel_insert. exact Hr2.
  - (* dict *)
    destruct (reserve save (PDict []) ss l) as [ss1 i] eqn:Eres.
    destruct (st_rel_reserve save _ (PDict []) ss sm l ss1 i Hr (slot_refl _) Eres) as (sm1 & Eresm & Hr1).
    rewrite Eresm.
    destruct (read_dict rs (S (List.length l)) [] ss1) as [[kv ss2]|e] eqn:Eo; [|discriminate H]. cbn [bind] in H.
    destruct (read_dict_sim rs rm Hsim _ _ _ _ _ _ Hr1 Eo) as (sm2 & Eom & Hr2). rewrite Eom. cbn [bind].
    inversion H; subst. eexists. split; [reflexivity|]. apply st_rel_insert. exact Hr2.
Qed.

Lemma container_none cs cm rs rm save t ss sm l :
  r_container cs rs save t ss l = None -> r_container cm rm save t sm l = None.
Proof.
  unfold r_container.
  repeat match goal with |- context [if ?b then Some _ else _] => destruct b eqn:? end; intros H; try discriminate H; reflexivity.
Qed.

(* ---------- code objects ---------- *)
Ltac rstep Hsim :=
  match goal with
  | H : bind (?rs ?s) _ = Ok _, Hr : st_rel ?s ?m |- context [?rm ?m] =>
      let E := fresh "E" in destruct (rs s) as [[? ?]|?] eqn:E; [|discriminate H]; cbn [bind] in H;
      let sm' := fresh "sm" in let Em := fresh "Em" in let Hr' := fresh "Hr" in
      destruct (Hsim _ _ _ _ Hr E) as (sm' & Em & Hr'); rewrite Em; cbn [bind]; clear Hr
  end.
Ltac wstep :=
  match goal with
  | H : bind (w_int ?cs ?a ?b ?l) _ = Ok _ |- context [w_int ?cm ?a ?b ?l] =>
      let E := fresh "E" in destruct (w_int cs a b l) as [[? ?]|?] eqn:E; [|discriminate H]; cbn [bind] in H;
      rewrite (w_int_sim cs cm _ _ _ _ _ E); cbn [bind]
  | H : bind (read_s32 ?cs ?l) _ = Ok _ |- context [read_s32 ?cm ?l] =>
      let E := fresh "E" in destruct (read_s32 cs l) as [[? ?]|?] eqn:E; [|discriminate H]; cbn [bind] in H;
      rewrite (read_s32_sim cs cm _ _ _ E); cbn [bind]
  | H : bind (Ok _) _ = Ok _ |- _ => cbn [bind] in H; cbn [bind]
  end.

Lemma code_sim cs cm rs rm save ss sm l v ss' : cfg_rel cs cm -> sim rs rm -> st_rel ss sm ->
  r_code cs rs save ss l = Ok (v, ss') ->
  exists sm', r_code cm rm save sm l = Ok (v, sm') /\ st_rel ss' sm'.
Proof.
  intros Hc Hsim Hr. pose proof (cr_s _ _ Hc) as Hs. pose proof (cr_m _ _ Hc) as Hm.
  pose proof (cr_version _ _ Hc) as Hv. pose proof (cr_magic _ _ Hc) as Hg.
  unfold r_code, vge. rewrite <- Hv, <- Hg.
  destruct (reserve save (ph_code cs) ss l) as [ss0 i] eqn:Eres.
  destruct (st_rel_reserve save _ (ph_code cm) ss sm l ss0 i Hr (slot_ph_code cs cm Hs) Eres) as (sm0 & Eresm & Hr0).
  rewrite Eresm. assert (Hi0 : inp sm0 = inp ss0) by (destruct Hr0 as (A & _); symmetry; exact A). rewrite Hi0.
  intros H.
  wstep.
  (* posonly *)
  destruct (tuple_geb (version cs) [3; 8]) eqn:E38.
  - destruct (zmem (magic_int cs) [3400; 3401]) eqn:Emg; repeat wstep.
    all: destruct (tuple_geb (version cs) [3; 0]) eqn:E30; repeat wstep.
    all: destruct (tuple_geb (version cs) [3; 11]) eqn:E311; repeat wstep.
    all: destruct (tuple_geb (version cs) [2; 3]) eqn:E23; destruct (tuple_geb (version cs) [1; 3]) eqn:E13; destruct (tuple_geb (version cs) [1; 5]) eqn:E15;
         destruct (tuple_geb (version cs) [2; 1]) eqn:E20; repeat wstep.
    all: match goal with Hq : st_rel ?a ?b, H : bind (?rr (with_inp ?a ?lx)) _ = _ |- _ => pose proof (st_rel_with_inp _ _ lx Hq) as Hrc end; repeat rstep Hsim.
    all: try match goal with Hr : st_rel ?s ?m |- context [inp ?m] => replace (inp m) with (inp s) by (destruct Hr as (A & _); exact A) end.
    all: repeat wstep.
    all: try match goal with Hr : st_rel ?s ?m, H : context [with_inp ?s ?l9] |- _ => pose proof (st_rel_with_inp _ _ l9 Hr) end.
    all: repeat rstep Hsim.
    all: try (destruct (as_list _); [|discriminate H]; destruct (as_bytes _); [|discriminate H]; destruct (split_localsplus _ _) as [[? ?] ?]).
    all: try (inversion H; subst; eexists; split; [reflexivity|]; apply st_rel_insert; assumption).
  - repeat wstep.
    destruct (tuple_geb (version cs) [3; 0]) eqn:E30; repeat wstep.
    all: destruct (tuple_geb (version cs) [3; 11]) eqn:E311; repeat wstep.
    all: destruct (tuple_geb (version cs) [2; 3]) eqn:E23; destruct (tuple_geb (version cs) [1; 3]) eqn:E13; destruct (tuple_geb (version cs) [1; 5]) eqn:E15;
         destruct (tuple_geb (version cs) [2; 1]) eqn:E20; repeat wstep.
    all: match goal with Hq : st_rel ?a ?b, H : bind (?rr (with_inp ?a ?lx)) _ = _ |- _ => pose proof (st_rel_with_inp _ _ lx Hq) as Hrc end; repeat rstep Hsim.
    all: try match goal with Hr : st_rel ?s ?m |- context [inp ?m] => replace (inp m) with (inp s) by (destruct Hr as (A & _); exact A) end.
    all: repeat wstep.
    all: try match goal with Hr : st_rel ?s ?m, H : context [with_inp ?s ?l9] |- _ => pose proof (st_rel_with_inp _ _ l9 Hr) end.
    all: repeat rstep Hsim.
    all: try (destruct (as_list _); [|discriminate H]; destruct (as_bytes _); [|discriminate H]; destruct (split_localsplus _ _) as [[? ?] ?]).
    all: try (inversion H; subst; eexists; split; [reflexivity|]; apply st_rel_insert; assumption).
Qed.

Lemma land127_range b : 0 <= Z.land b 127 < 128.
Proof.
  split; [apply Z.land_nonneg; right; lia|].
  change 127 with (Z.ones 7). rewrite Z.land_ones by lia. apply Z.mod_pos_bound. reflexivity.
Qed.

(* ---------- the reader: CPython Ok  ==>  xdis Ok, same value, same rest, related tables ---------- *)
Theorem r_object_agree cs cm : cfg_rel cs cm -> forall fuel, sim (r_object fuel cs) (r_object fuel cm).
Proof.
  intros Hc. pose proof (cr_s _ _ Hc) as Hs. pose proof (cr_m _ _ Hc) as Hm.
  induction fuel as [|f IH]; intros ss sm v ss' Hr H; [discriminate H|].
  cbn [r_object] in *. destruct Hr as (R1 & R2 & R3). rewrite <- R1.
  destruct (inp ss) as [|byte1 l] eqn:Ei; [discriminate H|].
  rewrite Hs in H. rewrite Hm. rewrite (cr_mask_s _ _ Hc) in H. rewrite (cr_mask_m _ _ Hc). rewrite (cr_unk _ _ Hc) in H. cbn [andb] in *.
  destruct (negb (Z.land byte1 128 =? 0) && negb (flag_ref_ok cs)); [discriminate H|].
  destruct (code_ok cs (Z.land byte1 127)) eqn:Ec; cbn [negb] in H; [|discriminate H].
  rewrite (cr_codes _ _ Hc _ (land127_range byte1) Ec). cbn [negb].
  assert (Hr : st_rel ss sm) by (unfold st_rel; repeat split; [congruence|assumption|assumption]).
  destruct (r_leaf cs (negb (Z.land byte1 128 =? 0)) (Z.land byte1 127) ss l) as [r|] eqn:El.
  - subst r. destruct (leaf_sim _ _ _ _ _ _ _ _ _ Hc Hr El) as (sm' & Em & Hr'). rewrite Em. eauto.
  - rewrite (leaf_none cs cm _ _ ss sm l El).
    destruct (r_container cs (r_object f cs) (negb (Z.land byte1 128 =? 0)) (Z.land byte1 127) ss l) as [r|] eqn:Eco.
    + subst r. destruct (container_sim _ _ _ _ _ _ _ _ _ _ _ Hc IH Hr Eco) as (sm' & Em & Hr'). rewrite Em. eauto.
    + rewrite (container_none cs cm _ (r_object f cm) _ _ ss sm l Eco).
      destruct ((Z.land byte1 127 =? 99) || (Z.land byte1 127 =? 67)); [|discriminate H].
      exact (code_sim _ _ _ _ _ _ _ _ _ _ Hc IH Hr H).
Qed.

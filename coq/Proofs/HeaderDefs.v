(* Definitions used by Proofs/HeaderProofs.v, in a file of their own so that they still load (for the search for a failing
   magic) when a table obligation in HeaderProofs.v no longer checks. *)
From Xdis Require Import Base.Prelude Base.Result Base.LE Model.Magic Model.Load Gen.Magics Gen.RefMagics Spec.Registry Spec.Header.

(* the header form the model chooses, as a function of what `decide` produced *)
Definition model_kind (mi : Z) (ver : list Z) : hkind :=
  if zmem mi [3439] || tuple_geb ver [3; 7] then Pep552
  else if ((3200 <=? mi) && (mi <? 20121) && tuple_geb ver [1; 5]) || zmem mi pypy3_magics then TsSize else TsOnly.

(* the released magics the property quantifies over, with the 4 bytes found in the file *)
Definition magic_bytes (m : Z) : list Z := match int2magic m with Some b => b | None => [] end.
Definition released_all : list (Z * list Z * list Z) :=
  map (fun '(m, v) => (m, v, magic_bytes m)) (released_cpython ++ released_pre15) ++ corpus_pypy.

(* documented normalisation: PyPy 3.2's magic 48 is reported as 3180+7 *)
Definition norm_magic (m : Z) : Z := if m =? 48 then 3187 else m.

Definition decide_row_ok (row : Z * list Z * list Z) : bool :=
  let '(m, v, mb) := row in
  match decide mb with
  | DHeader tv mi ver =>
      zlist_eqb (firstn 2 tv) v && (mi =? norm_magic m) && negb (mi =? 3393) && hkind_eqb (model_kind mi ver) (spec_kind v)
      && Bool.eqb (is_pypy mi false) (existsb (fun '(m', _, _) => m' =? m) corpus_pypy && negb (m =? 3413))
  | _ => false
  end.
Definition decide_failures := filter (fun row => negb (decide_row_ok row)) released_all.


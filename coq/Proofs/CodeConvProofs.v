(* C16 - round trip of the attribute plumbing, for every valuation of a host's code attributes. *)
From Coq Require Import ZArith List String Bool.
From Xdis Require Import Base.Prelude Gen.CodeType Gen.RefCodeType Model.CodeConv.
Import ListNotations.
Local Open Scope Z_scope.

Definition rt_ok (host : list Z) : Prop :=
  forall (V : Type) (val : string -> V), roundtrip V host (native_obj V host val) = Some (ctor_view V host val).

Definition class_ok (host : list Z) : Prop :=
  forall (V : Type) (val : string -> V),
    option_map fst (to_portable V host (native_obj V host val)) = Some (spec_class host).

(* every constructor attribute of the host is a data attribute, no attribute is set twice, and the view is not empty *)
Definition host_shape_ok (host : list Z) : bool :=
  match vassoc host ref_code with
  | Some (attrs, ctor) => forallb (fun a => smem a attrs) ctor && (15 <=? zlen ctor) &&
                          forallb (fun a => (List.length (filter (String.eqb a) ctor) =? 1)%nat) ctor
  | None => false
  end.

Lemma roundtrip_all : Forall rt_ok c16_hosts.
Proof. unfold c16_hosts. repeat (apply Forall_cons; [intros V val; vm_compute; reflexivity|]). apply Forall_nil. Qed.

Lemma class_all : Forall class_ok c16_hosts.
Proof. unfold c16_hosts. repeat (apply Forall_cons; [intros V val; vm_compute; reflexivity|]). apply Forall_nil. Qed.

Lemma shape_all : forallb host_shape_ok c16_hosts = true.
Proof. vm_compute. reflexivity. Qed.

(* replace: generic facts about set_attr *)
Lemma get_set_same V (o : obj V) a v : has V o a = true -> get V (set_attr V o a v) a = Some v.
Proof.
  unfold has, get. induction o as [|[k w] tl IH]; cbn; [discriminate|].
  destruct (String.eqb a k) eqn:E.
  - intros _. rewrite String.eqb_sym in E. rewrite E. cbn. rewrite String.eqb_sym, E. reflexivity.
  - intros H. rewrite String.eqb_sym in E. rewrite E. cbn. rewrite String.eqb_sym, E. apply IH. exact H.
Qed.

Lemma get_set_other V (o : obj V) a b v : a <> b -> get V (set_attr V o a v) b = get V o b.
Proof.
  intros Hab. unfold get. induction o as [|[k w] tl IH]; cbn; [reflexivity|].
  destruct (String.eqb k a) eqn:E; cbn.
  - apply String.eqb_eq in E. subst k. destruct (String.eqb b a) eqn:E2; [|reflexivity].
    apply String.eqb_eq in E2. congruence.
  - destruct (String.eqb b k); [reflexivity | apply IH].
Qed.

Lemma set_attr_keys V (o : obj V) a v : map fst (set_attr V o a v) = map fst o.
Proof.
  induction o as [|[k w] tl IH]; cbn; [reflexivity|].
  destruct (String.eqb k a); cbn; [reflexivity | rewrite IH; reflexivity].
Qed.

(* Table obligations of C02/C04: every opcode table is compatible with the reference opcode
   data it is compared with - the installed interpreter's (9 versions), and, for every table,
   the reference view of the table itself (the decoding ALGORITHM of that version family
   applied to xdis's own HAVE_ARGUMENT / EXTENDED_ARG; the table contents are C09's business). *)
From Xdis Require Import Base.Prelude Base.Result Base.OpTable Gen.Opcodes Gen.RefOpcodes Model.Instr Spec.Dis Proofs.InstrProofs.

Definition self_ref (T : optable) : reftable :=
  {| r_version := firstn 2 (t_version T); r_opmap := t_opmap T; r_opname := t_opname T;
     r_have_argument := t_have_argument T; r_extended_arg := t_extended_arg T;
     r_hasjrel := t_hasjrel T; r_hasjabs := t_hasjabs T; r_hasconst := t_hasconst T; r_hasname := t_hasname T;
     r_haslocal := t_haslocal T; r_hasfree := t_hasfree T; r_hascompare := t_hascompare T;
     r_hasarg := filter (fun op => t_have_argument T <=? op) ops256; r_cache := []; r_cmp_op := t_cmp_op T |}.

Definition oracle_pairs : list (optable * reftable) :=
  [(opcode_27, ref_27); (opcode_36, ref_36); (opcode_37, ref_37); (opcode_38, ref_38); (opcode_39, ref_39);
   (opcode_310, ref_310); (opcode_311, ref_311); (opcode_312, ref_312); (opcode_313, ref_313)].
(* tables of versions without inline caches can be compared with their own reference view *)
Definition self_pairs : list (optable * reftable) :=
  map (fun T => (T, self_ref T)) (filter (fun T => tuple_ltb (t_version T) [3; 11]) all_tables).
Definition all_pairs := oracle_pairs ++ self_pairs.

Lemma all_pairs_compat : forallb (fun '(T, R) => compat T R) all_pairs = true.
Proof. vm_compute. reflexivity. Qed.

Lemma pair_compat T R : In (T, R) all_pairs -> compat T R = true.
Proof. intros H. exact (proj1 (forallb_forall _ _) all_pairs_compat (T, R) H). Qed.

(* non-vacuity: real code compiled by CPython 3.12 and 2.7 is well-formed *)
Definition code312 : list Z := [151; 0; 124; 0; 68; 0; 93; 26; 0; 0; 125; 1; 124; 1; 115; 1; 140; 6; 116; 1; 0; 0; 0; 0; 0; 0; 0; 0; 124; 1; 106; 2; 0; 0; 0; 0; 0; 0; 0; 0; 0; 0; 0; 0; 0; 0; 0; 0; 0; 0; 171; 1; 0; 0; 0; 0; 0; 0; 1; 0; 140; 28; 4; 0; 124; 0; 68; 0; 143; 2; 99; 2; 103; 0; 99; 2; 93; 4; 0; 0; 125; 2; 124; 2; 145; 2; 140; 6; 4; 0; 99; 2; 125; 2; 83; 0; 99; 2; 1; 0; 99; 2; 125; 2; 119; 0].
Definition code27 : list Z := [120; 31; 0; 124; 0; 0; 68; 93; 23; 0; 125; 1; 0; 124; 1; 0; 114; 7; 0; 124; 1; 0; 106; 0; 0; 71; 72; 113; 7; 0; 113; 7; 0; 87; 124; 0; 0; 83].

Lemma wf_examples :
  wf_word opcode_312 ref_312 true true true code312 0 O = true /\ bytes_ok code312 = true
  /\ wf_byte opcode_27 ref_27 code27 0 = true /\ bytes_ok code27 = true
  /\ In (opcode_312, ref_312) all_pairs /\ In (opcode_27, ref_27) all_pairs.
Proof. repeat split; try (vm_compute; reflexivity). - cbn. tauto. - cbn. tauto. Qed.

(* C13/C14 - obligations over the regenerated magic table: CPython's marshal reader (Spec side of C10, strict configuration)
   of every 3.x magic, and xdis's own unmarshaller, know the type codes xdis.marsh.dumps emits; for 3.0-3.10 magics their
   code-object layout tests are those dump_code3 writes for. *)
From Xdis Require Import Base.Prelude Base.Result Base.LE Model.Unmarshal Model.UnmarshalObs Model.Marsh Gen.Magics Gen.Dispatch
  Proofs.C10Tables Proofs.MarshRoundTrip Proofs.Marsh2RoundTrip.
Import ListNotations.

Definition py3_magic (m : Z) : bool := tuple_geb (magic_version m) [3; 0].
Definition py3_pre311_magic (m : Z) : bool := tuple_geb (magic_version m) [3; 0] && negb (tuple_geb (magic_version m) [3; 11]).

Definition plain_ok (c : cfg) : bool := forallb (code_ok c) used_codes && vge c [3; 0].
Definition code_ok_b (c : cfg) : bool :=
  code_ok c 99 && negb (vge c [3; 11]) && vge c [2; 3] && vge c [1; 3] && vge c [2; 1] && vge c [1; 5].

Lemma plain_ok_sound c : plain_ok c = true -> cfg_ok c.
Proof. unfold plain_ok, cfg_ok. intros H. apply andb_true_iff in H. exact H. Qed.

Lemma code_ok_sound c : code_ok_b c = true -> code_cfg_ok c (posonly_read c).
Proof.
  unfold code_ok_b, code_cfg_ok. intros H.
  repeat (apply andb_true_iff in H; destruct H as [H ?]).
  repeat split; try assumption. apply negb_true_iff. assumption.
Qed.

Lemma cpy_codes_all : forallb (fun m => negb (py3_magic m) || plain_ok (cpy_cfg m)) all_magics = true.
Proof. vm_compute. reflexivity. Qed.
Lemma cpy_code_all : forallb (fun m => negb (py3_pre311_magic m) || (plain_ok (cpy_cfg m) && code_ok_b (cpy_cfg m))) all_magics = true.
Proof. vm_compute. reflexivity. Qed.
Lemma xdis_code_all : forallb (fun m => negb (py3_pre311_magic m) || (plain_ok (xdis_cfg m) && code_ok_b (xdis_cfg m))) all_magics = true.
Proof. vm_compute. reflexivity. Qed.

Lemma cpy_cfg_ok m : In m all_magics -> py3_magic m = true -> cfg_ok (cpy_cfg m).
Proof.
  intros Hin H3. pose proof (proj1 (forallb_forall _ _) cpy_codes_all m Hin) as H. cbv beta in H.
  rewrite H3 in H. cbn [negb orb] in H. apply plain_ok_sound. exact H.
Qed.

Lemma cpy_code_cfg m : In m all_magics -> py3_pre311_magic m = true -> cfg_ok (cpy_cfg m) /\ code_cfg_ok (cpy_cfg m) (posonly_read (cpy_cfg m)).
Proof.
  intros Hin H3. pose proof (proj1 (forallb_forall _ _) cpy_code_all m Hin) as H. cbv beta in H.
  rewrite H3 in H. cbn [negb orb] in H. apply andb_true_iff in H. destruct H as [H1 H2].
  split; [apply plain_ok_sound | apply code_ok_sound]; assumption.
Qed.

Lemma xdis_code_cfg m : In m all_magics -> py3_pre311_magic m = true -> cfg_ok (xdis_cfg m) /\ code_cfg_ok (xdis_cfg m) (posonly_read (xdis_cfg m)).
Proof.
  intros Hin H3. pose proof (proj1 (forallb_forall _ _) xdis_code_all m Hin) as H. cbv beta in H.
  rewrite H3 in H. cbn [negb orb] in H. apply andb_true_iff in H. destruct H as [H1 H2].
  split; [apply plain_ok_sound | apply code_ok_sound]; assumption.
Qed.

Lemma some_py3_magic : existsb (fun m => py3_magic m && (m =? 3531)) all_magics = true.
Proof. vm_compute. reflexivity. Qed.
Lemma some_code_magics : existsb (fun m => py3_pre311_magic m && (m =? 3413) && posonly_read (cpy_cfg m)) all_magics = true
  /\ existsb (fun m => py3_pre311_magic m && (m =? 3394) && negb (posonly_read (cpy_cfg m))) all_magics = true.
Proof. split; vm_compute; reflexivity. Qed.

(* ---- Python 2.0-2.7 magics: the version tests of the code-object layout dump_code2 writes for ---- *)
Definition py2_magic (m : Z) : bool := tuple_geb (magic_version m) [2; 1] && negb (tuple_geb (magic_version m) [3; 0]).
Definition cfg2_ok_b (c : cfg) : bool :=
  negb (vge c [3; 0]) && negb (vge c [3; 11]) && negb (vge c [3; 8]) && vge c [1; 3] && vge c [2; 1] && vge c [1; 5].
Lemma cpy2_all : forallb (fun m => negb (py2_magic m) || cfg2_ok_b (cpy_cfg m)) all_magics = true.
Proof. vm_compute. reflexivity. Qed.
Lemma xdis2_all : forallb (fun m => negb (py2_magic m) || cfg2_ok_b (xdis_cfg m)) all_magics = true.
Proof. vm_compute. reflexivity. Qed.
(* xdis's reader knows every type code the Python 2 writer can emit, whatever the magic *)
Lemma xdis2_codes : forallb (fun m => forallb (code_ok (xdis_cfg m)) used_codes2) all_magics = true.
Proof. vm_compute. reflexivity. Qed.

Lemma cfg2_facts c : cfg2_ok_b c = true ->
  vge c [3; 0] = false /\ vge c [3; 11] = false /\ vge c [3; 8] = false /\ vge c [1; 3] = true /\ vge c [2; 1] = true /\ vge c [1; 5] = true.
Proof.
  unfold cfg2_ok_b. intros H. repeat (apply andb_true_iff in H; destruct H as [H ?]).
  repeat match goal with Hn : negb _ = true |- _ => apply negb_true_iff in Hn end. repeat split; assumption.
Qed.

Lemma some_py2_magics : existsb (fun m => py2_magic m && (m =? 62211) && vge (cpy_cfg m) [2; 3]) all_magics = true
  /\ existsb (fun m => py2_magic m && (m =? 60717) && negb (vge (cpy_cfg m) [2; 3])) all_magics = true.
Proof. split; vm_compute; reflexivity. Qed.

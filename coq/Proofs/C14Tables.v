(* C14 - CPython's marshal reader (Spec side of C10, strict configuration) of every 3.x magic knows the type codes
   xdis.marsh.dumps emits: obligation over the regenerated magic table. *)
From Xdis Require Import Base.Prelude Base.Result Base.LE Model.Unmarshal Model.UnmarshalObs Model.Marsh Gen.Magics Gen.Dispatch
  Proofs.C10Tables Proofs.MarshRoundTrip.
Import ListNotations.

Definition py3_magic (m : Z) : bool := tuple_geb (magic_version m) [3; 0].

Lemma cpy_codes_all :
  forallb (fun m => negb (py3_magic m) || (forallb (code_ok (cpy_cfg m)) used_codes && vge (cpy_cfg m) [3; 0])) all_magics = true.
Proof. vm_compute. reflexivity. Qed.

Lemma cpy_cfg_ok m : In m all_magics -> py3_magic m = true -> cfg_ok (cpy_cfg m).
Proof.
  intros Hin H3. pose proof (proj1 (forallb_forall _ _) cpy_codes_all m Hin) as H. cbv beta in H.
  rewrite H3 in H. cbn [negb orb] in H. apply andb_true_iff in H. exact H.
Qed.

Lemma some_py3_magic : existsb (fun m => py3_magic m && (m =? 3531)) all_magics = true.
Proof. vm_compute. reflexivity. Qed.

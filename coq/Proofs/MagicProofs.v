From Xdis Require Import Base.Prelude Model.Magic Gen.Magics Gen.RefMagics Spec.Registry.
From Coq Require Import ZifyBool.
Ltac Zify.zify_post_hook ::= Z.to_euclidean_division_equations.

Lemma magic2int_int2magic i : 0 <= i < 65536 ->
  exists b, int2magic i = Some b /\ magic2int b = Some i.
Proof.
  intros H. unfold int2magic.
  destruct ((0 <=? i) && (i <? 65536)) eqn:E; [|lia].
  destruct ((i =? 39170) || (i =? 39171)); eexists; (split; [reflexivity|]); cbn [magic2int]; f_equal; lia.
Qed.

(* the two trailing bytes int2magic produces for magic integer i *)
Definition magic_tail (i : Z) : list Z :=
  if (i =? 39170) || (i =? 39171) then [153; 0] else [13; 10].

Lemma int2magic_magic2int b0 b1 b2 b3 :
  bytes_ok [b0; b1; b2; b3] = true -> [b2; b3] = magic_tail (b0 + 256 * b1) ->
  exists i, magic2int [b0; b1; b2; b3] = Some i /\ int2magic i = Some [b0; b1; b2; b3].
Proof.
  intros Hb Ht. exists (b0 + 256 * b1). split; [reflexivity|].
  cbn in Hb. unfold byte_ok in Hb.
  unfold int2magic, magic_tail in *.
  destruct ((0 <=? b0 + 256 * b1) && (b0 + 256 * b1 <? 65536)) eqn:E; [|lia].
  destruct ((b0 + 256 * b1 =? 39170) || (b0 + 256 * b1 =? 39171)); inversion Ht; subst;
    f_equal; f_equal; [lia| f_equal; lia | lia | f_equal; lia].
Qed.

(* ---- obligations over the regenerated tables (vm_compute) ---- *)

Definition major_minor_ok (t : option (option (list Z))) (a b : Z) : bool :=
  match t with
  | Some (Some (x :: y :: _)) => (x =? a) && (y =? b)
  | _ => false
  end.

Definition registry_ok : bool :=
  forallb (fun '(m, a, b) => major_minor_ok (zassoc m magic_tuple) a b) registry.
Definition registry_failures := filter (fun '(m, a, b) => negb (major_minor_ok (zassoc m magic_tuple) a b)) registry.

Definition installed_ok : bool :=
  forallb (fun '(m, a, b, c, bs) => major_minor_ok (zassoc m magic_tuple) a b
      && match sassoc (join_dot [a; b; c]) magics_tbl with Some bs' => zlist_eqb bs bs' | None => false end
      && match int2magic m with Some bs' => zlist_eqb bs bs' | None => false end) installed.

Definition rejected (m : Z) : bool :=
  zmem m interim_rejected || zmem m pyston_rejected || zmem m other_rejected.

Definition resolves (m : Z) : bool :=
  match zassoc m magic_tuple, zassoc m is_pypy_tbl with
  | Some (Some t), Some py => smem (get_opcode_key t py) op_import_keys
  | _, _ => false
  end.

Definition accepted_magics : list Z := filter (fun m => negb (rejected m)) (map fst magicint2version).
Definition resolves_ok : bool := forallb resolves accepted_magics.
Definition resolves_failures := filter (fun m => negb (resolves m)) accepted_magics.

(* the generated get_opcode table (what the implementation really answered) equals the model's lookup *)
Definition get_opcode_model_ok : bool :=
  forallb (fun '(m, r) => match zassoc m magic_tuple, zassoc m is_pypy_tbl with
                          | Some (Some t), Some py => Bool.eqb (smem (get_opcode_key t py) op_import_keys) (is_some r)
                          | Some None, _ => negb (is_some r)
                          | _, _ => false end) get_opcode_tbl.

(* tables are mutually consistent: versions_tbl is keyed by int2magic of magicint2version *)
Definition tables_coherent : bool :=
  forallb (fun '(m, v) => match int2magic m with
                          | Some bs => match find (fun '(k, _) => zlist_eqb k bs) versions_tbl with
                                       | Some (_, v') => String.eqb v v' | None => false end
                          | None => false end) magicint2version
  && (Nat.eqb (List.length versions_tbl) (List.length magicint2version)).

Definition sysinfo_ok : bool :=
  forallb (fun '(name, (a, b, c)) =>
      match sassoc name magics_tbl, final_magic a b c with
      | Some bs, Some m => match int2magic m with Some bs' => zlist_eqb bs bs' | None => false end
      | _, _ => false end) release_names.
Definition sysinfo_failures :=
  filter (fun '(name, (a, b, c)) => negb
      match sassoc name magics_tbl, final_magic a b c with
      | Some bs, Some m => match int2magic m with Some bs' => zlist_eqb bs bs' | None => false end
      | _, _ => false end) release_names.

From Xdis Require Import Base.Prelude Base.Result Base.LE Model.Magic Model.Load Gen.Magics Gen.RefMagics Spec.Registry Spec.Header Proofs.HeaderDefs.
From Coq Require Import ZifyBool.
Ltac Zify.zify_post_hook ::= Z.to_euclidean_division_equations.

Lemma land1_mod2 b : 0 <= b -> Z.land b 1 = b mod 2.
Proof. intros H. change 1 with (Z.ones 1). rewrite Z.land_ones by lia. reflexivity. Qed.

Lemma flag_bit f0 f1 f2 f3 : 0 <= f0 < 256 ->
  negb (Z.land f0 1 =? 0) = ((le32 f0 f1 f2 f3) mod 2 =? 1).
Proof.
  intros H. rewrite land1_mod2 by lia. unfold le32.
  replace (f0 + 256 * f1 + 65536 * f2 + 16777216 * f3) with (f0 + (128 * f1 + 32768 * f2 + 8388608 * f3) * 2) by ring.
  rewrite Z.mod_add by lia. pose proof (Z.mod_pos_bound f0 2 ltac:(lia)).
  destruct (f0 mod 2 =? 0) eqn:E1, (f0 mod 2 =? 1) eqn:E2; cbn; lia.
Qed.

Lemma parse_fields_spec mi ver r f :
  bytes_ok r = true -> mi <> 3393 ->
  spec_fields (model_kind mi ver) r = Some f -> parse_fields mi ver r = Ok f.
Proof.
  intros Hb Hm. unfold model_kind, parse_fields.
  destruct (zmem mi [3439] || tuple_geb ver [3; 7]) eqn:Epep.
  - destruct r as [|f0 [|f1 [|f2 [|f3 [|b0 [|b1 [|b2 [|b3 [|b4 [|b5 [|b6 [|b7 rest]]]]]]]]]]]]; cbn [spec_fields]; try discriminate.
    cbn [take firstn skipn fst snd].
    assert (H0 : 0 <= f0 < 256).
    { cbn in Hb. apply andb_true_iff in Hb as [Hb _]. unfold byte_ok in Hb. lia. }
    rewrite (flag_bit f0 f1 f2 f3 H0).
    assert (E3 : (mi =? 3393) = false) by lia. rewrite E3, orb_false_r.
    destruct (le32 f0 f1 f2 f3 mod 2 =? 1); intros H; inversion H; subst; reflexivity.
  - destruct (((3200 <=? mi) && (mi <? 20121) && tuple_geb ver [1; 5]) || zmem mi pypy3_magics) eqn:Esz.
    + destruct r as [|t0 [|t1 [|t2 [|t3 [|s0 [|s1 [|s2 [|s3 rest]]]]]]]]; cbn [spec_fields]; try discriminate.
      intros H; inversion H; subst. reflexivity.
    + destruct r as [|t0 [|t1 [|t2 [|t3 rest]]]]; cbn [spec_fields]; try discriminate.
      intros H; inversion H; subst. reflexivity.
Qed.

Lemma decide_row_sound m v mb : decide_row_ok (m, v, mb) = true ->
  exists tv mi ver, decide mb = DHeader tv mi ver /\ firstn 2 tv = v /\ mi = norm_magic m /\ mi <> 3393
                    /\ model_kind mi ver = spec_kind v.
Proof.
  unfold decide_row_ok. destruct (decide mb) as [e| |tv mi ver]; try discriminate.
  intros H. repeat (apply andb_true_iff in H; destruct H as [H ?]).
  exists tv, mi, ver. repeat split.
  - apply zlist_eqb_eq; assumption.
  - lia.
  - lia.
  - destruct (model_kind mi ver), (spec_kind v); try discriminate; reflexivity.
Qed.

Lemma header_agree p m v mb r f :
  decide_row_ok (m, v, mb) = true -> List.length mb = 4%nat -> bytes_ok r = true ->
  spec_fields (spec_kind v) r = Some f ->
  exists h, parse_header p (mb ++ r) = Ok h /\ firstn 2 (h_version h) = v /\ h_magic_int h = norm_magic m /\
            (h_timestamp h, h_size h, h_sip h, h_rest h) = f.
Proof.
  intros Hd Hl Hb Hs. destruct (decide_row_sound _ _ _ Hd) as (tv & mi & ver & E & Hv & Hm & H3 & Hk).
  unfold parse_header.
  destruct mb as [|a [|b [|c [|d [|]]]]]; try discriminate Hl.
  cbn [take firstn skipn app]. rewrite E.
  rewrite <- Hk in Hs. rewrite (parse_fields_spec mi ver r f Hb H3 Hs).
  destruct f as [[[ts sz] sip] rest]. eexists. split; [reflexivity|]. cbn. auto.
Qed.

Lemma decide_all_ok : forallb decide_row_ok released_all = true.
Proof. vm_compute. reflexivity. Qed.

Lemma released_lengths : forallb (fun '(_, _, mb) => Nat.eqb (List.length mb) 4) released_all = true.
Proof. vm_compute. reflexivity. Qed.

Lemma header_agree_all : forall p m v mb r f, In (m, v, mb) released_all -> bytes_ok r = true ->
  spec_fields (spec_kind v) r = Some f ->
  exists h, parse_header p (mb ++ r) = Ok h /\ firstn 2 (h_version h) = v /\ h_magic_int h = norm_magic m /\
            (h_timestamp h, h_size h, h_sip h, h_rest h) = f.
Proof.
  intros p m v mb r f Hin Hb Hs.
  pose proof (proj1 (forallb_forall _ _) decide_all_ok _ Hin) as Hd.
  pose proof (proj1 (forallb_forall _ _) released_lengths _ Hin) as Hl. cbv beta iota in Hl.
  apply Nat.eqb_eq in Hl.
  exact (header_agree p m v mb r f Hd Hl Hb Hs).
Qed.

(* non-vacuity: a hash-based 3.12 header and a 2.7 header satisfy the hypotheses *)
Lemma nonvacuous_hdr :
  existsb (fun '(m, v, mb) => (m =? 3531) && zlist_eqb mb [203; 13; 13; 10]) released_all = true
  /\ spec_fields (spec_kind [3; 12]) [3; 0; 0; 0; 1; 2; 3; 4; 5; 6; 7; 8; 99] = Some (None, None, Some (le64 1 2 3 4 5 6 7 8), [99])
  /\ spec_fields (spec_kind [2; 7]) [1; 2; 3; 4; 99] = Some (Some (le32 1 2 3 4), None, None, [99]).
Proof. vm_compute. repeat split. Qed.

(* Table obligations of C04: jump classification, backward-jump naming and inline-cache sizes of
   every opcode table agree with the reference opcode data it is compared with. *)
From Xdis Require Import Base.Prelude Base.Result Base.OpTable Gen.Opcodes Gen.RefOpcodes Model.Instr Spec.Dis
  Proofs.InstrProofs Proofs.LabelProofs Proofs.C02Tables.

Lemma all_pairs_tgt : forallb (fun '(T, R) => tgt_ok T R) all_pairs = true.
Proof. vm_compute. reflexivity. Qed.

Lemma pair_tgt T R : In (T, R) all_pairs -> tgt_ok T R = true.
Proof. intros H. exact (proj1 (forallb_forall _ _) all_pairs_tgt (T, R) H). Qed.

Lemma wf_strict_examples :
  wf_strict opcode_312 ref_312 code312 = true /\ wf_strict opcode_27 ref_27 code27 = true
  /\ spec_findlabels ref_312 code312 = Ok [62; 18; 6; 88; 76] /\ spec_findlabels ref_27 code27 = Ok [34; 33; 7].
Proof. repeat split; vm_compute; reflexivity. Qed.

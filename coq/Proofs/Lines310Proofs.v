From Xdis Require Import Base.Prelude Base.Result Base.LE Model.LineStarts Model.CoLines Spec.Lines310.
From Coq Require Import ZifyBool.

Lemma co_lines_310_go_spec ps : forall b,
  co_lines_310_go ps (ar_end b) (computed_line b) = spec_co_lines_310 ps b.
Proof.
  induction ps as [|[od ld] ps IH]; intros b; [reflexivity|].
  cbn [co_lines_310_go spec_co_lines_310]. unfold advance at 1 2 3 4 5. cbn [fst snd ar_start ar_end ar_line].
  destruct (sgn8 ld =? -128) eqn:E.
  - specialize (IH (advance b (od, ld))). unfold advance in IH. cbn [fst snd ar_end computed_line] in IH. rewrite E in IH.
    rewrite IH. unfold advance. cbn [fst snd]. rewrite E. reflexivity.
  - specialize (IH (advance b (od, ld))). unfold advance in IH. cbn [fst snd ar_end computed_line] in IH. rewrite E in IH.
    rewrite IH. unfold advance. cbn [fst snd]. rewrite E. reflexivity.
Qed.

Lemma co_lines_310_spec first tab : Z.even (zlen tab) = true ->
  co_lines_310 first tab = Ok (spec_lines_310 first tab).
Proof.
  intros H. unfold co_lines_310, spec_lines_310. rewrite H. f_equal.
  exact (co_lines_310_go_spec (pairs tab) {| ar_start := 0; ar_end := 0; ar_line := None; computed_line := first |}).
Qed.

Lemma fls_colines_spec ls : forall last, fls_colines ls last = spec_fls ls last.
Proof.
  induction ls as [|[[s e] [l|]] ls IH]; intros last; cbn [fls_colines spec_fls]; [reflexivity| |apply IH].
  unfold differs. destruct last as [l'|]; cbn.
  - destruct (l =? l'); cbn; rewrite IH; reflexivity.
  - rewrite IH. reflexivity.
Qed.

Definition to313 (o : option (option Z)) : last313 := match o with None => LFalse | Some l => LLine l end.
Lemma fls_colines_313_spec ls : forall last, fls_colines_313 ls last = spec_fls_313 ls (to313 last).
Proof.
  induction ls as [|[[s e] l] ls IH]; intros last; cbn [fls_colines_313 spec_fls_313]; [reflexivity|].
  destruct last as [[a|]|], l as [b|]; cbn [to313]; try (rewrite (IH (Some _)); reflexivity);
    try (destruct (a =? b); [rewrite IH; reflexivity | rewrite (IH (Some (Some b))); reflexivity]);
    try (rewrite IH; reflexivity).
Qed.

From Xdis Require Import Base.Prelude Base.Result Base.Bits Model.CoLines Spec.Loc311.
From Coq Require Import ZifyBool.
Ltac Zify.zify_post_hook ::= Z.to_euclidean_division_equations.

(* ---------- header byte ---------- *)
Lemma header_facts code len : 0 <= code <= 15 -> 1 <= len <= 8 ->
  let h := header code len in
  (Z.land h 128 =? 0) = false /\ Z.land (Z.shiftr h 3) 15 = code /\ Z.land h 7 + 1 = len /\
  (Z.shiftr h 3 =? 31) = (code =? 15) /\ Z.shiftr (Z.land h 120) 3 = code /\ 128 <= h < 256.
Proof.
  intros Hc Hl h. assert (Hh : 128 <= h < 256) by (subst h; unfold header; lia).
  destruct (byte_fact h ltac:(lia)) as (_ & F7 & _ & _ & _ & F128 & Fc & Fc' & Fs & _).
  rewrite F128, Fc, F7, Fs, Fc'. subst h. unfold header in *. repeat split; lia.
Qed.

(* ---------- payload bytes have bit 7 clear ---------- *)
Definition low7 (l : list Z) : bool := forallb (fun b => (0 <=? b) && (b <? 128)) l.

Lemma low7_app a b : low7 (a ++ b) = low7 a && low7 b.
Proof. unfold low7. apply forallb_app. Qed.

Lemma low7_enc_digits ds : forallb (fun d => (0 <=? d) && (d <? 64)) ds = true -> low7 (enc_digits ds) = true.
Proof.
  induction ds as [|d [|d2 ds] IH]; intros H; [reflexivity| |].
  - cbn in *. lia.
  - change (enc_digits (d :: d2 :: ds)) with ((64 + d) :: enc_digits (d2 :: ds)).
    cbn [forallb] in H. apply andb_true_iff in H as [Hd H]. cbn [low7 forallb]. fold (low7 (enc_digits (d2 :: ds))).
    rewrite IH by exact H. lia.
Qed.

Lemma low7_bit b : (0 <=? b) && (b <? 128) = true -> (Z.land b 128 =? 0) = true.
Proof. intros H. destruct (byte_fact b ltac:(lia)) as (_ & _ & _ & _ & _ & F & _). rewrite F. lia. Qed.

Lemma skip_low7 p rest : low7 p = true -> go_to_next_code_byte (p ++ rest) = go_to_next_code_byte rest.
Proof.
  induction p as [|b p IH]; intros H; [reflexivity|].
  cbn [low7 forallb] in H. apply andb_true_iff in H as [Hb H]. cbn [app go_to_next_code_byte].
  rewrite (low7_bit b Hb). cbn [negb]. apply IH. exact H.
Qed.

(* ---------- varints (little-endian digits) ---------- *)
Lemma digits_val_nonneg ds : forallb (fun d => (0 <=? d) && (d <? 64)) ds = true -> 0 <= digits_val ds.
Proof.
  induction ds as [|d ds IH]; intros H; cbn [digits_val]; [lia|].
  cbn [forallb] in H. apply andb_true_iff in H as [Hd H]. specialize (IH H). lia.
Qed.

Lemma digit_lo d : 0 <= d < 64 ->
  Z.land d 63 = d /\ (Z.land d 64 =? 0) = true /\ Z.land (64 + d) 63 = d /\ (Z.land (64 + d) 64 =? 0) = false.
Proof.
  intros H. destruct (byte_fact d ltac:(lia)) as (A1 & _ & _ & _ & A2 & _).
  destruct (byte_fact (64 + d) ltac:(lia)) as (B1 & _ & _ & _ & B2 & _).
  rewrite A1, A2, B1, B2. repeat split; lia.
Qed.

Lemma scan_varint_go_enc ds : forall k acc rest, ds <> [] -> 0 <= k -> 0 <= acc < 2 ^ (k * 6) ->
  forallb (fun d => (0 <=? d) && (d <? 64)) ds = true ->
  scan_varint_go (enc_digits ds ++ rest) k acc = (acc + digits_val ds * 2 ^ (k * 6), rest).
Proof.
  induction ds as [|d ds IH]; intros k acc rest Hne Hk Hacc Hok; [congruence|].
  cbn [forallb] in Hok. apply andb_true_iff in Hok as [Hd Hok].
  assert (Hd' : 0 <= d < 64) by lia. destruct (digit_lo d Hd') as (A1 & A2 & B1 & B2).
  assert (HP : 0 < 2 ^ (k * 6)) by (apply Z.pow_pos_nonneg; lia).
  destruct ds as [|d2 ds].
  - cbn [enc_digits app scan_varint_go digits_val]. rewrite A1, A2.
    rewrite lor_shiftl_add by lia. f_equal. lia.
  - change (enc_digits (d :: d2 :: ds)) with ((64 + d) :: enc_digits (d2 :: ds)).
    cbn [app scan_varint_go]. rewrite B1, B2. rewrite lor_shiftl_add by lia.
    assert (E : 2 ^ ((k + 1) * 6) = 64 * 2 ^ (k * 6)).
    { replace ((k + 1) * 6) with (6 + k * 6) by lia. rewrite Z.pow_add_r by lia. reflexivity. }
    rewrite IH; [|discriminate|lia| |assumption].
    + f_equal. rewrite E. change (digits_val (d :: d2 :: ds)) with (d + 64 * digits_val (d2 :: ds)). ring.
    + rewrite E. nia.
Qed.

Lemma scan_varint_enc ds rest : digits_ok ds = true -> scan_varint (enc_digits ds ++ rest) = (digits_val ds, rest).
Proof.
  unfold digits_ok. intros H. apply andb_true_iff in H as [Hne Hok]. unfold scan_varint.
  rewrite scan_varint_go_enc; [| |lia|cbn; lia|assumption].
  - f_equal. cbn. lia.
  - destruct ds; [discriminate|discriminate].
Qed.

Lemma signed_decode v : 0 <= v ->
  (if negb (Z.land v 1 =? 0) then - Z.shiftr v 1 else Z.shiftr v 1) = (if v mod 2 =? 1 then - (v / 2) else v / 2).
Proof.
  intros H. rewrite land1_mod2, shiftr1_div2 by assumption.
  destruct (v mod 2 =? 0) eqn:E1, (v mod 2 =? 1) eqn:E2; cbn [negb]; try reflexivity; lia.
Qed.

Lemma scan_signed_varint_enc ds rest : digits_ok ds = true ->
  scan_signed_varint (enc_digits ds ++ rest) = (signed_val ds, rest).
Proof.
  intros H. unfold scan_signed_varint. rewrite scan_varint_enc by assumption.
  unfold signed_val. f_equal. apply signed_decode. unfold digits_ok in H. apply andb_true_iff in H as [_ H].
  apply digits_val_nonneg. assumption.
Qed.

(* ---------- parse_linetable: entry decoding ---------- *)
Definition conv (e : loc_entry) : lt_entry :=
  {| lt_line_delta := entry_delta e; lt_code_delta := entry_len e * 2; lt_no_line := is_none e |}.

Definition payload (e : loc_entry) : list Z := tl (encode_entry e).
Definition ecode (e : loc_entry) : Z :=
  match e with LShort _ c _ => c | LOneLine _ ld _ _ => 10 + ld | LNoCol _ _ => 13 | LLong _ _ _ _ _ => 14 | LNone _ => 15 end.

Lemma encode_entry_cons e : encode_entry e = header (ecode e) (entry_len e) :: payload e.
Proof. destruct e; reflexivity. Qed.

Lemma entry_ok_bounds e : entry_ok e = true -> 0 <= ecode e <= 15 /\ 1 <= entry_len e <= 8.
Proof. unfold entry_ok. destruct e; cbn [entry_len ecode]; lia. Qed.

(* after reading the line delta, what is left of the payload is still low7 *)
Lemma get_line_delta_entry e rest : entry_ok e = true ->
  exists p', get_line_delta (header (ecode e) (entry_len e)) (payload e ++ rest) = (entry_delta e, p' ++ rest) /\ low7 p' = true.
Proof.
  intros Hok. destruct (entry_ok_bounds e Hok) as [Hc Hl].
  destruct (header_facts (ecode e) (entry_len e) Hc Hl) as (_ & Fc & _).
  unfold get_line_delta. rewrite Fc. unfold entry_ok in Hok.
  destruct e as [len code second|len ld col endcol|len ld|len ld nl c ec|len]; cbn [ecode entry_len payload encode_entry tl entry_delta] in *.
  - exists [second]. assert (E : (code =? 15) = false) by lia. rewrite E.
    assert (E2 : (code =? 13) || (code =? 14) = false) by lia. rewrite E2.
    assert (E3 : (code =? 10) = false) by lia. assert (E4 : (code =? 11) = false) by lia. assert (E5 : (code =? 12) = false) by lia.
    rewrite E3, E4, E5. split; [reflexivity|]. cbn. lia.
  - exists [col; endcol]. assert (E : (10 + ld =? 15) = false) by lia. rewrite E.
    assert (E2 : (10 + ld =? 13) || (10 + ld =? 14) = false) by lia. rewrite E2.
    split; [|cbn; lia].
    destruct (Z.eq_dec ld 0) as [->|]; [reflexivity|].
    destruct (Z.eq_dec ld 1) as [->|]; [reflexivity|].
    assert (ld = 2) by lia. subst. reflexivity.
  - exists []. cbn [orb Z.eqb]. change (13 =? 15) with false. change ((13 =? 13) || (13 =? 14)) with true. cbn iota.
    apply andb_true_iff in Hok as [_ Hd].
    rewrite scan_signed_varint_enc by exact Hd. split; reflexivity.
  - exists (enc_digits nl ++ enc_digits c ++ enc_digits ec).
    apply andb_true_iff in Hok as [_ Hd]. apply andb_true_iff in Hd as [Hd Hec]. apply andb_true_iff in Hd as [Hd Hc'].
    apply andb_true_iff in Hd as [Hld Hnl].
    change (14 =? 15) with false. change ((14 =? 13) || (14 =? 14)) with true. cbn iota.
    rewrite <- !app_assoc. rewrite scan_signed_varint_enc by exact Hld. split; [reflexivity|].
    rewrite !low7_app. unfold digits_ok in Hnl, Hc', Hec.
    apply andb_true_iff in Hnl as [_ Hnl]. apply andb_true_iff in Hc' as [_ Hc']. apply andb_true_iff in Hec as [_ Hec].
    rewrite !low7_enc_digits by assumption. reflexivity.
  - exists []. change (15 =? 15) with true. cbn iota. split; reflexivity.
Qed.

Lemma lt_entries_enc es : forall fuel p, (List.length es < fuel)%nat -> low7 p = true -> forallb entry_ok es = true ->
  lt_entries fuel (p ++ encode_entries es) = map conv es.
Proof.
  induction es as [|e es IH]; intros fuel p Hf Hp Hok.
  - destruct fuel; [cbn in Hf; lia|]. cbn [encode_entries flat_map lt_entries map]. rewrite app_nil_r.
    replace p with (p ++ []) by apply app_nil_r. rewrite skip_low7 by assumption. reflexivity.
  - destruct fuel as [|fuel]; [cbn in Hf; lia|].
    cbn [forallb] in Hok. apply andb_true_iff in Hok as [He Hok].
    cbn [encode_entries flat_map lt_entries map]. fold (encode_entries es).
    rewrite skip_low7 by assumption. rewrite encode_entry_cons. cbn [app go_to_next_code_byte].
    destruct (entry_ok_bounds e He) as [Hc Hl].
    destruct (header_facts (ecode e) (entry_len e) Hc Hl) as (F128 & Fc & F7 & F31 & _).
    rewrite F128. cbn [negb].
    destruct (get_line_delta_entry e (encode_entries es) He) as (p' & Eg & Hp').
    rewrite Eg. rewrite IH; [|cbn in Hf; lia|assumption|assumption].
    f_equal. unfold conv. f_equal; [lia|]. rewrite F31. destruct e; cbn [ecode is_none]; unfold entry_ok in He; cbn [entry_len] in He; lia.
Qed.

(* ---------- parse_linetable: the merging pass = CPython 3.12's co_lines ---------- *)
Lemma lt_merge_sem es : forall cs ce line nl, forallb entry_ok es = true ->
  lt_merge (map conv es) cs ce line nl = sem_lines_go true es line cs ce (if nl then None else Some line).
Proof.
  induction es as [|e es IH]; intros cs ce line nl Hok; [reflexivity|].
  cbn [forallb] in Hok. apply andb_true_iff in Hok as [He Hok].
  cbn [map lt_merge sem_lines_go conv lt_line_delta lt_no_line lt_code_delta andb].
  unfold entry_line.
  assert (Hn : is_none e = true -> entry_delta e = 0) by (destruct e; cbn; intros; try discriminate; reflexivity).
  destruct (is_none e) eqn:En, nl; cbn [Bool.eqb negb oz_eqb orb].
  - rewrite (Hn eq_refl). cbn [Z.eqb negb orb]. rewrite IH by assumption. rewrite Z.add_0_r. replace (ce + entry_len e * 2) with (ce + 2 * entry_len e) by lia. reflexivity.
  - rewrite orb_true_r. rewrite IH by assumption. rewrite (Hn eq_refl), Z.add_0_r. replace (ce + entry_len e * 2) with (ce + 2 * entry_len e) by lia. reflexivity.
  - rewrite orb_true_r. rewrite IH by assumption. replace (ce + entry_len e * 2) with (ce + 2 * entry_len e) by lia. reflexivity.
  - rewrite orb_false_r. replace (ce + entry_len e * 2) with (ce + 2 * entry_len e) by lia.
    destruct (entry_delta e =? 0) eqn:Ed; cbn [negb].
    + assert (E : (line + entry_delta e =? line) = true) by lia. rewrite E. rewrite IH by assumption.
      assert (entry_delta e = 0) as -> by lia. rewrite Z.add_0_r. reflexivity.
    + assert (E : (line + entry_delta e =? line) = false) by lia. rewrite E. rewrite IH by assumption. reflexivity.
Qed.

Lemma encode_entries_length es : forallb entry_ok es = true -> (List.length es <= List.length (encode_entries es))%nat.
Proof.
  induction es as [|e es IH]; intros H; [cbn; lia|].
  cbn [forallb] in H. apply andb_true_iff in H as [_ H]. specialize (IH H).
  cbn [encode_entries flat_map]. fold (encode_entries es). rewrite app_length, encode_entry_cons. cbn [List.length]. lia.
Qed.

Lemma parse_linetable_sem first es : forallb entry_ok es = true ->
  parse_linetable first (encode_entries es) = sem_lines true first es.
Proof.
  intros Hok. unfold parse_linetable.
  pose proof (encode_entries_length es Hok) as Hlen.
  pose proof (lt_entries_enc es (S (List.length (encode_entries es))) [] ltac:(lia) eq_refl Hok) as E.
  cbn [app] in E. rewrite E.
  destruct es as [|e es]; [reflexivity|].
  cbn [map sem_lines]. cbn [forallb] in Hok. apply andb_true_iff in Hok as [He Hok].
  rewrite lt_merge_sem by assumption. cbn [conv lt_code_delta lt_line_delta lt_no_line]. unfold entry_line.
  replace (entry_len e * 2) with (2 * entry_len e) by lia. destruct (is_none e); reflexivity.
Qed.

(* ---------- parse_location_entries (co_positions) ---------- *)
Lemma low7_payload e : entry_ok e = true -> low7 (payload e) = true.
Proof.
  unfold entry_ok. destruct e as [len code second|len ld col endcol|len ld|len ld nl c ec|len]; cbn [payload encode_entry tl entry_len]; intros H.
  - cbn. lia.
  - cbn. lia.
  - apply andb_true_iff in H as [_ H]. unfold digits_ok in H. apply andb_true_iff in H as [_ H]. apply low7_enc_digits. exact H.
  - apply andb_true_iff in H as [_ H]. apply andb_true_iff in H as [H Hec]. apply andb_true_iff in H as [H Hc]. apply andb_true_iff in H as [Hld Hnl].
    unfold digits_ok in *. apply andb_true_iff in Hld as [_ Hld]. apply andb_true_iff in Hnl as [_ Hnl].
    apply andb_true_iff in Hc as [_ Hc]. apply andb_true_iff in Hec as [_ Hec].
    rewrite !low7_app, !low7_enc_digits by assumption. reflexivity.
  - reflexivity.
Qed.

Lemma loc_groups_go_enc es : forall p cur, low7 p = true -> forallb entry_ok es = true ->
  loc_groups_go (p ++ encode_entries es) cur = (rev cur ++ p) :: map encode_entry es.
Proof.
  induction es as [|e es IH]; intros p cur Hp Hok.
  - cbn [encode_entries flat_map map]. rewrite app_nil_r. revert cur. induction p as [|b p IHp]; intros cur.
    + cbn. rewrite app_nil_r. reflexivity.
    + cbn [low7 forallb] in Hp. apply andb_true_iff in Hp as [Hb Hp]. cbn [loc_groups_go].
      rewrite (low7_bit b Hb). cbn [negb]. rewrite IHp by exact Hp. cbn [rev]. rewrite <- app_assoc. reflexivity.
  - cbn [forallb] in Hok. apply andb_true_iff in Hok as [He Hok].
    revert cur. induction p as [|b p IHp]; intros cur.
    + cbn [app encode_entries flat_map map]. fold (encode_entries es). rewrite encode_entry_cons. cbn [app loc_groups_go].
      destruct (entry_ok_bounds e He) as [Hc Hl].
      destruct (header_facts (ecode e) (entry_len e) Hc Hl) as (F128 & _).
      rewrite F128. cbn [negb]. rewrite app_nil_r. f_equal.
      rewrite IH; [|apply low7_payload; assumption|assumption]. reflexivity.
    + cbn [low7 forallb] in Hp. apply andb_true_iff in Hp as [Hb Hp]. cbn [app loc_groups_go].
      rewrite (low7_bit b Hb). cbn [negb]. rewrite IHp by exact Hp. cbn [rev]. rewrite <- app_assoc. reflexivity.
Qed.

Lemma loc_groups_enc es : forallb entry_ok es = true -> loc_groups (encode_entries es) = map encode_entry es.
Proof.
  intros Hok. destruct es as [|e es]; [reflexivity|].
  cbn [forallb] in Hok. apply andb_true_iff in Hok as [He Hok].
  cbn [encode_entries flat_map map]. fold (encode_entries es). rewrite encode_entry_cons. cbn [app loc_groups].
  rewrite loc_groups_go_enc; [reflexivity|apply low7_payload; assumption|assumption].
Qed.

Lemma iter_varints_go_enc ds : forall cur s rest, ds <> [] -> 0 <= s ->
  forallb (fun d => (0 <=? d) && (d <? 64)) ds = true ->
  iter_varints_go (enc_digits ds ++ rest) cur s = (cur + digits_val ds * 2 ^ s) :: iter_varints_go rest 0 0.
Proof.
  induction ds as [|d ds IH]; intros cur s rest Hne Hs Hok; [congruence|].
  cbn [forallb] in Hok. apply andb_true_iff in Hok as [Hd Hok].
  assert (Hd' : 0 <= d < 64) by lia. destruct (digit_lo d Hd') as (A1 & A2 & B1 & B2).
  destruct ds as [|d2 ds].
  - cbn [enc_digits app iter_varints_go digits_val]. rewrite A1, A2. cbn [negb]. rewrite Z.shiftl_mul_pow2 by lia. f_equal. lia.
  - change (enc_digits (d :: d2 :: ds)) with ((64 + d) :: enc_digits (d2 :: ds)).
    cbn [app iter_varints_go]. rewrite B1, B2. cbn [negb]. rewrite Z.shiftl_mul_pow2 by lia.
    rewrite IH; [|discriminate|lia|assumption]. f_equal.
    change (digits_val (d :: d2 :: ds)) with (d + 64 * digits_val (d2 :: ds)).
    rewrite Z.pow_add_r by lia. change (2 ^ 6) with 64. ring.
Qed.

Lemma iter_varints_enc ds rest : digits_ok ds = true ->
  iter_varints_go (enc_digits ds ++ rest) 0 0 = digits_val ds :: iter_varints_go rest 0 0.
Proof.
  unfold digits_ok. intros H. apply andb_true_iff in H as [Hne Hok].
  rewrite iter_varints_go_enc; [|destruct ds; discriminate|lia|assumption]. f_equal. cbn. lia.
Qed.

Lemma decode_signed_val ds : digits_ok ds = true -> decode_signed_varint (digits_val ds) = signed_val ds.
Proof.
  intros H. unfold decode_signed_varint, signed_val. apply signed_decode.
  unfold digits_ok in H. apply andb_true_iff in H as [_ H]. apply digits_val_nonneg. exact H.
Qed.

Lemma loc_entry_of_enc e last : entry_ok e = true ->
  loc_entry_of (encode_entry e) last =
  Ok (let '(a, b, c, d) := entry_pos e (last + entry_delta e) in (entry_len e, a, b, c, d), last + entry_delta e).
Proof.
  intros Hok. destruct (entry_ok_bounds e Hok) as [Hc Hl].
  destruct (header_facts (ecode e) (entry_len e) Hc Hl) as (_ & _ & F7 & _ & Fc & _).
  unfold loc_entry_of. rewrite encode_entry_cons. cbn [nth_byte nth_error bind]. rewrite F7, Fc.
  unfold entry_ok in Hok.
  destruct e as [len code second|len ld col endcol|len ld|len ld nl c ec|len]; cbn [ecode entry_len payload encode_entry tl entry_delta entry_pos nth_error bind] in *.
  - assert (E : (code <=? 9) = true) by lia. rewrite E. cbn [nth_byte nth_error bind].
    assert (Hs : 0 <= second < 256) by lia.
    destruct (byte_fact second Hs) as (_ & _ & F15 & _ & _ & _ & _ & _ & _ & F4 & _).
    rewrite F4, F15. rewrite !Z.add_0_r. replace ((second / 16) mod 8) with (second / 16) by lia. reflexivity.
  - assert (E : (10 + ld <=? 9) = false) by lia. rewrite E.
    assert (E2 : (10 + ld <=? 12) = true) by lia. rewrite E2. cbn [nth_byte nth_error bind].
    replace (last + (10 + ld) - 10) with (last + ld) by lia. reflexivity.
  - change (13 <=? 9) with false. change (13 <=? 12) with false. change (13 =? 13) with true. cbn iota.
    apply andb_true_iff in Hok as [_ Hd].
    unfold iter_varints. replace (enc_digits ld) with (enc_digits ld ++ []) by apply app_nil_r.
    rewrite iter_varints_enc by exact Hd. cbn [iter_varints_go]. rewrite decode_signed_val by exact Hd. reflexivity.
  - change (14 <=? 9) with false. change (14 <=? 12) with false. change (14 =? 13) with false. change (14 =? 14) with true. cbn iota.
    apply andb_true_iff in Hok as [_ Hd]. apply andb_true_iff in Hd as [Hd Hec]. apply andb_true_iff in Hd as [Hd Hc'].
    apply andb_true_iff in Hd as [Hld Hnl].
    unfold iter_varints. replace (enc_digits ec) with (enc_digits ec ++ []) by apply app_nil_r.
    rewrite iter_varints_enc by exact Hld. rewrite iter_varints_enc by exact Hnl.
    rewrite iter_varints_enc by exact Hc'. rewrite iter_varints_enc by exact Hec. cbn [iter_varints_go].
    rewrite decode_signed_val by exact Hld. unfold col_of. reflexivity.
  - change (15 <=? 9) with false. change (15 <=? 12) with false. change (15 =? 13) with false. change (15 =? 14) with false. cbn iota.
    rewrite Z.add_0_r. reflexivity.
Qed.

Lemma loc_entries_go_enc es : forall last, forallb entry_ok es = true ->
  loc_entries_go (map encode_entry es) last = Ok (sem_entries last es).
Proof.
  induction es as [|e es IH]; intros last Hok; [reflexivity|].
  cbn [forallb] in Hok. apply andb_true_iff in Hok as [He Hok].
  cbn [map loc_entries_go sem_entries]. rewrite loc_entry_of_enc by assumption.
  destruct (entry_pos e (last + entry_delta e)) as [[[a b] c] d]. rewrite IH by assumption. reflexivity.
Qed.

Lemma parse_location_entries_sem first es : forallb entry_ok es = true ->
  parse_location_entries first (encode_entries es) = Ok (sem_entries first es).
Proof.
  intros Hok. unfold parse_location_entries. rewrite loc_groups_enc by assumption. apply loc_entries_go_enc. assumption.
Qed.

(* per code unit: expanding xdis's per-entry view gives CPython's co_positions() *)
Definition expand_entries (es : list (Z * option Z * option Z * option Z * option Z)) :=
  flat_map (fun '(n, a, b, c, d) => repeat (a, b, c, d) (Z.to_nat n)) es.

Lemma expand_sem_entries es : forall line, expand_entries (sem_entries line es) = sem_positions line es.
Proof.
  induction es as [|e es IH]; intros line; [reflexivity|].
  cbn [sem_entries sem_positions]. destruct (entry_pos e (line + entry_delta e)) as [[[a b] c] d].
  cbn [expand_entries flat_map]. fold (expand_entries (sem_entries (line + entry_delta e) es)). rewrite IH. reflexivity.
Qed.

(* per code unit, merged (3.12+, and xdis) and unmerged (3.11) co_lines() agree *)
Definition units (rs : list (Z * Z * option Z)) : list (option Z) :=
  flat_map (fun '(s, e, l) => repeat l (Z.to_nat ((e - s) / 2))) rs.

Fixpoint unit_lines (es : list loc_entry) (line : Z) : list (option Z) :=
  match es with
  | [] => []
  | e :: r => let line' := line + entry_delta e in repeat (entry_line e line') (Z.to_nat (entry_len e)) ++ unit_lines r line'
  end.

Lemma oz_eqb_eq a b : oz_eqb a b = true -> a = b.
Proof. destruct a, b; cbn; intros H; try discriminate; try reflexivity. f_equal. lia. Qed.

Lemma units_go m es : forall line start stop cur, start <= stop -> Z.even (stop - start) = true ->
  forallb entry_ok es = true ->
  units (sem_lines_go m es line start stop cur) = repeat cur (Z.to_nat ((stop - start) / 2)) ++ unit_lines es line.
Proof.
  induction es as [|e es IH]; intros line start stop cur Hle Hev Hok.
  - cbn [sem_lines_go units flat_map unit_lines]. reflexivity.
  - cbn [forallb] in Hok. apply andb_true_iff in Hok as [He Hok].
    destruct (entry_ok_bounds e He) as [_ Hl].
    cbn [sem_lines_go unit_lines].
    destruct (m && oz_eqb (entry_line e (line + entry_delta e)) cur) eqn:Em.
    + apply andb_true_iff in Em as [_ Em]. apply oz_eqb_eq in Em.
      rewrite IH; [|lia| |assumption].
      * rewrite Em. rewrite app_assoc. f_equal. rewrite <- repeat_app. f_equal.
        apply Z.even_spec in Hev. destruct Hev as [k Hk].
        replace (stop + 2 * entry_len e - start) with ((k + entry_len e) * 2) by lia.
        rewrite Hk. replace (2 * k) with (k * 2) by lia. rewrite !Z.div_mul by lia. lia.
      * replace (stop + 2 * entry_len e - start) with ((stop - start) + 2 * entry_len e) by lia.
        rewrite Z.even_add, Hev, Z.even_mul. reflexivity.
    + cbn [units flat_map]. fold (units (sem_lines_go m es (line + entry_delta e) stop (stop + 2 * entry_len e) (entry_line e (line + entry_delta e)))).
      rewrite IH; [|lia| |assumption].
      * f_equal. f_equal. f_equal. replace (stop + 2 * entry_len e - stop) with (entry_len e * 2) by lia. rewrite Z.div_mul by lia. reflexivity.
      * replace (stop + 2 * entry_len e - stop) with (2 * entry_len e) by lia. rewrite Z.even_mul. reflexivity.
Qed.

Lemma units_merged_unmerged first es : forallb entry_ok es = true ->
  units (sem_lines true first es) = units (sem_lines false first es).
Proof.
  intros Hok. destruct es as [|e es]; [reflexivity|].
  cbn [forallb] in Hok. apply andb_true_iff in Hok as [He Hok]. destruct (entry_ok_bounds e He) as [_ Hl].
  cbn [sem_lines]. rewrite !units_go; try assumption; try lia; try reflexivity.
  all: replace (2 * entry_len e - 0) with (2 * entry_len e) by lia; rewrite Z.even_mul; reflexivity.
Qed.

From Xdis Require Import Base.Prelude Base.Result Base.OpTable Base.Bits Model.Instr Spec.Dis Proofs.InstrProofs.
From Coq Require Import ZifyBool.

(* model list vs CPython's list: items xdis decodes inside cache entries are operand-less and dropped *)
(* same offset and opcode; same operand, unless CPython reports none for an opcode it takes to be operand-less *)
Definition agree' (R : reftable) (x y : Z * Z * option Z) : Prop :=
  fst (fst x) = fst (fst y) /\ snd (fst x) = snd (fst y) /\
  (snd x = snd y \/ (snd y = None /\ spec_has_arg R (snd (fst x)) = false)).

Inductive sim_list (R : reftable) (skip : bool) : nat -> list (Z * Z * option Z) -> list (Z * Z * option Z) -> Prop :=
| sl_nil c : sim_list R skip c [] []
| sl_drop c x m s : snd x = None -> sim_list R skip c m s -> sim_list R skip (S c) (x :: m) s
| sl_keep x y m s : agree' R x y -> 0 <= snd (fst x) < 256 -> sim_list R skip (if skip then Z.to_nat (rcache R (snd (fst x))) else O) m s ->
                    sim_list R skip O (x :: m) (y :: s).

(* strict well-formedness for the label finders' unpackers, which never clear extended_arg at an
   operand-less opcode: none may follow an EXTENDED_ARG prefix, whatever the version *)
Definition wf_strict (T : optable) (R : reftable) (code : list Z) : bool :=
  let v := r_version R in
  if tuple_ltb v [3; 6] then wf_byte T R code 0
  else wf_word T R false (tuple_geb v [3; 11]) (tuple_geb v [3; 11]) code 0 O.

Lemma unpack_word_sim T R reset wrap skip : compat T R = true -> py36 T = true ->
  forall n code, (List.length code <= n)%nat -> bytes_ok code = true ->
  forall i ext caches us,
  wf_word T R false wrap skip code ext caches = true ->
  unpack_word_spec R reset wrap skip code i ext caches = Ok us ->
  exists um, unpack_word T code i ext = Ok um /\ sim_list R skip caches um us.
Proof.
  intros Hc Hp. assert (Hsh : t_shift T = 8).
  { unfold compat in Hc. apply andb_true_iff in Hc as [_ Hc]. rewrite Hp in Hc. lia. }
  induction n as [|n IH]; intros code Hlen Hb i ext caches us Hwf Hs.
  - destruct code; [|cbn in Hlen; lia]. cbn in Hs. inversion Hs; subst. exists []. split; [reflexivity|constructor].
  - destruct code as [|op tl]; [cbn in Hs; inversion Hs; subst; exists []; split; [reflexivity|constructor]|].
    destruct (bytes_ok_cons _ _ Hb) as [Hop Hbtl].
    pose proof (compat_facts T R op Hc Hop) as F.
    cbn [wf_word] in Hwf. cbn [unpack_word_spec] in Hs. cbn [unpack_word].
    destruct caches as [|c].
    + destruct (spec_has_arg R op) eqn:Esa.
      * rewrite (of_arg _ _ _ F Esa).
        destruct tl as [|b r]; [discriminate Hs|].
        destruct (bytes_ok_cons _ _ Hbtl) as [Hbb Hbr].
        apply andb_true_iff in Hwf as [Hw1 Hw2].
        set (e1 := if op =? r_extended_arg R then Z.shiftl (Z.lor b ext) 8 else 0) in *.
        assert (He2 : (if wrap && (2147483648 <=? e1) then e1 - 4294967296 else e1) = e1).
        { destruct wrap; cbn [andb]; [|reflexivity]. assert (E : (2147483648 <=? e1) = false) by lia. rewrite E. reflexivity. }
        rewrite He2 in Hs.
        destruct (unpack_word_spec R reset wrap skip r (i + 2) e1 (if skip then Z.to_nat (rcache R op) else 0%nat)) as [rest|e] eqn:Er; [|discriminate Hs].
        cbn [bind] in Hs. inversion Hs; subst us.
        rewrite (of_ext2 _ _ _ F), Hsh. fold e1.
        destruct (IH r ltac:(cbn in Hlen; lia) Hbr (i + 2) e1 _ rest Hw2 Er) as (um & Eu & Ha).
        rewrite Eu. cbn [bind]. eexists. split; [reflexivity|].
        apply sl_keep; [unfold agree'; cbn; auto|cbn; exact Hop|exact Ha].
      * apply andb_true_iff in Hwf as [Hw1 Hw2]. cbn [orb] in Hw1. assert (ext = 0) by lia. subst ext.
        assert (Hext : (if reset then 0 else 0) = 0) by (destruct reset; reflexivity). rewrite Hext in Hs.
        destruct (has_arg T op) eqn:Eha.
        -- destruct (of_extra _ _ _ F Eha Esa) as [Hne _].
           destruct tl as [|b r]; [discriminate Hw2|].
           destruct (bytes_ok_cons _ _ Hbtl) as [Hbb Hbr].
           destruct (unpack_word_spec R reset wrap skip r (i + 2) 0 (if skip then Z.to_nat (rcache R op) else 0%nat)) as [rest|e] eqn:Er; [|discriminate Hs].
           cbn [bind] in Hs. inversion Hs; subst us.
           rewrite (of_ext2 _ _ _ F), Hne.
           destruct (IH r ltac:(cbn in Hlen; lia) Hbr (i + 2) 0 _ rest Hw2 Er) as (um & Eu & Ha).
           rewrite Eu. cbn [bind]. eexists. split; [reflexivity|].
           apply sl_keep; [unfold agree'; cbn; auto|cbn; exact Hop|exact Ha].
        -- destruct tl as [|b r].
           ++ inversion Hs; subst us. eexists. split; [reflexivity|].
              apply sl_keep; [unfold agree'; cbn; auto|cbn; exact Hop|constructor].
           ++ destruct (bytes_ok_cons _ _ Hbtl) as [Hbb Hbr].
              destruct (unpack_word_spec R reset wrap skip r (i + 2) 0 (if skip then Z.to_nat (rcache R op) else 0%nat)) as [rest|e] eqn:Er; [|discriminate Hs].
              cbn [bind] in Hs. inversion Hs; subst us.
              destruct (IH r ltac:(cbn in Hlen; lia) Hbr (i + 2) 0 _ rest Hw2 Er) as (um & Eu & Ha).
              rewrite Eu. cbn [bind]. eexists. split; [reflexivity|].
              apply sl_keep; [unfold agree'; cbn; auto|cbn; exact Hop|exact Ha].
    + apply andb_true_iff in Hwf as [Hw1 Hw2]. apply andb_true_iff in Hw1 as [Hna He0].
      assert (Eha : has_arg T op = false) by (destruct (has_arg T op); [discriminate|reflexivity]). rewrite Eha.
      assert (ext = 0) by lia. subst ext.
      destruct tl as [|b r].
      * inversion Hs; subst us. eexists. split; [reflexivity|]. apply sl_drop; [reflexivity|constructor].
      * destruct (bytes_ok_cons _ _ Hbtl) as [Hbb Hbr].
        destruct (IH r ltac:(cbn in Hlen; lia) Hbr (i + 2) 0 c us Hw2 Hs) as (um & Eu & Ha).
        rewrite Eu. cbn [bind]. eexists. split; [reflexivity|]. apply sl_drop; [reflexivity|exact Ha].
Qed.

Lemma lor_add_ext b1 b2 x : 0 <= b1 < 256 -> 0 <= b2 < 256 -> 0 <= x ->
  Z.lor (b1 + b2 * 256) (x * 65536) = b1 + b2 * 256 + x * 65536.
Proof.
  intros H1 H2 Hx. replace (x * 65536) with (Z.shiftl x 16) by (rewrite Z.shiftl_mul_pow2 by lia; reflexivity).
  rewrite lor_shiftl_add by lia. rewrite Z.shiftl_mul_pow2 by lia. reflexivity.
Qed.

Lemma lor_add_ext' b1 b2 ext : 0 <= b1 < 256 -> 0 <= b2 < 256 -> 0 <= ext -> ext mod 65536 = 0 ->
  Z.lor (b1 + b2 * 256) ext = b1 + b2 * 256 + ext.
Proof.
  intros H1 H2 Hx Hm. assert (E : ext = (ext / 65536) * 65536).
  { pose proof (Z.div_mod ext 65536 ltac:(lia)). lia. }
  pose proof (lor_add_ext b1 b2 (ext / 65536) H1 H2 ltac:(apply Z.div_pos; lia)) as L. rewrite <- E in L. exact L.
Qed.

(* byte code: the label finder's unpacker ORs the 16-bit operand with the shifted prefix *)
Lemma unpack_byte_sim T R : compat T R = true -> py36 T = false ->
  forall n code, (List.length code <= n)%nat -> bytes_ok code = true ->
  forall i ext us, 0 <= ext -> ext mod 65536 = 0 ->
  wf_byte T R code ext = true ->
  unpack_pre36 R code i ext = Ok us ->
  unpack_byte T code i ext = Ok us.
Proof.
  intros Hc Hp. assert (Hsh : t_shift T = 16).
  { unfold compat in Hc. apply andb_true_iff in Hc as [_ Hc]. rewrite Hp in Hc. lia. }
  induction n as [|n IH]; intros code Hlen Hb i ext us Hxe Hm Hwf Hs.
  - destruct code; [|cbn in Hlen; lia]. cbn in Hs. inversion Hs; subst. reflexivity.
  - destruct code as [|op tl]; [cbn in Hs; inversion Hs; subst; reflexivity|].
    destruct (bytes_ok_cons _ _ Hb) as [Hop Hbtl].
    pose proof (compat_facts T R op Hc Hop) as F.
    cbn [wf_byte] in Hwf. cbn [unpack_pre36] in Hs. cbn [unpack_byte].
    destruct (spec_has_arg R op) eqn:Esa.
    + rewrite (of_arg _ _ _ F Esa).
      destruct tl as [|b1 [|b2 r]]; try discriminate Hs.
      destruct (bytes_ok_cons _ _ Hbtl) as [Hb1 Hbtl2]. destruct (bytes_ok_cons _ _ Hbtl2) as [Hb2 Hbr].
      rewrite lor_add_ext' by assumption.
      rewrite (of_ext2 _ _ _ F), Hsh.
      destruct (unpack_pre36 R r (i + 3) _) as [rest|e] eqn:Er; [|discriminate Hs].
      cbn [bind] in Hs. inversion Hs; subst us.
      destruct (op =? r_extended_arg R) eqn:Eext.
      * rewrite Z.shiftl_mul_pow2 by lia. change (2 ^ 16) with 65536.
        rewrite (IH r ltac:(cbn in Hlen; lia) Hbr (i + 3) _ rest); [reflexivity|lia|apply Z.mod_mul; lia|exact Hwf|exact Er].
      * rewrite (IH r ltac:(cbn in Hlen; lia) Hbr (i + 3) 0 rest); [reflexivity|lia|reflexivity|exact Hwf|exact Er].
    + apply andb_true_iff in Hwf as [Hw1 Hw2]. apply andb_true_iff in Hw1 as [He0 Hna].
      assert (Eha : has_arg T op = false) by (destruct (has_arg T op); [discriminate|reflexivity]). rewrite Eha.
      assert (ext = 0) by lia. subst ext.
      destruct (unpack_pre36 R tl (i + 1) 0) as [rest|e] eqn:Er; [|discriminate Hs].
      cbn [bind] in Hs. inversion Hs; subst us.
      rewrite (IH tl ltac:(cbn in Hlen; lia) Hbtl (i + 1) 0 rest); [reflexivity|lia|reflexivity|exact Hw2|exact Er].
Qed.

(* ================= labels ================= *)
Definition model_step (T : optable) (acc : list Z) (x : Z * Z * option Z) : list Z :=
  let '(offset, op, arg) := x in
  match arg with
  | None => acc
  | Some a =>
      if zmem op (t_jrel_ops T) then add_label (jrel_target T offset op a) acc
      else if zmem op (t_jabs_ops T) then add_label (if tuple_geb (t_version T) [3; 10] then a * 2 else a) acc
      else acc
  end.
Definition spec_step (R : reftable) (acc : list Z) (x : Z * Z * option Z) : list Z :=
  let '(offset, op, arg) := x in
  match arg with
  | None => acc
  | Some a => match spec_target R offset op a with
              | Some l => if tuple_ltb (r_version R) [3; 6] && (l <? 0) then acc else add_label l acc
              | None => acc end
  end.

Lemma labels_word_fold T us : labels_word T us = fold_left (model_step T) us [].
Proof. unfold labels_word. f_equal. Qed.
Lemma spec_labels_fold R us : spec_labels R us = fold_left (spec_step R) us [].
Proof. unfold spec_labels. f_equal. Qed.

(* per-opcode facts about jump classification, decided over the tables by vm_compute *)
Definition tgt_op_ok (T : optable) (R : reftable) (op : Z) : bool :=
  Bool.eqb (zmem op (t_jrel_ops T)) (zmem op (r_hasjrel R))
  && Bool.eqb (zmem op (t_jabs_ops T)) (zmem op (r_hasjabs R))
  && implb (zmem op (r_hasjrel R))
       (Bool.eqb (tuple_geb (t_version T) [3; 11] && contains "JUMP_BACKWARD" (opname_of T op))
                 (tuple_geb (r_version R) [3; 11] && is_backward R op)
        && (jump_cache_size (opname_of T op) (t_version T) =? (if tuple_geb (r_version R) [3; 12] then rcache R op else 0)))
  && implb (zmem op (t_jrel_ops T) || zmem op (t_jabs_ops T)) (spec_has_arg R op)
  (* Instruction.argval tests the name whatever the version: no pre-3.11 jump is named *JUMP_BACKWARD* *)
  && implb (zmem op (r_hasjrel R))
       (Bool.eqb (contains "JUMP_BACKWARD" (opname_of T op)) (tuple_geb (r_version R) [3; 11] && is_backward R op)).

Definition in_byte_range (l : list Z) : bool := forallb (fun op => (0 <=? op) && (op <? 256)) l.

Definition tgt_ops_ok (T : optable) (R : reftable) : bool := forallb (tgt_op_ok T R) ops256.
Definition tgt_ver_ok (T : optable) (R : reftable) : bool :=
  Bool.eqb (tuple_geb (t_version T) [3; 10]) (tuple_geb (r_version R) [3; 10])
  && Bool.eqb (py36 T) (tuple_geb (r_version R) [3; 6])
  && Bool.eqb (String.eqb (t_findlabels T) "wordcode.findlabels") (py36 T)
  && Bool.eqb (tuple_geb (firstn 2 (t_version T)) [3; 10]) (tuple_geb (r_version R) [3; 10]).
Definition tgt_ok (T : optable) (R : reftable) : bool := tgt_ops_ok T R && tgt_ver_ok T R.

Record verfacts (T : optable) (R : reftable) : Prop := {
  vf10 : tuple_geb (t_version T) [3; 10] = tuple_geb (r_version R) [3; 10];
  vf36 : py36 T = tuple_geb (r_version R) [3; 6];
  vffl : String.eqb (t_findlabels T) "wordcode.findlabels" = py36 T;
  vf10' : tuple_geb (firstn 2 (t_version T)) [3; 10] = tuple_geb (r_version R) [3; 10]
}.
Lemma tgt_ver T R : tgt_ok T R = true -> verfacts T R.
Proof.
  unfold tgt_ok. intros H. apply andb_true_iff in H as [_ H]. unfold tgt_ver_ok in H.
  apply andb_true_iff in H as [H H4]. apply andb_true_iff in H as [H H3]. apply andb_true_iff in H as [H1 H2].
  constructor; apply Bool.eqb_prop; assumption.
Qed.

Record opjfacts (T : optable) (R : reftable) (op : Z) : Prop := {
  oj_rel : zmem op (t_jrel_ops T) = zmem op (r_hasjrel R);
  oj_abs : zmem op (t_jabs_ops T) = zmem op (r_hasjabs R);
  oj_back : zmem op (r_hasjrel R) = true ->
            tuple_geb (t_version T) [3; 11] && contains "JUMP_BACKWARD" (opname_of T op) = tuple_geb (r_version R) [3; 11] && is_backward R op;
  oj_cache : zmem op (r_hasjrel R) = true ->
             jump_cache_size (opname_of T op) (t_version T) = (if tuple_geb (r_version R) [3; 12] then rcache R op else 0);
  oj_arg : zmem op (t_jrel_ops T) || zmem op (t_jabs_ops T) = true -> spec_has_arg R op = true;
  oj_name : zmem op (r_hasjrel R) = true ->
            contains "JUMP_BACKWARD" (opname_of T op) = tuple_geb (r_version R) [3; 11] && is_backward R op
}.

Lemma tgt_facts T R op : tgt_ok T R = true -> 0 <= op < 256 -> opjfacts T R op.
Proof.
  unfold tgt_ok. intros H Hop. apply andb_true_iff in H as [H _]. unfold tgt_ops_ok in H.
  pose proof (byte_sweep (tgt_op_ok T R) H op Hop) as F. clear H. unfold tgt_op_ok in F.
  apply andb_true_iff in F as [F F5]. apply andb_true_iff in F as [F F4]. apply andb_true_iff in F as [F F3]. apply andb_true_iff in F as [F1 F2].
  apply Bool.eqb_prop in F1. apply Bool.eqb_prop in F2.
  constructor; try assumption.
  - intros E. rewrite E in F3. cbn [implb] in F3. apply andb_true_iff in F3 as [Fb _]. apply Bool.eqb_prop. exact Fb.
  - intros E. rewrite E in F3. cbn [implb] in F3. apply andb_true_iff in F3 as [_ Fc]. apply Z.eqb_eq. exact Fc.
  - intros E. rewrite E in F4. exact F4.
  - intros E. rewrite E in F5. cbn [implb] in F5. apply Bool.eqb_prop. exact F5.
Qed.

Lemma step_eq_word T R o op a acc : tgt_ok T R = true -> py36 T = true -> 0 <= op < 256 ->
  model_step T acc (o, op, Some a) = spec_step R acc (o, op, Some a).
Proof.
  intros Ht Hp Hop. pose proof (tgt_facts T R op Ht Hop) as F. pose proof (tgt_ver T R Ht) as V.
  pose proof (vf36 _ _ V) as H36. rewrite Hp in H36. pose proof (vf10 _ _ V) as H10.
  unfold model_step, spec_step, spec_target. rewrite (oj_rel _ _ _ F), (oj_abs _ _ _ F).
  assert (Hl6 : tuple_ltb (r_version R) [3; 6] = false) by (rewrite ltb_negb_geb, <- H36; reflexivity). rewrite Hl6. cbn [andb].
  destruct (zmem op (r_hasjrel R)) eqn:Ej.
  - unfold jrel_target. rewrite H10. rewrite ltb_negb_geb. rewrite (oj_back _ _ _ F Ej), (oj_cache _ _ _ F Ej).
    destruct (tuple_geb (r_version R) [3; 10]) eqn:E10; cbn [negb].
    + f_equal. destruct (tuple_geb (r_version R) [3; 12]); destruct (tuple_geb (r_version R) [3; 11] && is_backward R op); lia.
    + rewrite (geb_mono _ 10 11 ltac:(lia) E10), (geb_mono _ 10 12 ltac:(lia) E10). cbn [andb]. f_equal. lia.
  - destruct (zmem op (r_hasjabs R)); [|reflexivity]. rewrite H10. reflexivity.
Qed.

Lemma labels_sim_word T R skip : tgt_ok T R = true -> py36 T = true ->
  forall c um us, sim_list R skip c um us -> forall acc,
  fold_left (model_step T) um acc = fold_left (spec_step R) us acc.
Proof.
  intros Ht Hp c um us H. induction H as [c|c x m s Hx H IH|x y m s Ha Hr H IH]; intros acc.
  - reflexivity.
  - cbn [fold_left]. destruct x as [[o op] arg]. cbn in Hx. subst arg. cbn [model_step]. apply IH.
  - cbn [fold_left]. rewrite <- IH. f_equal.
    destruct x as [[o op] ax], y as [[o' op'] ay]. destruct Ha as (H1 & H2 & H3). cbn in H1, H2, H3, Hr. subst o' op'.
    destruct H3 as [H3|[H3 H4]].
    + subst ay. destruct ax as [a|]; [apply step_eq_word; assumption|reflexivity].
    + subst ay. cbn [spec_step]. destruct ax as [a|]; [|reflexivity]. cbn [model_step].
      pose proof (oj_arg _ _ _ (tgt_facts T R op Ht Hr)) as F4. rewrite H4 in F4.
      destruct (zmem op (t_jrel_ops T)); [specialize (F4 eq_refl); discriminate|].
      destruct (zmem op (t_jabs_ops T)); [specialize (F4 eq_refl); discriminate|]. reflexivity.
Qed.

(* ---- byte code ---- *)
Definition model_step_byte (T : optable) (acc : list Z) (x : Z * Z * option Z) : list Z :=
  let '(offset, op, arg) := x in
  match arg with
  | None => acc
  | Some a =>
      let j := if zmem op (t_jrel_ops T) then offset + instruction_size T op + a
               else if zmem op (t_jabs_ops T) then a else -1 in
      if 0 <=? j then add_label j acc else acc
  end.
Lemma labels_pre_310_fold T us : labels_pre_310 T us = fold_left (model_step_byte T) us [].
Proof. unfold labels_pre_310. f_equal. Qed.

Lemma step_eq_byte T R o op a acc : compat T R = true -> tgt_ok T R = true -> py36 T = false -> 0 <= op < 256 ->
  model_step_byte T acc (o, op, Some a) = spec_step R acc (o, op, Some a).
Proof.
  intros Hc Ht Hp Hop. pose proof (tgt_facts T R op Ht Hop) as F. pose proof (tgt_ver T R Ht) as V.
  pose proof (compat_facts T R op Hc Hop) as CF.
  pose proof (vf36 _ _ V) as H36. rewrite Hp in H36.
  assert (Hl6 : tuple_ltb (r_version R) [3; 6] = true) by (rewrite ltb_negb_geb, <- H36; reflexivity).
  unfold model_step_byte, spec_step, spec_target. rewrite (oj_rel _ _ _ F), (oj_abs _ _ _ F), Hl6. cbn [andb].
  destruct (zmem op (r_hasjrel R)) eqn:Ej.
  - pose proof (oj_arg _ _ _ F) as F4. rewrite (oj_rel _ _ _ F), Ej in F4. cbn [orb] in F4. specialize (F4 eq_refl).
    rewrite isize_byte by assumption. rewrite (of_arg _ _ _ CF F4).
    destruct (0 <=? o + 3 + a) eqn:E1, (o + 3 + a <? 0) eqn:E2; try reflexivity; exfalso; lia.
  - destruct (zmem op (r_hasjabs R)) eqn:Ea.
    + symmetry in H36. rewrite (geb_mono _ 6 10 ltac:(lia) H36).
      destruct (0 <=? a) eqn:E1, (a <? 0) eqn:E2; try reflexivity; exfalso; lia.
    + reflexivity.
Qed.

Lemma unpack_pre36_ops R : forall n code, (List.length code <= n)%nat -> bytes_ok code = true -> forall i ext us,
  unpack_pre36 R code i ext = Ok us -> Forall (fun x => 0 <= snd (fst x) < 256) us.
Proof.
  induction n as [|n IH]; intros code Hlen Hb i ext us H.
  - destruct code; [|cbn in Hlen; lia]. cbn in H. inversion H. constructor.
  - destruct code as [|op tl]; [cbn in H; inversion H; constructor|].
    destruct (bytes_ok_cons _ _ Hb) as [Hop Hbtl]. cbn [unpack_pre36] in H.
    destruct (spec_has_arg R op).
    + destruct tl as [|b1 [|b2 r]]; try discriminate H.
      destruct (bytes_ok_cons _ _ Hbtl) as [_ Hb2]. destruct (bytes_ok_cons _ _ Hb2) as [_ Hbr].
      destruct (unpack_pre36 R r (i + 3) _) as [rest|e] eqn:Er; [|discriminate H]. cbn [bind] in H. inversion H; subst.
      constructor; [cbn; exact Hop|]. exact (IH r ltac:(cbn in Hlen; lia) Hbr _ _ _ Er).
    + destruct (unpack_pre36 R tl (i + 1) ext) as [rest|e] eqn:Er; [|discriminate H]. cbn [bind] in H. inversion H; subst.
      constructor; [cbn; exact Hop|]. exact (IH tl ltac:(cbn in Hlen; lia) Hbtl _ _ _ Er).
Qed.

Lemma labels_byte_eq T R : compat T R = true -> tgt_ok T R = true -> py36 T = false ->
  forall us, Forall (fun x => 0 <= snd (fst x) < 256) us -> forall acc,
  fold_left (model_step_byte T) us acc = fold_left (spec_step R) us acc.
Proof.
  intros Hc Ht Hp us H. induction H as [|x us Hx H IH]; intros acc; [reflexivity|].
  cbn [fold_left]. rewrite <- IH. f_equal. destruct x as [[o op] [a|]]; [|reflexivity].
  apply step_eq_byte; assumption.
Qed.

(* ================= findlabels: model = CPython ================= *)
Theorem findlabels_agree T R code ls : compat T R = true -> tgt_ok T R = true -> bytes_ok code = true ->
  code <> [] -> wf_strict T R code = true -> spec_findlabels R code = Ok ls -> findlabels T code = Ok ls.
Proof.
  intros Hc Ht Hb Hne Hwf Hs. unfold findlabels, spec_findlabels, spec_unpack, wf_strict in *.
  pose proof (tgt_ver T R Ht) as V. pose proof (vf36 _ _ V) as H36. rewrite (vffl _ _ V).
  rewrite ltb_negb_geb in *. rewrite <- H36 in *.
  destruct (py36 T) eqn:Ep; cbn [negb] in *.
  - destruct (unpack_word_spec R _ _ _ code 0 0 0) as [us|e] eqn:Eu; [|discriminate Hs]. cbn [bind] in Hs. inversion Hs; subst ls.
    destruct (unpack_word_sim T R _ _ _ Hc Ep _ code (le_n _) Hb 0 0 O us Hwf Eu) as (um & Em & Hsim).
    assert (Hz : (zlen code =? 0) = false) by (destruct code; [congruence|unfold zlen; cbn [List.length]; lia]).
    rewrite Hz, andb_false_r. rewrite Em. cbn [bind]. f_equal.
    rewrite labels_word_fold, spec_labels_fold. exact (labels_sim_word T R _ Ht Ep _ _ _ Hsim []).
  - destruct (unpack_pre36 R code 0 0) as [us|e] eqn:Eu; [|discriminate Hs]. cbn [bind] in Hs. inversion Hs; subst ls.
    pose proof Ep as Ep'. unfold py36 in Ep'. rewrite (geb_mono _ 6 10 ltac:(lia) Ep'). cbn [negb].
    rewrite (unpack_byte_sim T R Hc Ep _ code (le_n _) Hb 0 0 us ltac:(lia) eq_refl Hwf Eu). cbn [bind]. f_equal.
    rewrite labels_pre_310_fold, spec_labels_fold.
    apply labels_byte_eq; try assumption. exact (unpack_pre36_ops R _ code (le_n _) Hb 0 0 us Eu).
Qed.

(* ================= Instruction.argval of a jump = CPython's target ================= *)
Theorem jump_argval_agree T R x a : compat T R = true -> tgt_ok T R = true -> 0 <= i_op x < 256 -> i_arg x = Some a ->
  zmem (i_op x) (r_hasjrel R) || zmem (i_op x) (r_hasjabs R) = true ->
  jump_argval T x = spec_target R (i_offset x) (i_op x) a.
Proof.
  intros Hc Ht Hop Ha Hj. pose proof (tgt_facts T R (i_op x) Ht Hop) as F. pose proof (tgt_ver T R Ht) as V.
  pose proof (compat_facts T R (i_op x) Hc Hop) as CF. pose proof (vf36 _ _ V) as H36.
  unfold jump_argval, spec_target. rewrite Ha, (oj_rel _ _ _ F), (oj_abs _ _ _ F), (vf10' _ _ V). rewrite !ltb_negb_geb, <- H36.
  destruct (zmem (i_op x) (r_hasjrel R)) eqn:Ej.
  - rewrite (oj_name _ _ _ F Ej), (oj_cache _ _ _ F Ej).
    pose proof (oj_arg _ _ _ F) as F4. rewrite (oj_rel _ _ _ F), Ej in F4. cbn [orb] in F4. specialize (F4 eq_refl).
    pose proof (of_arg _ _ _ CF F4) as Hha.
    destruct (py36 T) eqn:Ep; cbn [negb].
    + rewrite isize_word by assumption.
      destruct (tuple_geb (r_version R) [3; 10]) eqn:E10; cbn [negb].
      * f_equal. destruct (tuple_geb (r_version R) [3; 12]); destruct (tuple_geb (r_version R) [3; 11] && is_backward R (i_op x)); lia.
      * rewrite (geb_mono _ 10 11 ltac:(lia) E10), (geb_mono _ 10 12 ltac:(lia) E10). cbn [andb]. f_equal. lia.
    + rewrite isize_byte by assumption. rewrite Hha. symmetry in H36.
      rewrite (geb_mono _ 6 10 ltac:(lia) H36), (geb_mono _ 6 11 ltac:(lia) H36), (geb_mono _ 6 12 ltac:(lia) H36).
      cbn [andb negb]. f_equal. lia.
  - cbn [orb] in Hj. rewrite Hj. reflexivity.
Qed.

Lemma zmem_In k l : zmem k l = true <-> In k l.
Proof.
  unfold zmem. rewrite existsb_exists. split.
  - intros (x & Hx & E). apply Z.eqb_eq in E. subst. exact Hx.
  - intros H. exists k. split; [exact H|apply Z.eqb_refl].
Qed.

Theorem is_jump_target_iff labels exc x : is_jump_target labels exc x = true <-> In (i_offset x) (labels ++ exc).
Proof. unfold is_jump_target. rewrite orb_true_iff, !zmem_In, in_app_iff. reflexivity. Qed.

(* Table obligations for C10/C01 over the regenerated dispatch table and magic tables. *)
From Xdis Require Import Base.Prelude Base.Result Model.Unmarshal Model.UnmarshalObs Gen.Magics Gen.Dispatch Proofs.UnmarshalProofs.

Definition codes128 : list Z := map Z.of_nat (seq 0 128).
Definition all_magics : list Z := map fst magicint2version.

(* every type code CPython's marshal of a version knows is in xdis's dispatch table *)
Definition codes_covered : bool :=
  forallb (fun m => forallb (fun t => implb (cpy_code_ok (magic_version m) t) (zmem t xdis_codes)) codes128) all_magics.
Lemma codes_covered_true : codes_covered = true.
Proof. vm_compute. reflexivity. Qed.

Lemma dispatch_ok_true : dispatch_ok = true.
Proof. vm_compute. reflexivity. Qed.

Lemma cfg_rel_magic m : In m all_magics -> cfg_rel (cpy_cfg m) (xdis_cfg m).
Proof.
  intros Hin. constructor; try reflexivity.
  intros t Hr Ht. cbn [code_ok cpy_cfg xdis_cfg] in *.
  pose proof (proj1 (forallb_forall _ _) codes_covered_true m Hin) as H.
  assert (Hi : In t codes128).
  { unfold codes128. replace t with (Z.of_nat (Z.to_nat t)) by lia. apply in_map. apply in_seq. lia. }
  pose proof (proj1 (forallb_forall _ _) H t Hi) as Hi'. cbv beta in Hi'. rewrite Ht in Hi'. exact Hi'.
Qed.

(* 3.11+: the varnames / cellvars / freevars split equals CPython's three filters when a name that is
   free is neither local nor cell (the only kinds the compiler produces) *)
Definition k_local (k : Z) := negb (Z.land k 32 =? 0).
Definition k_cell (k : Z) := negb (Z.land k 64 =? 0).
Definition k_free (k : Z) := negb (Z.land k 128 =? 0).
Fixpoint filter_kind (p : Z -> bool) (names : list pv) (kinds : list Z) : list pv :=
  match names, kinds with
  | nm :: ns, k :: ks => if p k then nm :: filter_kind p ns ks else filter_kind p ns ks
  | _, _ => []
  end.
Definition kinds_wf (kinds : list Z) : bool := forallb (fun k => implb (k_free k) (negb (k_local k) && negb (k_cell k))) kinds.

Lemma split_localsplus_filters names : forall kinds, kinds_wf kinds = true ->
  split_localsplus names kinds = (filter_kind k_local names kinds, filter_kind k_cell names kinds, filter_kind k_free names kinds).
Proof.
  induction names as [|nm ns IH]; intros kinds Hwf; [reflexivity|].
  destruct kinds as [|k ks]; [reflexivity|].
  cbn [kinds_wf forallb] in Hwf. apply andb_true_iff in Hwf as [Hk Hwf].
  cbn [split_localsplus filter_kind]. rewrite (IH ks Hwf). unfold k_local, k_cell, k_free in *.
  destruct (negb (Z.land k 32 =? 0)) eqn:E1, (negb (Z.land k 64 =? 0)) eqn:E2, (negb (Z.land k 128 =? 0)) eqn:E3; cbn in Hk; try discriminate Hk; reflexivity.
Qed.

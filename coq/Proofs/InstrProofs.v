From Xdis Require Import Base.Prelude Base.Result Base.OpTable Base.Bits Model.Instr Spec.Dis.
From Coq Require Import ZifyBool.

(* ================= table-level compatibility (decided per (T, R) pair by vm_compute) ================= *)
Definition ops256 : list Z := map Z.of_nat (seq 0 256).

Definition op_compat (T : optable) (R : reftable) (op : Z) : bool :=
  Bool.eqb (is_ext_name T op) (op =? r_extended_arg R)
  && Bool.eqb (op =? t_extended_arg T) (op =? r_extended_arg R)
  && implb (spec_has_arg R op) (has_arg T op)
  && implb (has_arg T op && negb (spec_has_arg R op)) (negb (op =? r_extended_arg R) && tuple_geb (r_version R) [3; 10])
  && implb (negb (rcache R op =? 0)) (negb (op =? r_extended_arg R))
  && (0 <=? rcache R op).

Definition compat (T : optable) (R : reftable) : bool :=
  forallb (op_compat T R) ops256 && Bool.eqb (py36 T) (tuple_geb (r_version R) [3; 6]) && (t_shift T =? (if py36 T then 8 else 16)).

Lemma compat_op T R op : compat T R = true -> 0 <= op < 256 -> op_compat T R op = true.
Proof.
  unfold compat. intros H Hop. apply andb_true_iff in H as [H _]. apply andb_true_iff in H as [H _].
  exact (byte_sweep (op_compat T R) H op Hop).
Qed.

Record opfacts (T : optable) (R : reftable) (op : Z) : Prop := {
  of_ext : is_ext_name T op = (op =? r_extended_arg R);
  of_ext2 : (op =? t_extended_arg T) = (op =? r_extended_arg R);
  of_arg : spec_has_arg R op = true -> has_arg T op = true;
  of_extra : has_arg T op = true -> spec_has_arg R op = false ->
             (op =? r_extended_arg R) = false /\ tuple_geb (r_version R) [3; 10] = true;
  of_cache : rcache R op <> 0 -> (op =? r_extended_arg R) = false;
  of_cache_nonneg : 0 <= rcache R op
}.

Lemma compat_facts T R op : compat T R = true -> 0 <= op < 256 -> opfacts T R op.
Proof.
  intros Hc Hop. pose proof (compat_op T R op Hc Hop) as H. unfold op_compat in H.
  repeat (apply andb_true_iff in H; destruct H as [H ?]).
  constructor.
  - apply Bool.eqb_prop. assumption.
  - apply Bool.eqb_prop. assumption.
  - intros E. rewrite E in *. cbn in *. assumption.
  - intros E1 E2. rewrite E1, E2 in *. cbn in *. apply andb_true_iff in H2. destruct H2 as [A B].
    split; [destruct (op =? r_extended_arg R); [discriminate|reflexivity]|assumption].
  - intros E. destruct (rcache R op =? 0) eqn:E0; [lia|]. cbn in *. destruct (op =? r_extended_arg R); [discriminate|reflexivity].
  - lia.
Qed.

Lemma bytes_ok_cons b l : bytes_ok (b :: l) = true -> 0 <= b < 256 /\ bytes_ok l = true.
Proof. unfold bytes_ok. cbn [forallb]. intros H. apply andb_true_iff in H as [H1 H2]. unfold byte_ok in H1. split; [lia|assumption]. Qed.

(* ================= well-formedness of code, relative to CPython's walk ================= *)
(* word code: no operand-less opcode while an EXTENDED_ARG prefix is pending (before 3.10, where
   CPython would carry it over); extended_arg stays below 2^31 (3.11+ wraps there); the inline
   cache entries of an instruction are operand-less for xdis (they are CACHE = 0 in every .pyc) *)
Fixpoint wf_word (T : optable) (R : reftable) (reset wrap skip : bool) (code : list Z) (ext : Z) (caches : nat) : bool :=
  match code with
  | [] => true
  | op :: tl =>
      match caches with
      | S c => negb (has_arg T op) && (ext =? 0) && match tl with [] => true | _ :: r => wf_word T R reset wrap skip r ext c end
      | O =>
          let k := if skip then Z.to_nat (rcache R op) else O in
          if spec_has_arg R op then
            match tl with
            | [] => true
            | b :: r =>
                let e1 := if op =? r_extended_arg R then Z.shiftl (Z.lor b ext) 8 else 0 in
                (if wrap then e1 <? 2147483648 else true) && wf_word T R reset wrap skip r e1 k
            end
          else
            (reset || (ext =? 0))
            && match tl with
               | [] => negb (has_arg T op)
               | _ :: r => wf_word T R reset wrap skip r 0 k
               end
      end
  end.

Definition agree (m s : Z * Z * option Z) : Prop :=
  fst (fst m) = fst (fst s) /\ snd (fst m) = snd (fst s) /\ (snd s = None \/ snd m = snd s).

(* drop the instructions xdis decodes inside inline cache entries *)
Fixpoint strip (R : reftable) (skip : bool) (is : list (Z * Z * option Z)) (caches : nat) : list (Z * Z * option Z) :=
  match is with
  | [] => []
  | x :: r => match caches with
              | S c => strip R skip r c
              | O => x :: strip R skip r (if skip then Z.to_nat (rcache R (snd (fst x))) else O)
              end
  end.

Lemma word_sim T R reset wrap skip : compat T R = true ->
  (reset = true \/ True) ->
  forall n code, (List.length code <= n)%nat -> bytes_ok code = true ->
  forall i ext cnt caches us,
  wf_word T R reset wrap skip code ext caches = true ->
  unpack_word_spec R reset wrap skip code i ext caches = Ok us ->
  exists is, instrs_word T code i ext cnt = Ok is /\ Forall2 agree (strip R skip (map triple is) caches) us.
Proof.
  intros Hc _. induction n as [|n IH]; intros code Hlen Hb i ext cnt caches us Hwf Hs.
  - destruct code; [|cbn in Hlen; lia]. cbn in Hs. inversion Hs; subst. exists []. split; [reflexivity|constructor].
  - destruct code as [|op tl]; [cbn in Hs; inversion Hs; subst; exists []; split; [reflexivity|constructor]|].
    destruct (bytes_ok_cons _ _ Hb) as [Hop Hbtl].
    pose proof (compat_facts T R op Hc Hop) as F.
    cbn [wf_word] in Hwf. cbn [unpack_word_spec] in Hs. cbn [instrs_word].
    destruct caches as [|c].
    + (* normal mode *)
      destruct (spec_has_arg R op) eqn:Esa.
      * rewrite (of_arg _ _ _ F Esa).
        destruct tl as [|b r]; [discriminate Hs|].
        destruct (bytes_ok_cons _ _ Hbtl) as [Hbb Hbr].
        apply andb_true_iff in Hwf as [Hw1 Hw2].
        set (e1 := if op =? r_extended_arg R then Z.shiftl (Z.lor b ext) 8 else 0) in *.
        assert (He2 : (if wrap && (2147483648 <=? e1) then e1 - 4294967296 else e1) = e1).
        { destruct wrap; cbn [andb]; [|reflexivity]. assert (E : (2147483648 <=? e1) = false) by lia. rewrite E. reflexivity. }
        rewrite He2 in Hs.
        destruct (unpack_word_spec R reset wrap skip r (i + 2) e1 (if skip then Z.to_nat (rcache R op) else 0%nat)) as [rest|e] eqn:Er; [|discriminate Hs].
        cbn [bind] in Hs. inversion Hs; subst us.
        rewrite (of_ext _ _ _ F). fold e1.
        destruct (IH r ltac:(cbn in Hlen; lia) Hbr (i + 2) e1 (if op =? r_extended_arg R then cnt + 1 else 0) _ rest Hw2 Er) as (is & Ei & Ha).
        rewrite Ei. cbn [bind]. eexists. split; [reflexivity|].
        cbn [map strip triple mk_instr i_offset i_op i_arg fst snd]. constructor; [|exact Ha].
        unfold agree. cbn. auto.
      * apply andb_true_iff in Hwf as [Hw1 Hw2].
        assert (Hext : (if reset then 0 else ext) = 0) by (destruct reset; [reflexivity|cbn in Hw1; lia]).
        rewrite Hext in Hs.
        destruct (has_arg T op) eqn:Eha.
        -- destruct (of_extra _ _ _ F Eha Esa) as [Hne _].
           destruct tl as [|b r]; [discriminate Hw2|].
           destruct (bytes_ok_cons _ _ Hbtl) as [Hbb Hbr].
           destruct (unpack_word_spec R reset wrap skip r (i + 2) 0 (if skip then Z.to_nat (rcache R op) else 0%nat)) as [rest|e] eqn:Er; [|discriminate Hs].
           cbn [bind] in Hs. inversion Hs; subst us.
           rewrite (of_ext _ _ _ F), Hne.
           destruct (IH r ltac:(cbn in Hlen; lia) Hbr (i + 2) 0 0 _ rest Hw2 Er) as (is & Ei & Ha).
           rewrite Ei. cbn [bind]. eexists. split; [reflexivity|].
           cbn [map strip triple mk_instr i_offset i_op i_arg fst snd]. constructor; [|exact Ha].
           unfold agree. cbn. auto.
        -- destruct tl as [|b r].
           ++ inversion Hs; subst us. eexists. split; [reflexivity|].
              cbn [map strip triple mk_instr i_offset i_op i_arg fst snd]. constructor; [|constructor]. unfold agree. cbn. auto.
           ++ destruct (bytes_ok_cons _ _ Hbtl) as [Hbb Hbr].
              destruct (unpack_word_spec R reset wrap skip r (i + 2) 0 (if skip then Z.to_nat (rcache R op) else 0%nat)) as [rest|e] eqn:Er; [|discriminate Hs].
              cbn [bind] in Hs. inversion Hs; subst us.
              destruct (IH r ltac:(cbn in Hlen; lia) Hbr (i + 2) 0 0 _ rest Hw2 Er) as (is & Ei & Ha).
              rewrite Ei. cbn [bind]. eexists. split; [reflexivity|].
              cbn [map strip triple mk_instr i_offset i_op i_arg fst snd]. constructor; [|exact Ha].
              unfold agree. cbn. auto.
    + (* inside the inline cache entries of the previous instruction *)
      apply andb_true_iff in Hwf as [Hw1 Hw2]. apply andb_true_iff in Hw1 as [Hna He0].
      assert (Eha : has_arg T op = false) by (destruct (has_arg T op); [discriminate|reflexivity]). rewrite Eha.
      assert (ext = 0) by lia. subst ext.
      destruct tl as [|b r].
      * inversion Hs; subst us. eexists. split; [reflexivity|]. cbn. constructor.
      * destruct (bytes_ok_cons _ _ Hbtl) as [Hbb Hbr].
        destruct (IH r ltac:(cbn in Hlen; lia) Hbr (i + 2) 0 0 c us Hw2 Hs) as (is & Ei & Ha).
        rewrite Ei. cbn [bind]. eexists. split; [reflexivity|]. cbn [map strip]. exact Ha.
Qed.

(* ================= byte code (before 3.6) ================= *)
Fixpoint wf_byte (T : optable) (R : reftable) (code : list Z) (ext : Z) : bool :=
  match code with
  | [] => true
  | op :: tl =>
      if spec_has_arg R op then
        match tl with
        | b1 :: b2 :: r => wf_byte T R r (if op =? r_extended_arg R then (b1 + b2 * 256 + ext) * 65536 else 0)
        | _ => true
        end
      else (ext =? 0) && negb (has_arg T op) && wf_byte T R tl 0
  end.

Lemma byte_sim T R : compat T R = true ->
  forall n code, (List.length code <= n)%nat -> bytes_ok code = true ->
  forall i ext cnt us,
  wf_byte T R code ext = true ->
  unpack_pre36 R code i ext = Ok us ->
  exists is, instrs_byte T code i ext cnt = Ok is /\ map triple is = us.
Proof.
  intros Hc. induction n as [|n IH]; intros code Hlen Hb i ext cnt us Hwf Hs.
  - destruct code; [|cbn in Hlen; lia]. cbn in Hs. inversion Hs; subst. exists []. split; reflexivity.
  - destruct code as [|op tl]; [cbn in Hs; inversion Hs; subst; exists []; split; reflexivity|].
    destruct (bytes_ok_cons _ _ Hb) as [Hop Hbtl].
    pose proof (compat_facts T R op Hc Hop) as F.
    cbn [wf_byte] in Hwf. cbn [unpack_pre36] in Hs. cbn [instrs_byte].
    destruct (spec_has_arg R op) eqn:Esa.
    + rewrite (of_arg _ _ _ F Esa).
      destruct tl as [|b1 [|b2 r]]; try discriminate Hs.
      destruct (bytes_ok_cons _ _ Hbtl) as [Hb1 Hbtl2]. destruct (bytes_ok_cons _ _ Hbtl2) as [Hb2 Hbr].
      destruct (unpack_pre36 R r (i + 3) (if op =? r_extended_arg R then (b1 + b2 * 256 + ext) * 65536 else 0)) as [rest|e] eqn:Er; [|discriminate Hs].
      cbn [bind] in Hs. inversion Hs; subst us.
      rewrite (of_ext _ _ _ F).
      destruct (IH r ltac:(cbn in Hlen; lia) Hbr (i + 3) _ (if op =? r_extended_arg R then cnt + 1 else 0) rest Hwf Er) as (is & Ei & Ha).
      rewrite Ei. cbn [bind]. eexists. split; [reflexivity|]. cbn [map triple mk_instr i_offset i_op i_arg]. rewrite Ha. reflexivity.
    + apply andb_true_iff in Hwf as [Hw1 Hw2]. apply andb_true_iff in Hw1 as [He0 Hna].
      assert (Eha : has_arg T op = false) by (destruct (has_arg T op); [discriminate|reflexivity]). rewrite Eha.
      assert (ext = 0) by lia. subst ext.
      destruct (unpack_pre36 R tl (i + 1) 0) as [rest|e] eqn:Er; [|discriminate Hs].
      cbn [bind] in Hs. inversion Hs; subst us.
      destruct (IH tl ltac:(cbn in Hlen; lia) Hbtl (i + 1) 0 0 rest Hw2 Er) as (is & Ei & Ha).
      rewrite Ei. cbn [bind]. eexists. split; [reflexivity|]. cbn [map triple mk_instr i_offset i_op i_arg]. rewrite Ha. reflexivity.
Qed.

(* ================= tiling ================= *)
Fixpoint chain (T : optable) (i : Z) (is : list instr) (e : Z) : Prop :=
  match is with
  | [] => i = e
  | x :: r => i_offset x = i /\ chain T (i + instruction_size T (i_op x)) r e
  end.

Lemma geb_mono v a b : a <= b -> tuple_geb v [3; a] = false -> tuple_geb v [3; b] = false.
Proof.
  intros Hab. unfold tuple_geb. destruct v as [|x [|y r]]; cbn [tuple_cmp].
  - reflexivity.
  - destruct (Z.compare_spec x 3); intros Hg; try discriminate; reflexivity.
  - destruct (Z.compare_spec x 3); intros Hg; try discriminate; try reflexivity.
    destruct (Z.compare_spec y a); [destruct r; discriminate| |discriminate].
    destruct (Z.compare_spec y b); try reflexivity; exfalso; lia.
Qed.

Lemma isize_word T op : py36 T = true -> instruction_size T op = 2.
Proof. intros H. unfold instruction_size. rewrite H. destruct (op <? t_have_argument T); reflexivity. Qed.

Lemma isize_byte T op : py36 T = false -> instruction_size T op = if has_arg T op then 3 else 1.
Proof.
  intros H. unfold instruction_size, has_arg. rewrite H.
  unfold py36 in H. rewrite (geb_mono _ 6 13 ltac:(lia) H).
  destruct (op <? t_have_argument T) eqn:E1, (t_have_argument T <=? op) eqn:E2; try reflexivity; lia.
Qed.

Lemma tiling_word T : py36 T = true ->
  forall n code, (List.length code <= n)%nat -> forall i ext cnt is,
  instrs_word T code i ext cnt = Ok is ->
  chain T i is (i + zlen code + (if Z.even (zlen code) then 0 else 1)).
Proof.
  intros Hp. induction n as [|n IH]; intros code Hlen i ext cnt is H.
  - destruct code; [|cbn in Hlen; lia]. cbn in H. inversion H; subst. cbn. lia.
  - destruct code as [|op tl]; [cbn in H; inversion H; subst; cbn; lia|].
    cbn [instrs_word] in H. destruct (has_arg T op).
    + destruct tl as [|b r]; [discriminate|].
      destruct (instrs_word T r (i + 2) _ _) as [rest|e] eqn:Er; [|discriminate]. cbn [bind] in H. inversion H; subst is.
      cbn [chain mk_instr i_offset i_op]. split; [reflexivity|]. rewrite isize_word by assumption.
      specialize (IH r ltac:(cbn in Hlen; lia) (i + 2) _ _ rest Er).
      replace (zlen (op :: b :: r)) with (zlen r + 2) by (unfold zlen; cbn [List.length]; lia).
      replace (Z.even (zlen r + 2)) with (Z.even (zlen r)) by (rewrite Z.even_add; cbn; destruct (Z.even (zlen r)); reflexivity).
      replace (i + (zlen r + 2) + (if Z.even (zlen r) then 0 else 1)) with (i + 2 + zlen r + (if Z.even (zlen r) then 0 else 1)) by lia. exact IH.
    + destruct tl as [|b r].
      * inversion H; subst is. cbn [chain mk_instr i_offset i_op]. split; [reflexivity|]. rewrite isize_word by assumption. cbn. lia.
      * destruct (instrs_word T r (i + 2) 0 0) as [rest|e] eqn:Er; [|discriminate]. cbn [bind] in H. inversion H; subst is.
        cbn [chain mk_instr i_offset i_op]. split; [reflexivity|]. rewrite isize_word by assumption.
        specialize (IH r ltac:(cbn in Hlen; lia) (i + 2) _ _ rest Er).
        replace (zlen (op :: b :: r)) with (zlen r + 2) by (unfold zlen; cbn [List.length]; lia).
        replace (Z.even (zlen r + 2)) with (Z.even (zlen r)) by (rewrite Z.even_add; cbn; destruct (Z.even (zlen r)); reflexivity).
        replace (i + (zlen r + 2) + (if Z.even (zlen r) then 0 else 1)) with (i + 2 + zlen r + (if Z.even (zlen r) then 0 else 1)) by lia. exact IH.
Qed.

Lemma tiling_byte T : py36 T = false ->
  forall n code, (List.length code <= n)%nat -> forall i ext cnt is,
  instrs_byte T code i ext cnt = Ok is -> chain T i is (i + zlen code).
Proof.
  intros Hp. induction n as [|n IH]; intros code Hlen i ext cnt is H.
  - destruct code; [|cbn in Hlen; lia]. cbn in H. inversion H; subst. cbn. lia.
  - destruct code as [|op tl]; [cbn in H; inversion H; subst; cbn; lia|].
    cbn [instrs_byte] in H. destruct (has_arg T op) eqn:Eha.
    + destruct tl as [|b1 [|b2 r]]; try discriminate.
      destruct (instrs_byte T r (i + 3) _ _) as [rest|e] eqn:Er; [|discriminate]. cbn [bind] in H. inversion H; subst is.
      cbn [chain mk_instr i_offset i_op]. split; [reflexivity|]. rewrite isize_byte by assumption. rewrite Eha.
      specialize (IH r ltac:(cbn in Hlen; lia) (i + 3) _ _ rest Er).
      replace (i + zlen (op :: b1 :: b2 :: r)) with (i + 3 + zlen r) by (unfold zlen; cbn [List.length]; lia). exact IH.
    + destruct (instrs_byte T tl (i + 1) 0 0) as [rest|e] eqn:Er; [|discriminate]. cbn [bind] in H. inversion H; subst is.
      cbn [chain mk_instr i_offset i_op]. split; [reflexivity|]. rewrite isize_byte by assumption. rewrite Eha.
      specialize (IH tl ltac:(cbn in Hlen; lia) (i + 1) _ _ rest Er).
      replace (i + zlen (op :: tl)) with (i + 1 + zlen tl) by (unfold zlen; cbn [List.length]; lia). exact IH.
Qed.

(* an operand that is cut off by the end of the code is an IndexError, never a short instruction *)
Lemma truncated_byte T op b ext cnt i : has_arg T op = true -> instrs_byte T [op; b] i ext cnt = Err IndexErr.
Proof. intros H. cbn. rewrite H. reflexivity. Qed.
Lemma truncated_word T op ext cnt i : has_arg T op = true -> instrs_word T [op] i ext cnt = Err IndexErr.
Proof. intros H. cbn. rewrite H. reflexivity. Qed.

(* ================= top-level agreement ================= *)
Lemma ltb_negb_geb a b : tuple_ltb a b = negb (tuple_geb a b).
Proof. unfold tuple_ltb, tuple_geb. destruct (tuple_cmp a b); reflexivity. Qed.

Lemma compat_py36 T R : compat T R = true -> py36 T = tuple_geb (r_version R) [3; 6].
Proof.
  unfold compat. intros H. apply andb_true_iff in H as [H _]. apply andb_true_iff in H as [_ H].
  apply Bool.eqb_prop. exact H.
Qed.

Ltac zcmp := repeat match goal with
  | H : (_ ?= _) = Eq |- _ => apply Z.compare_eq_iff in H
  | H : (_ ?= _) = Lt |- _ => apply Z.compare_lt_iff in H
  | H : (_ ?= _) = Gt |- _ => apply Z.compare_gt_iff in H end.

Lemma geb6_geb11 v : tuple_geb v [3; 6] = false -> tuple_geb v [3; 11] = false.
Proof.
  unfold tuple_geb. destruct v as [|x [|y r]]; cbn [tuple_cmp].
  - reflexivity.
  - destruct (Z.compare_spec x 3); intros Hg; try discriminate; reflexivity.
  - destruct (Z.compare_spec x 3); intros Hg; try discriminate; try reflexivity.
    destruct (Z.compare_spec y 6); [destruct r; discriminate| |discriminate].
    destruct (Z.compare_spec y 11); try reflexivity; exfalso; lia.
Qed.


Definition wf_code (T : optable) (R : reftable) (code : list Z) : bool :=
  let v := r_version R in
  if tuple_ltb v [3; 6] then wf_byte T R code 0
  else wf_word T R (tuple_geb v [3; 10]) (tuple_geb v [3; 11]) (tuple_geb v [3; 11]) code 0 O.

Theorem instrs_agree T R code us : compat T R = true -> bytes_ok code = true ->
  wf_code T R code = true -> spec_unpack R code = Ok us ->
  exists is, instrs T code = Ok is /\
             Forall2 agree (strip R (tuple_geb (r_version R) [3; 11]) (map triple is) O) us.
Proof.
  intros Hc Hb Hwf Hs. unfold instrs, wf_code, spec_unpack in *. rewrite (compat_py36 T R Hc).
  rewrite ltb_negb_geb in *. destruct (tuple_geb (r_version R) [3; 6]) eqn:E6; cbn [negb] in *.
  - exact (word_sim T R _ _ _ Hc (or_intror I) (List.length code) code (le_n _) Hb 0 0 0 O us Hwf Hs).
  - destruct (byte_sim T R Hc (List.length code) code (le_n _) Hb 0 0 0 us Hwf Hs) as (is & Ei & Ha).
    exists is. split; [exact Ei|]. subst us.
    pose proof (geb6_geb11 (r_version R) E6) as E11.
    rewrite E11. clear. induction (map triple is) as [|x l IH]; cbn; constructor; [|exact IH].
    unfold agree. auto.
Qed.

Theorem instrs_tiling T code is : instrs T code = Ok is ->
  chain T 0 is (zlen code + (if py36 T && negb (Z.even (zlen code)) then 1 else 0)).
Proof.
  unfold instrs. destruct (py36 T) eqn:Ep; intros H.
  - pose proof (tiling_word T Ep _ code (le_n _) 0 0 0 is H) as C. cbn [andb]. destruct (Z.even (zlen code)); exact C.
  - pose proof (tiling_byte T Ep _ code (le_n _) 0 0 0 is H) as C. cbn [andb]. rewrite Z.add_0_r. exact C.
Qed.

From Xdis Require Import Base.Prelude Base.Result Base.LE Model.LineStarts Model.CoLines Model.Freeze Spec.Lnotab Proofs.LnotabProofs.
From Coq Require Import ZifyBool.
Ltac Zify.zify_post_hook ::= Z.to_euclidean_division_equations.

Definition dec (sg : bool) (c : Z) : Z := if sg && (128 <=? c) then c - 256 else c.
Definition sum_dec (sg : bool) (cs : list Z) : Z := fold_right (fun c acc => dec sg c + acc) 0 cs.

Lemma pairs_bytes ps : pairs (bytes_of_pairs ps) = ps.
Proof. induction ps as [|[a b] ps IH]; [reflexivity|]. cbn. f_equal. exact IH. Qed.

(* ---- unfolding spec_ls one pair at a time ---- *)
Lemma spec_zero sg st cl c r a ln last :
  spec_ls sg st cl ((0, c) :: r) a ln last = spec_ls sg st cl r a (ln + dec sg c) last.
Proof. cbn [spec_ls]. change (0 =? 0) with true. reflexivity. Qed.

Lemma spec_nz sg st cl bi c r a ln last : bi <> 0 ->
  spec_ls sg st cl ((bi, c) :: r) a ln last =
  (if differs ln last then [(a, ln)] else [])
  ++ (if st && (cl <=? a + bi) then [] else spec_ls sg st cl r (a + bi) (ln + dec sg c) (if differs ln last then Some ln else last)).
Proof. intros H. cbn [spec_ls]. assert (E : (bi =? 0) = false) by lia. rewrite E. reflexivity. Qed.

Lemma zero_pairs sg st cl cs : forall r a ln last,
  spec_ls sg st cl (map (fun c => (0, c)) cs ++ r) a ln last = spec_ls sg st cl r a (ln + sum_dec sg cs) last.
Proof.
  induction cs as [|c cs IH]; intros r a ln last; cbn [map app sum_dec fold_right].
  - rewrite Z.add_0_r. reflexivity.
  - rewrite spec_zero, IH. f_equal. fold (sum_dec sg cs). lia.
Qed.

Lemma attach_zero sg st cl cs r a ln last :
  spec_ls sg st cl (attach 0 cs ++ r) a ln last = spec_ls sg st cl r a (ln + sum_dec sg cs) last.
Proof.
  destruct cs as [|c cs]; cbn [attach app sum_dec fold_right]; [rewrite Z.add_0_r; reflexivity|].
  rewrite spec_zero, zero_pairs. f_equal. fold (sum_dec sg cs). lia.
Qed.

Lemma attach_nz sg st cl od1 cs r a ln last : cs <> [] -> od1 <> 0 -> a + od1 < cl ->
  spec_ls sg st cl (attach od1 cs ++ r) a ln last =
  (if differs ln last then [(a, ln)] else [])
  ++ spec_ls sg st cl r (a + od1) (ln + sum_dec sg cs) (if differs ln last then Some ln else last).
Proof.
  intros Hne Hod Hcl. destruct cs as [|c cs]; [congruence|]. cbn [attach app sum_dec fold_right].
  rewrite spec_nz by assumption. assert (E : (cl <=? a + od1) = false) by lia. rewrite E, andb_false_r.
  rewrite zero_pairs. f_equal. f_equal. fold (sum_dec sg cs). lia.
Qed.

Lemma steps255 sg st cl n : forall r a ln last, differs ln last = false -> a + 255 * Z.of_nat n < cl ->
  spec_ls sg st cl (repeat (255, 0) n ++ r) a ln last = spec_ls sg st cl r (a + 255 * Z.of_nat n) ln last.
Proof.
  induction n as [|n IH]; intros r a ln last Hd Hcl.
  - cbn [repeat app]. f_equal. lia.
  - cbn [repeat app]. rewrite spec_nz by lia. rewrite Hd. cbn [app].
    assert (E : (cl <=? a + 255) = false) by lia. rewrite E, andb_false_r.
    assert (D0 : dec sg 0 = 0) by (unfold dec; rewrite andb_false_r; reflexivity). rewrite D0, Z.add_0_r.
    rewrite IH by (try assumption; lia). f_equal. lia.
Qed.

Lemma differs_same ln : differs ln (Some ln) = false.
Proof. unfold differs. rewrite Z.eqb_refl. reflexivity. Qed.

(* one mapping step: q full 255-steps, then the remaining address increment with the line chunks *)
Lemma entry_dec sg st cl q od1 cs r a ln last :
  0 <= q -> 1 <= od1 <= 255 -> cs <> [] -> differs ln last = true -> a + 255 * q + od1 < cl ->
  spec_ls sg st cl (repeat (255, 0) (Z.to_nat q) ++ attach od1 cs ++ r) a ln last =
  (a, ln) :: spec_ls sg st cl r (a + 255 * q + od1) (ln + sum_dec sg cs) (Some ln).
Proof.
  intros Hq Hod Hne Hd Hcl. destruct (Z.to_nat q) as [|n] eqn:En.
  - assert (q = 0) by lia. subst q. cbn [repeat app]. rewrite attach_nz by (try assumption; lia).
    rewrite Hd. cbn [app]. f_equal. f_equal. lia.
  - cbn [repeat app]. rewrite spec_nz by lia. rewrite Hd. cbn [app]. f_equal.
    assert (E : (cl <=? a + 255) = false) by lia. rewrite E, andb_false_r.
    assert (D0 : dec sg 0 = 0) by (unfold dec; rewrite andb_false_r; reflexivity). rewrite D0, Z.add_0_r.
    rewrite steps255 by (try apply differs_same; lia).
    rewrite attach_nz by (try assumption; lia). rewrite differs_same. cbn [app]. f_equal. lia.
Qed.

(* ---- the line chunks add up to the line step ---- *)
Lemma sum_dec_app sg a b : sum_dec sg (a ++ b) = sum_dec sg a + sum_dec sg b.
Proof.
  induction a as [|x a IH]; [reflexivity|]. cbn [app].
  change (sum_dec sg (x :: a ++ b)) with (dec sg x + sum_dec sg (a ++ b)).
  change (sum_dec sg (x :: a)) with (dec sg x + sum_dec sg a). lia.
Qed.

Lemma sum_dec_repeat sg c n : sum_dec sg (repeat c n) = dec sg c * Z.of_nat n.
Proof.
  induction n as [|n IH]; [cbn; lia|]. cbn [repeat].
  change (sum_dec sg (c :: repeat c n)) with (dec sg c + sum_dec sg (repeat c n)). lia.
Qed.

Lemma chunks3_sum ld : sum_dec true (chunks3 ld) = ld.
Proof.
  unfold chunks3. rewrite !sum_dec_app, !sum_dec_repeat. cbn [sum_dec fold_right].
  unfold pos_steps, neg_steps, dec. cbn [andb].
  destruct (ld >? 127) eqn:E1.
  - assert (E2 : (ld - 127 * ((ld - 1) / 127) <? -128) = false) by lia. rewrite E2.
    change (128 <=? 127) with false. change (128 <=? 128) with true. cbn iota.
    rewrite Z2Nat.id by lia. cbn [Z.to_nat Z.of_nat]. 
    destruct (128 <=? (ld - 127 * ((ld - 1) / 127) + 128 * 0) mod 256) eqn:E3; lia.
  - replace (ld - 127 * 0) with ld by lia. destruct (ld <? -128) eqn:E2.
    + change (128 <=? 127) with false. change (128 <=? 128) with true. cbn iota.
      rewrite Z2Nat.id by lia. cbn [Z.to_nat Z.of_nat].
      destruct (128 <=? (ld + 128 * ((- ld - 1) / 128)) mod 256) eqn:E3; lia.
    + cbn [Z.to_nat Z.of_nat]. destruct (128 <=? (ld + 128 * 0) mod 256) eqn:E3; lia.
Qed.

Lemma chunks3_nonempty ld : chunks3 ld <> [].
Proof. unfold chunks3. intros H. apply app_eq_nil in H as [_ H]. apply app_eq_nil in H as [_ H]. discriminate. Qed.

Lemma chunks15_sum sg ld : 0 <= ld -> sum_dec sg (chunks15 ld) = ld.
Proof.
  intros H. unfold chunks15. rewrite sum_dec_app, sum_dec_repeat. cbn [sum_dec fold_right].
  unfold pos_steps, dec. destruct (ld >? 127) eqn:E1.
  - rewrite Z2Nat.id by lia.
    assert (E2 : (128 <=? 127) = false) by reflexivity. rewrite E2, andb_false_r.
    assert (E3 : (128 <=? ld - 127 * ((ld - 1) / 127)) = false) by lia. rewrite E3, andb_false_r. lia.
  - cbn [Z.to_nat Z.of_nat]. assert (E3 : (128 <=? ld - 127 * 0) = false) by lia. rewrite E3, !andb_false_r. lia.
Qed.

Lemma chunks15_nonempty ld : chunks15 ld <> [].
Proof. unfold chunks15. intros H. apply app_eq_nil in H as [_ H]. discriminate. Qed.

Lemma off_steps_bounds od : 1 <= od -> 0 <= off_steps od /\ 1 <= od - 255 * off_steps od <= 255.
Proof. intros H. unfold off_steps. destruct (od >? 255) eqn:E; lia. Qed.

(* ---- whole mappings ---- *)
Fixpoint wf_from (o l : Z) (r : list (Z * Z)) : Prop :=
  match r with [] => True | (o', l') :: r' => o < o' /\ l <> l' /\ wf_from o' l' r' end.
Definition wf_map (m : list (Z * Z)) : Prop :=
  match m with (o0, l0) :: r => o0 = 0 /\ wf_from 0 l0 r | [] => False end.
Fixpoint below (cl : Z) (m : list (Z * Z)) : Prop :=
  match m with [] => True | (o, _) :: r => o < cl /\ below cl r end.

Lemma enc3_go_dec st cl r : forall o l last, wf_from o l r -> differs l last = true -> o < cl -> below cl r ->
  spec_ls true st cl (enc3_go r o l) o l last = (o, l) :: r.
Proof.
  induction r as [|[o' l'] r IH]; intros o l last Hwf Hd Ho Hb.
  - cbn [enc3_go spec_ls]. rewrite Hd. reflexivity.
  - cbn [wf_from] in Hwf. destruct Hwf as (Hoo & Hll & Hwf). cbn [below] in Hb. destruct Hb as [Hb1 Hb].
    cbn [enc3_go]. unfold enc3_entry.
    destruct (off_steps_bounds (o' - o) ltac:(lia)) as [Hq Hr].
    rewrite <- app_assoc.
    rewrite entry_dec; [|assumption|assumption|apply chunks3_nonempty|assumption|lia].
    rewrite chunks3_sum. f_equal.
    replace (o + 255 * off_steps (o' - o) + (o' - o - 255 * off_steps (o' - o))) with o' by lia.
    replace (l + (l' - l)) with l' by lia.
    apply IH; try assumption. unfold differs. assert (E : (l' =? l) = false) by lia. rewrite E. reflexivity.
Qed.

Lemma freeze3_roundtrip first cl m : wf_map m -> below cl m ->
  findlinestarts_lnotab None false first cl (encode_lineno_tab_30 first m) = m.
Proof.
  intros Hwf Hb. rewrite findlinestarts_lnotab_spec_none. unfold encode_lineno_tab_30. rewrite pairs_bytes.
  destruct m as [|[o0 l0] r]; [contradiction|]. destruct Hwf as [-> Hwf]. cbn [below] in Hb. destruct Hb as [Hb0 Hb].
  cbn [enc3_go]. unfold enc3_entry. replace (0 - 0) with 0 by lia.
  change (off_steps 0) with 0. cbn [Z.to_nat repeat app]. replace (0 - 255 * 0) with 0 by lia.
  rewrite attach_zero, chunks3_sum. replace (first + (l0 - first)) with l0 by lia.
  apply enc3_go_dec; try assumption. reflexivity.
Qed.

(* the same table read through an opcode module of version >= 3.6 *)
Lemma freeze3_roundtrip_v v first cl m : tuple_geb v [3; 6] = true -> wf_map m -> below cl m ->
  findlinestarts_lnotab (Some v) false first cl (encode_lineno_tab_30 first m) = m.
Proof.
  intros Hv Hwf Hb. rewrite findlinestarts_lnotab_spec, Hv. unfold encode_lineno_tab_30. rewrite pairs_bytes.
  destruct m as [|[o0 l0] r]; [contradiction|]. destruct Hwf as [-> Hwf]. cbn [below] in Hb. destruct Hb as [Hb0 Hb].
  cbn [enc3_go]. unfold enc3_entry. replace (0 - 0) with 0 by lia.
  change (off_steps 0) with 0. cbn [Z.to_nat repeat app]. replace (0 - 255 * 0) with 0 by lia.
  rewrite attach_zero, chunks3_sum. replace (first + (l0 - first)) with l0 by lia.
  apply enc3_go_dec; try assumption. reflexivity.
Qed.

(* ---- Code15 / Code2: unsigned format, lines must not decrease ---- *)
Fixpoint up_from (l : Z) (r : list (Z * Z)) : Prop :=
  match r with [] => True | (_, l') :: r' => l < l' /\ up_from l' r' end.

Lemma enc15_go_dec sg st cl r : forall o l last, wf_from o l r -> up_from l r -> differs l last = true -> o < cl -> below cl r ->
  spec_ls sg st cl (enc15_go r o l) o l last = (o, l) :: r.
Proof.
  induction r as [|[o' l'] r IH]; intros o l last Hwf Hup Hd Ho Hb.
  - cbn [enc15_go spec_ls]. rewrite Hd. reflexivity.
  - cbn [wf_from] in Hwf. destruct Hwf as (Hoo & Hll & Hwf). cbn [below] in Hb. destruct Hb as [Hb1 Hb].
    cbn [up_from] in Hup. destruct Hup as [Hlt Hup].
    cbn [enc15_go]. assert (E : (l' - l <? 0) = false) by lia. rewrite E. unfold enc15_entry.
    destruct (off_steps_bounds (o' - o) ltac:(lia)) as [Hq Hr].
    rewrite <- app_assoc.
    rewrite entry_dec; [|assumption|assumption|apply chunks15_nonempty|assumption|lia].
    rewrite chunks15_sum by lia. f_equal.
    replace (o + 255 * off_steps (o' - o) + (o' - o - 255 * off_steps (o' - o))) with o' by lia.
    replace (l + (l' - l)) with l' by lia.
    apply IH; try assumption. unfold differs. assert (E' : (l' =? l) = false) by lia. rewrite E'. reflexivity.
Qed.

Lemma freeze15_roundtrip sg st first cl m : wf_map m -> below cl m ->
  (match m with (_, l0) :: r => first <= l0 /\ up_from l0 r | [] => True end) ->
  spec_ls sg st cl (pairs (encode_lineno_tab_15 first m)) 0 first None = m.
Proof.
  intros Hwf Hb Hup. unfold encode_lineno_tab_15. rewrite pairs_bytes.
  destruct m as [|[o0 l0] r]; [contradiction|]. destruct Hwf as [-> Hwf]. cbn [below] in Hb. destruct Hb as [Hb0 Hb].
  destruct Hup as [Hf Hup].
  cbn [enc15_go]. assert (E : (l0 - first <? 0) = false) by lia. rewrite E. unfold enc15_entry. replace (0 - 0) with 0 by lia.
  change (off_steps 0) with 0. cbn [Z.to_nat repeat app]. replace (0 - 255 * 0) with 0 by lia.
  rewrite attach_zero, chunks15_sum by lia. replace (first + (l0 - first)) with l0 by lia.
  apply enc15_go_dec; try assumption. reflexivity.
Qed.

(* ================= Code310: range table ================= *)
Definition sline (line c : Z) : Z := if sgn8 c =? -128 then line else line + sgn8 c.

Lemma cl310_zero c r e line : co_lines_310_go ((0, c) :: r) e line = co_lines_310_go r e (sline line c).
Proof.
  cbn [co_lines_310_go]. replace (e + 0) with e by lia. rewrite Z.eqb_refl. unfold sline. reflexivity.
Qed.

Lemma cl310_nz od c r e line : od <> 0 -> sgn8 c <> -128 ->
  co_lines_310_go ((od, c) :: r) e line = (e, e + od, Some (line + sgn8 c)) :: co_lines_310_go r (e + od) (line + sgn8 c).
Proof.
  intros Hod Hc. cbn [co_lines_310_go]. assert (E : (e =? e + od) = false) by lia. rewrite E.
  assert (E2 : (sgn8 c =? -128) = false) by lia. rewrite E2. reflexivity.
Qed.

Lemma cl310_zeros c n : forall r e line, sgn8 c <> -128 ->
  co_lines_310_go (repeat (0, c) n ++ r) e line = co_lines_310_go r e (line + sgn8 c * Z.of_nat n).
Proof.
  induction n as [|n IH]; intros r e line Hc; cbn [repeat app]; [f_equal; lia|].
  rewrite cl310_zero. unfold sline. assert (E2 : (sgn8 c =? -128) = false) by lia. rewrite E2.
  rewrite IH by assumption. f_equal. lia.
Qed.

(* ranges that continue the same line are not reported again *)
Lemma fls_same_ranges n : forall r e line,
  fls_colines (co_lines_310_go (repeat (254, 0) n ++ r) e line) (Some line)
  = fls_colines (co_lines_310_go r (e + 254 * Z.of_nat n) line) (Some line).
Proof.
  induction n as [|n IH]; intros r e line.
  - cbn [repeat app]. f_equal. f_equal. lia.
  - cbn [repeat app]. rewrite cl310_nz by (try lia; cbn; lia).
    change (sgn8 0) with 0. rewrite Z.add_0_r. cbn [fls_colines]. rewrite differs_same.
    rewrite IH. f_equal. f_equal. lia.
Qed.

Lemma sgn8_mod c : -128 <= c <= 127 -> sgn8 (c mod 256) = c.
Proof. intros H. unfold sgn8. destruct (c mod 256 <? 128) eqn:E; lia. Qed.

Lemma enc310_entry_dec od ld r e line last : 1 <= od -> differs (line + ld) last = true ->
  fls_colines (co_lines_310_go (enc310_entry od ld ++ r) e line) last
  = (e, line + ld) :: fls_colines (co_lines_310_go r (e + od) (line + ld)) (Some (line + ld)).
Proof.
  intros Hod Hd. unfold enc310_entry.
  set (qp := pos_steps310 ld). set (ld1 := ld - 127 * qp). set (qn := neg_steps310 ld1). set (ld2 := ld1 + 127 * qn).
  set (qo := off_steps310 od). set (od1 := od - 254 * qo).
  assert (Hqp : 0 <= qp) by (subst qp; unfold pos_steps310; destruct (ld >? 127) eqn:?; lia).
  assert (Hqn : 0 <= qn) by (subst qn; unfold neg_steps310; destruct (ld1 <? -127) eqn:?; lia).
  assert (Hld2 : -127 <= ld2 <= 127).
  { subst ld2 qn ld1 qp. unfold pos_steps310, neg_steps310. destruct (ld >? 127) eqn:E1.
    - assert (E2 : (ld - 127 * ((ld - 1) / 127) <? -127) = false) by lia. rewrite E2. lia.
    - replace (ld - 127 * 0) with ld by lia. destruct (ld <? -127) eqn:E2; lia. }
  assert (Hsum : 127 * qp - 127 * qn + ld2 = ld) by (subst ld2 ld1; lia).
  assert (Hqo : 0 <= qo /\ 1 <= od1 <= 254) by (subst od1 qo; unfold off_steps310; destruct (od >? 254) eqn:E; lia).
  rewrite <- !app_assoc.
  rewrite cl310_zeros by (cbn; lia). rewrite cl310_zeros by (cbn; lia).
  change (sgn8 127) with 127. change (sgn8 129) with (-127). rewrite !Z2Nat.id by lia.
  set (line1 := line + 127 * qp + -127 * qn).
  assert (Hl : line1 + ld2 = line + ld) by (subst line1; lia).
  destruct (qo >? 0) eqn:Eqo.
  - cbn [app]. rewrite cl310_nz by (try lia; rewrite sgn8_mod by lia; lia).
    rewrite sgn8_mod by lia. rewrite Hl. cbn [fls_colines]. rewrite Hd. f_equal.
    rewrite fls_same_ranges.
    rewrite cl310_nz by (try lia; cbn; lia). change (sgn8 0) with 0. rewrite Z.add_0_r.
    cbn [fls_colines]. rewrite differs_same. rewrite Z2Nat.id by lia. f_equal. f_equal. subst od1. lia.
  - assert (qo = 0) by lia. cbn [app]. rewrite cl310_nz by (try lia; rewrite sgn8_mod by lia; lia).
    rewrite sgn8_mod by lia. rewrite Hl. cbn [fls_colines]. rewrite Hd. f_equal. f_equal. f_equal. subst od1. lia.
Qed.

Lemma enc310_go_dec cl r : forall o l prev last, wf_from o l r -> differs l last = true -> o < cl -> below cl r ->
  fls_colines (co_lines_310_go (enc310_go ((o, l) :: r) prev cl) o prev) last = (o, l) :: r.
Proof.
  induction r as [|[o' l'] r IH]; intros o l prev last Hwf Hd Ho Hb.
  - cbn [enc310_go]. replace (enc310_entry (Z.max cl o - o) (l - prev) ++ []) with (enc310_entry (Z.max cl o - o) (l - prev) ++ []) by reflexivity.
    rewrite enc310_entry_dec; [|lia|replace (prev + (l - prev)) with l by lia; assumption].
    replace (prev + (l - prev)) with l by lia. reflexivity.
  - cbn [wf_from] in Hwf. destruct Hwf as (Hoo & Hll & Hwf). cbn [below] in Hb. destruct Hb as [Hb1 Hb].
    change (enc310_go ((o, l) :: (o', l') :: r) prev cl) with (enc310_entry (o' - o) (l - prev) ++ enc310_go ((o', l') :: r) l cl).
    rewrite enc310_entry_dec; [|lia|replace (prev + (l - prev)) with l by lia; assumption].
    replace (prev + (l - prev)) with l by lia. replace (o + (o' - o)) with o' by lia. f_equal.
    apply IH; try assumption. unfold differs. assert (E : (l' =? l) = false) by lia. rewrite E. reflexivity.
Qed.

Lemma enc310_even first cl m : Z.even (zlen (encode_lineno_tab_310 first cl m)) = true.
Proof.
  unfold encode_lineno_tab_310. generalize (enc310_go m first cl). intros ps.
  induction ps as [|[a b] ps IH]; [reflexivity|]. cbn [bytes_of_pairs flat_map app]. fold (bytes_of_pairs ps).
  unfold zlen in *. cbn [List.length]. rewrite !Nat2Z.inj_succ. rewrite <- Z.add_1_r. rewrite <- Z.add_1_r.
  replace (Z.of_nat (List.length (bytes_of_pairs ps)) + 1 + 1) with (Z.of_nat (List.length (bytes_of_pairs ps)) + 2) by lia.
  rewrite Z.even_add. rewrite IH. reflexivity.
Qed.

Lemma freeze310_roundtrip first cl m : wf_map m -> below cl m ->
  exists ls, co_lines_310 first (encode_lineno_tab_310 first cl m) = Ok ls /\ fls_colines ls None = m.
Proof.
  intros Hwf Hb. unfold co_lines_310. rewrite enc310_even. eexists. split; [reflexivity|].
  unfold encode_lineno_tab_310. rewrite pairs_bytes.
  destruct m as [|[o0 l0] r]; [contradiction|]. destruct Hwf as [-> Hwf]. cbn [below] in Hb. destruct Hb as [Hb0 Hb].
  apply enc310_go_dec; try assumption. reflexivity.
Qed.

(* Table obligations of C15: for every opcode of every interpreter with dis.stack_effect installed
   here (3.6 - 3.13), the formula xstack_effect evaluates to - translated from its source and applied
   to the regenerated opcode table - refines the reference formula of that interpreter. *)
From Xdis Require Import Base.Prelude Base.OpTable Base.Formula Gen.Opcodes Gen.RefStackEffect Model.Instr Model.StackEffect.

Definition se_pairs : list (optable * list (string * Z * formula)) :=
  [(opcode_36, se_ref_36); (opcode_37, se_ref_37); (opcode_38, se_ref_38); (opcode_39, se_ref_39);
   (opcode_310, se_ref_310); (opcode_311, se_ref_311); (opcode_312, se_ref_312); (opcode_313, se_ref_313)].

Lemma se_all_ok : forallb (fun '(T, ref) => forallb (se_row_ok T) ref) se_pairs = true.
Proof. vm_compute. reflexivity. Qed.

Lemma se_row_sound T name op f arg r : se_row_ok T (name, op, f) = true ->
  eval_formula f arg = Some r -> xstack_effect T op arg = Some r.
Proof.
  unfold se_row_ok, xstack_effect. intros H Hs. apply andb_true_iff in H as [_ H].
  rewrite <- (canon_sound f) in Hs. rewrite <- (canon_sound (xse T op)).
  exact (formula_refines_sound _ _ H arg r Hs).
Qed.

Lemma se_pairs_sound : forall T ref name op f arg r, In (T, ref) se_pairs -> In (name, op, f) ref ->
  eval_formula f arg = Some r -> xstack_effect T op arg = Some r.
Proof.
  intros T ref name op f arg r H1 H2. apply se_row_sound with (name := name).
  pose proof (proj1 (forallb_forall _ _) se_all_ok (T, ref) H1) as H. cbv beta iota in H.
  exact (proj1 (forallb_forall _ _) H (name, op, f) H2).
Qed.

Lemma se_nonvacuous :
  existsb (fun '(name, op, f) => String.eqb name "UNPACK_EX" && formula_eqb f (FLoHi 0)) se_ref_312 = true
  /\ existsb (fun '(name, op, f) => String.eqb name "MAKE_FUNCTION" && formula_eqb f (FPop4 (-1))) se_ref_38 = true
  /\ eval_formula (FLoHi 0) 1000 = Some 235.
Proof. repeat split; vm_compute; reflexivity. Qed.

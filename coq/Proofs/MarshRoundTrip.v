(* C14 - xdis.marsh.loads (the shared reader under marsh_cfg) reads back what xdis.marsh.dumps (Model.Marsh.dumps) wrote,
   for EVERY well-formed plain value tree.  Floats are written as text: what comes back is `textify v`. *)
From Xdis Require Import Base.Prelude Base.Result Base.LE Base.Utf8 Model.Unmarshal Model.Marsh Proofs.MarshProofs.
From Coq Require Import ZifyBool Lia.
Ltac Zify.zify_post_hook ::= Z.to_euclidean_division_equations.

Local Open Scope Z_scope.

(* the type codes dumps emits *)
Definition used_codes : list Z := [48; 78; 84; 70; 46; 83; 105; 108; 102; 120; 115; 117; 40; 91; 60; 62; 123].

(* what the proof needs of a reader configuration: it knows these codes and decodes text as Python 3 does.
   Holds of xdis.marsh's reader and of CPython's marshal.c for every 3.x magic (instances at the end). *)
Definition cfg_ok (c : cfg) : Prop := forallb (code_ok c) used_codes = true /\ vge c [3; 0] = true.

(* code objects (dump_code3 layout, Python 3.0-3.10): what the proof needs of the reader's version tests *)
Definition posonly_read (c : cfg) : bool := vge c [3; 8] && negb (zmem (magic_int c) [3400; 3401]).
Definition default_pos (c : cfg) : Z := if vge c [3; 8] then 0 else -1.
Definition code_cfg_ok (c : cfg) (has_pos : bool) : Prop :=
  code_ok c 99 = true /\ vge c [3; 11] = false /\ vge c [2; 3] = true /\ vge c [1; 3] = true /\ vge c [2; 1] = true /\ vge c [1; 5] = true
  /\ posonly_read c = has_pos.
Definition in32 (x : Z) : Prop := - 2147483648 <= x < 2147483648.

(* ---- integers on the wire ---- *)
Lemma read_s32_w_long c x rest : - 2147483648 <= x < 2147483648 -> read_s32 c (w_long x ++ rest) = Ok (x, rest).
Proof.
  intros H. unfold w_long, enc32. cbn [app read_s32].
  set (y := x mod 4294967296).
  assert (Hy : 0 <= y < 4294967296) by (subst y; apply Z.mod_pos_bound; lia).
  assert (E : le32 (y mod 256) ((y / 256) mod 256) ((y / 65536) mod 256) ((y / 16777216) mod 256) = y) by (unfold le32; lia).
  rewrite E. f_equal. f_equal. unfold s32. subst y. destruct (x mod 4294967296 <? 2147483648) eqn:Es; lia.
Qed.

Lemma s16_w_short d : 0 <= d < 32768 -> s16 (le16 (d mod 256) ((d / 256) mod 256)) = d.
Proof. intros H. unfold s16, le16. destruct (d mod 256 + 256 * ((d / 256) mod 256) <? 32768) eqn:E; lia. Qed.

(* marshal.c also insists on digits in range and a non-zero most significant digit *)
Lemma read_digits_w_short c : forall ds k acc rest,
  Forall (fun d => 0 <= d < 32768) ds -> (forall p d, ds = p ++ [d] -> d <> 0) -> (List.length ds <= k)%nat ->
  read_digits c k (zlen ds) acc (flat_map w_short ds ++ rest) = Ok (rev acc ++ ds, rest).
Proof.
  induction ds as [|d ds IH]; intros k acc rest Hb Hlast Hk.
  - destruct k; cbn; rewrite app_nil_r; reflexivity.
  - inversion Hb as [|? ? Hd Hb']; subst.
    destruct k as [|k]; [cbn in Hk; lia|].
    assert (Hz : zlen (d :: ds) = zlen ds + 1) by (unfold zlen; cbn [List.length]; lia).
    cbn [read_digits]. rewrite Hz.
    replace (zlen ds + 1 <=? 0) with false by (unfold zlen; lia).
    cbn [flat_map w_short app read_s16 bind].
    rewrite (s16_w_short d Hd).
    assert (Hchk : strict c && ((d <? 0) || ((zlen ds + 1 =? 1) && (d =? 0))) = false).
    { replace (d <? 0) with false by lia. cbn [orb].
      destruct (zlen ds + 1 =? 1) eqn:E1; [|cbn; apply andb_false_r].
      assert (ds = []) by (destruct ds; [reflexivity | unfold zlen in E1; cbn [List.length] in E1; lia]). subst ds.
      assert (d <> 0) by (apply (Hlast [] d); reflexivity).
      replace (d =? 0) with false by lia. cbn. apply andb_false_r. }
    rewrite Hchk.
    replace (zlen ds + 1 - 1) with (zlen ds) by lia.
    rewrite IH; [|assumption| |cbn in Hk; lia].
    + cbn [rev]. rewrite <- app_assoc. reflexivity.
    + intros p d0 E. apply (Hlast (d :: p) d0). rewrite E. reflexivity.
Qed.

Lemma length_flat_w_short ds : List.length (flat_map w_short ds) = (2 * List.length ds)%nat.
Proof. induction ds as [|d ds IH]; cbn; [reflexivity | rewrite IH; lia]. Qed.

(* ---- read_n ---- *)
Lemma read_n_app c s rest : read_n c (zlen s) (s ++ rest) = Ok (s, rest).
Proof.
  unfold read_n. replace (zlen s <? 0) with false by (unfold zlen; lia).
  replace (zlen (s ++ rest) <? zlen s) with false by (unfold zlen; rewrite app_length; lia).
  unfold zlen. rewrite Nat2Z.id, firstn_app, Nat.sub_diag, firstn_all, skipn_app, Nat.sub_diag, skipn_all. cbn. rewrite app_nil_r. reflexivity.
Qed.


(* posonlyargcount: dump_code3 writes it iff the code type has it; the reader reads it iff its version does, else supplies a default *)
Lemma read_pos c hp pos L : posonly_read c = hp -> (if hp then in32 pos else pos = default_pos c) ->
  (if vge c [3; 8]
   then (if zmem (magic_int c) [3400; 3401] then Ok (0, (if hp then w_long pos else []) ++ L)
         else read_s32 c ((if hp then w_long pos else []) ++ L))
   else Ok (-1, (if hp then w_long pos else []) ++ L)) = Ok (pos, L).
Proof.
  unfold posonly_read, default_pos. intros Hr Hw. destruct hp.
  - apply andb_true_iff in Hr. destruct Hr as [H38 Hz]. rewrite H38. apply negb_true_iff in Hz. rewrite Hz.
    apply read_s32_w_long. exact Hw.
  - cbn [app]. destruct (vge c [3; 8]); [|congruence]. cbn [andb] in Hr. apply negb_false_iff in Hr. rewrite Hr. congruence.
Qed.

(* ---- well-formed plain values ---- *)
Section RT.
  Variable repr_float : Z -> list Z.
  Variable has_pos : bool.
  Variable int_i : bool.
  Variable c : cfg.
  Hypothesis c_ok : cfg_ok c.
  Variable allow_code : bool.            (* false: plain values only (xdis.marsh's reader has no code objects) *)
  Hypothesis code_facts : allow_code = true -> code_cfg_ok c has_pos.

  Definition small_len {A} (l : list A) : Prop := zlen l < 2147483648.

  Inductive wfv : pv -> Prop :=
  | wf_none : wfv PNone | wf_true : wfv PTrue | wf_false : wfv PFalse | wf_ell : wfv PEllipsis | wf_stop : wfv PStopIter
  | wf_int z : zlen (to_digits (digits_fuel (Z.abs z)) (Z.abs z)) < 2147483648 -> wfv (PInt z)
  | wf_float b : wfv (PFloat b)
  | wf_complex a b : wfv (PComplex (PFloat a) (PFloat b))
  | wf_bin b : small_len b -> wfv (PBin b)
  | wf_text b : small_len b -> utf8_ok b = true -> wfv (PText b)
  | wf_tuple l : small_len l -> Forall wfv l -> wfv (PTuple l)
  | wf_list l : small_len l -> Forall wfv l -> wfv (PList l)
  | wf_set l : small_len l -> Forall wfv l -> wfv (PSet l)
  | wf_fset l : small_len l -> Forall wfv l -> wfv (PFrozenSet l)
  | wf_dict kv : Forall (fun p => wfv (fst p) /\ wfv (snd p)) kv -> wfv (PDict kv)
  | wf_code argc pos kw nloc stk fl first code consts names varn freev cellv fname name lnotab :
      allow_code = true -> Forall in32 [argc; kw; nloc; stk; fl; first] -> (if has_pos then in32 pos else pos = default_pos c) ->
      Forall wfv [code; consts; names; varn; freev; cellv; fname; name; lnotab] ->
      wfv (PCode [argc; pos; kw; nloc; stk; fl; first] [code; consts; names; varn; freev; cellv; fname; name; PNone; lnotab; PNone]).

  (* a well-formed value is never read back as NULL *)
  Lemma textify_not_null v : wfv v -> textify repr_float v <> PNull.
  Proof. intros H; inversion H; subst; cbn; discriminate. Qed.

  (* depth: the recursion fuel the reader needs *)
  Fixpoint depth (v : pv) : nat :=
    let dl := fix go (l : list pv) : nat := match l with [] => O | x :: r => Nat.max (depth x) (go r) end in
    match v with
    | PTuple l | PList l | PSet l | PFrozenSet l => S (dl l)
    | PDict kv => S (Nat.max 1 ((fix go (l : list (pv * pv)) : nat := match l with [] => O | (k, x) :: r => Nat.max (Nat.max (depth k) (depth x)) (go r) end) kv))
    | PCode _ objs => S (dl objs)
    | _ => 1%nat
    end.

  Definition dump_all := fix go (l : list pv) : list Z := match l with [] => [] | x :: r => dumps repr_float has_pos int_i x ++ go r end.
  Definition textify_all := fix go (l : list pv) : list pv := match l with [] => [] | x :: r => textify repr_float x :: go r end.
  Definition depth_all := fix go (l : list pv) : nat := match l with [] => O | x :: r => Nat.max (depth x) (go r) end.
  Definition dump_kv := fix go (l : list (pv * pv)) : list Z := match l with [] => [] | (k, x) :: r => dumps repr_float has_pos int_i k ++ dumps repr_float has_pos int_i x ++ go r end.
  Definition textify_kv := fix go (l : list (pv * pv)) := match l with [] => [] | (k, x) :: r => (textify repr_float k, textify repr_float x) :: go r end.
  Definition depth_kv := fix go (l : list (pv * pv)) : nat := match l with [] => O | (k, x) :: r => Nat.max (Nat.max (depth k) (depth x)) (go r) end.

  Lemma dumps_nonempty v : wfv v -> (1 <= List.length (dumps repr_float has_pos int_i v))%nat.
  Proof.
    intros H; inversion H; subst; cbn [dumps]; try (cbn; lia).
    destruct (int_i && (-2147483648 <=? z) && (z <? 2147483648)); [cbn [List.length]; lia | unfold dump_long; cbn [List.length]; lia].
  Qed.

  Lemma dump_all_length l : Forall wfv l -> (List.length l <= List.length (dump_all l))%nat.
  Proof.
    induction 1 as [|x l Hx Hl IH]; cbn; [lia|]. rewrite app_length. pose proof (dumps_nonempty x Hx). lia.
  Qed.

  Lemma no_null_textify l : Forall wfv l -> no_null (textify_all l) = true.
  Proof.
    induction 1 as [|x l Hx Hl IH]; [reflexivity|]. cbn [textify_all no_null forallb]. fold (no_null (textify_all l)). rewrite IH, andb_true_r.
    pose proof (textify_not_null x Hx). destruct (textify repr_float x); try reflexivity. contradiction.
  Qed.

  (* ---- one step of the reader on a type byte dumps writes ---- *)
  Lemma type_byte t : In t used_codes ->
    (mask_flag c && negb (Z.land t 128 =? 0)) = false /\ (if mask_flag c then Z.land t 127 else t) = t /\ code_ok c t = true.
  Proof.
    intros Hin. destruct c_ok as [Hc _]. rewrite forallb_forall in Hc. specialize (Hc t Hin).
    unfold used_codes in Hin. cbn [In] in Hin.
    repeat (destruct Hin as [<- | Hin]; [destruct (mask_flag c); repeat split; try assumption; reflexivity|]). contradiction.
  Qed.

  Lemma step f t l st : In t used_codes ->
    r_object (S f) c (with_inp st (t :: l)) =
    match r_leaf c false t (with_inp st (t :: l)) l with
    | Some r => r
    | None => match r_container c (r_object f c) false t (with_inp st (t :: l)) l with
              | Some r => r
              | None => if (t =? 99) || (t =? 67) then r_code c (r_object f c) false (with_inp st (t :: l)) l
                        else (if unknown_err c then Err ValueErr else Ok (PNone, with_inp (with_inp st (t :: l)) l))
              end
    end.
  Proof.
    intros Hin. destruct (type_byte t Hin) as (Hf & Ht & Hc).
    cbn [r_object inp with_inp]. rewrite Hf, Ht, Hc. rewrite andb_false_r. cbn [negb]. reflexivity.
  Qed.

  Ltac used := unfold used_codes; cbn [In]; tauto.

  Lemma step_code f l st : code_ok c 99 = true ->
    r_object (S f) c (with_inp st (99 :: l)) = r_code c (r_object f c) false (with_inp st (99 :: l)) l.
  Proof.
    intros Hc. cbn [r_object inp with_inp].
    assert (Hf : (mask_flag c && negb (Z.land 99 128 =? 0)) = false) by (destruct (mask_flag c); reflexivity).
    assert (Ht : (if mask_flag c then Z.land 99 127 else 99) = 99) by (destruct (mask_flag c); reflexivity).
    rewrite Hf, Ht, Hc. rewrite andb_false_r. cbn [negb]. reflexivity.
  Qed.

  Definition RT (f : nat) (v : pv) : Prop :=
    forall st rest, r_object f c (with_inp st (dumps repr_float has_pos int_i v ++ rest)) = Ok (textify repr_float v, with_inp st rest).

  Lemma read_objs_all f : forall l, Forall wfv l -> Forall (RT f) l ->
    forall k acc st rest, (List.length l <= k)%nat ->
    read_objs (r_object f c) k (zlen l) acc (with_inp st (dump_all l ++ rest)) = Ok (rev acc ++ textify_all l, with_inp st rest).
  Proof.
    induction l as [|x l IH]; intros Hw Hr k acc st rest Hk.
    - destruct k; cbn; rewrite app_nil_r; reflexivity.
    - inversion Hw as [|? ? Hx Hl]; subst. inversion Hr as [|? ? Rx Rl]; subst.
      destruct k as [|k]; [cbn in Hk; lia|].
      assert (Hz : zlen (x :: l) = zlen l + 1) by (unfold zlen; cbn [List.length]; lia).
      cbn [read_objs]. rewrite Hz. replace (zlen l + 1 <=? 0) with false by (unfold zlen; lia).
      cbn [dump_all]. rewrite <- app_assoc. rewrite (Rx st (dump_all l ++ rest)). cbn [bind].
      replace (zlen l + 1 - 1) with (zlen l) by lia.
      rewrite (IH Hl Rl k (textify repr_float x :: acc) st rest) by (cbn in Hk; lia).
      cbn [rev textify_all]. rewrite <- app_assoc. reflexivity.
  Qed.

  Lemma not_null_match {A} (v : pv) (a b : A) : v <> PNull -> match v with PNull => a | _ => b end = b.
  Proof. destruct v; intros H; try reflexivity. contradiction. Qed.

  Lemma r_object_null f st rest : r_object (S f) c (with_inp st (48 :: rest)) = Ok (PNull, with_inp st rest).
  Proof. rewrite step by used. reflexivity. Qed.

  Lemma dump_kv_length kv : Forall (fun p => wfv (fst p) /\ wfv (snd p)) kv -> (List.length kv <= List.length (dump_kv kv))%nat.
  Proof.
    induction 1 as [|[k x] l [Hk Hx] Hl IH]; cbn; [lia|]. rewrite !app_length. cbn [fst snd] in *.
    pose proof (dumps_nonempty k Hk). lia.
  Qed.

  Lemma read_dict_all f : forall kv, Forall (fun p => wfv (fst p) /\ wfv (snd p)) kv -> Forall (fun p => RT (S f) (fst p) /\ RT (S f) (snd p)) kv ->
    forall k acc st rest, (List.length kv < k)%nat ->
    read_dict (r_object (S f) c) k acc (with_inp st (dump_kv kv ++ 48 :: rest)) = Ok (rev acc ++ textify_kv kv, with_inp st rest).
  Proof.
    induction kv as [|[key x] kv IH]; intros Hw Hr k acc st rest Hk.
    - destruct k as [|k]; [cbn in Hk; lia|]. cbn [dump_kv app read_dict]. rewrite r_object_null. cbn [bind textify_kv]. rewrite app_nil_r. reflexivity.
    - inversion Hw as [|? ? [Hwk Hwx] Hl]; subst. inversion Hr as [|? ? [Rk Rx] Rl]; subst. cbn [fst snd] in *.
      destruct k as [|k]; [cbn in Hk; lia|].
      cbn [dump_kv read_dict]. rewrite <- !app_assoc.
      rewrite (Rk st _). cbn [bind]. rewrite (not_null_match _ _ _ (textify_not_null key Hwk)).
      rewrite (Rx st _). cbn [bind]. rewrite (not_null_match _ _ _ (textify_not_null x Hwx)).
      rewrite (IH Hl Rl k _ st rest) by (cbn in Hk; lia).
      cbn [rev textify_kv]. rewrite <- app_assoc. reflexivity.
  Qed.

  Lemma lift_all f (IH : forall v, wfv v -> (depth v <= f)%nat -> RT f v) :
    forall l, Forall wfv l -> (depth_all l <= f)%nat -> Forall (RT f) l.
  Proof.
    induction l as [|x l IHl]; intros Hw Hd; constructor.
    - inversion Hw; subst. apply IH; [assumption|]. cbn [depth_all] in Hd. lia.
    - inversion Hw; subst. apply IHl; [assumption|]. cbn [depth_all] in Hd. lia.
  Qed.

  Lemma lift_kv f (IH : forall v, wfv v -> (depth v <= f)%nat -> RT f v) :
    forall kv, Forall (fun p => wfv (fst p) /\ wfv (snd p)) kv -> (depth_kv kv <= f)%nat -> Forall (fun p => RT f (fst p) /\ RT f (snd p)) kv.
  Proof.
    induction kv as [|[k x] kv IHl]; intros Hw Hd; constructor.
    - inversion Hw as [|? ? [Hk Hx] ?]; subst. cbn [fst snd depth_kv] in *. split; apply IH; try assumption; lia.
    - inversion Hw; subst. apply IHl; [assumption|]. cbn [depth_kv] in Hd. lia.
  Qed.

  (* a sequence container: type byte, 32-bit count, the items *)
  Lemma seq_container f t l (mk : list pv -> pv) st rest :
    t = 40 \/ t = 91 \/ t = 60 \/ t = 62 ->
    mk = (fun vs => if t =? 91 then PList vs else if t =? 60 then PSet vs else if t =? 62 then PFrozenSet vs else PTuple vs) ->
    small_len l -> Forall wfv l -> Forall (RT f) l ->
    r_object (S f) c (with_inp st (t :: w_long (zlen l) ++ dump_all l ++ rest)) = Ok (mk (textify_all l), with_inp st rest).
  Proof.
    intros Ht Hmk Hs Hw Hr.
    assert (Hn : - 2147483648 <= zlen l < 2147483648) by (unfold small_len, zlen in *; lia).
    assert (Hlen : (List.length l <= S (List.length (w_long (zlen l) ++ dump_all l ++ rest)))%nat).
    { rewrite !app_length. pose proof (dump_all_length l Hw). lia. }
    pose proof (read_objs_all f l Hw Hr (S (List.length (w_long (zlen l) ++ dump_all l ++ rest))) [] st rest Hlen) as Hro.
    assert (Hneg : (zlen l <? 0) = false) by (unfold zlen; lia).
    pose proof (no_null_textify l Hw) as Hnn.
    destruct Ht as [-> | [-> | [-> | ->]]]; subst mk; rewrite step by used;
      cbn [Z.eqb Pos.eqb orb r_leaf r_container];
      rewrite (read_s32_w_long c (zlen l) (dump_all l ++ rest) Hn); cbn [bind reserve]; rewrite Hneg, andb_false_r;
      unfold with_inp in Hro |- *; cbn [inp refs strs] in Hro |- *; rewrite Hro; cbn [bind app rev]; rewrite Hnn; cbn [negb]; rewrite andb_false_r; reflexivity.
  Qed.

  Theorem marsh_roundtrip : forall f v, wfv v -> (depth v <= f)%nat -> RT f v.
  Proof.
    induction f as [|f IHf]; intros v Hw Hd.
    - destruct v; cbn in Hd; lia.
    - intros st rest. inversion Hw; subst.
      + cbn [dumps app]. rewrite step by used. reflexivity.
      + cbn [dumps app]. rewrite step by used. reflexivity.
      + cbn [dumps app]. rewrite step by used. reflexivity.
      + cbn [dumps app]. rewrite step by used. reflexivity.
      + cbn [dumps app]. rewrite step by used. reflexivity.
      + (* int *)
        cbn [dumps].
        destruct (int_i && (-2147483648 <=? z) && (z <? 2147483648)) eqn:Ei.
        { (* CPython's TYPE_INT *)
          assert (Hz32 : - 2147483648 <= z < 2147483648) by (apply andb_true_iff in Ei; destruct Ei as [Ei1 Ei2]; apply andb_true_iff in Ei1; destruct Ei1 as [_ Ei1]; lia).
          cbn [app]. rewrite step by used. cbn [Z.eqb Pos.eqb orb r_leaf].
          rewrite (read_s32_w_long c z rest Hz32). cbn [bind]. reflexivity. }
        unfold dump_long.
        set (ds := to_digits (digits_fuel (Z.abs z)) (Z.abs z)) in *.
        pose proof (long_codec (Z.abs z) (Z.abs_nonneg z)) as (Hval & Hb & Hlast). fold ds in Hval, Hb, Hlast.
        set (n := zlen ds * (if z <? 0 then -1 else 1)).
        assert (Hn : - 2147483648 <= n < 2147483648) by (subst n; unfold zlen in *; destruct (z <? 0); lia).
        cbn [app]. rewrite step by used. cbn [Z.eqb Pos.eqb orb r_leaf].
        rewrite <- app_assoc. rewrite (read_s32_w_long c n _ Hn). cbn [bind].
        assert (Habs : Z.abs n = zlen ds) by (subst n; unfold zlen; destruct (z <? 0); lia).
        rewrite Habs.
        rewrite (read_digits_w_short c ds _ [] rest Hb Hlast) by (rewrite !app_length, length_flat_w_short; lia).
        cbn [bind rev app]. rewrite Hval.
        assert (Hz : (if n <? 0 then - Z.abs z else Z.abs z) = z).
        { subst n. destruct (z <? 0) eqn:Ez.
          - assert (Hne : ds <> []).
            { intros E. rewrite E in Hval. cbn in Hval. lia. }
            destruct ds; [contradiction|]. unfold zlen. cbn [List.length]. destruct (Z.of_nat (S (List.length ds)) * -1 <? 0) eqn:E2; lia.
          - destruct (zlen ds * 1 <? 0) eqn:E2; unfold zlen in *; lia. }
        rewrite Hz. destruct c_ok as [_ H30i]. rewrite H30i. reflexivity.
      + (* float: written as text *)
        cbn [dumps textify]. unfold dump_float_text.
        cbn [app]. rewrite step by used. cbn [Z.eqb Pos.eqb orb r_leaf read_u8 bind].
        rewrite read_n_app. reflexivity.
      + (* complex *)
        cbn [dumps textify]. unfold dump_float_text.
        cbn [app]. rewrite step by used. cbn [Z.eqb Pos.eqb orb r_leaf read_u8 bind].
        rewrite <- app_assoc. rewrite read_n_app. cbn [bind app read_u8]. rewrite read_n_app. reflexivity.
      + (* bytes *)
        cbn [dumps textify].
        assert (Hn : - 2147483648 <= zlen b < 2147483648) by (unfold small_len, zlen in *; lia).
        cbn [app]. rewrite step by used. cbn [Z.eqb Pos.eqb orb r_leaf].
        rewrite <- app_assoc. rewrite (read_s32_w_long c _ _ Hn). cbn [bind]. rewrite read_n_app. reflexivity.
      + (* text *)
        cbn [dumps textify].
        assert (Hn : - 2147483648 <= zlen b < 2147483648) by (unfold small_len, zlen in *; lia).
        cbn [app]. rewrite step by used. cbn [Z.eqb Pos.eqb orb r_leaf].
        rewrite <- app_assoc. rewrite (read_s32_w_long c _ _ Hn). cbn [bind]. rewrite read_n_app. cbn [bind].
        unfold text_bad. rewrite H0. cbn [negb]. rewrite andb_false_r. cbn [andb]. reflexivity.
      + (* tuple *)
        cbn [dumps textify depth] in *. cbn [app]. rewrite <- app_assoc.
        apply (seq_container f 40 l (fun vs => PTuple vs) st rest); auto.
        apply (lift_all f IHf); [assumption|]. fold depth_all in Hd. lia.
      + cbn [dumps textify depth] in *. cbn [app]. rewrite <- app_assoc.
        apply (seq_container f 91 l (fun vs => PList vs) st rest); auto.
        apply (lift_all f IHf); [assumption|]. fold depth_all in Hd. lia.
      + cbn [dumps textify depth] in *. cbn [app]. rewrite <- app_assoc.
        apply (seq_container f 60 l (fun vs => PSet vs) st rest); auto.
        apply (lift_all f IHf); [assumption|]. fold depth_all in Hd. lia.
      + cbn [dumps textify depth] in *. cbn [app]. rewrite <- app_assoc.
        apply (seq_container f 62 l (fun vs => PFrozenSet vs) st rest); auto.
        apply (lift_all f IHf); [assumption|]. fold depth_all in Hd. lia.
      + (* dict *)
        cbn [dumps textify depth] in *. fold depth_kv in Hd. fold dump_kv. fold textify_kv.
        cbn [app]. rewrite step by used. cbn [Z.eqb Pos.eqb orb r_leaf r_container reserve].
        rewrite <- app_assoc. cbn [app].
        destruct f as [|f']; [lia|].
        assert (Hr : Forall (fun p => RT (S f') (fst p) /\ RT (S f') (snd p)) kv) by (apply (lift_kv (S f') IHf); [assumption | lia]).
        pose proof (read_dict_all f' kv H Hr (S (List.length (dump_kv kv ++ 48 :: rest))) [] st rest) as Hrd.
        unfold with_inp in Hrd |- *. cbn [inp refs strs] in Hrd |- *.
        rewrite Hrd by (rewrite app_length; pose proof (dump_kv_length kv H); cbn [List.length]; lia).
        reflexivity.
      + (* code object: dump_code3 against r_code *)
        destruct (code_facts H) as (H99 & H311 & H23 & H13 & H20 & H15 & Hpos).
        destruct c_ok as [_ H30].
        repeat match goal with Hf : Forall _ (_ :: _) |- _ => inversion Hf; clear Hf; subst end.
        cbn [depth] in Hd.
        assert (Hdd : (Nat.max (depth code) (Nat.max (depth consts) (Nat.max (depth names) (Nat.max (depth varn) (Nat.max (depth freev) (Nat.max (depth cellv)
                        (Nat.max (depth fname) (Nat.max (depth name) (Nat.max 1 (Nat.max (depth lnotab) (Nat.max 1 0)))))))))) <= f)%nat) by (cbn [depth] in Hd; lia).
        assert (Rcode := IHf code ltac:(assumption) ltac:(lia)). assert (Rconsts := IHf consts ltac:(assumption) ltac:(lia)).
        assert (Rnames := IHf names ltac:(assumption) ltac:(lia)). assert (Rvarn := IHf varn ltac:(assumption) ltac:(lia)).
        assert (Rfreev := IHf freev ltac:(assumption) ltac:(lia)). assert (Rcellv := IHf cellv ltac:(assumption) ltac:(lia)).
        assert (Rfname := IHf fname ltac:(assumption) ltac:(lia)). assert (Rname := IHf name ltac:(assumption) ltac:(lia)).
        assert (Rlnotab := IHf lnotab ltac:(assumption) ltac:(lia)).
        cbn [dumps textify]. cbn [app]. rewrite step_code by exact H99.
        unfold r_code, w_int. cbn [reserve inp with_inp]. rewrite H23, H311, H30, H13, H20, H15.
        repeat rewrite <- app_assoc.
        rewrite (read_s32_w_long c argc) by assumption. cbn [bind].
        (* posonlyargcount: written iff the reader reads it; otherwise the reader supplies its default *)
        rewrite (read_pos c has_pos pos _ Hpos ltac:(assumption)). cbn [bind].
        rewrite (read_s32_w_long c kw) by assumption. cbn [bind].
        rewrite (read_s32_w_long c nloc) by assumption. cbn [bind].
        rewrite (read_s32_w_long c stk) by assumption. cbn [bind].
        rewrite (read_s32_w_long c fl) by assumption. cbn [bind].
        rewrite (Rcode _ _). cbn [bind]. rewrite (Rconsts _ _). cbn [bind]. rewrite (Rnames _ _). cbn [bind].
        rewrite (Rvarn _ _). cbn [bind]. rewrite (Rfreev _ _). cbn [bind]. rewrite (Rcellv _ _). cbn [bind].
        rewrite (Rfname _ _). cbn [bind]. rewrite (Rname _ _). cbn [bind inp with_inp].
        rewrite (read_s32_w_long c first) by assumption. cbn [bind].
        rewrite (Rlnotab _ _). cbn [bind insert]. reflexivity.
  Qed.

  (* nesting never exceeds the number of bytes written: the fuel `load` gives (one more than the input length) is enough *)
  Lemma depth_le_len : forall n v, wfv v -> (depth v <= n)%nat -> (depth v <= List.length (dumps repr_float has_pos int_i v))%nat.
  Proof.
    induction n as [|n IH]; intros v Hw Hd; [destruct v; cbn in Hd; lia|].
    assert (Hall : forall l, Forall wfv l -> (depth_all l <= n)%nat -> (depth_all l <= List.length (dump_all l))%nat).
    { induction l as [|x l IHl]; intros Hwl Hdl; [cbn; lia|]. inversion Hwl; subst. cbn [depth_all dump_all] in *. rewrite app_length.
      pose proof (IH x ltac:(assumption) ltac:(lia)). pose proof (IHl ltac:(assumption) ltac:(lia)). lia. }
    assert (Hkv : forall kv, Forall (fun p => wfv (fst p) /\ wfv (snd p)) kv -> (depth_kv kv <= n)%nat -> (depth_kv kv <= List.length (dump_kv kv))%nat).
    { induction kv as [|[k x] kv IHl]; intros Hwl Hdl; [cbn; lia|]. inversion Hwl as [|? ? [Hk Hx] ?]; subst. cbn [depth_kv dump_kv fst snd] in *. rewrite !app_length.
      pose proof (IH k Hk ltac:(lia)). pose proof (IH x Hx ltac:(lia)). pose proof (IHl ltac:(assumption) ltac:(lia)). lia. }
    inversion Hw; subst; try (apply (dumps_nonempty _ Hw)); cbn [depth dumps] in *.
    - fold depth_all in *. fold dump_all. cbn [List.length]. rewrite !app_length. pose proof (Hall l ltac:(assumption) ltac:(lia)). cbn. lia.
    - fold depth_all in *. fold dump_all. cbn [List.length]. rewrite !app_length. pose proof (Hall l ltac:(assumption) ltac:(lia)). cbn. lia.
    - fold depth_all in *. fold dump_all. cbn [List.length]. rewrite !app_length. pose proof (Hall l ltac:(assumption) ltac:(lia)). cbn. lia.
    - fold depth_all in *. fold dump_all. cbn [List.length]. rewrite !app_length. pose proof (Hall l ltac:(assumption) ltac:(lia)). cbn. lia.
    - fold depth_kv in *. fold dump_kv. cbn [List.length]. rewrite !app_length. pose proof (Hkv kv ltac:(assumption) ltac:(lia)). cbn [List.length]. lia.
    - repeat match goal with Hf : Forall _ (_ :: _) |- _ => inversion Hf; clear Hf; subst end.
      cbn [depth] in Hd.
      pose proof (IH code ltac:(assumption) ltac:(lia)). pose proof (IH consts ltac:(assumption) ltac:(lia)). pose proof (IH names ltac:(assumption) ltac:(lia)).
      pose proof (IH varn ltac:(assumption) ltac:(lia)). pose proof (IH freev ltac:(assumption) ltac:(lia)). pose proof (IH cellv ltac:(assumption) ltac:(lia)).
      pose proof (IH fname ltac:(assumption) ltac:(lia)). pose proof (IH name ltac:(assumption) ltac:(lia)). pose proof (IH lnotab ltac:(assumption) ltac:(lia)).
      cbn [List.length]. rewrite !app_length. unfold w_long, enc32. cbn [List.length depth]. lia.
  Qed.

  Theorem loads_dumps v : wfv v ->
    r_object (S (List.length (dumps repr_float has_pos int_i v))) c {| inp := dumps repr_float has_pos int_i v; refs := []; strs := [] |}
    = Ok (textify repr_float v, {| inp := []; refs := []; strs := [] |}).
  Proof.
    intros Hw.
    pose proof (marsh_roundtrip (S (List.length (dumps repr_float has_pos int_i v))) v Hw) as H.
    assert (Hd : (depth v <= S (List.length (dumps repr_float has_pos int_i v)))%nat) by (pose proof (depth_le_len (depth v) v Hw (Nat.le_refl _)); lia).
    specialize (H Hd {| inp := []; refs := []; strs := [] |} []). unfold with_inp in H. cbn [inp refs strs] in H. rewrite app_nil_r in H. exact H.
  Qed.
End RT.

(* ---- the two readers the theorem is used for ---- *)
Lemma marsh_cfg_ok : cfg_ok marsh_cfg.
Proof. split; vm_compute; reflexivity. Qed.

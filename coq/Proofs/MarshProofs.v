From Xdis Require Import Base.Prelude Base.Result Base.LE Model.Unmarshal Model.Marsh.
From Coq Require Import ZifyBool.
Ltac Zify.zify_post_hook ::= Z.to_euclidean_division_equations.

(* the 15-bit digit codec of dump_long / load_long *)
Lemma to_digits_value fuel : forall x j, 0 <= x < 2 ^ (15 * Z.of_nat fuel) -> 0 <= j ->
  digits_value (to_digits fuel x) j = x * 2 ^ (15 * j).
Proof.
  induction fuel as [|f IH]; intros x j Hx Hj.
  - cbn in Hx. assert (x = 0) by lia. subst. reflexivity.
  - cbn [to_digits]. destruct (x =? 0) eqn:E0; [assert (x = 0) by lia; subst; reflexivity|].
    cbn [digits_value]. rewrite IH; [| |lia].
    + replace (15 * (j + 1)) with (15 + 15 * j) by lia. rewrite Z.pow_add_r by lia. change (2 ^ 15) with 32768.
      pose proof (Z.div_mod x 32768 ltac:(lia)). nia.
    + replace (15 * Z.of_nat (S f)) with (15 + 15 * Z.of_nat f) in Hx by lia. rewrite Z.pow_add_r in Hx by lia.
      change (2 ^ 15) with 32768 in Hx. split; [apply Z.div_pos; lia|]. apply Z.div_lt_upper_bound; lia.
Qed.

Lemma to_digits_bounds fuel : forall x, 0 <= x -> Forall (fun d => 0 <= d < 32768) (to_digits fuel x).
Proof.
  induction fuel as [|f IH]; intros x Hx; cbn [to_digits]; [constructor|].
  destruct (x =? 0); [constructor|]. constructor; [apply Z.mod_pos_bound; lia|]. apply IH. apply Z.div_pos; lia.
Qed.

(* the most significant digit is not zero (marshal.c rejects "unnormalized long data") *)
Lemma to_digits_last fuel : forall x, 0 <= x < 2 ^ (15 * Z.of_nat fuel) -> forall ds d, to_digits fuel x = ds ++ [d] -> d <> 0.
Proof.
  induction fuel as [|f IH]; intros x Hx ds d H.
  - cbn in H. destruct ds; discriminate.
  - cbn [to_digits] in H. destruct (x =? 0) eqn:E0; [destruct ds; discriminate|].
    assert (Hx' : 0 <= x / 32768 < 2 ^ (15 * Z.of_nat f)).
    { replace (15 * Z.of_nat (S f)) with (15 + 15 * Z.of_nat f) in Hx by lia. rewrite Z.pow_add_r in Hx by lia.
      change (2 ^ 15) with 32768 in Hx. split; [apply Z.div_pos; lia|]. apply Z.div_lt_upper_bound; lia. }
    destruct ds as [|d0 ds].
    + cbn in H. inversion H as [[H1 H2]]. subst d.
      destruct f; cbn [to_digits] in H2; [|destruct (x / 32768 =? 0) eqn:E1; [|discriminate H2]].
      * cbn in Hx'. assert (x / 32768 = 0) by lia. lia.
      * lia.
    + cbn in H. inversion H as [[H1 H2]]. exact (IH _ Hx' _ _ H2).
Qed.

Lemma digits_fuel_enough x : 0 <= x -> x < 2 ^ (15 * Z.of_nat (digits_fuel x)).
Proof.
  intros Hx. unfold digits_fuel. destruct (Z.eq_dec x 0) as [->|Hn]; [cbn; lia|].
  assert (0 <= Z.log2 x) by apply Z.log2_nonneg.
  assert (Hl : x < 2 ^ (Z.log2 x + 1)) by (pose proof (Z.log2_spec x ltac:(lia)); replace (Z.log2 x + 1) with (Z.succ (Z.log2 x)) by lia; lia).
  eapply Z.lt_le_trans; [exact Hl|]. apply Z.pow_le_mono_r; [lia|].
  rewrite Nat2Z.inj_succ, Z2Nat.id by (pose proof (Z.div_pos (Z.log2 x) 15 ltac:(lia) ltac:(lia)); lia).
  pose proof (Z.div_mod (Z.log2 x) 15 ltac:(lia)). pose proof (Z.mod_pos_bound (Z.log2 x) 15 ltac:(lia)). lia.
Qed.

Theorem long_codec x : 0 <= x ->
  let ds := to_digits (digits_fuel x) x in
  digits_value ds 0 = x /\ Forall (fun d => 0 <= d < 32768) ds /\ (forall p d, ds = p ++ [d] -> d <> 0).
Proof.
  intros Hx ds. pose proof (digits_fuel_enough x Hx) as Hf. repeat split.
  - subst ds. rewrite to_digits_value by lia. cbn. lia.
  - apply to_digits_bounds. exact Hx.
  - intros p d H. eapply to_digits_last; [|exact H]. lia.
Qed.

From Xdis Require Import Base.Prelude Base.Bits Model.ExcTable Spec.ExcTable.
From Coq Require Import ZifyBool.
Ltac Zify.zify_post_hook ::= Z.to_euclidean_division_equations.

Lemma digit_byte d : 0 <= d < 64 ->
  Z.land d 63 = d /\ (Z.land d 64 =? 0) = true /\
  Z.land (64 + d) 63 = d /\ (Z.land (64 + d) 64 =? 0) = false /\
  Z.land (128 + d) 63 = d /\ (Z.land (128 + d) 64 =? 0) = true /\
  Z.land (128 + (64 + d)) 63 = d /\ (Z.land (128 + (64 + d)) 64 =? 0) = false.
Proof.
  intros H.
  destruct (byte_fact d ltac:(lia)) as (A1 & _ & _ & _ & A2 & _).
  destruct (byte_fact (64 + d) ltac:(lia)) as (B1 & _ & _ & _ & B2 & _).
  destruct (byte_fact (128 + d) ltac:(lia)) as (C1 & _ & _ & _ & C2 & _).
  destruct (byte_fact (128 + (64 + d)) ltac:(lia)) as (D1 & _ & _ & _ & D2 & _).
  rewrite A1, A2, B1, B2, C1, C2, D1, D2. repeat split; lia.
Qed.

Lemma lor_digit v d : 0 <= v -> 0 <= d < 64 -> Z.lor (Z.shiftl v 6) d = v * 64 + d.
Proof.
  intros Hv Hd. rewrite Z.lor_comm. rewrite (lor_shiftl_add d v 6) by lia. change (2 ^ 6) with 64. lia.
Qed.

Lemma fold_val_nonneg ds : forall acc, 0 <= acc -> forallb (fun d => (0 <=? d) && (d <? 64)) ds = true ->
  0 <= fold_left (fun a d => a * 64 + d) ds acc.
Proof.
  induction ds as [|d ds IH]; intros acc Ha H; cbn [fold_left]; [assumption|].
  cbn [forallb] in H. apply andb_true_iff in H as [H1 H2]. apply IH; [lia|assumption].
Qed.

(* continuing a varint: the remaining digits, then whatever follows *)
Lemma parse_varint_go_enc ds : forall val rest, ds <> [] -> 0 <= val ->
  forallb (fun d => (0 <=? d) && (d <? 64)) ds = true ->
  parse_varint_go (enc_bdigits ds ++ rest) val = Some (fold_left (fun a d => a * 64 + d) ds val, rest).
Proof.
  induction ds as [|d ds IH]; intros val rest Hne Hv Hok; [congruence|].
  cbn [forallb] in Hok. apply andb_true_iff in Hok as [Hd Hok].
  assert (Hd' : 0 <= d < 64) by lia. destruct (digit_byte d Hd') as (A1 & A2 & B1 & B2 & _).
  destruct ds as [|d2 ds].
  - cbn [enc_bdigits app parse_varint_go fold_left]. rewrite A1, A2. cbn [negb]. rewrite lor_digit by lia. reflexivity.
  - change (enc_bdigits (d :: d2 :: ds)) with ((64 + d) :: enc_bdigits (d2 :: ds)).
    cbn [app parse_varint_go]. rewrite B1, B2. cbn [negb]. rewrite lor_digit by lia.
    rewrite IH; [reflexivity|discriminate|lia|assumption].
Qed.

Lemma parse_varint_enc ds rest : bdigits_ok ds = true ->
  parse_varint (enc_bdigits ds ++ rest) = Some (bdigits_val ds, rest).
Proof.
  unfold bdigits_ok, bdigits_val. intros H. apply andb_true_iff in H as [Hne Hok].
  destruct ds as [|d ds]; [discriminate|].
  cbn [forallb] in Hok. apply andb_true_iff in Hok as [Hd Hok].
  assert (Hd' : 0 <= d < 64) by lia. destruct (digit_byte d Hd') as (A1 & A2 & B1 & B2 & _).
  destruct ds as [|d2 ds].
  - cbn [enc_bdigits app parse_varint fold_left]. rewrite A1, A2. cbn. f_equal.
  - change (enc_bdigits (d :: d2 :: ds)) with ((64 + d) :: enc_bdigits (d2 :: ds)).
    cbn [app parse_varint]. rewrite B1, B2. cbn [negb].
    rewrite parse_varint_go_enc; [|discriminate|lia|assumption]. cbn [fold_left]. reflexivity.
Qed.

(* the first varint of an entry carries the entry-start mark in bit 7, which is masked off *)
Lemma parse_varint_enc_first ds rest : bdigits_ok ds = true ->
  parse_varint (mark_first (enc_bdigits ds) ++ rest) = Some (bdigits_val ds, rest).
Proof.
  unfold bdigits_ok, bdigits_val. intros H. apply andb_true_iff in H as [Hne Hok].
  destruct ds as [|d ds]; [discriminate|].
  cbn [forallb] in Hok. apply andb_true_iff in Hok as [Hd Hok].
  assert (Hd' : 0 <= d < 64) by lia. destruct (digit_byte d Hd') as (_ & _ & _ & _ & C1 & C2 & D1 & D2).
  destruct ds as [|d2 ds].
  - cbn [enc_bdigits mark_first app parse_varint fold_left]. rewrite C1, C2. cbn. f_equal.
  - change (enc_bdigits (d :: d2 :: ds)) with ((64 + d) :: enc_bdigits (d2 :: ds)).
    cbn [mark_first app parse_varint]. rewrite D1, D2. cbn [negb].
    rewrite parse_varint_go_enc; [|discriminate|lia|assumption]. cbn [fold_left]. reflexivity.
Qed.

Lemma bdigits_val_nonneg ds : bdigits_ok ds = true -> 0 <= bdigits_val ds.
Proof.
  unfold bdigits_ok, bdigits_val. intros H. apply andb_true_iff in H as [_ H]. apply fold_val_nonneg; [lia|assumption].
Qed.

Lemma exc_go_roundtrip es : forall fuel acc, (List.length es < fuel)%nat -> forallb xentry_ok es = true ->
  parse_exception_table_go fuel (encode_xtable es) acc = rev acc ++ map sem_xentry es.
Proof.
  induction es as [|e es IH]; intros fuel acc Hf Hok.
  - destruct fuel; [cbn in Hf; lia|]. cbn. rewrite app_nil_r. reflexivity.
  - destruct fuel as [|fuel]; [cbn in Hf; lia|].
    cbn [forallb] in Hok. apply andb_true_iff in Hok as [He Hok].
    unfold xentry_ok in He. apply andb_true_iff in He as [He H4]. apply andb_true_iff in He as [He H3].
    apply andb_true_iff in He as [H1 H2].
    cbn [encode_xtable flat_map parse_exception_table_go]. unfold encode_xentry. rewrite <- !app_assoc.
    rewrite parse_varint_enc_first by assumption.
    rewrite parse_varint_enc by assumption.
    rewrite parse_varint_enc by assumption.
    rewrite parse_varint_enc by assumption.
    fold (encode_xtable es). rewrite IH; [|cbn in Hf; lia|assumption].
    cbn [rev map]. rewrite <- app_assoc. cbn [app]. f_equal. f_equal. unfold sem_xentry.
    pose proof (bdigits_val_nonneg (x_dl e) ltac:(assumption)) as Hdl.
    rewrite shiftr1_div2, land1_mod2 by assumption.
    f_equal. destruct (bdigits_val (x_dl e) mod 2 =? 0) eqn:E1, (bdigits_val (x_dl e) mod 2 =? 1) eqn:E2; cbn; try reflexivity; lia.
Qed.

Lemma enc_bdigits_length ds : List.length (enc_bdigits ds) = List.length ds.
Proof. induction ds as [|d [|d2 ds] IH]; cbn in *; try reflexivity. f_equal. exact IH. Qed.

Lemma encode_xtable_length es : forallb xentry_ok es = true -> (List.length es <= List.length (encode_xtable es))%nat.
Proof.
  induction es as [|e es IH]; intros H; [cbn; lia|].
  cbn [forallb] in H. apply andb_true_iff in H as [He H]. specialize (IH H).
  cbn [encode_xtable flat_map]. fold (encode_xtable es). rewrite app_length. unfold encode_xentry.
  rewrite !app_length. unfold xentry_ok in He. apply andb_true_iff in He as [He H4]. apply andb_true_iff in He as [He H3].
  apply andb_true_iff in He as [H1 H2]. unfold bdigits_ok in H2. apply andb_true_iff in H2 as [H2 _].
  pose proof (enc_bdigits_length (x_size e)) as L. destruct (x_size e); [discriminate|]. cbn [List.length] in *. lia.
Qed.

Lemma exc_roundtrip es : forallb xentry_ok es = true ->
  parse_exception_table (encode_xtable es) = map sem_xentry es.
Proof.
  intros H. unfold parse_exception_table. rewrite exc_go_roundtrip; [reflexivity| |assumption].
  pose proof (encode_xtable_length es H). lia.
Qed.

From Xdis Require Import Base.Prelude Base.LE Model.LineStarts Spec.Lnotab.
From Coq Require Import ZifyBool.
Ltac Zify.zify_post_hook ::= Z.to_euclidean_division_equations.

(* ---------- lnotab decoder: model (fold with state, as the code) = spec (CPython's shape) ---------- *)

Lemma ls_step_stopped sg st dup cl s p : ls_stopped s = true -> ls_step sg st dup cl s p = s.
Proof. intros H. unfold ls_step. rewrite H. reflexivity. Qed.

Lemma fold_stopped sg st dup cl ps s : ls_stopped s = true -> fold_left (ls_step sg st dup cl) ps s = s.
Proof. revert s; induction ps as [|p ps IH]; intros s H; cbn [fold_left]; [reflexivity|]. rewrite ls_step_stopped by assumption. auto. Qed.

Lemma ls_agree sg st cl ps : forall s, ls_stopped s = false ->
  ls_finish false (fold_left (ls_step sg st false cl) ps s)
  = rev (ls_out s) ++ spec_ls sg st cl ps (ls_offset s) (ls_lineno s) (ls_last s).
Proof.
  induction ps as [|[bi li] ps IH]; intros s Hs.
  - cbn [fold_left spec_ls]. unfold ls_finish. rewrite Hs. cbn [andb orb]. rewrite orb_false_r.
    destruct (differs (ls_lineno s) (ls_last s)); cbn [rev]; [reflexivity | rewrite app_nil_r; reflexivity].
  - cbn [fold_left spec_ls]. unfold ls_step at 2. rewrite Hs. cbn [andb]. rewrite orb_false_r.
    destruct (bi =? 0) eqn:Ebi.
    + cbn [ls_stopped]. rewrite IH by reflexivity. reflexivity.
    + cbn [ls_stopped ls_offset ls_lineno ls_last ls_out].
      destruct (st && (cl <=? ls_offset s + bi)) eqn:Estop.
      * rewrite fold_stopped by reflexivity. unfold ls_finish. cbn [ls_stopped ls_out].
        destruct (differs (ls_lineno s) (ls_last s)); cbn [rev]; rewrite ?app_nil_r; reflexivity.
      * rewrite IH by reflexivity. cbn [ls_out ls_offset ls_lineno ls_last].
        destruct (differs (ls_lineno s) (ls_last s)); cbn [rev app]; [rewrite <- app_assoc; reflexivity | reflexivity].
Qed.

Lemma findlinestarts_lnotab_spec v first cl tab :
  findlinestarts_lnotab (Some v) false first cl tab
  = spec_ls (tuple_geb v [3; 6]) (tuple_geb v [3; 8]) cl (pairs tab) 0 first None.
Proof.
  unfold findlinestarts_lnotab. destruct tab as [|a tab]; [reflexivity|].
  cbn [ls_flags]. rewrite ls_agree by reflexivity. reflexivity.
Qed.

Lemma findlinestarts_lnotab_spec_none first cl tab :
  findlinestarts_lnotab None false first cl tab = spec_ls true true cl (pairs tab) 0 first None.
Proof.
  unfold findlinestarts_lnotab. destruct tab as [|a tab]; [reflexivity|].
  cbn [ls_flags]. rewrite ls_agree by reflexivity. reflexivity.
Qed.

Lemma lt36_flags v : tuple_ltb v [3; 6] = true -> tuple_geb v [3; 6] = false /\ tuple_geb v [3; 8] = false.
Proof.
  unfold tuple_ltb, tuple_geb. destruct v as [|x [|y r]]; cbn [tuple_cmp].
  - auto.
  - destruct (Z.compare_spec x 3); intros; try discriminate; auto.
  - destruct (Z.compare_spec x 3); [|auto|intros; discriminate].
    destruct (Z.compare_spec y 6); [destruct r; intros; discriminate| |intros; discriminate].
    destruct (Z.compare_spec y 8); [lia| |lia]. auto.
Qed.

Lemma findlinestarts_lnotab_empty v dup first cl : findlinestarts_lnotab v dup first cl [] = [(0, first)].
Proof. reflexivity. Qed.

Lemma spec_empty sg st cl first : spec_ls sg st cl (pairs []) 0 first None = [(0, first)].
Proof. reflexivity. Qed.

(* ---------- offset2line ---------- *)

Definition sorted_nth (ls : list (Z * Z)) : Prop :=
  forall i j, 0 <= i -> i < j -> j < zlen ls -> nth_off ls i < nth_off ls j.

Lemma nth_off_cons p ls i : 0 < i -> nth_off (p :: ls) i = nth_off ls (i - 1).
Proof.
  intros H. unfold nth_off. replace (Z.to_nat i) with (S (Z.to_nat (i - 1))) by lia. reflexivity.
Qed.
Lemma nth_line_cons p ls i : 0 < i -> nth_line (p :: ls) i = nth_line ls (i - 1).
Proof.
  intros H. unfold nth_line. replace (Z.to_nat i) with (S (Z.to_nat (i - 1))) by lia. reflexivity.
Qed.
Lemma zlen_cons {A} (p : A) ls : zlen (p :: ls) = zlen ls + 1.
Proof. unfold zlen. cbn [List.length]. lia. Qed.
Lemma zlen_nonneg {A} (l : list A) : 0 <= zlen l.
Proof. unfold zlen. lia. Qed.

Lemma sorted_head_lt o l ls : sorted_strict ((o, l) :: ls) -> forall j, 0 <= j < zlen ls -> o < nth_off ls j.
Proof.
  revert o l. induction ls as [|[o' l'] ls IH]; intros o l H j Hj.
  - unfold zlen in Hj. cbn in Hj. lia.
  - cbn [sorted_strict] in H. destruct H as [H1 H2].
    destruct (Z.eq_dec j 0) as [->|Hn]; [unfold nth_off; cbn; exact H1|].
    rewrite nth_off_cons by lia. rewrite zlen_cons in Hj.
    specialize (IH o' l' H2 (j - 1) ltac:(lia)). lia.
Qed.

Lemma sorted_strict_nth ls : sorted_strict ls -> sorted_nth ls.
Proof.
  induction ls as [|[o l] ls IH]; intros H i j Hi Hij Hj.
  - unfold zlen in Hj; cbn in Hj; lia.
  - rewrite zlen_cons in Hj. destruct (Z.eq_dec i 0) as [->|Hn].
    + rewrite (nth_off_cons _ _ j) by lia. unfold nth_off at 1. cbn [nth Z.to_nat fst].
      apply (sorted_head_lt o l ls H). lia.
    + rewrite !nth_off_cons by lia. apply IH; try lia. cbn [sorted_strict] in H. tauto.
Qed.

Lemma o2l_loop_correct ls offset : sorted_nth ls -> 0 < zlen ls -> nth_off ls 0 <= offset ->
  forall fuel low high,
  0 <= low -> high < zlen ls -> low <= high + 1 -> high - low + 1 < Z.of_nat fuel ->
  (forall i, 0 <= i < low -> nth_off ls i < offset) ->
  (forall i, high < i < zlen ls -> offset < nth_off ls i) ->
  exists k, 0 <= k < zlen ls /\ o2l_loop fuel ls offset low high ((low + high + 1) / 2) = Some (nth_line ls k)
            /\ nth_off ls k <= offset /\ (forall i, k < i < zlen ls -> offset < nth_off ls i).
Proof.
  intros Hs Hn H0. induction fuel as [|fuel IH]; intros low high Hl Hh Hlh Hf Hlow Hhigh; [lia|].
  cbn [o2l_loop]. set (mid := (low + high + 1) / 2).
  destruct (low <=? high) eqn:Elh.
  - assert (Hm : low <= mid <= high) by (subst mid; lia).
    destruct (nth_off ls mid >? offset) eqn:Egt.
    + apply IH; try lia; try assumption. intros i Hi.
      destruct (Z.eq_dec i mid) as [->|Hne]; [lia|].
      specialize (Hs mid i ltac:(lia) ltac:(lia) ltac:(lia)). lia.
    + destruct (nth_off ls mid <? offset) eqn:Elt.
      * apply IH; try lia; try assumption. intros i Hi.
        destruct (Z.eq_dec i mid) as [->|Hne]; [lia|].
        specialize (Hs i mid ltac:(lia) ltac:(lia) ltac:(lia)). lia.
      * exists mid. repeat split; try lia. intros i Hi.
        specialize (Hs mid i ltac:(lia) ltac:(lia) ltac:(lia)). lia.
  - assert (low = high + 1) by lia. subst low.
    assert (Hh0 : 0 <= high).
    { destruct (Z_lt_le_dec high 0) as [Hneg|]; [|assumption].
      specialize (Hhigh 0 ltac:(lia)). lia. }
    assert (Emid : mid = high + 1) by (subst mid; lia).
    exists high. split; [lia|]. split.
    + destruct (zlen ls <=? mid) eqn:Em; [|reflexivity]. f_equal. f_equal. lia.
    + split; [|assumption]. specialize (Hlow high ltac:(lia)). lia.
Qed.

Lemma line_at_char ls : sorted_strict ls -> forall offset k acc,
  0 <= k < zlen ls -> nth_off ls k <= offset -> (forall i, k < i < zlen ls -> offset < nth_off ls i) ->
  line_at offset ls acc = nth_line ls k.
Proof.
  induction ls as [|[o l] ls IH]; intros Hs offset k acc Hk Hle Hgt.
  - unfold zlen in Hk; cbn in Hk; lia.
  - rewrite zlen_cons in Hk. cbn [line_at].
    destruct (Z.eq_dec k 0) as [->|Hn].
    + unfold nth_off in Hle; cbn [nth Z.to_nat fst] in Hle.
      assert (E : (o <=? offset) = true) by lia. rewrite E.
      unfold nth_line. cbn [nth Z.to_nat snd].
      destruct ls as [|[o' l'] ls']; [reflexivity|].
      cbn [line_at]. specialize (Hgt 1 ltac:(rewrite !zlen_cons; pose proof (zlen_nonneg ls'); lia)).
      change (nth_off ((o, l) :: (o', l') :: ls') 1) with o' in Hgt.
      assert (E' : (o' <=? offset) = false) by lia. rewrite E'. reflexivity.
    + pose proof (sorted_strict_nth _ Hs 0 k ltac:(lia) ltac:(lia) ltac:(rewrite zlen_cons; lia)) as H0k.
      unfold nth_off at 1 in H0k. cbn [nth Z.to_nat fst] in H0k.
      assert (E : (o <=? offset) = true) by lia. rewrite E.
      rewrite nth_line_cons by lia. rewrite nth_off_cons in Hle by lia.
      apply IH; try lia.
      * cbn [sorted_strict] in Hs. tauto.
      * intros i Hi. specialize (Hgt (i + 1) ltac:(rewrite zlen_cons; lia)).
        rewrite nth_off_cons in Hgt by lia. replace (i + 1 - 1) with i in Hgt by lia. exact Hgt.
Qed.

Lemma offset2line_correct offset ls : sorted_strict ls -> offset2line offset ls = Some (line_at offset ls 0).
Proof.
  intros Hs. destruct ls as [|[o0 l0] ls]; [reflexivity|].
  unfold offset2line. destruct (offset <? o0) eqn:E.
  - cbn [line_at]. assert (E' : (o0 <=? offset) = false) by lia. rewrite E'. reflexivity.
  - set (L := (o0, l0) :: ls).
    assert (Hn : 0 < zlen L) by (subst L; rewrite zlen_cons; pose proof (zlen_nonneg ls); lia).
    assert (H0 : nth_off L 0 <= offset) by (subst L; unfold nth_off; cbn; lia).
    pose proof (o2l_loop_correct L offset (sorted_strict_nth _ Hs) Hn H0 (S (List.length L)) 0 (zlen L - 1)) as P.
    assert (A1 : 0 <= 0) by lia.
    assert (A2 : zlen L - 1 < zlen L) by lia.
    assert (A3 : 0 <= zlen L - 1 + 1) by lia.
    assert (A4 : zlen L - 1 - 0 + 1 < Z.of_nat (S (List.length L))) by (unfold zlen; lia).
    assert (A5 : forall i, 0 <= i < 0 -> nth_off L i < offset) by (intros; lia).
    assert (A6 : forall i, zlen L - 1 < i < zlen L -> offset < nth_off L i) by (intros; lia).
    destruct (P A1 A2 A3 A4 A5 A6) as (k & Hk & Hr & Hle & Hgt).
    replace (0 + (zlen L - 1) + 1) with (0 + (zlen L - 1) + 1) by reflexivity.
    rewrite Hr. f_equal. symmetry. apply line_at_char; assumption.
Qed.

Example sorted_ex : sorted_strict [(20, 1); (40, 10); (60, 45)].
Proof. cbn. lia. Qed.

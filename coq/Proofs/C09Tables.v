(* Table obligations of C09, re-checked against the regenerated Gen/Opcodes.v on every run. *)
From Xdis Require Import Base.Prelude Base.OpTable Gen.Opcodes Gen.RefOpcodes Proofs.OpcodeChecks.

Lemma coherence_ok : flat_map table_failures all_tables = [].  Proof. vm_compute. reflexivity. Qed.
Lemma oracle_ok : flat_map oracle_failures_t all_tables = [].  Proof. vm_compute. reflexivity. Qed.
Lemma jump_names_ok : flat_map chk_jump_names all_tables = [].  Proof. vm_compute. reflexivity. Qed.
Lemma keymap_ok : keymap_failures = [].        Proof. vm_compute. reflexivity. Qed.

Lemma flat_map_nil {A B} (f : A -> list B) l : flat_map f l = [] -> forall x, In x l -> f x = [].
Proof.
  induction l as [|y l IH]; cbn; intros H x Hx; [contradiction|].
  apply app_eq_nil in H as [H1 H2]. destruct Hx as [->|Hx]; auto.
Qed.

Lemma table_ok : forall t, In t all_tables -> table_failures t = [].
Proof. exact (flat_map_nil table_failures all_tables coherence_ok). Qed.

Lemma table_jump_names_ok : forall t, In t all_tables -> chk_jump_names t = [].
Proof. exact (flat_map_nil chk_jump_names all_tables jump_names_ok). Qed.

Lemma table_oracle_ok : forall t, In t all_tables -> oracle_failures_t t = [].
Proof. exact (flat_map_nil oracle_failures_t all_tables oracle_ok). Qed.

Lemma split6 {A} (a b c d e f : list A) : (a ++ b ++ c ++ d ++ e ++ f = [] -> a = [] /\ b = [] /\ c = [] /\ d = [] /\ e = [] /\ f = [])%list.
Proof.
  intros H. repeat (apply app_eq_nil in H; destruct H as [? H]). repeat split; assumption.
Qed.

Lemma oracle_scope_ok : tables_with_oracle =
  ["opcode_27"; "opcode_310"; "opcode_311"; "opcode_312"; "opcode_313"; "opcode_36"; "opcode_37"; "opcode_38"; "opcode_39"]%string.
Proof. vm_compute. reflexivity. Qed.

Lemma nonvacuous_ok : existsb (fun t => String.eqb (t_name t) "opcode_312" && is_some (ref_for t) && (100 <? zlen (t_opmap t))%Z) all_tables = true.
Proof. vm_compute. reflexivity. Qed.

From Xdis Require Import Base.Prelude Base.Result Base.LE Model.Magic Model.Load Model.WriteHeader Gen.Magics Gen.RefMagics
  Spec.Registry Spec.Header Proofs.HeaderDefs Proofs.HeaderProofs.
From Coq Require Import ZifyBool.
Ltac Zify.zify_post_hook ::= Z.to_euclidean_division_equations.

Lemma le32_enc32 x : 0 <= x < 4294967296 ->
  le32 (x mod 256) ((x / 256) mod 256) ((x / 65536) mod 256) ((x / 16777216) mod 256) = x.
Proof. intros H. unfold le32. lia. Qed.

Lemma enc32_bytes x : bytes_ok (enc32 x) = true.
Proof. unfold enc32, bytes_ok, byte_ok. cbn [forallb]. repeat (apply andb_true_iff; split); lia. Qed.

(* what the writer stores for a released magic is what that version's format defines *)
Definition writer_kind (m : Z) : option hkind :=
  match version_of m with
  | Ok v => Some (if tuple_geb v [3; 7] then Pep552 else if tuple_geb v [3; 3] then TsSize else TsOnly)
  | Err _ => None
  end.
Definition writable : list (Z * list Z * list Z) :=
  filter (fun '(m, v, mb) => zlist_eqb mb [m mod 256; (m / 256) mod 256; 13; 10]) released_all.
Definition writer_rows_ok : bool :=
  forallb (fun '(m, v, mb) => match writer_kind m with Some k => hkind_eqb k (spec_kind v) | None => false end) writable.
Lemma writer_rows_ok_true : writer_rows_ok = true.
Proof. vm_compute. reflexivity. Qed.

Lemma write_header_fields m v mb ts size rest : In (m, v, mb) writable ->
  0 <= ts < 4294967296 -> 0 <= size < 4294967296 ->
  exists hdr, write_header m ts size = Ok hdr /\ firstn 4 hdr = mb /\
    spec_fields (spec_kind v) (skipn 4 hdr ++ rest)
    = Some (Some ts, (if tuple_geb v [3; 3] then Some size else None), None, rest).
Proof.
  intros Hin Hts Hsz.
  pose proof (proj1 (forallb_forall _ _) writer_rows_ok_true _ Hin) as Hk. cbv beta iota in Hk.
  unfold writable in Hin. apply filter_In in Hin as [Hin Hmb]. cbv beta iota in Hmb. apply zlist_eqb_eq in Hmb.
  unfold writer_kind in Hk. unfold write_header.
  destruct (version_of m) as [ver|e]; [|discriminate Hk].
  eexists. split; [reflexivity|]. split; [rewrite Hmb; reflexivity|].
  cbn [skipn app].
  unfold spec_kind in *.
  destruct (tuple_geb ver [3; 7]) eqn:E7.
  - destruct (tuple_ltb v [3; 3]) eqn:E3; [discriminate Hk|]. destruct (tuple_ltb v [3; 7]) eqn:E37; [discriminate Hk|].
    assert (Eg : tuple_geb v [3; 3] = true) by (unfold tuple_geb, tuple_ltb in *; destruct (tuple_cmp v [3; 3]); congruence).
    rewrite Eg.
    assert (Ev3 : tuple_geb ver [3; 3] = true).
    { unfold tuple_geb in *. destruct ver as [|x [|y r]]; cbn [tuple_cmp] in *; try discriminate;
      destruct (Z.compare_spec x 3); try discriminate; try reflexivity.
      destruct (Z.compare_spec y 7); try discriminate; destruct (Z.compare_spec y 3); try reflexivity; try lia. }
    rewrite Ev3. unfold enc32. cbn [app spec_fields]. change (le32 0 0 0 0 mod 2 =? 1) with false. cbn iota.
    rewrite !le32_enc32 by assumption. reflexivity.
  - destruct (tuple_geb ver [3; 3]) eqn:E3v.
    + destruct (tuple_ltb v [3; 3]) eqn:E3; [discriminate Hk|]. destruct (tuple_ltb v [3; 7]) eqn:E37; [|discriminate Hk].
      assert (Eg : tuple_geb v [3; 3] = true) by (unfold tuple_geb, tuple_ltb in *; destruct (tuple_cmp v [3; 3]); congruence).
      rewrite Eg. unfold enc32. cbn [app spec_fields]. rewrite !le32_enc32 by assumption. reflexivity.
    + destruct (tuple_ltb v [3; 3]) eqn:E3; [|destruct (tuple_ltb v [3; 7]); discriminate Hk].
      assert (Eg : tuple_geb v [3; 3] = false) by (unfold tuple_geb, tuple_ltb in *; destruct (tuple_cmp v [3; 3]); congruence).
      rewrite Eg. unfold enc32. cbn [app spec_fields]. rewrite !le32_enc32 by assumption. reflexivity.
Qed.

(* ... and reading it back with the header parser (C06) returns exactly those fields *)
Lemma write_then_read p m v mb ts size rest : In (m, v, mb) writable -> bytes_ok rest = true ->
  0 <= ts < 4294967296 -> 0 <= size < 4294967296 ->
  exists hdr h, write_header m ts size = Ok hdr /\ parse_header p (hdr ++ rest) = Ok h /\
    firstn 2 (h_version h) = v /\ h_timestamp h = Some ts /\
    h_size h = (if tuple_geb v [3; 3] then Some size else None) /\ h_sip h = None /\ h_rest h = rest.
Proof.
  intros Hin Hb Hts Hsz. destruct (write_header_fields m v mb ts size rest Hin Hts Hsz) as (hdr & Hw & Hmb & Hf).
  pose proof Hin as Hin'. unfold writable in Hin'. apply filter_In in Hin' as [Hrel _].
  assert (Hsplit : hdr = mb ++ skipn 4 hdr) by (rewrite <- Hmb; symmetry; apply firstn_skipn).
  assert (Hbr : bytes_ok (skipn 4 hdr ++ rest) = true).
  { unfold write_header in Hw. destruct (version_of m) as [l|]; [|discriminate]. inversion Hw; subst hdr. cbn [skipn app].
    unfold bytes_ok in *. rewrite !forallb_app. rewrite Hb.
    destruct (tuple_geb l [3; 7]), (tuple_geb l [3; 3]); cbn [forallb]; rewrite ?andb_true_r;
      repeat (apply andb_true_iff; split); try reflexivity; try apply enc32_bytes; unfold byte_ok; try lia. }
  destruct (header_agree_all p m v mb _ _ Hrel Hbr Hf) as (h & Hp & Hv & _ & Hfields).
  exists hdr, h. split; [exact Hw|]. rewrite Hsplit at 1. rewrite <- app_assoc. split; [exact Hp|].
  inversion Hfields. auto.
Qed.

(* What a .pyc header stores, per the format of the producing Python:
   < 3.3 : magic, mtime
   3.3-3.6 : magic, mtime, source size            (PEP 3147 era)
   >= 3.7 : magic, flags word; flags bit 0 set -> 64-bit source hash,
            else mtime, source size                 (PEP 552)
   Validated against importlib._bootstrap_external._classify_pyc / py_compile of
   the installed interpreters by tools/props/c06.py. *)
From Xdis Require Import Base.Prelude Base.LE Gen.RefMagics Spec.Registry.

Inductive hkind := TsOnly | TsSize | Pep552.
Definition hkind_eqb (a b : hkind) : bool :=
  match a, b with TsOnly, TsOnly | TsSize, TsSize | Pep552, Pep552 => true | _, _ => false end.

Definition spec_kind (v : list Z) : hkind :=
  if tuple_ltb v [3; 3] then TsOnly else if tuple_ltb v [3; 7] then TsSize else Pep552.

(* fields after the 4 magic bytes: (timestamp, source size, hash, rest) *)
Definition spec_fields (k : hkind) (r : list Z) : option (option Z * option Z * option Z * list Z) :=
  match k, r with
  | TsOnly, t0 :: t1 :: t2 :: t3 :: rest => Some (Some (le32 t0 t1 t2 t3), None, None, rest)
  | TsSize, t0 :: t1 :: t2 :: t3 :: s0 :: s1 :: s2 :: s3 :: rest =>
      Some (Some (le32 t0 t1 t2 t3), Some (le32 s0 s1 s2 s3), None, rest)
  | Pep552, f0 :: f1 :: f2 :: f3 :: b0 :: b1 :: b2 :: b3 :: b4 :: b5 :: b6 :: b7 :: rest =>
      if (le32 f0 f1 f2 f3) mod 2 =? 1
      then Some (None, None, Some (le64 b0 b1 b2 b3 b4 b5 b6 b7), rest)
      else Some (Some (le32 b0 b1 b2 b3), Some (le32 b4 b5 b6 b7), None, rest)
  | _, _ => None
  end.

(* (major, minor) pairs the registry knows *)
Fixpoint versions_of (rows : list (Z * Z * Z)) (acc : list (Z * Z)) : list (Z * Z) :=
  match rows with
  | [] => rev acc
  | (_, a, b) :: r => if existsb (fun '(x, y) => (x =? a) && (y =? b)) acc then versions_of r acc else versions_of r ((a, b) :: acc)
  end.

(* final CPython releases: (magic, [major; minor]) *)
Definition released_cpython : list (Z * list Z) :=
  flat_map (fun '(a, b) => match last_row a b registry None with Some m => [(m, [a; b])] | None => [] end) (versions_of registry [])
  ++ [(3350, [3; 5])].

(* 1.0 - 1.4 predate the registry CPython keeps; these magics are taken from xdis's own
   table and are NOT validated by any reference in this sandbox. *)
Definition released_pre15 : list (Z * list Z) :=
  [(39170, [1; 0]); (39171, [1; 1]) (* 1.2 writes the same magic and is reported as 1.1 *); (11913, [1; 3]); (5892, [1; 4])].

(* CPython 3.10: codeobject.c lineiter_next / PyLineTable_NextAddressRange (advance, then
   skip empty ranges), and Lib/dis.py findlinestarts for 3.10-3.12 and for 3.13.
   Validated against the installed 3.10-3.13 by tools/props/c05.py. *)
From Xdis Require Import Base.Prelude Base.LE Model.LineStarts.

Record addr_range := { ar_start : Z; ar_end : Z; ar_line : option Z; computed_line : Z }.

(* advance(): one (offset delta, signed line delta) pair *)
Definition advance (b : addr_range) (p : Z * Z) : addr_range :=
  let ldelta := sgn8 (snd p) in
  {| ar_start := ar_end b; ar_end := ar_end b + fst p;
     ar_line := if ldelta =? -128 then None else Some (computed_line b + ldelta);
     computed_line := if ldelta =? -128 then computed_line b else computed_line b + ldelta |}.

(* lineiter: repeatedly NextAddressRange; ranges with start = end are skipped *)
Fixpoint spec_co_lines_310 (ps : list (Z * Z)) (b : addr_range) : list (Z * Z * option Z) :=
  match ps with
  | [] => []
  | p :: r => let b' := advance b p in
              if ar_start b' =? ar_end b' then spec_co_lines_310 r b'
              else (ar_start b', ar_end b', ar_line b') :: spec_co_lines_310 r b'
  end.
Definition spec_lines_310 (first : Z) (tab : list Z) :=
  spec_co_lines_310 (pairs tab) {| ar_start := 0; ar_end := 0; ar_line := None; computed_line := first |}.

(* dis.findlinestarts 3.10 - 3.12 *)
Fixpoint spec_fls (ls : list (Z * Z * option Z)) (lastline : option Z) : list (Z * Z) :=
  match ls with
  | [] => []
  | (start, _, line) :: r =>
      match line with
      | Some l => if match lastline with Some l' => l =? l' | None => false end then spec_fls r lastline
                  else (start, l) :: spec_fls r (Some l)
      | None => spec_fls r lastline
      end
  end.

(* dis.findlinestarts 3.13: `lastline = False; if line is not lastline: ...` *)
Inductive last313 := LFalse | LLine (l : option Z).
Fixpoint spec_fls_313 (ls : list (Z * Z * option Z)) (lastline : last313) : list (Z * option Z) :=
  match ls with
  | [] => []
  | (start, _, line) :: r =>
      let same := match lastline, line with
                  | LLine (Some a), Some b => a =? b
                  | LLine None, None => true
                  | _, _ => false end in
      if same then spec_fls_313 r lastline else (start, line) :: spec_fls_313 r (LLine line)
  end.

(* CPython's instruction unpacking and label finding, transcribed from Lib/dis.py of
   2.7 (disassemble / findlabels), 3.6-3.9, 3.10, 3.11, 3.12, 3.13 (_unpack_opargs,
   findlabels, _is_backward_jump, _get_jump_target), parametrised by that interpreter's
   own opcode data (Gen.RefOpcodes, generated from the installed interpreters).
   Validated against the real dis by tools/props/c02.py. *)
From Xdis Require Import Base.Prelude Base.Result Base.OpTable Model.Instr.

Definition rname (R : reftable) (op : Z) : string :=
  if op <? 0 then EmptyString else nth (Z.to_nat op) (r_opname R) EmptyString.
Definition rcache (R : reftable) (op : Z) : Z :=
  match sassoc (rname R op) (r_cache R) with Some n => n | None => 0 end.
(* 3.12+ test `deop in hasarg`; earlier `op >= HAVE_ARGUMENT` *)
Definition spec_has_arg (R : reftable) (op : Z) : bool :=
  if tuple_geb (r_version R) [3; 12] then zmem op (r_hasarg R) else r_have_argument R <=? op.

(* ---- <= 3.5 : 1- or 3-byte instructions, EXTENDED_ARG contributes arg * 65536 ---- *)
Fixpoint unpack_pre36 (R : reftable) (code : list Z) (i ext : Z) : result (list (Z * Z * option Z)) :=
  match code with
  | [] => Ok []
  | op :: tl =>
      if spec_has_arg R op then
        match tl with
        | b1 :: b2 :: r =>
            let arg := b1 + b2 * 256 + ext in
            do rest <- unpack_pre36 R r (i + 3) (if op =? r_extended_arg R then arg * 65536 else 0);
            Ok ((i, op, Some arg) :: rest)
        | _ => Err IndexErr
        end
      else
        do rest <- unpack_pre36 R tl (i + 1) ext; Ok ((i, op, None) :: rest)
  end.

(* ---- 3.6+ word code: `for i in range(0, len(code), 2)`.
        reset: 3.10+ clears extended_arg after an operand-less opcode;
        wrap: 3.11+ wraps extended_arg at 2^31;
        skip: 3.11+ skips the inline cache entries of the previous instruction (`caches` counter) ---- *)
Fixpoint unpack_word_spec (R : reftable) (reset wrap skip : bool) (code : list Z) (i ext : Z) (caches : nat)
  : result (list (Z * Z * option Z)) :=
  match code with
  | [] => Ok []
  | op :: tl =>
      match caches with
      | S c => match tl with [] => Ok [] | _ :: r => unpack_word_spec R reset wrap skip r (i + 2) ext c end
      | O =>
          let k := if skip then Z.to_nat (rcache R op) else O in
          if spec_has_arg R op then
            match tl with
            | [] => Err IndexErr
            | b :: r =>
                let arg := Z.lor b ext in
                let e1 := if op =? r_extended_arg R then Z.shiftl arg 8 else 0 in
                let e2 := if wrap && (2147483648 <=? e1) then e1 - 4294967296 else e1 in
                do rest <- unpack_word_spec R reset wrap skip r (i + 2) e2 k;
                Ok ((i, op, Some arg) :: rest)
            end
          else
            match tl with
            | [] => Ok [(i, op, None)]
            | _ :: r => do rest <- unpack_word_spec R reset wrap skip r (i + 2) (if reset then 0 else ext) k;
                        Ok ((i, op, None) :: rest)
            end
      end
  end.

Definition spec_unpack (R : reftable) (code : list Z) : result (list (Z * Z * option Z)) :=
  let v := r_version R in
  if tuple_ltb v [3; 6] then unpack_pre36 R code 0 0
  else unpack_word_spec R (tuple_geb v [3; 10]) (tuple_geb v [3; 11]) (tuple_geb v [3; 11]) code 0 0 O.

(* ---- jump targets / findlabels ---- *)
Definition is_backward (R : reftable) (op : Z) : bool := contains "JUMP_BACKWARD" (rname R op).

Definition spec_target (R : reftable) (offset op arg : Z) : option Z :=
  let v := r_version R in
  if zmem op (r_hasjrel R) then
    if tuple_ltb v [3; 6] then Some (offset + 3 + arg)
    else if tuple_ltb v [3; 10] then Some (offset + 2 + arg)
    else
      let a := if tuple_geb v [3; 11] && is_backward R op then - arg else arg in
      Some (offset + 2 + a * 2 + (if tuple_geb v [3; 12] then 2 * rcache R op else 0))
  else if zmem op (r_hasjabs R) then Some (if tuple_geb v [3; 10] then arg * 2 else arg)
  else None.

Definition spec_labels (R : reftable) (us : list (Z * Z * option Z)) : list Z :=
  fold_left (fun acc '(offset, op, arg) =>
    match arg with
    | None => acc
    | Some a => match spec_target R offset op a with
                | Some l =>
                    (* 2.7 .. 3.5: `if label >= 0:` guards the append *)
                    if tuple_ltb (r_version R) [3; 6] && (l <? 0) then acc else add_label l acc
                | None => acc end
    end) us [].

Definition spec_findlabels (R : reftable) (code : list Z) : result (list Z) :=
  do us <- spec_unpack R code; Ok (spec_labels R us).

Definition obs_triples3 (us : list (Z * Z * option Z)) : list Z :=
  [0; zlen us] ++ flat_map (fun '(a, b, c) => [a; b] ++ match c with None => [0] | Some x => [1; x] end) us.
Definition obs_spec_unpack (R : reftable) (code : list Z) : list Z :=
  match spec_unpack R code with Err e => [1; err_code e] | Ok us => obs_triples3 us end.
Definition obs_spec_labels (R : reftable) (code : list Z) : list Z :=
  match spec_findlabels R code with Err e => [1; err_code e] | Ok ls => [0; zlen ls] ++ ls end.

(* CPython 3.11+ location table (Objects/locations.md, codeobject.c advance_with_locations /
   lineiter_next / positionsiter_next; Python/assemble.c write_location_info_xxx).
   A table is the encoding of a list of abstract entries; varints are carried as their
   6-bit digit lists so that every varint length is an ordinary case.  The semantics
   (sem_xxx) is what co_lines() / co_positions() of CPython report; validated against the
   installed 3.11, 3.12, 3.13 by tools/props/c05.py and c17.py. *)
From Xdis Require Import Base.Prelude Base.LE Model.LoadObs.

Definition digits := list Z.     (* little-endian base-64 digits, non-empty, each 0..63 *)
Fixpoint digits_val (ds : digits) : Z := match ds with [] => 0 | d :: r => d + 64 * digits_val r end.
Definition signed_val (ds : digits) : Z :=
  let v := digits_val ds in if v mod 2 =? 1 then - (v / 2) else v / 2.
Fixpoint enc_digits (ds : digits) : list Z :=
  match ds with [] => [] | [d] => [d] | d :: r => (64 + d) :: enc_digits r end.
Definition digits_ok (ds : digits) : bool := negb (Nat.eqb (List.length ds) 0) && forallb (fun d => (0 <=? d) && (d <? 64)) ds.

Inductive loc_entry :=
| LShort (len code second : Z)                 (* same line; code 0..9 carries column bits *)
| LOneLine (len ld col endcol : Z)             (* line delta 0..2, one-byte columns *)
| LNoCol (len : Z) (ld : digits)               (* signed line delta, no columns *)
| LLong (len : Z) (ld nlines col endcol : digits)   (* columns stored +1; 0 = none *)
| LNone (len : Z).

Definition entry_len (e : loc_entry) : Z :=
  match e with LShort l _ _ | LOneLine l _ _ _ | LNoCol l _ | LLong l _ _ _ _ | LNone l => l end.

Definition entry_ok (e : loc_entry) : bool :=
  (1 <=? entry_len e) && (entry_len e <=? 8) &&
  match e with
  | LShort _ code second => (0 <=? code) && (code <=? 9) && (0 <=? second) && (second <? 128)
  | LOneLine _ ld col endcol => (0 <=? ld) && (ld <=? 2) && (0 <=? col) && (col <? 128) && (0 <=? endcol) && (endcol <? 128)
  | LNoCol _ ld => digits_ok ld
  | LLong _ ld nl c ec => digits_ok ld && digits_ok nl && digits_ok c && digits_ok ec
  | LNone _ => true
  end.

Definition header (code len : Z) : Z := 128 + code * 8 + (len - 1).

Definition encode_entry (e : loc_entry) : list Z :=
  match e with
  | LShort len code second => [header code len; second]
  | LOneLine len ld col endcol => [header (10 + ld) len; col; endcol]
  | LNoCol len ld => header 13 len :: enc_digits ld
  | LLong len ld nl c ec => header 14 len :: enc_digits ld ++ enc_digits nl ++ enc_digits c ++ enc_digits ec
  | LNone len => [header 15 len]
  end.
Definition encode_entries (es : list loc_entry) : list Z := flat_map encode_entry es.

(* line delta an entry applies to the running line *)
Definition entry_delta (e : loc_entry) : Z :=
  match e with
  | LShort _ _ _ => 0
  | LOneLine _ ld _ _ => ld
  | LNoCol _ ld => signed_val ld
  | LLong _ ld _ _ _ => signed_val ld
  | LNone _ => 0
  end.
Definition is_none (e : loc_entry) : bool := match e with LNone _ => true | _ => false end.

Definition col_of (v : Z) : option Z := if v =? 0 then None else Some (v - 1).

(* (line, end line, column, end column) of an entry, given the line after applying its delta *)
Definition entry_pos (e : loc_entry) (line : Z) : option Z * option Z * option Z * option Z :=
  match e with
  | LShort _ code second => let c := code * 8 + second / 16 in (Some line, Some line, Some c, Some (c + second mod 16))
  | LOneLine _ _ col endcol => (Some line, Some line, Some col, Some endcol)
  | LNoCol _ _ => (Some line, Some line, None, None)
  | LLong _ _ nl c ec => (Some line, Some (line + digits_val nl), col_of (digits_val c), col_of (digits_val ec))
  | LNone _ => (None, None, None, None)
  end.

(* co_positions(): one 4-tuple per code unit *)
Fixpoint sem_positions (line : Z) (es : list loc_entry) : list (option Z * option Z * option Z * option Z) :=
  match es with
  | [] => []
  | e :: r => let line' := line + entry_delta e in
              repeat (entry_pos e line') (Z.to_nat (entry_len e)) ++ sem_positions line' r
  end.

(* the per-entry view xdis's co_positions() returns: (code units, line, end line, col, end col) *)
Fixpoint sem_entries (line : Z) (es : list loc_entry) : list (Z * option Z * option Z * option Z * option Z) :=
  match es with
  | [] => []
  | e :: r => let line' := line + entry_delta e in
              let '(a, b, c, d) := entry_pos e line' in
              (entry_len e, a, b, c, d) :: sem_entries line' r
  end.

(* co_lines(): byte ranges; 3.11 yields one range per entry, 3.12+ merges neighbours whose
   line is equal *)
Definition entry_line (e : loc_entry) (line : Z) : option Z := if is_none e then None else Some line.
Definition oz_eqb (a b : option Z) : bool :=
  match a, b with Some x, Some y => x =? y | None, None => true | _, _ => false end.

Fixpoint sem_lines_go (merged : bool) (es : list loc_entry) (line start stop : Z) (cur : option Z) : list (Z * Z * option Z) :=
  match es with
  | [] => [(start, stop, cur)]
  | e :: r => let line' := line + entry_delta e in
              let l := entry_line e line' in
              if merged && oz_eqb l cur then sem_lines_go merged r line' start (stop + 2 * entry_len e) cur
              else (start, stop, cur) :: sem_lines_go merged r line' stop (stop + 2 * entry_len e) l
  end.
Definition sem_lines (merged : bool) (first : Z) (es : list loc_entry) : list (Z * Z * option Z) :=
  match es with
  | [] => []
  | e :: r => let line' := first + entry_delta e in
              sem_lines_go merged r line' 0 (2 * entry_len e) (entry_line e line')
  end.

Definition obs_positions (ps : list (option Z * option Z * option Z * option Z)) : list Z :=
  [0; zlen ps] ++ flat_map (fun '(a, b, c, d) => oopt a ++ oopt b ++ oopt c ++ oopt d) ps.

(* What magic a final CPython release writes, read off CPython's own registry
   (Gen/RefMagics.v, generated from the installed 3.13's importlib source). *)
From Xdis Require Import Base.Prelude Gen.RefMagics.

(* last registry row carrying (major, minor) *)
Fixpoint last_row (maj min : Z) (rows : list (Z * Z * Z)) (acc : option Z) : option Z :=
  match rows with
  | [] => acc
  | (m, a, b) :: r => last_row maj min r (if (a =? maj) && (b =? min) then Some m else acc)
  end.

(* The magic of the final releases maj.min.micro.  One micro-level exception in
   CPython's history: 3.5.0 and 3.5.1 write 3350, 3.5.2 and later 3351. *)
Definition final_magic (maj min micro : Z) : option Z :=
  if (maj =? 3) && (min =? 5) && (micro <? 2) then Some 3350
  else last_row maj min registry None.

(* CPython 3.11+ exception table: dis._parse_exception_table (identical in 3.11, 3.12,
   3.13) and the encoder of Python/assemble.c (assemble_emit_exception_table_entry):
   four varints per entry, 6 bits per byte, most significant first, bit 6 = "more",
   bit 7 marks the first byte of an entry. Varints are carried as digit lists so every
   varint length is an ordinary case. *)
From Xdis Require Import Base.Prelude.

Definition bdigits := list Z.   (* most significant first, non-empty, each 0..63 *)
Definition bdigits_val (ds : bdigits) : Z := fold_left (fun acc d => acc * 64 + d) ds 0.
Definition bdigits_ok (ds : bdigits) : bool := negb (Nat.eqb (List.length ds) 0) && forallb (fun d => (0 <=? d) && (d <? 64)) ds.

Fixpoint enc_bdigits (ds : bdigits) : list Z :=
  match ds with [] => [] | [d] => [d] | d :: r => (64 + d) :: enc_bdigits r end.
Definition mark_first (l : list Z) : list Z := match l with [] => [] | b :: r => (128 + b) :: r end.

Record xentry := { x_start : bdigits; x_size : bdigits; x_target : bdigits; x_dl : bdigits }.
Definition xentry_ok (e : xentry) : bool :=
  bdigits_ok (x_start e) && bdigits_ok (x_size e) && bdigits_ok (x_target e) && bdigits_ok (x_dl e).

Definition encode_xentry (e : xentry) : list Z :=
  mark_first (enc_bdigits (x_start e)) ++ enc_bdigits (x_size e) ++ enc_bdigits (x_target e) ++ enc_bdigits (x_dl e).
Definition encode_xtable (es : list xentry) : list Z := flat_map encode_xentry es.

(* what CPython reports for the entry: offsets in bytes, depth, lasti *)
Definition sem_xentry (e : xentry) : Z * Z * Z * Z * bool :=
  let s := bdigits_val (x_start e) * 2 in
  let dl := bdigits_val (x_dl e) in
  (s, s + bdigits_val (x_size e) * 2, bdigits_val (x_target e) * 2, dl / 2, dl mod 2 =? 1).

Definition obs_xsem (es : list xentry) : list Z :=
  [0; zlen es] ++ flat_map (fun e => let '(s, e', t, d, l) := sem_xentry e in [s; e'; t; d; if l : bool then 1 else 0]) es.
Definition xtable_lit := list xentry.

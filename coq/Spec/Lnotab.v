(* dis.findlinestarts for co_lnotab, transcribed from CPython's Lib/dis.py:
   2.7 .. 3.5 : unsigned line increments
   3.6, 3.7   : signed line increments
   3.8, 3.9   : signed, and stop once the address is past the end of the bytecode
   and the reference meaning of offset2line.  Validated against the installed
   interpreters by tools/props/c05.py. *)
From Xdis Require Import Base.Prelude Model.LineStarts.

Fixpoint spec_ls (signed stop : bool) (codelen : Z) (ps : list (Z * Z)) (addr lineno : Z) (last : option Z) : list (Z * Z) :=
  match ps with
  | [] => if differs lineno last then [(addr, lineno)] else []
  | (bi, li) :: r =>
      let li' := if signed && (128 <=? li) then li - 256 else li in
      if bi =? 0 then spec_ls signed stop codelen r addr (lineno + li') last
      else
        let emit := differs lineno last in
        let last' := if emit then Some lineno else last in
        let addr' := addr + bi in
        (if emit then [(addr, lineno)] else [])
        ++ (if stop && (codelen <=? addr') then [] else spec_ls signed stop codelen r addr' (lineno + li') last')
  end.

Definition spec_findlinestarts_pre36 (first codelen : Z) (lnotab : list Z) := spec_ls false false codelen (pairs lnotab) 0 first None.
Definition spec_findlinestarts_36_37 (first codelen : Z) (lnotab : list Z) := spec_ls true false codelen (pairs lnotab) 0 first None.
Definition spec_findlinestarts_38_39 (first codelen : Z) (lnotab : list Z) := spec_ls true true codelen (pairs lnotab) 0 first None.

(* the line of the greatest start offset <= offset; 0 when there is none *)
Fixpoint line_at (offset : Z) (ls : list (Z * Z)) (acc : Z) : Z :=
  match ls with
  | [] => acc
  | (o, l) :: r => if o <=? offset then line_at offset r l else acc
  end.

Fixpoint sorted_strict (ls : list (Z * Z)) : Prop :=
  match ls with
  | [] => True
  | (o, _) :: r => match r with [] => True | (o', _) :: _ => o < o' end /\ sorted_strict r
  end.

(* C20 - xdis.std is a faithful drop-in for the host's dis module: the glue proved here; the decoders it is glued
   around are C02 (instruction stream), C03 (argval), C04 (labels, is_jump_target), C05/C17 (line starts), C09 (tables). *)
From Coq Require Import ZArith List String Bool.
From Xdis Require Import Base.Prelude Gen.StdApi Model.StdApi Proofs.StdApiProofs.
Import ListNotations.
Local Open Scope Z_scope.

(* Object-to-code coercion: for every host 3.8-3.13 (its dis._get_code_object translated from its dis.py), every way of
   compiling source strings and EVERY object - functions, methods (through __func__), generators, async generators,
   coroutines, code objects, source strings, and objects that are none of these - in whose attribute tree nothing is
   called func_code (the Python 2 spelling xdis also tries): xdis.get_code_object returns the same code object, or
   raises TypeError, exactly as dis does. *)
Theorem C20_same_code_object : forall host dchain compile o,
  In (host, dchain) dis_code_chain ->
  (forall s, lacks "func_code" (compile s) = true) -> lacks "func_code" o = true ->
  eval_chain compile xdis_code_chain o = eval_chain compile dchain o.
Proof.
  intros host dchain compile o Hin Hc Ho.
  pose proof chains_ok_true as H. unfold chains_ok in H. apply andb_true_iff in H. destruct H as [H _].
  rewrite forallb_forall in H. specialize (H (host, dchain) Hin). cbn [snd] in H.
  apply (chain_sound "func_code" compile Hc _ _ o H Ho).
Qed.

Theorem C20_hosts_covered : map fst dis_code_chain = [[3; 8]; [3; 9]; [3; 10]; [3; 11]; [3; 12]; [3; 13]].
Proof. vm_compute. reflexivity. Qed.

(* first_line: the reported line is starts_line + (first_line - co_firstlineno), nothing for instructions that start no line,
   unchanged without first_line - dis's rule (dis.get_instructions / _get_instructions_bytes line_offset). *)
Theorem C20_first_line_shift : forall first firstlineno l,
  shift_line (Some first) firstlineno (Some l) = Some (l + (first - firstlineno))
  /\ shift_line None firstlineno (Some l) = Some (l + 0)
  /\ shift_line (Some first) firstlineno None = None.
Proof. intros. repeat split. Qed.

Definition ex_code := PyObj false [("co_code"%string, PyObj false [])].
Definition ex_fn := PyObj false [("__code__"%string, ex_code)].
Definition ex_method := PyObj false [("__func__"%string, ex_fn); ("__self__"%string, PyObj false [])].
Definition ex_gen := PyObj false [("gi_code"%string, ex_code)].

Example C20_nonvacuous :
  eval_chain (fun _ => ex_code) xdis_code_chain ex_method = OCode ex_code
  /\ eval_chain (fun _ => ex_code) xdis_code_chain ex_gen = OCode ex_code
  /\ eval_chain (fun _ => ex_code) xdis_code_chain (PyObj true []) = OCode ex_code
  /\ eval_chain (fun _ => ex_code) xdis_code_chain (PyObj false []) = OTypeError
  /\ lacks "func_code" ex_method = true.
Proof. repeat split; vm_compute; reflexivity. Qed.

(* C10 - every marshal encoding of a constant decodes to the same value.
   `r_object fuel (cpy_cfg m)` is CPython's marshal.c reader for the bytecode version of magic m
   (strict: sizes, digits, references and type codes validated; NULL in reserved reference slots);
   `r_object fuel (xdis_cfg m)` is xdis's reader (Model/Unmarshal.v, permissive Python behaviours,
   placeholders in reserved slots).  Both are run against their originals on every check. *)
From Xdis Require Import Base.Prelude Base.Result Model.Unmarshal Model.UnmarshalObs Gen.Magics Gen.Dispatch
  Proofs.UnmarshalProofs Proofs.C10Tables.

(* For every magic xdis knows, every byte stream and every state of the reference / interned-string
   tables that CPython could be in: whenever CPython's reader yields a value, xdis's reader yields
   the SAME value (kind and content, whatever encoding was used: any type code, FLAG_REF on any
   object, back-references, containers of any size, None keys and values ...), consumes exactly the
   same bytes, and leaves related tables - so shared sub-objects are equal at every later reference. *)
Theorem C10_agree : forall m fuel ss sm v ss', In m all_magics -> st_rel ss sm ->
  r_object fuel (cpy_cfg m) ss = Ok (v, ss') ->
  exists sm', r_object fuel (xdis_cfg m) sm = Ok (v, sm') /\ st_rel ss' sm'.
Proof. intros m fuel ss sm v ss' Hin. exact (r_object_agree _ _ (cfg_rel_magic m Hin) fuel ss sm v ss'). Qed.

(* top level: a whole payload *)
Theorem C10_load : forall m bs v st, In m all_magics -> load (cpy_cfg m) bs = Ok (v, st) ->
  exists st', load (xdis_cfg m) bs = Ok (v, st') /\ inp st' = inp st.
Proof.
  intros m bs v st Hin H. unfold load in *.
  assert (Hr : st_rel (init_state bs) (init_state bs)) by (unfold st_rel; cbn; auto).
  destruct (r_object_agree _ _ (cfg_rel_magic m Hin) _ _ _ _ _ Hr H) as (st' & E & (R1 & _)).
  exists st'. split; [exact E|symmetry; exact R1].
Qed.

(* the type-code dispatch table of the source is the one the model assumes (e.g. '<' set, '>' frozenset) *)
Theorem C10_dispatch : dispatch_ok = true.
Proof. exact dispatch_ok_true. Qed.

Example C10_nonvacuous :
  load (cpy_cfg 3531) [219; 2; 0; 0; 0; 233; 5; 0; 0; 0; 114; 1; 0; 0; 0] = load (xdis_cfg 3531) [219; 2; 0; 0; 0; 233; 5; 0; 0; 0; 114; 1; 0; 0; 0]
  /\ (exists st, load (cpy_cfg 3531) [219; 2; 0; 0; 0; 233; 5; 0; 0; 0; 114; 1; 0; 0; 0] = Ok (PList [PInt 5; PInt 5], st))
  /\ In 3531 all_magics.
Proof. split; [vm_compute; reflexivity|]. split; [eexists; vm_compute; reflexivity|]. vm_compute. tauto. Qed.

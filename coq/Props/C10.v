From Xdis Require Import Base.Prelude.

(* C12 - listings are faithful to the instruction stream (classic / bytes; row prefixes of the extended formats).
   Totality on valid files and stream cleanliness are runtime observations: see tools/props/c12.py. *)
From Coq Require Import ZArith List Bool String Sorted.
From Xdis Require Import Base.Prelude Model.Listing Proofs.ListingProofs.
Import ListNotations.
Local Open Scope Z_scope.

(* For every instruction stream and every format: the rows of the listing are, in order and once each, the instructions
   the format shows (all of them for `bytes`, all but CACHE otherwise), each with its own offset, opcode, name, operand,
   operand text, jump-target flag and size. *)
Theorem C12_once_in_order : forall f is,
  map key (rows (events f None is)) = map key (filter (shown f) is)
  /\ (forall i, shown Classic i = negb (is_cache i)) /\ (forall i, shown Bytes i = true).
Proof. intros f is. split; [apply listing_rows_keys | split; [exact shown_classic | exact shown_bytes]]. Qed.

(* Offsets increase strictly along a decoded stream (C02), so along the listing too: no instruction is listed twice. *)
Theorem C12_offsets_once : forall f is, StronglySorted Z.lt (map li_off is) ->
  StronglySorted Z.lt (map li_off (rows (events f None is))) /\ NoDup (map li_off (rows (events f None is))).
Proof. exact listing_offsets_once. Qed.

(* Line numbers: the rows are the shown instructions of the stream `lined is`, which differs from `is` in the line field
   only, and there an instruction carries its own starts_line unless it follows SET_LINENO (then that operand). *)
Theorem C12_line_numbers : forall f is,
  rows (events f None is) = filter (shown f) (lined is)
  /\ map key (lined is) = map key is
  /\ map li_line (lined is) = spec_lines None is.
Proof. intros f is. split; [apply listing_rows_lined | split; [apply lined_keys | apply lined_lines]]. Qed.

(* The text: one line per row; it begins with the line-number column (blank iff the row starts no line), the '>>' column
   (set iff the instruction is a jump target) and the offset in decimal, which determines the offset. *)
Theorem C12_row_columns : forall f i,
  (exists rest, row_text f i = line_field i ++ 32 :: spaces 3 ++ 32 :: mark_field i ++ 32 :: rjust 4 (dec (li_off i)) ++ 32 :: rest)
  /\ (exists rest, row_prefix f i = line_field i ++ 32 :: spaces 3 ++ 32 :: mark_field i ++ 32 :: rjust 4 (dec (li_off i)) ++ 32 :: rest)
  /\ (mark_field i = s2z ">>" <-> li_target i = true)
  /\ (li_line i = None <-> line_field i = spaces 4)
  /\ (forall n, li_line i = Some n -> line_field i = rjust 3 (dec n) ++ [58]).
Proof.
  intros f i. split; [apply row_text_shape | split; [apply row_prefix_shape | split; [apply mark_iff_target | split; [apply line_field_none | apply line_field_some]]]].
Qed.

Theorem C12_decimal_injective : forall a b, 0 <= a -> 0 <= b -> dec a = dec b -> a = b.
Proof. exact dec_nonneg_inj. Qed.

(* ... also through the padding of the offset column: two rows with different offsets never show the same offset column, so with
   C12_offsets_once no instruction of a decoded stream is listed under another's offset *)
Theorem C12_offset_column_injective : forall a b, 0 <= a -> 0 <= b -> rjust 4 (dec a) = rjust 4 (dec b) -> a = b.
Proof. exact offset_column_inj. Qed.

Definition ex_instrs : list linstr :=
  [ mk_linstr 0 127 (s2z "SET_LINENO") (Some 7) [] (Some 7) false None 3 true;
    mk_linstr 3 100 (s2z "LOAD_CONST") (Some 0) (s2z "None") None true (Some 1) 3 true;
    mk_linstr 6 0 (s2z "CACHE") None [] None false None 2 false;
    mk_linstr 8 83 (s2z "RETURN_VALUE") None [] None false (Some 9) 1 false ].

Example C12_nonvacuous :
  map li_off (rows (events Classic None ex_instrs)) = [0; 3; 8]
  /\ map li_line (rows (events Classic None ex_instrs)) = [None; Some 7; Some 9]
  /\ listing_text Classic ex_instrs
     = s2z "               0 SET_LINENO           7" ++ 10 :: 10 :: s2z "  7:     >>    3 LOAD_CONST           (None)" ++ 10 :: 10 ::
       s2z "  9:           8 RETURN_VALUE" ++ [10].
Proof. repeat split; vm_compute; reflexivity. Qed.

(* C09 - Opcode tables match the interpreter's own opcode module.
   Gen.Opcodes is regenerated from /repo on every run (39 tables reachable from
   op_imports); Gen.RefOpcodes from the opcode modules of the installed CPythons. *)
From Xdis Require Import Base.Prelude Base.OpTable Gen.Opcodes Gen.RefOpcodes Proofs.OpcodeChecks Proofs.C09Tables.

(* For every table: names <-> numbers of defined opcodes are a bijection (modulo the
   documented '+' -> '_' renaming); every categorised opcode is defined and takes an
   operand unless CPython's table has the same gap; no opcode is both a relative and an
   absolute jump; EXTENDED_ARG and its shift width are right for the version; the frozen
   category sets the decoder reads equal the category lists; the label finder bound is
   the byte-code one up to 3.5 and the word-code one from 3.6. *)
Theorem C09_coherent : forall t, In t all_tables ->
  chk_bijection t = [] /\ chk_categories t = [] /\ chk_disjoint t = [] /\
  chk_extended t = [] /\ chk_frozen t = [] /\ chk_finder t = [].
Proof. intros t H. apply split6. exact (table_ok t H). Qed.

(* The jump class of the opcodes that keep it in every CPython release that has them, by NAME - which reaches the tables of versions
   with no interpreter here (1.0-2.6, 3.0-3.5, PyPy): FOR_LOOP, JUMP_FORWARD, SETUP_LOOP, SETUP_EXCEPT, FOR_ITER are relative jumps,
   JUMP_ABSOLUTE and CONTINUE_LOOP absolute ones, in every table that defines them. *)
Theorem C09_jump_classes_by_name : forall t, In t all_tables -> chk_jump_names t = [].
Proof. exact table_jump_names_ok. Qed.

(* For every table whose interpreter is installed (2.7, 3.6-3.13): opmap, HAVE_ARGUMENT,
   EXTENDED_ARG and the seven operand categories equal that interpreter's opcode module. *)
Theorem C09_matches_oracle : forall t, In t all_tables -> oracle_failures_t t = [].
Proof. exact table_oracle_ok. Qed.

Theorem C09_oracle_scope : tables_with_oracle =
  ["opcode_27"; "opcode_310"; "opcode_311"; "opcode_312"; "opcode_313"; "opcode_36"; "opcode_37"; "opcode_38"; "opcode_39"]%string.
Proof. exact oracle_scope_ok. Qed.

Theorem C09_keymap : keymap_failures = [].
Proof. exact keymap_ok. Qed.

Example C09_nonvacuous : existsb (fun t => String.eqb (t_name t) "opcode_312" && is_some (ref_for t) && (100 <? zlen (t_opmap t))%Z) all_tables = true.
Proof. exact nonvacuous_ok. Qed.

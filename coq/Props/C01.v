(* C01 - unmarshalled code objects equal what the producing CPython itself loads. *)
From Xdis Require Import Base.Prelude Base.Result Model.Unmarshal Model.UnmarshalObs Gen.Magics Gen.Dispatch
  Proofs.UnmarshalProofs Proofs.C10Tables.

(* A code object is a value of the same reader: whenever CPython's marshal of the bytecode's
   version loads a payload to a code-object tree, xdis's reader returns the same tree - every
   integer field, code bytes, constants (recursively, incl. nested code), names, variable / free /
   cell names, filename, name, qualified name, first line, line table, exception table, per the
   field layout of that version - and has consumed exactly the same bytes. *)
Theorem C01_load : forall m bs ints objs st, In m all_magics ->
  load (cpy_cfg m) bs = Ok (PCode ints objs, st) ->
  exists st', load (xdis_cfg m) bs = Ok (PCode ints objs, st') /\ inp st' = inp st.
Proof.
  intros m bs ints objs st Hin H. unfold load in *.
  assert (Hr : st_rel (init_state bs) (init_state bs)) by (unfold st_rel; cbn; auto).
  destruct (r_object_agree _ _ (cfg_rel_magic m Hin) _ _ _ _ _ Hr H) as (st' & E & (R1 & _)).
  exists st'. split; [exact E|symmetry; exact R1].
Qed.

(* 3.11+: co_varnames / co_cellvars / co_freevars rebuilt from localsplusnames + localspluskinds are
   CPython's three filters over the same tables (a parameter that is also a cell is in both lists) *)
Theorem C01_localsplus : forall names kinds, kinds_wf kinds = true ->
  split_localsplus names kinds = (filter_kind k_local names kinds, filter_kind k_cell names kinds, filter_kind k_free names kinds).
Proof. exact split_localsplus_filters. Qed.

Example C01_localsplus_nonvacuous :
  kinds_wf [96; 32; 64; 128] = true /\
  split_localsplus [PText [97]; PText [98]; PText [99]; PText [100]] [96; 32; 64; 128]
  = ([PText [97]; PText [98]], [PText [97]; PText [99]], [PText [100]]).
Proof. split; reflexivity. Qed.

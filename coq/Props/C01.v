(* C01 - unmarshalled code objects equal what the producing CPython itself loads. *)
From Xdis Require Import Base.Prelude Base.Result Model.Unmarshal Model.UnmarshalObs Gen.Magics Gen.Dispatch
  Proofs.UnmarshalProofs Proofs.C10Tables
  Base.LE Model.Magic Model.Load Gen.RefMagics Spec.Registry Spec.Header Proofs.HeaderDefs Proofs.HeaderProofs Model.Marsh.

(* A code object is a value of the same reader: whenever CPython's marshal of the bytecode's
   version loads a payload to a code-object tree, xdis's reader returns the same tree - every
   integer field, code bytes, constants (recursively, incl. nested code), names, variable / free /
   cell names, filename, name, qualified name, first line, line table, exception table, per the
   field layout of that version - and has consumed exactly the same bytes. *)
Theorem C01_load : forall m bs ints objs st, In m all_magics ->
  load (cpy_cfg m) bs = Ok (PCode ints objs, st) ->
  exists st', load (xdis_cfg m) bs = Ok (PCode ints objs, st') /\ inp st' = inp st.
Proof.
  intros m bs ints objs st Hin H. unfold load in *.
  assert (Hr : st_rel (init_state bs) (init_state bs)) by (unfold st_rel; cbn; auto).
  destruct (r_object_agree _ _ (cfg_rel_magic m Hin) _ _ _ _ _ Hr H) as (st' & E & (R1 & _)).
  exists st'. split; [exact E|symmetry; exact R1].
Qed.

(* 3.11+: co_varnames / co_cellvars / co_freevars rebuilt from localsplusnames + localspluskinds are
   CPython's three filters over the same tables (a parameter that is also a cell is in both lists) *)
Theorem C01_localsplus : forall names kinds, kinds_wf kinds = true ->
  split_localsplus names kinds = (filter_kind k_local names kinds, filter_kind k_cell names kinds, filter_kind k_free names kinds).
Proof. exact split_localsplus_filters. Qed.

Example C01_localsplus_nonvacuous :
  kinds_wf [96; 32; 64; 128] = true /\
  split_localsplus [PText [97]; PText [98]; PText [99]; PText [100]] [96; 32; 64; 128]
  = ([PText [97]; PText [98]], [PText [97]; PText [99]], [PText [100]]).
Proof. split; reflexivity. Qed.

(* load_module as a whole: header parser, then the unmarshaller on the bytes after the header.  For the file of EVERY released magic
   (CPython's registry and the PyPy files of the corpus) and EVERY byte string after the magic: when the producing version's file format
   yields header fields f (C06's spec) and CPython's own marshal of that version loads the bytes after them to a code-object tree,
   load_module's model returns that version, those header fields, and the same tree, having consumed exactly the same bytes. *)
Lemma released_magics_known : forallb (fun '(m, _, _) => zmem (norm_magic m) all_magics) released_all = true.
Proof. vm_compute. reflexivity. Qed.

Theorem C01_load_module : forall name_pypy38 m v mb r ts size sip rest ints objs st,
  In (m, v, mb) released_all -> bytes_ok r = true ->
  spec_fields (spec_kind v) r = Some (ts, size, sip, rest) ->
  load (cpy_cfg (norm_magic m)) rest = Ok (PCode ints objs, st) ->
  exists h st', parse_header name_pypy38 (mb ++ r) = Ok h /\ firstn 2 (h_version h) = v /\ h_magic_int h = norm_magic m
    /\ h_timestamp h = ts /\ h_size h = size /\ h_sip h = sip
    /\ load (xdis_cfg (h_magic_int h)) (h_rest h) = Ok (PCode ints objs, st') /\ inp st' = inp st.
Proof.
  intros p m v mb r ts size sip rest ints objs st Hin Hb Hf Hl.
  destruct (header_agree_all p m v mb r (ts, size, sip, rest) Hin Hb Hf) as (h & Hp & Hv & Hm & Hfields).
  inversion Hfields as [[H1 H2 H3 H4]].
  assert (Hk : In (norm_magic m) all_magics).
  { pose proof (proj1 (forallb_forall _ _) released_magics_known (m, v, mb) Hin) as Hz. cbv beta iota in Hz.
    unfold zmem in Hz. apply existsb_exists in Hz. destruct Hz as (x & Hx & E). apply Z.eqb_eq in E. subst x. exact Hx. }
  destruct (C01_load (norm_magic m) rest ints objs st Hk Hl) as (st' & E & Ei).
  exists h, st'. rewrite Hm, H4. repeat split; try reflexivity; try assumption.
Qed.

(* the premises are met by a real file shape: a 3.8 timestamp pyc (flags 0, mtime 7, size 9) holding a one-function module *)
Definition ex_mod38 : pv :=
  PCode [0; 0; 0; 0; 1; 64; 1]
        [PBin [100; 0; 83; 0]; PTuple [PNone; PInt 7; PFloat 4609434218613702656; PFrozenSet [PText [97]]]; PTuple [PText [120]]; PTuple []; PTuple []; PTuple [];
         PText [102; 46; 112; 121]; PText [60; 109; 62]; PNone; PBin [0; 1]; PNone].
Example C01_load_module_nonvacuous :
  let payload := dumps (fun _ => [49; 46; 53]) true false ex_mod38 in
  existsb (fun '(m, v, mb) => (m =? 3413) && zlist_eqb v [3; 8] && zlist_eqb mb [85; 13; 13; 10]) released_all = true
  /\ bytes_ok ([0; 0; 0; 0; 7; 0; 0; 0; 9; 0; 0; 0] ++ payload) = true
  /\ spec_fields (spec_kind [3; 8]) ([0; 0; 0; 0; 7; 0; 0; 0; 9; 0; 0; 0] ++ payload) = Some (Some 7, Some 9, None, payload)
  /\ match load (cpy_cfg (norm_magic 3413)) payload with Ok (PCode _ (_ :: PTuple [PNone; PInt 7; PFloatText [49; 46; 53]; PFrozenSet [PText [97]]] :: _), st) => inp st = [] | _ => False end.
Proof. repeat split; vm_compute; reflexivity. Qed.

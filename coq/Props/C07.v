(* C07 - results do not depend on the host Python or on which loader path is taken. *)
From Coq Require Import ZArith List String Bool.
From Xdis Require Import Base.Prelude Base.Result Gen.HostSites Model.HostIndep Model.Unmarshal Model.UnmarshalObs Gen.Magics Gen.Dispatch
  Proofs.UnmarshalProofs Proofs.C10Tables.
Import ListNotations.

(* Host: every test the package makes on the identity of the running interpreter (regenerated from the AST of /repo on every
   run and evaluated for 3.8.18, 3.9.18, 3.10.13, 3.11.7, 3.12.1, 3.13.0) has one and the same value on all six hosts, except
   the to_native() guards, whose purpose is to differ; and the host's identity is passed on as a value only at the listed
   sites, none of which lies between a file's bytes and its decoded content or listing. *)
Theorem C07_host_sites : host_tests_ok = true /\ host_uses_ok = true /\ (20 <=? Z.of_nat (List.length host_tests))%Z = true.
Proof. repeat split; vm_compute; reflexivity. Qed.

(* Loader path: the one host-dependent switch in the load path picks CPython's own marshal when the file is of the host's
   version.  For every magic and every payload, whenever CPython's reader (the fast path) yields a code-object tree, xdis's
   reader (the portable path) yields the same tree, all fields, and stops at the same byte (this is C01's theorem; the
   conversion of native code objects, the third path, is C16's). *)
Theorem C07_paths : forall m bs ints objs st, In m all_magics ->
  load (cpy_cfg m) bs = Ok (PCode ints objs, st) ->
  exists st', load (xdis_cfg m) bs = Ok (PCode ints objs, st') /\ inp st' = inp st.
Proof.
  intros m bs ints objs st Hin H. unfold load in *.
  assert (Hr : st_rel (init_state bs) (init_state bs)) by (unfold st_rel; cbn; auto).
  destruct (r_object_agree _ _ (cfg_rel_magic m Hin) _ _ _ _ _ Hr H) as (st' & E & (R1 & _)).
  exists st'. split; [exact E|symmetry; exact R1].
Qed.

Example C07_nonvacuous :
  existsb (fun s => negb (constant (snd s))) host_tests = true                       (* some test does vary (to_native) *)
  /\ existsb (fun s => constant (snd s) && negb (hd true (snd s))) host_tests = true  (* some test is constantly false *)
  /\ constant [true; true; false] = false.
Proof. repeat split; vm_compute; reflexivity. Qed.

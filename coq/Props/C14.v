(* C14 - xdis.marsh and the built-in marshal are interchangeable on plain values (partial: see below). *)
From Xdis Require Import Base.Prelude Base.Result Base.LE Model.Unmarshal Model.Marsh Proofs.MarshProofs.

(* dump_long's 15-bit digits of any non-negative integer: they denote the integer, each is a valid
   marshal digit, and the most significant one is non-zero - exactly what marshal.c's reader
   requires of an 'l' object (and what load_long sums back).  Unbounded in the magnitude. *)
Theorem C14_long_codec_partial : forall x, 0 <= x ->
  let ds := to_digits (digits_fuel x) x in
  digits_value ds 0 = x /\ Forall (fun d => 0 <= d < 32768) ds /\ (forall p d, ds = p ++ [d] -> d <> 0).
Proof. exact long_codec. Qed.

Example C14_nonvacuous : to_digits (digits_fuel (2 ^ 200 + 12345)) (2 ^ 200 + 12345) <> [] /\ dump_long (-32768) = [108; 254; 255; 255; 255; 0; 0; 1; 0].
Proof. split; [vm_compute; discriminate | vm_compute; reflexivity]. Qed.

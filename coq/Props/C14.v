(* C14 - xdis.marsh and the built-in marshal are interchangeable on plain values. *)
From Xdis Require Import Base.Prelude Base.Result Base.LE Base.Utf8 Model.Unmarshal Model.UnmarshalObs Model.Marsh Gen.Magics Gen.Dispatch
  Proofs.MarshProofs Proofs.C10Tables Proofs.MarshRoundTrip Proofs.C14Tables.

(* dump_long's 15-bit digits of any non-negative integer: they denote the integer, each is a valid
   marshal digit, and the most significant one is non-zero - exactly what marshal.c's reader
   requires of an 'l' object (and what load_long sums back).  Unbounded in the magnitude. *)
Theorem C14_long_codec : forall x, 0 <= x ->
  let ds := to_digits (digits_fuel x) x in
  digits_value ds 0 = x /\ Forall (fun d => 0 <= d < 32768) ds /\ (forall p d, ds = p ++ [d] -> d <> 0).
Proof. exact long_codec. Qed.

(* xdis.marsh.loads(xdis.marsh.dumps(v)) = v for EVERY plain value tree: None, True, False, Ellipsis, StopIteration, integers
   of any magnitude, floats and complex numbers (written as text: what comes back is the decimal string dumps wrote), bytes,
   text that is valid UTF-8 (surrogatepass), and tuples, lists, sets, frozensets and dicts of such values to any depth, any
   container below 2^31 items - whatever `repr_float` is.  `load` is the shared reader model under xdis.marsh's
   configuration with the fuel it always gets; nothing is left unread and no reference table is touched. *)
Definition plain_wfv (c : cfg) : pv -> Prop := wfv false c false.      (* no code objects: those are C13's *)

Theorem C14_xdis_loads_dumps : forall (repr_float : Z -> list Z) v, plain_wfv marsh_cfg v ->
  load marsh_cfg (dumps repr_float false false v) = Ok (textify repr_float v, {| inp := []; refs := []; strs := [] |}).
Proof.
  intros repr_float v Hw.
  exact (loads_dumps repr_float false false marsh_cfg marsh_cfg_ok false (fun H => False_ind _ (Bool.diff_false_true H)) v Hw).
Qed.

(* marshal.loads(xdis.marsh.dumps(v)) = v: the same for CPython's own reader (the strict configuration validated against
   marshal.loads of the installed interpreters in C10), for the magic of every Python 3 version in xdis's table - its range
   checks on counts, digits and references, its NULL checks and its UTF-8 decoding all pass on what dumps writes. *)
Theorem C14_cpython_loads_dumps : forall m (repr_float : Z -> list Z) v, In m all_magics -> py3_magic m = true -> plain_wfv (cpy_cfg m) v ->
  load (cpy_cfg m) (dumps repr_float false false v) = Ok (textify repr_float v, {| inp := []; refs := []; strs := [] |}).
Proof.
  intros m repr_float v Hin H3 Hw.
  exact (loads_dumps repr_float false false (cpy_cfg m) (cpy_cfg_ok m Hin H3) false (fun H => False_ind _ (Bool.diff_false_true H)) v Hw).
Qed.

(* xdis.marsh.loads(marshal.dumps(v, 0 | 1)) = v: the third direction.  `dumps g17 false true` is CPython's own w_object for format
   versions 0 and 1 (TYPE_INT 'i' for ints that fit in 32 bits, 'l' otherwise; floats as the '%.17g' text `g17`; text as 'u';
   no references) - validated byte for byte against marshal.dumps of the installed 3.8-3.13 on every run; xdis.marsh's reader
   returns the value for every plain value tree. *)
Theorem C14_xdis_loads_host_dumps : forall (g17 : Z -> list Z) v, plain_wfv marsh_cfg v ->
  load marsh_cfg (dumps g17 false true v) = Ok (textify g17 v, {| inp := []; refs := []; strs := [] |}).
Proof.
  intros g17 v Hw.
  exact (loads_dumps g17 false true marsh_cfg marsh_cfg_ok false (fun H => False_ind _ (Bool.diff_false_true H)) v Hw).
Qed.

(* ... and inside any context: either reader stops exactly where dumps stopped *)
Theorem C14_loads_dumps_prefix : forall c (repr_float : Z -> list Z) int_i f v st rest, cfg_ok c -> plain_wfv c v -> (depth v <= f)%nat ->
  r_object f c (with_inp st (dumps repr_float false int_i v ++ rest)) = Ok (textify repr_float v, with_inp st rest).
Proof.
  intros c repr_float int_i f v st rest Hc Hw Hd.
  exact (marsh_roundtrip repr_float false int_i c Hc false (fun H => False_ind _ (Bool.diff_false_true H)) f v Hw Hd st rest).
Qed.

Definition ex_value : pv :=
  PTuple [PInt (-(2 ^ 70)); PList [PNone; PText [104; 195; 169]]; PDict [(PBin [1; 2], PFrozenSet [PInt 3]); (PNone, PFloat 4609434218613702656)]; PSet []].

Example C14_nonvacuous :
  to_digits (digits_fuel (2 ^ 200 + 12345)) (2 ^ 200 + 12345) <> [] /\ dump_long (-32768) = [108; 254; 255; 255; 255; 0; 0; 1; 0]
  /\ plain_wfv marsh_cfg ex_value
  /\ List.length (dumps (fun _ => [49; 46; 53]) false false ex_value) = 66%nat
  /\ dumps (fun _ => []) false true (PTuple [PInt 5; PInt (2 ^ 31)]) = [40; 2; 0; 0; 0; 105; 5; 0; 0; 0; 108; 3; 0; 0; 0; 0; 0; 0; 0; 2; 0]
  /\ existsb (fun m => py3_magic m && (m =? 3531)) all_magics = true.
Proof.
  split; [vm_compute; discriminate|]. split; [vm_compute; reflexivity|]. split; [|split; [vm_compute; reflexivity | split; vm_compute; reflexivity]].
  unfold plain_wfv, ex_value. repeat (first [constructor | split]); try (vm_compute; reflexivity); unfold small_len; try (vm_compute; reflexivity).
Qed.

(* C02 - the instruction stream decodes exactly as CPython's dis does for that version. *)
From Xdis Require Import Base.Prelude Base.Result Base.OpTable Gen.Opcodes Gen.RefOpcodes Model.Instr Spec.Dis
  Proofs.InstrProofs Proofs.C02Tables.

(* Tiling: whenever decoding succeeds, the first instruction is at offset 0, each next one at
   the previous offset plus that version's instruction width, and the last ends at len(co_code)
   (word code of odd length - never produced by a compiler - overshoots by the missing byte). *)
Theorem C02_tiling : forall T code is, instrs T code = Ok is ->
  chain T 0 is (zlen code + (if py36 T && negb (Z.even (zlen code)) then 1 else 0)).
Proof. exact instrs_tiling. Qed.

(* an operand cut off by the end of the code is an IndexError, not a shorter instruction *)
Theorem C02_truncated_operand : forall T op b ext cnt i, has_arg T op = true ->
  instrs_byte T [op; b] i ext cnt = Err IndexErr /\ instrs_word T [op] i ext cnt = Err IndexErr.
Proof. intros. split; [apply truncated_byte | apply truncated_word]; assumption. Qed.

(* Agreement with CPython's own unpacking (dis.disassemble for 2.7, dis._unpack_opargs for
   3.6 - 3.13, transcribed in Spec.Dis and run against the real interpreters), for EVERY
   well-formed code byte string, any number of EXTENDED_ARG prefixes, any operand size:
   same offsets, same opcodes, and the same folded operand wherever CPython reports one;
   the instructions xdis decodes inside inline cache entries (3.11+) are exactly the ones
   stripped.  (T, R) ranges over the 9 tables with an installed interpreter and, for the
   versions without inline caches, over every table against its own reference view, i.e.
   the decoding algorithm of that version family (1.0-2.6, 3.0-3.5, PyPy). *)
Theorem C02_agree : forall T R code us, In (T, R) all_pairs -> bytes_ok code = true ->
  wf_code T R code = true -> spec_unpack R code = Ok us ->
  exists is, instrs T code = Ok is /\
             Forall2 agree (strip R (tuple_geb (r_version R) [3; 11]) (map triple is) O) us.
Proof. intros T R code us Hin. apply instrs_agree. exact (pair_compat T R Hin). Qed.

Theorem C02_pairs : map (fun p => t_name (fst p)) oracle_pairs =
  ["opcode_27"; "opcode_36"; "opcode_37"; "opcode_38"; "opcode_39"; "opcode_310"; "opcode_311"; "opcode_312"; "opcode_313"]%string.
Proof. reflexivity. Qed.

Example C02_nonvacuous :
  wf_word opcode_312 ref_312 true true true code312 0 O = true /\ bytes_ok code312 = true
  /\ wf_byte opcode_27 ref_27 code27 0 = true /\ bytes_ok code27 = true
  /\ In (opcode_312, ref_312) all_pairs /\ In (opcode_27, ref_27) all_pairs.
Proof. exact wf_examples. Qed.

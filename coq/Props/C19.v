(* C19 - freeze() encodes a line table that decodes back to the same mapping.
   wf_map m : offsets start at 0 and strictly increase, consecutive lines differ (a repeated
              line is not a line start for findlinestarts, so it cannot come back);
   below cl m : every offset lies inside the code (findlinestarts stops at len(co_code)).
   Offset gaps and line gaps are unbounded integers: continuation entries are ordinary cases. *)
From Xdis Require Import Base.Prelude Base.Result Model.LineStarts Model.CoLines Model.Freeze Spec.Lnotab
  Proofs.LnotabProofs Proofs.FreezeProofs.

(* Code3 / Code38 (3.0-3.9), decreasing lines allowed: findlinestarts(frozen) gives the mapping back *)
Theorem C19_code3 : forall first codelen m, wf_map m -> below codelen m ->
  findlinestarts_lnotab None false first codelen (encode_lineno_tab_30 first m) = m.
Proof. exact freeze3_roundtrip. Qed.

(* ... also when read through the opcode module of any version >= 3.6, i.e. (by C05) by
   dis.findlinestarts of CPython 3.6-3.9 *)
Theorem C19_code3_by_version : forall v first codelen m, tuple_geb v [3; 6] = true -> wf_map m -> below codelen m ->
  findlinestarts_lnotab (Some v) false first codelen (encode_lineno_tab_30 first m) = m.
Proof. exact freeze3_roundtrip_v. Qed.

(* Code15 / Code2 (1.5-2.7): the format has no negative steps, so lines must increase; the table
   reads back the same under the unsigned rule (< 3.6) and under the signed rule, with or
   without the end-of-code cut-off *)
Theorem C19_code2 : forall signed stop first codelen m, wf_map m -> below codelen m ->
  (match m with (_, l0) :: r => first <= l0 /\ up_from l0 r | [] => True end) ->
  spec_ls signed stop codelen (pairs (encode_lineno_tab_15 first m)) 0 first None = m.
Proof. exact freeze15_roundtrip. Qed.

Theorem C19_code2_findlinestarts : forall v first codelen m, wf_map m -> below codelen m ->
  (match m with (_, l0) :: r => first <= l0 /\ up_from l0 r | [] => True end) ->
  findlinestarts_lnotab v false first codelen (encode_lineno_tab_15 first m) = m.
Proof.
  intros v first cl m H1 H2 H3. destruct v as [v|].
  - rewrite findlinestarts_lnotab_spec. apply freeze15_roundtrip; assumption.
  - rewrite findlinestarts_lnotab_spec_none. apply freeze15_roundtrip; assumption.
Qed.

(* Code310: co_lines() of the encoded range table, read by findlinestarts, gives the mapping back *)
Theorem C19_code310 : forall first codelen m, wf_map m -> below codelen m ->
  exists ls, co_lines_310 first (encode_lineno_tab_310 first codelen m) = Ok ls /\ fls_colines ls None = m.
Proof. exact freeze310_roundtrip. Qed.

Example C19_nonvacuous :
  wf_map [(0, 1); (10, 130); (20, 3); (620, 2003)] /\ below 700 [(0, 1); (10, 130); (20, 3); (620, 2003)]
  /\ encode_lineno_tab_30 1 [(0, 1); (10, 130); (20, 3); (620, 2003)]
     = [0; 0; 10; 127; 0; 2; 10; 129; 255; 0; 255; 0; 90; 127; 0; 127; 0; 127; 0; 127; 0; 127; 0; 127; 0; 127; 0; 127; 0; 127; 0; 127; 0; 127; 0; 127; 0; 127; 0; 127; 0; 127; 0; 95].
Proof. split; [cbn; lia|]. split; [cbn; lia|]. vm_compute. reflexivity. Qed.

(* Code310.encode_lineno_tab also writes a lead-in of "no line" ranges when the mapping does not start at offset 0; for a mapping that
   does, what it writes is the table of the theorem above *)
Theorem C19_code310_lead_in_absent_at_0 : forall first codelen l r,
  encode_lineno_tab_310_full first codelen ((0, l) :: r) = encode_lineno_tab_310 first codelen ((0, l) :: r).
Proof. reflexivity. Qed.
Example C19_code310_lead_in : encode_lineno_tab_310_full 1 40 [(4, 5); (8, 6); (20, 9)] = [4; 128; 4; 4; 12; 1; 20; 3]
  /\ lead310 508 = [(254, 128); (254, 128)] /\ lead310 300 = [(254, 128); (46, 128)].
Proof. repeat split; vm_compute; reflexivity. Qed.

(* C13 - a bytecode file read and written back is the same program for its Python: header and payload. *)
From Xdis Require Import Base.Prelude Base.Result Base.LE Model.Magic Model.Load Model.WriteHeader Gen.Magics Gen.RefMagics
  Spec.Registry Spec.Header Proofs.HeaderDefs Proofs.HeaderProofs Proofs.WriteProofs
  Model.Unmarshal Model.UnmarshalObs Model.Marsh Gen.Dispatch Proofs.C10Tables Proofs.MarshRoundTrip Proofs.Marsh2RoundTrip Proofs.C14Tables.

(* Header: for the magic of every final release (and the PyPy corpus magics) whose 4 magic bytes
   the writer reproduces, every 32-bit timestamp and size and every payload: what
   write_bytecode_file puts before the code object is, per the format of that version (C06's
   spec_fields), a timestamp-based header carrying exactly that timestamp (and size from 3.3,
   zero PEP 552 flags from 3.7) ... *)
Theorem C13_header_format : forall m v mb ts size rest, In (m, v, mb) writable ->
  0 <= ts < 4294967296 -> 0 <= size < 4294967296 ->
  exists hdr, write_header m ts size = Ok hdr /\ firstn 4 hdr = mb /\
    spec_fields (spec_kind v) (skipn 4 hdr ++ rest)
    = Some (Some ts, (if tuple_geb v [3; 3] then Some size else None), None, rest).
Proof. exact write_header_fields. Qed.

(* ... and load_module's header parser reads those fields back and finds the payload where the writer put it *)
Theorem C13_header_reread : forall p m v mb ts size rest, In (m, v, mb) writable -> bytes_ok rest = true ->
  0 <= ts < 4294967296 -> 0 <= size < 4294967296 ->
  exists hdr h, write_header m ts size = Ok hdr /\ parse_header p (hdr ++ rest) = Ok h /\
    firstn 2 (h_version h) = v /\ h_timestamp h = Some ts /\
    h_size h = (if tuple_geb v [3; 3] then Some size else None) /\ h_sip h = None /\ h_rest h = rest.
Proof. exact write_then_read. Qed.

Example C13_nonvacuous : existsb (fun '(m, _, _) => m =? 3413) writable = true /\ existsb (fun '(m, _, _) => m =? 62211) writable = true
  /\ write_header 3413 7 9 = Ok [85; 13; 13; 10; 0; 0; 0; 0; 7; 0; 0; 0; 9; 0; 0; 0].
Proof. repeat split; vm_compute; reflexivity. Qed.

(* Payload: what write_bytecode_file puts after the header is xdis.marsh.dumps of the code object (dump_code3 for Python 3
   targets: 'c', the integer fields, each object field in turn).  For the magic of EVERY Python 3.0-3.10 version in xdis's
   table and EVERY well-formed code-object tree - any nesting of code objects inside constants, any constants of C14's kinds,
   32-bit integer fields, posonlyargcount written exactly when that version's reader reads it - CPython's own reader of that
   version (the strict configuration validated in C10) loads the written bytes to the same tree and stops at their end ... *)
Definition code_wfv (c : cfg) : pv -> Prop := wfv (posonly_read c) c true.

Theorem C13_payload_cpython_loads : forall m (repr_float : Z -> list Z) v, In m all_magics -> py3_pre311_magic m = true ->
  code_wfv (cpy_cfg m) v ->
  load (cpy_cfg m) (dumps repr_float (posonly_read (cpy_cfg m)) false v) = Ok (textify repr_float v, {| inp := []; refs := []; strs := [] |}).
Proof.
  intros m repr_float v Hin H3 Hw. destruct (cpy_code_cfg m Hin H3) as [Hc Hk].
  exact (loads_dumps repr_float (posonly_read (cpy_cfg m)) false (cpy_cfg m) Hc true (fun _ => Hk) v Hw).
Qed.

(* ... and so does xdis's own unmarshaller when it re-reads the file it wrote *)
Theorem C13_payload_xdis_rereads : forall m (repr_float : Z -> list Z) v, In m all_magics -> py3_pre311_magic m = true ->
  code_wfv (xdis_cfg m) v ->
  load (xdis_cfg m) (dumps repr_float (posonly_read (xdis_cfg m)) false v) = Ok (textify repr_float v, {| inp := []; refs := []; strs := [] |}).
Proof.
  intros m repr_float v Hin H3 Hw. destruct (xdis_code_cfg m Hin H3) as [Hc Hk].
  exact (loads_dumps repr_float (posonly_read (xdis_cfg m)) false (xdis_cfg m) Hc true (fun _ => Hk) v Hw).
Qed.

Definition ex_code38 : pv :=
  PCode [1; 0; 0; 2; 3; 67; 5]
        [PBin [100; 1; 83; 0]; PTuple [PNone; PInt 7; PCode [0; 0; 0; 0; 1; 83; 6] [PBin [100; 0; 83; 0]; PTuple [PNone]; PTuple []; PTuple []; PTuple []; PTuple []; PText [102]; PText [103]; PNone; PBin []; PNone]];
         PTuple [PText [120]]; PTuple [PText [97]; PText [98]]; PTuple []; PTuple []; PText [102; 46; 112; 121]; PText [102]; PNone; PBin [0; 1]; PNone].

Example C13_payload_nonvacuous :
  existsb (Z.eqb 3413) all_magics = true /\ py3_pre311_magic 3413 = true /\ posonly_read (cpy_cfg 3413) = true
  /\ code_wfv (cpy_cfg 3413) ex_code38
  /\ load (cpy_cfg 3413) (dumps (fun _ => []) true false ex_code38) = Ok (ex_code38, {| inp := []; refs := []; strs := [] |})
  /\ posonly_read (cpy_cfg 3394) = false.
Proof.
  assert (Hp : posonly_read (cpy_cfg 3413) = true) by (vm_compute; reflexivity).
  split; [vm_compute; reflexivity|]. split; [vm_compute; reflexivity|]. split; [exact Hp|]. split; [|split; vm_compute; reflexivity].
  unfold code_wfv. rewrite Hp. unfold ex_code38.
  repeat (first [apply wf_code | apply wf_tuple | apply wf_bin | apply wf_text | apply wf_none | apply wf_int | apply Forall_cons | apply Forall_nil | split]);
    try reflexivity; try (unfold in32; lia); try (unfold small_len; vm_compute; reflexivity); try (vm_compute; reflexivity).
Qed.

(* Python 2 targets.  For a version below 3.0, what write_bytecode_file puts after the header is _Marshaller.dump with the Python 2
   rules (a Python 2 str as 's', unicode as 'u' with its payload, int as 'i' or 64-bit 'I', long as 'l') and dump_code2 for code objects
   (integer fields 32 bits wide from 2.3, 16 bits before; names, varnames, filename, name, code and lnotab as strings).  For the magic of
   EVERY Python 2.0-2.7 version in xdis's table and EVERY well-formed Python 2 code-object tree whose kinds that version's marshal knows
   (wfv2: its type codes exist for the reader, integer fields fit the field width), CPython's own reader of that version loads the written
   bytes to the same tree - kinds included - and stops at their end ... *)
Definition code_wfv2 (c : cfg) : pv -> Prop := wfv2 (vge c [2; 3]) c.

Theorem C13_payload2_cpython_loads : forall m (repr_float : Z -> list Z) v, In m all_magics -> py2_magic m = true ->
  code_wfv2 (cpy_cfg m) v ->
  load (cpy_cfg m) (dumps2 repr_float (vge (cpy_cfg m) [2; 3]) v) = Ok (textify repr_float v, {| inp := []; refs := []; strs := [] |}).
Proof.
  intros m repr_float v Hin H2 Hw.
  pose proof (proj1 (forallb_forall _ _) cpy2_all m Hin) as H. cbv beta in H. rewrite H2 in H. cbn [negb orb] in H.
  destruct (cfg2_facts _ H) as (H30 & H311 & H38 & H13 & H20 & H15).
  exact (loads_dumps2 repr_float (vge (cpy_cfg m) [2; 3]) (cpy_cfg m) H30 H311 H38 eq_refl H13 H20 H15 v Hw).
Qed.

(* ... and so does xdis's own unmarshaller when it re-reads the file it wrote *)
Theorem C13_payload2_xdis_rereads : forall m (repr_float : Z -> list Z) v, In m all_magics -> py2_magic m = true ->
  code_wfv2 (xdis_cfg m) v ->
  load (xdis_cfg m) (dumps2 repr_float (vge (xdis_cfg m) [2; 3]) v) = Ok (textify repr_float v, {| inp := []; refs := []; strs := [] |}).
Proof.
  intros m repr_float v Hin H2 Hw.
  pose proof (proj1 (forallb_forall _ _) xdis2_all m Hin) as H. cbv beta in H. rewrite H2 in H. cbn [negb orb] in H.
  destruct (cfg2_facts _ H) as (H30 & H311 & H38 & H13 & H20 & H15).
  exact (loads_dumps2 repr_float (vge (xdis_cfg m) [2; 3]) (xdis_cfg m) H30 H311 H38 eq_refl H13 H20 H15 v Hw).
Qed.

(* a 2.7 module (32-bit fields: int, 64-bit int, long, str with non-ASCII bytes, unicode) and a 2.2 one (16-bit fields) *)
Definition ex_code27 : pv :=
  PCode [0; -1; 0; 0; 1; 64; 1]
        [PBin [100; 0; 0; 83]; PTuple [PNone; PInt 7; PInt 4294967296; PLong 5; PBin [195; 169]; PText [195; 169]];
         PTuple [PBin [120]]; PTuple []; PTuple []; PTuple []; PBin [99; 97; 102; 195; 169; 46; 112; 121]; PBin [60; 109; 62]; PNone; PBin [6; 1]; PNone].
Definition ex_code22 : pv :=
  PCode [1; -1; 0; 1; 2; 67; 300]
        [PBin [100; 0; 0; 83]; PTuple [PNone; PInt (-5)]; PTuple []; PTuple [PBin [97]]; PTuple []; PTuple []; PBin [102; 46; 112; 121]; PBin [102]; PNone; PBin []; PNone].

Example C13_payload2_nonvacuous :
  existsb (Z.eqb 62211) all_magics = true /\ py2_magic 62211 = true /\ vge (cpy_cfg 62211) [2; 3] = true
  /\ load (cpy_cfg 62211) (dumps2 (fun _ => []) true ex_code27) = Ok (ex_code27, {| inp := []; refs := []; strs := [] |})
  /\ py2_magic 60717 = true /\ vge (cpy_cfg 60717) [2; 3] = false
  /\ load (cpy_cfg 60717) (dumps2 (fun _ => []) false ex_code22) = Ok (ex_code22, {| inp := []; refs := []; strs := [] |})
  /\ List.length (dumps2 (fun _ => []) false ex_code22) = 77%nat.
Proof. repeat split; vm_compute; reflexivity. Qed.

Lemma ex_code27_wf : code_wfv2 (cpy_cfg 62211) ex_code27.
Proof.
  unfold code_wfv2. replace (vge (cpy_cfg 62211) [2; 3]) with true by (vm_compute; reflexivity). unfold ex_code27.
  repeat (first [apply wf2_code | apply wf2_tuple | apply wf2_bin | apply wf2_text | apply wf2_none | apply wf2_int | apply wf2_long
                 | apply Forall_cons | apply Forall_nil | split]);
    try reflexivity; try (unfold in_field, in32, in64; lia); try (unfold small_len; vm_compute; reflexivity); try (vm_compute; reflexivity).
Qed.

(* The written file as a whole, re-read by load_module's model (header parser, then xdis's unmarshaller on the bytes after the header):
   for every writable magic of a 3.0-3.10 version, every 32-bit timestamp and size and every well-formed code-object tree whose
   serialisation consists of bytes, the file write_bytecode_file produces is read back to that timestamp, size, and tree. *)
Theorem C13_file_reread : forall p m v mb ts size (repr_float : Z -> list Z) code,
  In (m, v, mb) writable -> In m all_magics -> py3_pre311_magic m = true ->
  0 <= ts < 4294967296 -> 0 <= size < 4294967296 ->
  code_wfv (xdis_cfg m) code ->
  let payload := dumps repr_float (posonly_read (xdis_cfg m)) false code in
  bytes_ok payload = true ->
  exists hdr h, write_header m ts size = Ok hdr /\ parse_header p (hdr ++ payload) = Ok h /\
    firstn 2 (h_version h) = v /\ h_timestamp h = Some ts /\ h_size h = (if tuple_geb v [3; 3] then Some size else None) /\ h_sip h = None /\
    load (xdis_cfg m) (h_rest h) = Ok (textify repr_float code, {| inp := []; refs := []; strs := [] |}).
Proof.
  intros p m v mb ts size repr_float code Hw Hin H3 Hts Hsz Hc payload Hb.
  destruct (C13_header_reread p m v mb ts size payload Hw Hb Hts Hsz) as (hdr & h & E1 & E2 & E3 & E4 & E5 & E6 & E7).
  exists hdr, h. repeat split; try assumption. rewrite E7. exact (C13_payload_xdis_rereads m repr_float code Hin H3 Hc).
Qed.

(* the same for Python 2.0-2.7 targets *)
Theorem C13_file_reread2 : forall p m v mb ts size (repr_float : Z -> list Z) code,
  In (m, v, mb) writable -> In m all_magics -> py2_magic m = true ->
  0 <= ts < 4294967296 -> 0 <= size < 4294967296 ->
  code_wfv2 (xdis_cfg m) code ->
  let payload := dumps2 repr_float (vge (xdis_cfg m) [2; 3]) code in
  bytes_ok payload = true ->
  exists hdr h, write_header m ts size = Ok hdr /\ parse_header p (hdr ++ payload) = Ok h /\
    firstn 2 (h_version h) = v /\ h_timestamp h = Some ts /\ h_size h = (if tuple_geb v [3; 3] then Some size else None) /\ h_sip h = None /\
    load (xdis_cfg m) (h_rest h) = Ok (textify repr_float code, {| inp := []; refs := []; strs := [] |}).
Proof.
  intros p m v mb ts size repr_float code Hw Hin H2 Hts Hsz Hc payload Hb.
  destruct (C13_header_reread p m v mb ts size payload Hw Hb Hts Hsz) as (hdr & h & E1 & E2 & E3 & E4 & E5 & E6 & E7).
  exists hdr, h. repeat split; try assumption. rewrite E7. exact (C13_payload2_xdis_rereads m repr_float code Hin H2 Hc).
Qed.

Example C13_file_nonvacuous :
  existsb (fun '(m, v, _) => (m =? 3413) && zlist_eqb v [3; 8]) writable = true /\ existsb (fun '(m, v, _) => (m =? 62211) && zlist_eqb v [2; 7]) writable = true
  /\ bytes_ok (dumps (fun _ => []) true false ex_code38) = true /\ bytes_ok (dumps2 (fun _ => []) true ex_code27) = true.
Proof. repeat split; vm_compute; reflexivity. Qed.

(* C13 - a bytecode file read and written back is the same program for its Python (partial: header). *)
From Xdis Require Import Base.Prelude Base.Result Base.LE Model.Magic Model.Load Model.WriteHeader Gen.Magics Gen.RefMagics
  Spec.Registry Spec.Header Proofs.HeaderDefs Proofs.HeaderProofs Proofs.WriteProofs.

(* Header: for the magic of every final release (and the PyPy corpus magics) whose 4 magic bytes
   the writer reproduces, every 32-bit timestamp and size and every payload: what
   write_bytecode_file puts before the code object is, per the format of that version (C06's
   spec_fields), a timestamp-based header carrying exactly that timestamp (and size from 3.3,
   zero PEP 552 flags from 3.7) ... *)
Theorem C13_header_format : forall m v mb ts size rest, In (m, v, mb) writable ->
  0 <= ts < 4294967296 -> 0 <= size < 4294967296 ->
  exists hdr, write_header m ts size = Ok hdr /\ firstn 4 hdr = mb /\
    spec_fields (spec_kind v) (skipn 4 hdr ++ rest)
    = Some (Some ts, (if tuple_geb v [3; 3] then Some size else None), None, rest).
Proof. exact write_header_fields. Qed.

(* ... and load_module's header parser reads those fields back and finds the payload where the writer put it *)
Theorem C13_header_reread : forall p m v mb ts size rest, In (m, v, mb) writable -> bytes_ok rest = true ->
  0 <= ts < 4294967296 -> 0 <= size < 4294967296 ->
  exists hdr h, write_header m ts size = Ok hdr /\ parse_header p (hdr ++ rest) = Ok h /\
    firstn 2 (h_version h) = v /\ h_timestamp h = Some ts /\
    h_size h = (if tuple_geb v [3; 3] then Some size else None) /\ h_sip h = None /\ h_rest h = rest.
Proof. exact write_then_read. Qed.

Example C13_nonvacuous : existsb (fun '(m, _, _) => m =? 3413) writable = true /\ existsb (fun '(m, _, _) => m =? 62211) writable = true
  /\ write_header 3413 7 9 = Ok [85; 13; 13; 10; 0; 0; 0; 0; 7; 0; 0; 0; 9; 0; 0; 0].
Proof. repeat split; vm_compute; reflexivity. Qed.

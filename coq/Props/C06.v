(* C06 - the pyc header is decoded per the file format of the bytecode's version. *)
From Xdis Require Import Base.Prelude Base.Result Base.LE Model.Magic Model.Load Gen.Magics Gen.RefMagics
  Spec.Registry Spec.Header Proofs.HeaderDefs Proofs.HeaderProofs.

(* For the magic of every final CPython release (1.0-3.13; from CPython's registry) and of
   every PyPy file of /repo's corpus, for EVERY byte string after the 4 magic bytes (every
   flag word, timestamp, size and hash value, every payload): whenever the producing
   version's format defines the fields (spec_fields), the model of load_module's header
   parser returns the version, the magic, exactly those fields, and leaves the code object
   to be read from exactly the byte after them. *)
Theorem C06_agree : forall name_pypy38 m v mb r f,
  In (m, v, mb) released_all -> bytes_ok r = true ->
  spec_fields (spec_kind v) r = Some f ->
  exists h, parse_header name_pypy38 (mb ++ r) = Ok h /\ firstn 2 (h_version h) = v /\
            h_magic_int h = norm_magic m /\ (h_timestamp h, h_size h, h_sip h, h_rest h) = f.
Proof. exact header_agree_all. Qed.

(* the only inputs on which the spec is undefined are those shorter than the header *)
Theorem C06_spec_total : forall v r, (16 <= List.length r)%nat -> spec_fields (spec_kind v) r <> None.
Proof.
  intros v r H. do 16 (destruct r as [|? r]; [cbn in H; lia|]).
  unfold spec_fields. destruct (spec_kind v); try discriminate.
  destruct (_ =? 1); discriminate.
Qed.

Example C06_nonvacuous :
  existsb (fun '(m, v, mb) => (m =? 3531) && zlist_eqb mb [203; 13; 13; 10]) released_all = true
  /\ spec_fields (spec_kind [3; 12]) [3; 0; 0; 0; 1; 2; 3; 4; 5; 6; 7; 8; 99] = Some (None, None, Some (le64 1 2 3 4 5 6 7 8), [99])
  /\ spec_fields (spec_kind [2; 7]) [1; 2; 3; 4; 99] = Some (Some (le32 1 2 3 4), None, None, [99]).
Proof. exact nonvacuous_hdr. Qed.

(* C08 - Magic-number knowledge is coherent and agrees with CPython's registry.
   Only statements here; proofs live in Proofs/.  Tables (Gen.Magics) are
   regenerated from /repo on every run, Gen.RefMagics from the installed CPythons. *)
From Xdis Require Import Base.Prelude Model.Magic Gen.Magics Gen.RefMagics Spec.Registry
  Proofs.MagicProofs Proofs.C08Tables.

(* magic2int . int2magic = id on every 16-bit magic *)
Theorem C08_inverse_int : forall i, 0 <= i < 65536 ->
  exists b, int2magic i = Some b /\ magic2int b = Some i.
Proof. exact magic2int_int2magic. Qed.

(* int2magic . magic2int = id on every 4-byte string with the tail int2magic writes *)
Theorem C08_inverse_bytes : forall b0 b1 b2 b3,
  bytes_ok [b0; b1; b2; b3] = true -> [b2; b3] = magic_tail (b0 + 256 * b1) ->
  exists i, magic2int [b0; b1; b2; b3] = Some i /\ int2magic i = Some [b0; b1; b2; b3].
Proof. exact int2magic_magic2int. Qed.

(* every row (magic, major, minor) of CPython's registry maps to that major.minor *)
Theorem C08_registry : forall m a b, In (m, a, b) registry ->
  major_minor_ok (zassoc m magic_tuple) a b = true.
Proof. intros m a b H. exact (forallb_In _ _ _ registry_ok_true H). Qed.

(* every interpreter installed here: its MAGIC_NUMBER maps to its major.minor, the
   release-name table gives exactly its magic bytes, and int2magic rebuilds them *)
Theorem C08_installed : installed_ok = true.
Proof. exact installed_ok_true. Qed.

(* every magic load_module accepts resolves to a version tuple and an opcode table *)
Theorem C08_resolves : forall m, In m accepted_magics -> resolves m = true.
Proof. intros m H. exact (forallb_In _ _ _ resolves_ok_true H). Qed.

(* the model's get_opcode lookup agrees with what the implementation answered, row by row *)
Theorem C08_get_opcode_model : get_opcode_model_ok = true.
Proof. exact get_opcode_model_ok_true. Qed.

Theorem C08_tables_coherent : tables_coherent = true.
Proof. exact tables_coherent_true. Qed.

(* for every plain CPython release name the tables know, sysinfo2magic's table lookup
   gives the magic that release writes (per the registry; names the 3.13 registry does
   not cover - 1.0 .. 1.4 - are excluded when Gen.Magics.release_names is generated) *)
Theorem C08_sysinfo : forall name a b c, In (name, (a, b, c)) release_names ->
  exists bs m, sassoc name magics_tbl = Some bs /\ final_magic a b c = Some m /\ int2magic m = Some bs.
Proof.
  exact sysinfo_sound.
Qed.

Example C08_nonvacuous : In 3531 accepted_magics /\ In (3531, 3, 12) registry /\ In ("3.12.1"%string, (3, 12, 1)) release_names.
Proof. vm_compute. repeat split; tauto. Qed.

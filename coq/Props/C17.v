(* C17 - 3.11+ exception and position tables decode as CPython decodes them. *)
From Xdis Require Import Base.Prelude Base.Result Model.CoLines Model.ExcTable Model.Listing Spec.Loc311 Spec.ExcTable
  Proofs.Loc311Proofs Proofs.ExcTableProofs.

(* Exception table: for every list of entries, each of its four varints of any length
   (digit lists), parsing CPython's encoding gives back (start, end, target, depth, lasti). *)
Theorem C17_exception_table : forall es, forallb xentry_ok es = true ->
  parse_exception_table (encode_xtable es) = map sem_xentry es.
Proof. exact exc_roundtrip. Qed.

(* ... and the "ExceptionTable:" section a listing prints for that table has the heading and then exactly one line per entry,
   in order, each showing the entry's start, inclusive end (end - 2), target, depth and lasti *)
Theorem C17_exception_section : forall es, forallb xentry_ok es = true ->
  exc_lines (parse_exception_table (encode_xtable es)) = s2z "ExceptionTable:" :: map (fun x => exc_line (sem_xentry x)) es.
Proof. intros es H. unfold exc_lines. rewrite (exc_roundtrip es H), map_map. reflexivity. Qed.

(* Location table -> co_lines(): for every list of well-formed entries (all five forms,
   every varint length, negative line deltas), xdis's Code311.co_lines() on the encoded
   table is exactly CPython 3.12+'s co_lines() ... *)
Theorem C17_co_lines : forall first es, forallb entry_ok es = true ->
  parse_linetable first (encode_entries es) = sem_lines true first es.
Proof. exact parse_linetable_sem. Qed.

(* ... and per code unit it is also CPython 3.11's (which does not merge ranges). *)
Theorem C17_co_lines_per_unit_311 : forall first es, forallb entry_ok es = true ->
  units (parse_linetable first (encode_entries es)) = units (sem_lines false first es).
Proof. intros first es H. rewrite parse_linetable_sem by exact H. apply units_merged_unmerged. exact H. Qed.

(* Location table -> co_positions(): the per-entry view xdis returns, and its expansion to
   one (line, end line, column, end column) per code unit, which is CPython's co_positions(). *)
Theorem C17_positions_entries : forall first es, forallb entry_ok es = true ->
  parse_location_entries first (encode_entries es) = Ok (sem_entries first es).
Proof. exact parse_location_entries_sem. Qed.

Theorem C17_positions_per_unit : forall first es, forallb entry_ok es = true ->
  exists ents, parse_location_entries first (encode_entries es) = Ok ents /\ expand_entries ents = sem_positions first es.
Proof.
  intros first es H. exists (sem_entries first es). split; [apply parse_location_entries_sem; exact H | apply expand_sem_entries].
Qed.

Example C17_nonvacuous :
  forallb entry_ok [LLong 2 [5; 1] [2] [0] [6; 1]; LNone 1; LNoCol 8 [0]; LShort 3 9 127; LOneLine 1 2 5 100] = true
  /\ forallb xentry_ok [{| x_start := [1; 0]; x_size := [5]; x_target := [2; 3; 4]; x_dl := [3] |}] = true
  /\ sem_positions 100 [LLong 2 [5; 1] [2] [0] [6; 1]] = [(Some 66, Some 68, None, Some 69); (Some 66, Some 68, None, Some 69)].
Proof. vm_compute. repeat split. Qed.

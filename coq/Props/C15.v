(* C15 - stack effects equal the interpreter's for every opcode and operand. *)
From Xdis Require Import Base.Prelude Base.OpTable Base.Formula Gen.Opcodes Gen.RefStackEffect Model.Instr Model.StackEffect
  Proofs.C15Tables.

(* For every interpreter with dis.stack_effect installed here (3.6-3.13), every opcode it
   defines and EVERY operand value (an unbounded integer): whenever the interpreter's stack
   effect (jump unspecified) is defined, xstack_effect returns the same number.  The
   reference side is a formula per opcode fitted to and checked against dis.stack_effect
   (all operands < 2^16 in the thorough tier); the xdis side is the formula its source code
   evaluates to, obtained by translating xstack_effect's AST on every run. *)
Theorem C15_stack_effect : forall T ref name op f arg r, In (T, ref) se_pairs -> In (name, op, f) ref ->
  eval_formula f arg = Some r -> xstack_effect T op arg = Some r.
Proof. exact se_pairs_sound. Qed.

(* equal formulas denote equal functions of the operand - the step from table equality to all operands *)
Theorem C15_formula_sound : forall m s, formula_refines (canon m) (canon s) = true ->
  forall arg r, eval_formula s arg = Some r -> eval_formula m arg = Some r.
Proof.
  intros m s H arg r Hs. rewrite <- (canon_sound s) in Hs. rewrite <- (canon_sound m).
  exact (formula_refines_sound _ _ H arg r Hs).
Qed.

Example C15_nonvacuous :
  existsb (fun '(name, op, f) => String.eqb name "UNPACK_EX" && formula_eqb f (FLoHi 0)) se_ref_312 = true
  /\ existsb (fun '(name, op, f) => String.eqb name "MAKE_FUNCTION" && formula_eqb f (FPop4 (-1))) se_ref_38 = true
  /\ eval_formula (FLoHi 0) 1000 = Some 235.
Proof. exact se_nonvacuous. Qed.

(* C04 - jump targets, labels and is_jump_target agree with CPython and with each other. *)
From Xdis Require Import Base.Prelude Base.Result Base.OpTable Gen.Opcodes Gen.RefOpcodes Model.Instr Spec.Dis
  Proofs.InstrProofs Proofs.LabelProofs Proofs.C02Tables Proofs.C04Tables.

(* findlabels: for every non-empty well-formed code string (any length, any operand size,
   any number of EXTENDED_ARG prefixes), the label finder an opcode table binds returns
   exactly CPython's dis.findlabels list - same targets, same order: relative vs absolute,
   word-scaled from 3.10, backward-jump opcodes from 3.11, the jump's own inline cache
   entries from 3.12.  Pairs: the 9 tables with an installed interpreter, and every
   cache-less table against the algorithm of its version family. *)
Theorem C04_findlabels : forall T R code ls, In (T, R) all_pairs -> bytes_ok code = true -> code <> [] ->
  wf_strict T R code = true -> spec_findlabels R code = Ok ls -> findlabels T code = Ok ls.
Proof. intros T R code ls Hin. apply findlabels_agree; [exact (pair_compat T R Hin) | exact (pair_tgt T R Hin)]. Qed.

(* Instruction.argval of every jump instruction is the offset CPython computes for it *)
Theorem C04_jump_argval : forall T R x a, In (T, R) all_pairs -> 0 <= i_op x < 256 -> i_arg x = Some a ->
  zmem (i_op x) (r_hasjrel R) || zmem (i_op x) (r_hasjabs R) = true ->
  jump_argval T x = spec_target R (i_offset x) (i_op x) a.
Proof. intros T R x a Hin. apply jump_argval_agree; [exact (pair_compat T R Hin) | exact (pair_tgt T R Hin)]. Qed.

(* is_jump_target is set exactly for offsets in the label list or among the exception-handler targets *)
Theorem C04_is_jump_target : forall labels exc x,
  is_jump_target labels exc x = true <-> In (i_offset x) (labels ++ exc).
Proof. exact is_jump_target_iff. Qed.

Example C04_nonvacuous :
  wf_strict opcode_312 ref_312 code312 = true /\ wf_strict opcode_27 ref_27 code27 = true
  /\ spec_findlabels ref_312 code312 = Ok [62; 18; 6; 88; 76] /\ spec_findlabels ref_27 code27 = Ok [34; 33; 7].
Proof. exact wf_strict_examples. Qed.

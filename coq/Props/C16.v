(* C16 - native and portable code objects convert back and forth without loss (attribute plumbing). *)
From Coq Require Import ZArith List String Bool.
From Xdis Require Import Base.Prelude Gen.CodeType Gen.RefCodeType Model.CodeConv Proofs.CodeConvProofs.
Import ListNotations.
Local Open Scope Z_scope.

(* For every host 3.8-3.13, every value type and EVERY valuation of the data attributes a code object of that host has:
   codeType2Portable followed by to_native() hands the host's constructor, position by position, the value of the very
   attribute that position sets - so every constructor field (line table and exception table included) comes back.
   The tables are regenerated from /repo's AST and from the interpreters on every run. *)
Theorem C16_roundtrip : forall host, In host c16_hosts ->
  forall (V : Type) (val : string -> V), roundtrip V host (native_obj V host val) = Some (ctor_view V host val).
Proof. intros host H. exact (proj1 (Forall_forall _ _) roundtrip_all host H). Qed.

(* the portable type chosen is the one for the host's version *)
Theorem C16_class : forall host, In host c16_hosts ->
  forall (V : Type) (val : string -> V), option_map fst (to_portable V host (native_obj V host val)) = Some (spec_class host).
Proof. intros host H. exact (proj1 (Forall_forall _ _) class_all host H). Qed.

(* the constructor view is the whole object: at least 15 attributes, each a data attribute of the host, none twice *)
Theorem C16_view_complete : forallb host_shape_ok c16_hosts = true.
Proof. exact shape_all. Qed.

(* replace returns a copy with that one attribute changed, same class, same attributes, all others untouched; the original
   is a value and cannot change (that the real copy shares no mutable state is observed at run time) *)
Theorem C16_replace : forall V (p p' : string * obj V) a v, replace V p a v = Some p' ->
  fst p' = fst p /\ map fst (snd p') = map fst (snd p) /\ get V (snd p') a = Some v
  /\ forall b, a <> b -> get V (snd p') b = get V (snd p) b.
Proof.
  intros V p p' a v H. unfold replace in H. destruct (has V (snd p) a) eqn:E; [|discriminate].
  assert (Hp : p' = (fst p, set_attr V (snd p) a v)) by congruence. subst p'. cbn [fst snd].
  split; [reflexivity|]. split; [apply set_attr_keys|]. split; [apply get_set_same; exact E|].
  intros b Hb. apply get_set_other. exact Hb.
Qed.

Example C16_nonvacuous :
  roundtrip string [3; 12] (native_obj string [3; 12] (fun a => a)) = Some (ctor_view string [3; 12] (fun a => a))
  /\ In "co_linetable"%string (map fst (ctor_view string [3; 12] (fun a => a)))
  /\ In "co_exceptiontable"%string (map fst (ctor_view string [3; 12] (fun a => a)))
  /\ In [3; 12] c16_hosts.
Proof. repeat split; vm_compute; tauto. Qed.

(* C18 - each call's result is independent of what the process did before. *)
From Coq Require Import ZArith List String Bool.
From Xdis Require Import Base.Prelude Gen.MutState Model.History.
Import ListNotations.
Local Open Scope Z_scope.

(* Every statement of the package that changes shared state inside a function body (inventory regenerated from /repo's AST on
   every run: module globals, mutable default arguments and their self.x aliases, argument objects, setattr) is of a known
   kind: it runs at import time only, it changes an object its caller made for this call, it is the explicit opcode
   remapping, it feeds a cell nobody reads, or it is a mutable default every caller overrides; the cells classed as
   write-only are read nowhere in the package; no other mutable default is mutated. *)
Theorem C18_inventory : all_classified = true /\ write_only_unread = true /\ mutated_defaults_known = true.
Proof. repeat split; vm_compute; reflexivity. Qed.

(* With the cells of those statements as the only ones that change after import, and no result depending on them: the result
   of any probe after ANY finite history of operations is its result in the state right after import; and repeating a call
   gives the same result.  (Operations are arbitrary functions `upd` on the weak cells and `result` of the strong ones.) *)
Theorem C18_history : forall (V op out : Type) (upd : op -> (string -> V) -> string -> V) (result : op -> (string -> V) -> out) (dflt : V)
  (result_ext : forall o f g, (forall c, f c = g c) -> result o f = result o g)
  (ops : list op) (s : string -> V) (probe : op),
  snd (step V op out upd result dflt (run string V op out (step V op out upd result dflt) ops s) probe)
  = snd (step V op out upd result dflt s probe).
Proof.
  intros V op out upd result dflt result_ext ops s probe.
  apply (history_independent string V op out weak_cell (step V op out upd result dflt)).
  - intros s0 o c Hc. unfold step. cbn [fst]. rewrite Hc. reflexivity.
  - intros s0 s1 o Hag. unfold step. cbn [snd]. apply result_ext. intros c. unfold strong_part.
    destruct (weak_cell c) eqn:E; [reflexivity | apply Hag; exact E].
Qed.

Theorem C18_repeat : forall (V op out : Type) (upd : op -> (string -> V) -> string -> V) (result : op -> (string -> V) -> out) (dflt : V)
  (result_ext : forall o f g, (forall c, f c = g c) -> result o f = result o g)
  (s : string -> V) (o : op),
  snd (step V op out upd result dflt (fst (step V op out upd result dflt s o)) o) = snd (step V op out upd result dflt s o).
Proof. intros. apply (C18_history V op out upd result dflt result_ext [o] s o). Qed.

Example C18_nonvacuous :
  classify ("xdis.unmarshal:_VersionIndependentUnmarshaller.t_code", "self.code_objects", "store")%string = Some WriteOnlyCell
  /\ classify ("xdis.op_imports:remap_opcodes", "arg:op_obj", "setattr")%string = Some Excluded
  /\ classify ("xdis.opcodes.base:init_opdata", "global:fields2copy", "call:extend")%string = Some ImportTime
  /\ classify ("xdis.load:load_module", "global:cache", "store")%string = None
  /\ (10 <=? zlen mutation_sites) = true.
Proof. repeat split; vm_compute; reflexivity. Qed.

(* C03 - operands resolve to the same constant, name or variable CPython resolves. *)
From Xdis Require Import Base.Prelude Base.Result Base.OpTable Model.Instr Spec.Dis Model.Resolve Gen.Opcodes Gen.RefOpcodes
  Model.ResolveChecks Proofs.InstrProofs Proofs.C02Tables Proofs.ResolveProofs.

(* For the nine versions with an installed interpreter, every opcode (0..255), EVERY operand value
   and every set of tables (constants, names, locals, cells, frees of any length, a free variable
   may have the name of a local): xdis resolves the operand to the same table entry CPython's dis
   resolves it to (wherever dis resolves it at all: 3.11 leaves KW_NAMES unresolved) - incl. the 3.11+ merged locals+cells+frees table (a parameter that is also a
   cell appears once), LOAD_GLOBAL / LOAD_ATTR >> 1, LOAD_SUPER_ATTR >> 2, COMPARE_OP >> 4 (3.12)
   and >> 5 (3.13), and the 3.13 paired LOAD_FAST / STORE_FAST operands. *)
Theorem C03_resolve : forall T R tb op arg, In (T, R) oracle_pairs -> 0 <= op < 256 -> spec_plan R op <> PlNone ->
  model_resolve T tb op arg = spec_resolve R tb op arg.
Proof. exact resolve_agree. Qed.

(* the merged table is built in CPython's order: locals, the cells that are not locals, every free variable *)
Theorem C03_localsplus_order : forall tb, model_localsplus tb = spec_localsplus tb.
Proof. exact localsplus_eq. Qed.

(* a free variable always has a slot of its own in xdis's merged table, whatever it is called: the slot CPython gives it
   (number of locals + number of cells that are not locals + its index among the free variables) *)
Theorem C03_free_slot : forall tb i, (i < List.length (tb_frees tb))%nat ->
  nth_error (model_localsplus tb)
    (List.length (tb_vars tb) + List.length (filter (fun c => negb (zmem c (tb_vars tb))) (tb_cells tb)) + i) = nth_error (tb_frees tb) i.
Proof. exact free_slot. Qed.

(* comparison operators: same index everywhere; the spelling differs from CPython's only at
   indices 7, 9, 10 ('not-in', 'is-not', 'exception-match': known finding D16) *)
Theorem C03_cmp_spelling : forallb (fun '(_, d) => forallb (fun i => zmem i [7; 9; 10]) d) cmp_spelling_diffs = true.
Proof. exact cmp_spelling_known. Qed.

Example C03_nonvacuous :
  let tb := {| tb_consts := []; tb_names := []; tb_vars := [118000; 118001; 118002; 118003]; tb_cells := [118000; 99001]; tb_frees := [102000; 118001]; tb_ncmp := 6 |} in
  model_localsplus tb = [118000; 118001; 118002; 118003; 99001; 102000; 118001].
Proof. exact localsplus_example. Qed.

(* C05 - Line-number mapping equals CPython's for every line-table format. *)
From Xdis Require Import Base.Prelude Base.Result Base.LE Model.LineStarts Model.CoLines
  Spec.Lnotab Spec.Lines310 Proofs.LnotabProofs Proofs.Lines310Proofs.

(* co_lnotab (1.0 - 3.9): for EVERY byte table, first line and code length, the model of
   findlinestarts bound by an opcode table of version v equals that version's
   dis.findlinestarts: unsigned deltas before 3.6, signed 3.6-3.9, cut-off from 3.8. *)
Theorem C05_lnotab_pre36 : forall v first codelen tab, tuple_ltb v [3; 6] = true ->
  findlinestarts_lnotab (Some v) false first codelen tab = spec_findlinestarts_pre36 first codelen tab.
Proof.
  intros v first cl tab Hv. destruct tab as [|a tab]; [reflexivity|].
  rewrite findlinestarts_lnotab_spec. unfold spec_findlinestarts_pre36.
  destruct (lt36_flags v Hv) as [-> ->]. reflexivity.
Qed.

Theorem C05_lnotab_36_37 : forall v first codelen tab, v = [3; 6] \/ v = [3; 7] ->
  findlinestarts_lnotab (Some v) false first codelen tab = spec_findlinestarts_36_37 first codelen tab.
Proof.
  intros v first cl tab Hv. destruct tab as [|a tab]; [reflexivity|].
  rewrite findlinestarts_lnotab_spec. destruct Hv as [-> | ->]; reflexivity.
Qed.

Theorem C05_lnotab_38_39 : forall v first codelen tab, v = [3; 8] \/ v = [3; 9] ->
  findlinestarts_lnotab (Some v) false first codelen tab = spec_findlinestarts_38_39 first codelen tab.
Proof.
  intros v first cl tab Hv. destruct tab as [|a tab]; [reflexivity|].
  rewrite findlinestarts_lnotab_spec. destruct Hv as [-> | ->]; reflexivity.
Qed.

(* 3.10 range table: co_lines() is lineiter_next's sequence, for every even-length table *)
Theorem C05_co_lines_310 : forall first tab, Z.even (zlen tab) = true ->
  co_lines_310 first tab = Ok (spec_lines_310 first tab).
Proof. exact co_lines_310_spec. Qed.

(* findlinestarts over co_lines(): 3.10-3.12 rule and the 3.13 rule (None lines reported) *)
Theorem C05_findlinestarts_colines : forall ls, fls_colines ls None = spec_fls ls None.
Proof. intros ls. apply fls_colines_spec. Qed.
Theorem C05_findlinestarts_colines_313 : forall ls, fls_colines_313 ls None = spec_fls_313 ls LFalse.
Proof. intros ls. exact (fls_colines_313_spec ls None). Qed.

(* offset2line: on every mapping with strictly increasing offsets the binary search returns
   the line of the greatest start offset <= the queried offset (0 when there is none) *)
Theorem C05_offset2line : forall offset ls, sorted_strict ls ->
  offset2line offset ls = Some (line_at offset ls 0).
Proof. exact offset2line_correct. Qed.

Example C05_nonvacuous : sorted_strict [(20, 1); (40, 10); (60, 45)] /\ line_at 41 [(20, 1); (40, 10); (60, 45)] 0 = 10
  /\ spec_findlinestarts_pre36 10 40 [6; 1; 8; 200; 3; 255] = [(0, 10); (6, 11); (14, 211); (17, 466)]
  /\ spec_findlinestarts_36_37 10 40 [6; 1; 8; 200; 3; 255] = [(0, 10); (6, 11); (14, -45); (17, -46)]
  /\ spec_findlinestarts_38_39 10 12 [6; 1; 8; 200; 3; 255] = [(0, 10); (6, 11)].
Proof. repeat split; try reflexivity; cbn; lia. Qed.

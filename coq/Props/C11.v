(* C11 - corrupt or hostile bytecode files fail cleanly (partial: see tools/props/c11.py). *)
From Xdis Require Import Base.Prelude Base.Result Model.Magic Model.Load Model.Unmarshal Model.UnmarshalObs Model.LoadModule Gen.Magics
  Proofs.LoadModuleProofs Proofs.TerminationProofs.

(* For EVERY byte string - every prefix, every mutation, not bytecode at all - the model of
   load_module either returns its tuple or raises ImportError: nothing raised by the size check,
   the magic lookups, the Dropbox path, the header fields or the unmarshaller (any exception,
   RecursionError and MemoryError included) escapes as another type.  Uses that every magic of
   the regenerated table has a version tuple (an obligation over Gen.Magics). *)
Theorem C11_only_importerror : forall dropbox_ok bs,
  load_module_outcome dropbox_ok bs = Returned \/ load_module_outcome dropbox_ok bs = Raised ImportErr.
Proof. exact only_importerror. Qed.

(* Termination of the reader: for EVERY configuration (xdis's, CPython's of any version, xdis.marsh's) and EVERY byte string the
   reader model, given the fuel `load` always gives it (one more than the number of input bytes), never runs out of fuel -
   every recursion and every loop ends because input is used up (each object takes at least one byte, each digit two).  So the
   ImportError of the theorem above never stands for "the model gave up", and a successful read has consumed at least a byte. *)
Theorem C11_reader_never_out_of_fuel : forall c bs, load c bs <> Err OutOfFuel.
Proof. exact load_never_out_of_fuel. Qed.

Theorem C11_reader_consumes : forall c bs v st, load c bs = Ok (v, st) -> (List.length (inp st) < List.length bs)%nat.
Proof. exact load_consumes. Qed.

Theorem C11_tuples : tuples_ok = true.
Proof. exact tuples_ok_true. Qed.

Example C11_nonvacuous : load_module_outcome true (repeat 0 60) = Raised ImportErr
  /\ load_module_outcome true ([203; 13; 13; 10; 0; 0; 0; 0; 1; 2; 3; 4; 5; 6; 7; 8; 78] ++ repeat 0 40) = Returned.
Proof. split; vm_compute; reflexivity. Qed.

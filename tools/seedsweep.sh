#!/bin/bash
# Runs every claimed check with several seeds (false-alarm hunt). Usage: tools/seedsweep.sh "1 2 3" [tier]
cd "$(dirname "$0")/.."
./setup.sh >/dev/null 2>&1
props=$(python3 -c "import json; print(' '.join(c['property_id'] for c in json.load(open('MANIFEST.json'))['checks']))")
for s in ${1:-1 2 3}; do
  for p in $props; do
    out=$(VERIF_SEED=$s ./check $p --tier ${2:-quick} 2>&1 | tail -3 | cut -c1-400)
    echo "seed=$s $p :: $(echo "$out" | tr '\n' ' ')"
  done
done

"""Writes /verif/MANIFEST.json from the table below; validates it against the schema when jsonschema is available."""
import json
import os
import sys

VERIF = os.path.dirname(os.path.dirname(os.path.abspath(__file__)))
ALL = [f"C{i:02d}" for i in range(1, 21)]

CLAIMS = {
    "C03": dict(
        text="Machine-checked Coq proof (C03_resolve): for the nine versions with an installed interpreter, every opcode 0..255, EVERY operand value and every set of tables (a free variable may have the name of a local), xdis resolves the operand to the same table entry as CPython's dis wherever dis resolves it (const, names incl. LOAD_GLOBAL/LOAD_ATTR >>1 and LOAD_SUPER_ATTR >>2, locals, cells/frees, the 3.11+ merged locals+cells+frees table built in CPython's order with a parameter-cell once, COMPARE_OP >>4 / >>5, 3.13 paired operands). Per-opcode resolution plans are compared by vm_compute over tables regenerated from /repo and from the interpreters; the merged-table lemma is proved for all tables. Model tied to Instruction.argval by correspondence over marker tables on all 39 opcode tables; the spec is run against the real dis of 3.8-3.13.",
        note="Trusted: Coq kernel; hand models coq/Model/Resolve.v (xdis chain and dis chain) + correspondence; opcode translator. Objects are identified by (table, index) over marker tables. Known finding D16: comparison operators are spelled 'not-in'/'is-not'/'exception-match' (same index) - reported as KNOWN-FINDING; any other spelling difference is a violation (obligation C03_cmp_spelling). C03_free_slot: every free variable has the slot CPython gives it, whatever its name. Defect D45 (a free variable named like a local lost its slot in the merged 3.11+ name table) was repaired in /repo and the theorem's former hypothesis dropped; the check still runs xdis and dis on such a function compiled by 3.12/3.13. Tables without an interpreter are only tied, not compared with a reference.",
        technique="Coq proof (list lemma + vm_compute plan obligations) + in-Coq correspondence on both sides",
        design="7/C03",
    ),
    "C11": dict(
        text="PARTIAL proof + monitored execution. Proved in Coq (C11_only_importerror): for EVERY byte string the model of load_module either returns or raises ImportError - size check, magic lookups (every table magic has a version tuple: obligation over the regenerated table), Dropbox path, header fields and every exception of the unmarshaller are inside the conversion; and (C11_reader_never_out_of_fuel) for every reader configuration and every byte string the reader model terminates with the fuel it is given (input length + 1) - each object consumes at least one byte, each loop is bounded by the bytes left - so no outcome of the model stands for 'gave up'. The real process is explored: every prefix, single-byte mutations, deletions/insertions of the smallest corpus file of each version, adversarial length/reference/nesting fields behind each header form, random bytes - outcome class, wall time < 10 s, and audit events (exec/compile/import/open-for-write/os mutators) recorded by sys.addaudithook; the model's outcome is compared on the same inputs.",
        note="Trusted: Coq kernel; hand model coq/Model/LoadModule.v (which statements are inside the try) + correspondence; the audit-hook allow-list (traceback/linecache imports and traceback's own ast.parse of its frames). Not a theorem: memory and wall-clock time of the real interpreter. Known finding D32 (host-magic fast path spends tens of seconds in CPython's marshal on a 2^31-1 tuple length).",
        technique="Coq case-analysis proof over the exception plumbing + fault-injection exploration with audit hooks",
        design="7/C11",
    ),
    "C13": dict(
        text="Machine-checked Coq proofs for Python 2.1-2.7 and 3.0-3.10 targets, plus execution. Header: for the magic of every final release the writer reproduces, every 32-bit timestamp/size and every payload, what write_bytecode_file emits is, per that version's format (C06 spec), a timestamp header with exactly those fields, and load_module's parser (C06 model) reads them back and finds the payload where it was put. Payload: for the magic of EVERY 3.0-3.10 version (dump_code3) and EVERY 2.1-2.7 version (dump_code2: Python 2 str as 's', unicode as 'u', int as 'i' or 64-bit 'I', long as 'l'; integer fields 32 bits wide from 2.3 and 16 bits before) in xdis's table and EVERY well-formed code-object tree (any nesting of code objects in constants; posonlyargcount written exactly when that version's reader reads it) CPython's reader of that version (strict configuration of the shared reader model, validated against the interpreters in C10) loads the written bytes to the same tree, kinds included, and stops at their end, and so does xdis's own unmarshaller (re-read). The writer model is compared inside Coq, byte for byte, with what write_bytecode_file wrote for code compiled by the real 2.7 and 3.6-3.10 (incl. a non-ASCII file name, non-UTF-8 str, 64-bit ints, longs, unicode) and for corpus files of 2.1-2.7, 3.0-3.10 and PyPy; the real 2.7 and 3.6-3.10 interpreters compare their own marshal.loads of original and written file field by field through every nested code object (incl. filename and line table; constants by type and value); corpus files of versions the writer has no layout for (before 2.0, 3.11+) must be refused.",
        note="Trusted: Coq kernel; hand models coq/Model/WriteHeader.v and coq/Model/Marsh.v (dumps incl. dump_code3, dumps2 incl. dump_code2) + correspondence; the shared reader model; the real target interpreters as judges of code-object equality ('behaves identically' is taken from that equality). Floats are written as text: the theorem returns the decimal string (repr is the host's); payloads of pre-2.5 files holding text floats, and sets of two or more members (host iteration order), are compared by value through the reader model, not byte for byte; PyPy 3.2 payloads (names stored as 's') by xdis's re-read only. No axioms.",
        technique="Coq round-trip proofs (header; reader of writer = identity by induction over code-object trees, generic in the reader configuration, for the Python 3 and the Python 2 writer) + vm_compute obligations over the magic table + in-Coq correspondence + differential execution on the target interpreters",
        design="7/C13",
    ),
    "C14": dict(
        text="Machine-checked Coq proofs, unbounded in the value: (1) loads(dumps(v)) = v through xdis.marsh's own reader, and (2) CPython's marshal reader (the strict configuration of the shared reader model, validated against marshal.loads of the installed interpreters in C10) of the magic of EVERY Python 3 version in xdis's table returns v for xdis.marsh.dumps(v) - for every plain value tree: None, booleans, Ellipsis, StopIteration, integers of any magnitude (15-bit digit codec: digits denote the integer, are in range, top digit non-zero), floats/complex (written as text; the decimal string comes back), bytes, valid UTF-8 text, tuples, lists, sets, frozensets, dicts to any depth; the reader stops exactly where dumps stopped and its fuel (input length + 1) suffices; and (3) xdis.marsh's reader returns v for what CPython's own writer emits in format versions 0 and 1 (TYPE_INT when the int fits in 32 bits, '%.17g' float text, 'u' text) - the writer model is compared byte for byte with marshal.dumps(v, 0|1) of the host on every run. Model tied by correspondence: Model.Marsh.dumps vs xdis.marsh.dumps byte for byte (every boundary of the integer encodings, signed zeros and infinities in floats and complex parts, every text class, fixed whatever the seed, plus random trees); xdis.marsh.loads vs the reader model on ill-formed streams too (truncations, unknown codes, negative sizes: the buffer-reader configuration); the host's real marshal.loads on those bytes; xdis.marsh.loads of the host's marshal.dumps(v, 0|1) by value, on hosts 3.8-3.13.",
        note="Trusted: Coq kernel; hand model coq/Model/Marsh.v (dumps) and the shared reader coq/Model/Unmarshal.v; repr(float)/float(str) are the host's (the theorem holds for any repr_float); harness value generator. The host's writer is a model too (validated byte for byte; sets are written by marshal in an order of its own and are compared by value only). Formats 2+ of the host (binary floats, references, short ASCII strings) are read by xdis.unmarshal's reader - C10 - not by xdis.marsh. NaN payloads are outside. No axioms.",
        technique="Coq proof by induction over value trees (reader of writer = identity, generic in the reader configuration) + vm_compute obligation over the magic table + differential correspondence against the host marshal",
        design="7/C14",
    ),
    "C01": dict(
        text="Machine-checked Coq proof (C01_load, by the simulation theorem of C10): for every magic and every payload, whenever CPython's marshal reader of the bytecode's version returns a code-object tree, xdis's reader returns the same tree (all integer fields per the version's layout, code, constants recursively, names, var/free/cell names, filename, name, qualname, first line, line table, exception table) and consumes exactly the same bytes (Python 2 int and long are distinct kinds in the tree); plus the 3.11+ localsplus split = CPython's three filters; and for load_module as a whole (C01_load_module): for the file of every released magic and every byte string after it, when the version's format yields header fields and CPython's marshal loads the bytes after them to a code-object tree, header parser + unmarshaller return that version, those fields and the same tree. Model tied to load_code by in-Coq correspondence on the corpus (1.0-3.12, PyPy) and on sources/stdlib compiled by each installed interpreter.",
        note="Trusted: Coq kernel; the single parametrised reader coq/Model/Unmarshal.v (strict = CPython, permissive = xdis) + correspondence on both instantiations: xdis side vs load_code, CPython side vs marshal.loads of the installed 2.7, 3.6-3.13 on their own code objects; magics/dispatch translators; canonical observation (tools/harness/ops_marshal.py). Versions without an interpreter here rest on the transcription. Text payloads assumed valid UTF-8; 2.0 layout undecided; Dropbox/Graal bodies not modelled. No axioms.",
        technique="Coq simulation proof (induction on fuel, reference-table relation) + vm_compute table obligations + in-Coq correspondence",
        design="7/C01",
    ),
    "C10": dict(
        text="Machine-checked Coq proof (C10_agree): for every magic, every byte stream and every related state of the reference/interned tables, whenever CPython's marshal.c reader (strict: validated sizes, digits, references, type codes per version; NULL in reserved slots) yields a value, xdis's reader yields the same value in kind and content - any type code, i/I/l ints, text/binary floats, s/t/R and u/a/A/z/Z strings, FLAG_REF on any object, r back-references, containers of any size, None keys/values - consumes the same bytes and leaves related tables (so shared sub-objects are equal at every reference). The simulation relation is not the identity (NULL vs placeholder slots). The dispatch table of the source equals the one the model assumes (obligation over the regenerated table).",
        note="Trusted: as C01. The CPython side is validated against marshal.loads of the installed interpreters on generated streams incl. truncations; the xdis side against the running unmarshaller for 20 magics of 5 marshal families. Sets/dicts are compared up to order; colliding keys (1/True/1.0) are not generated. No axioms.",
        technique="Coq simulation proof (induction on fuel, reference-table relation) + in-Coq correspondence on both sides",
        design="7/C10",
    ),
    "C15": dict(
        text="Machine-checked Coq proof: for every interpreter with dis.stack_effect installed (3.6-3.13), every opcode and EVERY operand (unbounded Z), wherever CPython's effect is defined xstack_effect returns the same number. xstack_effect is translated from its AST on every run into a decision chain that yields a formula (constant, linear, bit-select, lo+hi byte, popcount-of-4-flags, table) per (version, opname, pop, push, category); the reference is a formula per opcode fitted to and checked against dis.stack_effect (all operands < 2^16 in the thorough tier). Agreement of formulas is a vm_compute obligation; formula equality implies equality at all operands by a proved soundness lemma (incl. the single-bit mask normalisation). Translated model tied to the running function by in-Coq correspondence on all 39 tables.",
        note="Trusted: Coq kernel; fail-closed AST translator tools/translate/stackeffect.py (pattern -> formula constructor); opcode translator; reference formulas are empirical (fitted to the installed interpreters, C source not available), jump=None only. 2.5-3.5 have no reference here: only the translation tie is checked. No axioms.",
        technique="source-to-Coq translation + vm_compute obligations + proved formula soundness + in-Coq correspondence",
        design="7/C15",
    ),
    "C04": dict(
        text="Machine-checked Coq proofs: for every non-empty well-formed code string the label finder bound by an opcode table returns exactly CPython's dis.findlabels list (relative/absolute, x2 from 3.10, backward-jump names from 3.11, own inline caches from 3.12) - by simulation of both unpacking loops plus a fold lemma; Instruction.argval of every jump equals CPython's target for all offsets/operands; is_jump_target <-> offset in labels or exception targets. Jump classification, backward naming and cache sizes are vm_compute obligations over tables regenerated from /repo and the installed interpreters; the cache table and thresholds of _get_jump_cache_size come from the source AST. Model tied by in-Coq correspondence over all 39 tables and the corpus.",
        note="Trusted: Coq kernel; hand model coq/Model/Instr.v + correspondence; translators (opcodes, small); Spec/Dis.v validated on every run against dis.findlabels of the installed 2.7, 3.6-3.13 (2.7's findlabels ignores EXTENDED_ARG, compared on code without it). Hypothesis wf_strict stated in the theorem and shown on real code. That targets are instruction starts is a property of compiler output, not decided. No axioms.",
        technique="Coq proof by induction (simulation + fold) + vm_compute table obligations + in-Coq correspondence",
        design="7/C04",
    ),
    "C02": dict(
        text="Machine-checked Coq proofs over ALL code byte strings: (tiling) whenever decoding succeeds offsets start at 0, advance by the version's instruction width and end at len(co_code); a cut-off operand is an IndexError; (agreement) for every well-formed code string, any number of EXTENDED_ARG prefixes and any operand size, the model's stream has the offsets, opcodes and folded operands of CPython's own unpacking (2.7 disassemble, 3.6-3.13 _unpack_opargs incl. inline-cache skipping and the 3.10 reset rule), the instructions decoded inside cache entries being exactly those stripped. Table compatibility (HAVE_ARGUMENT/hasarg, EXTENDED_ARG, caches) is a vm_compute obligation over tables regenerated from /repo and from the installed interpreters; tables without an interpreter are proved against the decoding algorithm of their version family. Model tied to get_instructions_bytes by in-Coq correspondence over all 39 tables and the corpus.",
        note="Trusted: Coq kernel; hand model coq/Model/Instr.v (the two-level generator modelled as one flat loop) + correspondence harness; opcode translator; Spec/Dis.v transcribed from dis.py and validated on every run against the real dis of 2.7, 3.6-3.13. Hypothesis wf_code (no operand-less opcode after EXTENDED_ARG before 3.10, operands < 2^31 from 3.11, cache entries operand-less) is stated and shown to hold of real code. No axioms.",
        technique="Coq proof by induction (simulation of CPython's unpacking loop) + vm_compute table obligations + in-Coq correspondence",
        design="7/C02",
    ),
    "C12": dict(
        text="PARTIAL proof + monitored execution. Proved in Coq over EVERY instruction stream and the four listing formats: the rows of the listing are, once each and in order, the instructions the format shows (all for bytes, all but CACHE otherwise) with their offset, opcode, name, operand, operand text, jump-target flag; offsets stay strictly increasing (no row twice); the line column is the instruction's starts_line unless it follows SET_LINENO; each line begins with line column (blank iff none), '>>' iff jump target, and the decimal offset (decimal printing is injective). The model produces the exact text of Bytecode.dis(): compared code point by code point inside Coq for classic and bytes, and on the row prefix of every line for extended/extended-bytes, over the corpus, files compiled by the nine installed compilers and synthetic sequences for all 39 tables. Totality, clean stdout/stderr and 'the stream is exactly header + code info + listing (+ exception table)' are observed for all six formats on every file.",
        note="Trusted: Coq kernel; hand model coq/Model/Listing.v (listing loop + Instruction.disassemble columns) + correspondence; the Instruction records fed to the model are the implementation's (tied to the bytes by C02/C03/C05/C17). NOT modelled: operand text of the extended formats (stack simulation), xasm text, header text - for these only totality/cleanliness is decided, by execution on real compiler output, which is not a theorem. No axioms.",
        technique="Coq proof by induction over the listing loop + in-Coq text correspondence + monitored execution of all formats",
        design="7/C12",
    ),
    "C16": dict(
        text="Machine-checked Coq proof over tables regenerated on every run from the AST of xdis/codetype (which attribute codeType2Portable reads as the line table, which class it builds per version from which attributes, what each constructor stores through its super().__init__ chain, what to_native() hands to types.CodeType and on which hosts) and from the installed interpreters (data attributes of a code object; attribute set by each constructor position): for every host 3.8-3.13 and EVERY valuation of the code attributes, portable-then-native gives the host's constructor, position by position, the value of the attribute that position sets (line table and exception table included); the class is the host's; replace() changes exactly the named attribute of a copy. Execution on all six hosts: every code object of generated sources and stdlib modules is converted and converted back, every data attribute compared (and ==), replace() checked for copy semantics and no shared mutable state; the model's predictions are compared with the real objects inside Coq.",
        note="Trusted: Coq kernel; fail-closed AST translator tools/translate/codetype.py; the text signature of types.CodeType as the meaning of constructor positions; canonical hashing of values in the harness. deepcopy/freeze/check inside to_native() and CPython's constructor are covered by execution only. No axioms.",
        technique="source-to-Coq translation + vm_compute obligations generic in the attribute valuation + execution on six hosts with in-Coq correspondence",
        design="7/C16",
    ),
    "C20": dict(
        text="PARTIAL proof + differential execution against the real dis. Proved in Coq: for every host 3.8-3.13 (its dis._get_code_object translated from its own dis.py on every run) and EVERY object tree without a func_code attribute, xdis's get_code_object (translated from /repo) returns the same code object or raises TypeError exactly as dis does (chain-equivalence checker with a proved soundness lemma); the first_line shift is dis's rule. The decoders behind the API are C02/C03/C04/C05/C09/C17. Executed on all six hosts: xdis.std vs the host's own dis on functions, closures, methods, lambdas, generators, coroutines, async generators, code objects, module code and source strings - get_instructions and Bytecode with and without first_line (opcode, opname, arg, offset, is_jump_target, starts_line, table/jump argval), findlabels, findlinestarts, opmap/opname/hasconst/hasname/HAVE_ARGUMENT/EXTENDED_ARG; make_std_api(v) on files compiled by v compared between host v and other hosts. The model's coercion outcomes and shifted lines are compared with the implementation inside Coq.",
        note="Trusted: Coq kernel; fail-closed AST translator tools/translate/stdapi.py; the hosts' dis as oracle; harness object zoo (tools/harness/ops_std.py). CACHE pseudo-instructions excluded from the comparison. Known finding D40 (3.13 only: dis flags is_jump_target at exception-range boundaries too, which C04's definition excludes). D41 (WITH_EXCEPT_START operand) and D42 (CACHE entries) were repaired. No axioms.",
        technique="source-to-Coq translation + Coq proof (checker soundness by induction) + differential execution against dis on six hosts",
        design="7/C20",
    ),
    "C18": dict(
        text="PARTIAL proof + monitored execution. Proved in Coq: a frame theorem (if operations write only cells no result depends on, the result of any probe after ANY finite history equals its result right after import, and a repeated call repeats its result), instantiated on an inventory regenerated from the AST of every module of /repo on every run: mutable default arguments, their self.x aliases, module globals and local aliases of them, argument objects, setattr, and every use of a memoising helper (functools.lru_cache / cache / cached_property: a site of its own); every statement that changes such state inside a function body must fall in a class (import-time table builder - call sites checked, per-call object, write-only cell - no reads of its content anywhere, default every caller overrides, explicit remapping); a new mutation site, a read of a write-only cell or a new mutated default breaks the obligation. Execution: random histories of 1-40 public operations (15 kinds, incl. the std functions and co_lines() per code object, whole-table stack effects, sysinfo2magic, pretty_flags; 40% related to the probe: the other variant of its version, the same file through another entry point, the same source compiled for another version) in one process then a probe, against the probe as first call of a fresh process and against its own repetition, shrunk on difference; all ~1300 module-level containers and mutable defaults of xdis.* digested before/after.",
        note="Trusted: Coq kernel; AST scanner tools/translate/mutstate.py (syntactic: aliasing beyond self.x = param and state reached through attribute chains of locals is not tracked); classification table coq/Model/History.v; harness digests. State outside the package (linecache, import system) is not in the inventory. No axioms (result functions are required to be extensional, stated as a hypothesis).",
        technique="Coq frame theorem + source-derived inventory obligations (vm_compute) + randomized history execution against fresh processes",
        design="7/C18",
    ),
    "C07": dict(
        text="PARTIAL proof + cross-host execution. Proved in Coq: every test the package makes on the identity of the running interpreter (PYTHON_VERSION_TRIPLE, sys.version_info, PYTHON3, IS_PYPY ... - sites regenerated from the AST of /repo on every run and evaluated for 3.8.18-3.13.0) has the same value on all six hosts except the to_native() guards; the host's identity is passed on as a value only at listed sites; and the one host-dependent switch of the load path is harmless: for every magic and payload the portable reader returns the tree CPython's reader returns (C01's simulation theorem, restated). Executed: corpus files and files compiled by each installed interpreter are loaded under all six hosts, and files of the host's own version additionally with the fast path switched off and as converted native code objects; header, every code-object field, constants by kind and value, instruction stream with argval, labels, line starts and the classic listing (minus addresses and banner) are compared.",
        note="Trusted: Coq kernel; AST scanner tools/translate/hostsites.py; the allow-lists in coq/Model/HostIndep.v; harness canonicalisation (tools/harness/ops_hostpath.py). Equality of the real runs is observed on the sampled files, not proved. No axioms.",
        technique="source-derived site obligations (vm_compute) + Coq simulation theorem (C01) + differential execution across six hosts and three loader paths",
        design="7/C07",
    ),
    "C19": dict(
        text="Machine-checked Coq proofs of the round-trip law for the three freeze() encoders, for EVERY mapping with offsets strictly increasing from 0 and consecutive lines different, offset and line gaps unbounded (continuation entries are induction cases): findlinestarts(decode) of Code3/Code38's table (signed, any decreasing lines), of Code15/Code2's table (lines increasing; reads back under both the unsigned and the signed rule), and of Code310's range table (via co_lines()) returns the mapping. By the C05 theorems the decoders used are CPython's. Encoder models tied to /repo by in-Coq correspondence (dict and list inputs, boundary gaps); model-made tables are additionally decoded by the real 2.7, 3.6-3.10.",
        note="Trusted: Coq kernel; hand model coq/Model/Freeze.v (while-loops as closed forms) + correspondence harness; C05 decoder theorems and spec validation. Hypotheses stated in the theorems: offsets start at 0, lie inside co_code, consecutive lines differ; for 1.5-2.7 lines do not decrease. No axioms.",
        technique="Coq proof by induction (decode . encode = id) + in-Coq correspondence",
        design="7/C19",
    ),
    "C17": dict(
        text="Machine-checked Coq proofs over ALL lists of well-formed entries (five location-entry forms, varints of any length as digit lists, negative line deltas; four-varint exception entries): parse_exception_table(encode es) = the entries; Code311.co_lines() on the encoded table = CPython 3.12+'s co_lines() exactly and CPython 3.11's per code unit; co_positions() entries, expanded per code unit, = CPython's co_positions(). Bit-level facts proved by a lifted 256-value sweep. Models tied to /repo by in-Coq correspondence on encoder-made, truncated and random tables.",
        note="Trusted: Coq kernel; hand models coq/Model/CoLines.v, ExcTable.v + correspondence harness; Spec/Loc311.v, ExcTable.v (entries, CPython's encoders, semantics) validated on every run against co_lines()/co_positions()/dis._parse_exception_table of the installed 3.11, 3.12, 3.13. No axioms.",
        technique="Coq proof by induction over entry lists (decoder of encoder = semantics) + in-Coq correspondence",
        design="7/C17",
    ),
    "C05": dict(
        text="Machine-checked Coq proofs: for EVERY byte table the model of findlinestarts bound by a version's opcode table equals that version's dis.findlinestarts (unsigned <3.6, signed 3.6-3.9, cut-off from 3.8); the 3.10 co_lines() model equals lineiter_next's sequence; findlinestarts over co_lines() equals the 3.10-3.12 and the 3.13 rules; offset2line's binary search returns the line of the greatest start <= offset for every strictly increasing mapping (invariant proof). Model tied to /repo by in-Coq correspondence through the opcode modules of 11 versions; 3.11+ location-table decoding is tied to the spec by the C17 theorems; and on the path a file takes: for 2.7 and 3.6-3.9 the reference interpreter marshals a code object around each table, xdis's unmarshaller loads it and the version's findlinestarts reads the loaded object, compared with that interpreter's own dis.findlinestarts (tables whose bytes form UTF-8 sequences included).",
        note="Trusted: Coq kernel; hand models coq/Model/LineStarts.v, CoLines.v + correspondence harness; Spec/Lnotab.v, Lines310.v, Loc311.v transcribed from CPython and validated on every run against dis.findlinestarts/co_lines() of the installed 2.7, 3.6-3.13. No axioms.",
        technique="Coq proof by induction (decoders, binary-search invariant) + in-Coq correspondence",
        design="7/C05",
    ),
    "C06": dict(
        text="Machine-checked Coq proof (C06_agree): for the magic of every final CPython release (from CPython's registry) and every PyPy file of the corpus, and for EVERY byte string after the magic, the model of load_module's header parser returns the version, magic and exactly the fields the producing version's format stores (spec_fields), leaving the code object at the byte after them. Header decision per magic is a vm_compute obligation over tables regenerated from /repo; field decoding is an arithmetic proof. Model tied to load_module_from_file_object by in-Coq correspondence over every table magic x flag words x truncations.",
        note="Trusted: Coq kernel; hand model coq/Model/Load.v + correspondence harness; translator for magics tables; Spec/Header.v validated against py_compile of the 9 installed interpreters in every invalidation mode. Magic 62135 (Dropbox) and non-final magics are outside the theorem. No axioms.",
        technique="Coq proof (arithmetic + vm_compute over regenerated tables) + in-Coq correspondence",
        design="7/C06",
    ),
    "C09": dict(
        text="Machine-checked Coq proof by complete evaluation (vm_compute) over the 39 opcode tables regenerated from /repo on every run: name/number bijection, categorised opcodes defined and operand-taking (modulo CPython's own gaps), jrel/jabs disjoint, EXTENDED_ARG and shift, frozen category sets = category lists, label-finder binding; equality with the interpreter's opcode module (opmap, opname[n] spelled as CPython spells it, HAVE_ARGUMENT, EXTENDED_ARG, 7 categories) for the 9 installed CPythons.",
        note="Trusted: Coq kernel; translator tools/translate/opcodes.py (imports /repo's opcode modules and dumps their attributes; dumps opcode modules of the installed interpreters). For the 30 tables without an installed interpreter only coherence is decided. No axioms.",
        technique="Coq vm_compute obligations over tables regenerated from the source on every run",
        design="7/C09",
    ),
    "C08": dict(
        text="Machine-checked Coq proof: magic2int/int2magic are mutual inverses for all 65536 magics (arithmetic, lia); "
             "registry agreement, accepted-magic resolution, release-name/sysinfo2magic agreement are vm_compute obligations over tables "
             "regenerated from /repo on every run (finite tables, decided completely). Model of int2magic/magic2int tied by in-Coq correspondence on sampled/all 16-bit ints.",
        note="Trusted: Coq kernel; translator tools/translate/magics.py (evaluates /repo tables, parses CPython 3.13's registry comment block); "
             "correspondence harness; final-release magic = last registry row of that major.minor (+ the 3.5.0/3.5.1 exception). No axioms.",
        technique="Coq proof (lia + vm_compute over regenerated tables) + in-Coq correspondence",
        design="7/C08",
    ),
}

NOT_YET = "machinery for this property is not built yet in this round (planned in DESIGN.md section 7); not claimed"


def main():
    checks = []
    for pid in ALL:
        if pid not in CLAIMS:
            continue
        c = CLAIMS[pid]
        checks.append({
            "property_id": pid,
            "quick_cmd": f"./check {pid} --tier quick",
            "thorough_cmd": f"./check {pid} --tier thorough",
            "evidence_file": f"/verif/evidence/{pid}.json",
            "replay_cmd_template": f"./check {pid} --replay {{path}}",
            "engine": "coq-xdis",
            "level_claimed": {"category": "proof", "text": c["text"], "design_ref": c["design"]},
            "level_note": c["note"],
            "technique": c["technique"],
        })
    man = {
        "version": 1,
        "setup_cmd": "./setup.sh",
        "hooks": {
            "guard": "XDIS_VERIF",
            "enable": "no hooks are installed in /repo; checks observe the unmodified working tree from outside (PYTHONPATH=/repo)",
            "baseline_off_cmd": "/verif/tools/baseline.sh",
            "source_commits": [],
            "add_only": True,
        },
        "engines": [{
            "name": "coq-xdis",
            "path": "/verif/coq",
            "serves_properties": sorted(CLAIMS),
            "kind_free_text": "Coq 8.16.1 development: Gen/ regenerated from /repo by tools/translate, hand-written Model/ and Spec/, Proofs/, Props/Cxx.v; "
                              "correspondence model-vs-implementation evaluated inside Coq (vm_compute) by tools/props/cxx.py",
        }],
        "checks": checks,
        "not_applicable": [{"property_id": p, "reason": NOT_YET} for p in ALL if p not in CLAIMS],
        "notes": "Family: machine-checked proof in Coq. See DESIGN.md. Fix commits in /repo are listed in KNOWN_FINDINGS.txt.",
    }
    with open(os.path.join(VERIF, "MANIFEST.json"), "w") as f:
        json.dump(man, f, indent=1)
    try:
        import jsonschema
        jsonschema.validate(man, json.load(open("/root/.vp/MANIFEST.schema.json")))
        print("MANIFEST.json valid;", len(checks), "checks")
    except ImportError:
        print("MANIFEST.json written (jsonschema not importable here)")


if __name__ == "__main__":
    main()

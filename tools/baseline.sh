#!/bin/bash
# Runs the pinned baseline suite with hooks OFF and reports how many of the 39 stable tests pass.
unset XDIS_VERIF
out=$(mktemp -d /var/tmp/xdis-baseline.XXXX)
cd /repo && /venv/bin/python -m pytest -ra -q -p no:cacheprovider --timeout=900 --continue-on-collection-errors --junitxml=$out/junit.xml >$out/log 2>&1
/venv/bin/python - "$out/junit.xml" <<'PY'
import json, sys, xml.etree.ElementTree as ET
base = json.load(open('/root/.vp/BASELINE.json'))
want = set(base['stable_pass'])
t = ET.parse(sys.argv[1])
passed = set()
for tc in t.iter('testcase'):
    name = tc.get('classname', '') + '::' + tc.get('name', '')
    if not any(ch.tag in ('failure', 'error', 'skipped') for ch in tc):
        passed.add(name)
missing = sorted(want - passed)
print(f"baseline: {len(want) - len(missing)}/{len(want)} stable tests pass")
for m in missing:
    print("MISSING", m)
sys.exit(1 if missing else 0)
PY
rc=$?
rm -rf "$out"
exit $rc

#!/venv/bin/python
"""./check Cxx [--tier quick|thorough] [--replay FILE]

One run = regenerate coq/Gen from /repo's working tree, rebuild the property's
proof cone, run the correspondence (model vs implementation) and write
evidence/Cxx.json.  Exit 0 = property held on everything explored; exit 1 with a
`VIOLATION property=Cxx replay=<path>` line otherwise; exit 2 = machinery error
(never a VIOLATION).
"""
import argparse
import importlib
import json
import os
import sys
import time
import traceback

sys.path.insert(0, os.path.dirname(os.path.abspath(__file__)))
import common as C  # noqa: E402


class Run:
    def __init__(self, pid, tier, replay=None):
        self.pid = pid
        self.tier = tier
        self.seed = C.seed()
        self.t0 = time.time()
        self.replay_in = replay
        if replay:
            # a replay re-runs the check with the seed and tier the violation was found under: the generators are functions of the seed
            # alone, so the same inputs (the recorded one among them) are produced again and judged against the tree as it is now
            try:
                with open(replay) as f:
                    ro = json.load(f)
                self.seed = int(ro.get("seed", self.seed))
                self.tier = ro.get("tier", self.tier) if ro.get("tier") in ("quick", "thorough") else self.tier
            except (OSError, ValueError):
                pass
        self.wd = C.workdir(pid)
        self.violations = []
        self.known_lines = []
        self.notes = []
        self.cov = {
            "obligations": 0,
            "discharged": 0,
            "checker_cmd": "",
            "trusted_base": list(C.TRUSTED_BASE),
            "evaluations": 0,
            "distinct_nontrivial": 0,
            "rule": "",
            "samples": [],
            "distribution": {},
            "theorems": {},
            "explanation": "",
        }
        self.assumptions = []
        self._distinct = set()
        self.known, self.fixed = C.load_known_findings()

    # -- bookkeeping -----------------------------------------------------
    def note(self, s):
        self.notes.append(s)
        print("NOTE:", s, flush=True)

    def count(self, key, n=1):
        d = self.cov["distribution"]
        d[key] = d.get(key, 0) + n

    def case(self, obs_key, nontrivial=True, sample=None):
        self.cov["evaluations"] += 1
        if nontrivial:
            self._distinct.add(C.digest(obs_key))
        if sample is not None and len(self.cov["samples"]) < 8:
            self.cov["samples"].append(sample)

    def violation(self, replay_obj, found_input=True, name=None):
        os.makedirs(C.REPLAY, exist_ok=True)
        name = name or f"{self.pid}-{C.digest(replay_obj)}.json"
        path = os.path.join(C.REPLAY, name)
        replay_obj = dict(replay_obj)
        replay_obj.setdefault("property", self.pid)
        replay_obj.setdefault("seed", self.seed)
        replay_obj.setdefault("tier", self.tier)
        replay_obj.setdefault("replay_cmd", f"./check {self.pid} --replay {path}")
        with open(path, "w") as f:
            json.dump(replay_obj, f, indent=1, default=str)
        self.violations.append((path, found_input))

    def known_finding(self, fid, text):
        line = f"KNOWN-FINDING: property={self.pid} {text} ({fid})"
        if line not in self.known_lines:
            self.known_lines.append(line)

    def is_known(self, fid):
        return any(k["property"] == self.pid and k.get("id") == fid for k in self.known)

    # -- Coq steps ---------------------------------------------------------
    def generate(self, *gens):
        """Run translators; a translator failure is a broken tie (returned, not raised)."""
        broken = []
        for g in gens:
            mod = importlib.import_module("translate." + g)
            try:
                mod.generate()
            except Exception as e:  # fail closed
                broken.append((g, f"{type(e).__name__}: {e}"))
                traceback.print_exc()
        return broken

    def build(self, prop_files=None, extra_targets=()):
        bad = C.forbidden_scan()
        if bad:
            print("MACHINERY-ERROR: forbidden constructs in development:", bad)
            sys.exit(2)
        prop_files = prop_files or [f"Props/{self.pid}.v"]
        targets = [p[:-2] + ".vo" for p in prop_files] + list(extra_targets)
        ok, log = C.coq_build(targets)
        self.build_ok = ok
        self.cov["checker_cmd"] = (
            f"cd /verif/coq && coq_makefile -f _CoqProject -o Makefile && make -j{C.NCPU} "
            + " ".join(targets)
            + "  (coqc 8.16.1, full .vo build; then coqc Print Assumptions per theorem)"
        )
        names = []
        for p in prop_files:
            names += [(p, n) for n in C.theorem_names(p)]
        self.cov["obligations"] = len(names)
        self.build_log = log
        if not ok:
            # which theorems still check?  a Props file that failed has none.
            built = [p for p in prop_files if os.path.exists(os.path.join(C.COQ, p[:-2] + ".vo")) and os.path.getmtime(os.path.join(C.COQ, p[:-2] + ".vo")) >= os.path.getmtime(os.path.join(C.COQ, p))]
            self.cov["discharged"] = sum(1 for p, n in names if p in built and self._vo_fresh(p))
            return False
        disc = 0
        for p in prop_files:
            mod = p[:-2].replace("/", ".")
            res, err = C.print_assumptions(mod, [n for q, n in names if q == p], self.wd)
            for n, a in res.items():
                if a is None:
                    self.note(f"Print Assumptions failed for {n}: {err[-500:]}")
                    continue
                disc += 1
                self.cov["theorems"][n] = a
                s = f"{n}: {a}"
                self.assumptions.append(s)
        self.cov["discharged"] = disc
        return disc == len(names)

    def _vo_fresh(self, p):
        return False

    def build_failure_excerpt(self):
        lines = [l for l in self.build_log.splitlines()]
        idx = [i for i, l in enumerate(lines) if "Error" in l]
        if idx:
            i = idx[0]
            return "\n".join(lines[max(0, i - 6): i + 12])
        return "\n".join(lines[-30:])

    # -- finish ---------------------------------------------------------------
    def finish(self):
        self.cov["distinct_nontrivial"] = len(self._distinct)
        # fail closed: cases on which the runner itself raised were never observed; silence about them must not read as agreement
        self.cov["harness_op_failures"] = len(C.OUTER_ERRORS)
        if C.OUTER_ERRORS and not any(p.endswith(f"{self.pid}-correspondence.json") for p, _ in self.violations):
            self.violation({"correspondence": "an implementation-side runner raised before observing anything (a name the harness imports from xdis moved, or the harness is broken)",
                            "count": len(C.OUTER_ERRORS), "first": [str(x)[:300] for x in C.OUTER_ERRORS[:3]]}, found_input=False, name=f"{self.pid}-correspondence.json")
        ev = {
            "property_id": self.pid,
            "tier": self.tier,
            "seed": self.seed,
            "level": "proof",
            "coverage": self.cov,
            "assumptions": self.assumptions + self.notes,
            "wall_s": round(time.time() - self.t0, 2),
            "violations": len(self.violations),
            "known_findings": self.known_lines,
        }
        os.makedirs(C.EVID, exist_ok=True)
        tmp = os.path.join(C.EVID, f".{self.pid}.json.tmp")
        with open(tmp, "w") as f:
            json.dump(ev, f, indent=1, default=str)
        os.replace(tmp, os.path.join(C.EVID, f"{self.pid}.json"))
        import shutil

        shutil.rmtree(self.wd, ignore_errors=True)
        for l in self.known_lines:
            print(l)
        if self.violations:
            for path, found in self.violations:
                print(f"VIOLATION property={self.pid} replay={path}" + ("" if found else " no-failing-input-found"))
            return 1
        print(f"OK property={self.pid} tier={self.tier} obligations={self.cov['obligations']} discharged={self.cov['discharged']} evaluations={self.cov['evaluations']} wall={ev['wall_s']}s")
        return 0


def main():
    ap = argparse.ArgumentParser()
    ap.add_argument("pid")
    ap.add_argument("--tier", default=os.environ.get("VERIF_TIER", "quick"))
    ap.add_argument("--replay")
    a = ap.parse_args()
    if a.tier not in ("quick", "thorough"):
        a.tier = "quick"
    pid = a.pid.upper()
    r = Run(pid, a.tier, a.replay)
    try:
        mod = importlib.import_module("props." + pid.lower())
        mod.run(r)
    except SystemExit:
        raise
    except Exception:
        traceback.print_exc()
        print(f"MACHINERY-ERROR: check {pid} crashed (not a verdict)")
        sys.exit(2)
    sys.exit(r.finish())


if __name__ == "__main__":
    main()

"""Re-run checks against a stored seeded change and record the outcome in its meta.json.
usage: seedrecheck.py <label> C01,C10     (env SEED_REPO / SEED_VERIF as in seedconfirm.py)"""
import json, os, subprocess, sys
label, checks = sys.argv[1], sys.argv[2].split(",")
SREPO = os.environ.get("SEED_REPO", "/repo")
SVERIF = os.environ.get("SEED_VERIF", "/verif")


def sh(cmd, **kw):
    return subprocess.run(cmd, shell=True, stdout=subprocess.PIPE, stderr=subprocess.STDOUT, text=True, **kw)


d = f"/verif/seeded/{label}"
meta = json.load(open(f"{d}/meta.json"))
assert sh(f"git -C {SREPO} status --porcelain").stdout.strip() == "", f"{SREPO} is not clean"
r = sh(f"git -C {SREPO} apply {d}/patch.diff")
assert r.returncode == 0, r.stdout
try:
    res = {}
    for c in checks:
        r = sh(f"cd {SVERIF} && XDIS_REPO={SREPO} VERIF_SEED=1 VERIF_TIER=quick ./check {c}", timeout=3000)
        lines = [l for l in r.stdout.splitlines() if l.startswith(("VIOLATION", "OK property", "MACHINERY", "KNOWN-FINDING"))]
        res[c] = {"exit": r.returncode, "lines": [l[:200] for l in lines[:4]], "n_violation_lines": sum(l.startswith("VIOLATION") for l in lines),
                  "no_failing_input": bool(lines) and all("no-failing-input-found" in l for l in lines if l.startswith("VIOLATION")) and any(l.startswith("VIOLATION") for l in lines)}
finally:
    sh(f"git -C {SREPO} checkout -- .")
    sh(f"rm -f {SVERIF}/replay/*.json")
# results of checks that were not re-run this time are kept (SEED_MERGE=0 drops them)
merged = dict(meta.get("checks") or {}) if os.environ.get("SEED_MERGE", "1") == "1" else {}
merged.update(res)
meta["checks"] = merged
meta["caught_by"] = [c for c, v in merged.items() if v["exit"] == 1]
json.dump(meta, open(f"{d}/meta.json", "w"), indent=1)
print(label, {c: (v["exit"], v["no_failing_input"]) for c, v in res.items()})

"""C20 - xdis.std is a faithful drop-in for the host's dis module."""
import json
import os
import random

import common as C
from props import c12

HEADER = "From Xdis Require Import Base.Prelude Gen.StdApi Model.StdApi."
MODS = ["ops_std"]
HOSTS = ["3.8", "3.9", "3.10", "3.11", "3.12", "3.13"]

CASE_DEFS = """
From Coq Require Import ZArith List String Bool. Import ListNotations. Open Scope Z_scope.
Definition compiled : pyobj := PyObj false [("id:compiled"%string, PyObj false []); ("co_code"%string, PyObj false [])].
Definition node_id (o : pyobj) : string :=
  match attrs_of o with
  | (k, _) :: _ => k
  | [] => ""%string
  end.
Definition outcome_id (r : outcome) : string :=
  match r with
  | OCode o => node_id o
  | OTypeError => "TypeError"%string
  | OAttributeError => "AttributeError"%string
  | ONone => "None"%string
  end.
Inductive gcase := GCo (o : pyobj) (expect : string) | GShift (first firstlineno : Z) (a b : option Z).
Definition gcase_ok (c : gcase) : bool :=
  match c with
  | GCo o e => String.eqb (outcome_id (eval_chain (fun _ => compiled) xdis_code_chain o)) e
  | GShift f fl a b => match shift_line (Some f) fl a, b with Some x, Some y => x =? y | None, None => true | _, _ => false end
  end.
"""


def tree_lit(t):
    return f"(PyObj {C.boollit(t['str'])} [" + "; ".join(f"({C.slit(k)}%string, {tree_lit(v) if v else 'PyObj false []'})" for k, v in t["attrs"]) + "])"


def known_kind(host, m):
    d = m["detail"]
    if host == "3.13" and d.get("kind") == "field" and d.get("field") == "target" and d["dis"]["target"] is True and d["xdis"]["target"] is False and d.get("exc_range_boundary"):
        return "D40"
    if host == "3.13" and d.get("kind") == "field" and d.get("field") in ("arg", "argval") and d["dis"]["opname"] == "WITH_EXCEPT_START" and d["dis"]["arg"] is None:
        return "D41"
    return None


def run(r):
    r.cov["rule"] = ("theorems: every host's coercion chain (translated from its dis.py) x every object tree; first_line shift for all line values; execution on the six hosts: "
                     "xdis.std vs the host's own dis on functions, closures, bound/class/static methods, lambdas, generators, coroutines, async generators, code objects, module code, "
                     "source strings (expression / statement), a 300-constant function, nested code objects; get_instructions (with and without first_line), Bytecode (with and "
                     "without first_line), findlabels, findlinestarts, opmap/opname/hasconst/hasname/HAVE_ARGUMENT/EXTENDED_ARG; make_std_api(v) on files compiled by v, on host v vs other hosts; "
                     "non-trivial = every comparison with the real dis; distinct by (host, api, object)")
    broken = r.generate("stdapi")
    ok = False if broken else r.build(extra_targets=["Model/StdApi.vo"])
    found = False
    rnd = random.Random(r.seed * 2003 + 20)
    lits, owners = [], []
    seen_known = set()
    try:
        for v in HOSTS:
            res = C.run_impl_op("stdcmp", [{}], modules=MODS, host=C.HOSTS[v], timeout=900)[0]
            if "checked" not in res:
                raise RuntimeError(f"stdcmp under {v}: {str(res)[:400]}")
            for api, n in res["checked"].items():
                r.count(f"{v}:{api}", n)
                for k in range(n):
                    r.case(("std", v, api, k), nontrivial=True)
            if res.get("extra_cache_instructions"):
                r.count("extra-CACHE:" + v, res["extra_cache_instructions"])
                if v in ("3.11", "3.12", "3.13") and r.is_known("D42"):
                    seen_known.add("D42")
                else:
                    found = True
                    r.violation({"component": "xdis.std.get_instructions / Bytecode", "host": v, "extra_CACHE_instructions": res["extra_cache_instructions"],
                                 "why": "xdis.std yields CACHE pseudo-instructions the host's dis does not"})
            for m in res["mismatches"]:
                kk = known_kind(v, m)
                if kk and r.is_known(kk):
                    seen_known.add(kk)
                    continue
                found = True
                if r.cov["distribution"].get("mismatch:" + v + ":" + m["api"], 0) < 1:
                    r.violation({"component": "xdis.std." + m["api"], "host": v, "object": m["object"], "detail": m["detail"],
                                 "why": "xdis.std returns different data than this interpreter's dis for an object dis accepts",
                                 "replay": f"PYTHONPATH=/repo:/verif/tools/harness {C.HOSTS[v]} -c \"import ops_std, json; print(json.dumps(ops_std.op_stdcmp({{}})['mismatches'], indent=1))\""})
                r.count("mismatch:" + v + ":" + m["api"])
            for g in res.get("coercion", []):
                exp = g["outcome"] if g["outcome"] in ("TypeError", "AttributeError", "other") else "id:" + g["outcome"]
                lits.append(f"(GCo {tree_lit(g['tree'])} {C.slit(exp)}%string)")
                owners.append({"host": v, "kind": "coercion", "object": g["object"], "impl_outcome": g["outcome"]})
                r.count("coercion-objects")
            for s in res.get("shifts", []):
                if "pairs" not in s:
                    continue
                for a, b in s["pairs"]:
                    lits.append(f"(GShift {C.zlit(s['first_line'])} {C.zlit(s['firstlineno'])} {C.optlit(a, C.zlit)} {C.optlit(b, C.zlit)})")
                    owners.append({"host": v, "kind": "first_line", "object": s["object"], "first_line": s["first_line"], "firstlineno": s["firstlineno"], "line": a, "reported": b})
                r.count("first_line-instructions", len(s["pairs"]))
        # make_std_api(v) across hosts, on files compiled by v
        pycs = {}
        for v in c12.VERSIONS:
            d = os.path.join(r.wd, "pyc", v)
            rc, o, err = C.run_py(c12.ORACLE_PYC, host=C.ORACLES[v], impl=False, stdin=json.dumps({"outdir": d, "stdlib": rnd.sample(c12.LIBS, 2 if r.tier == "quick" else 10), "max_src": 30000}))
            pycs[v] = json.loads(o.split("@@JSON@@")[1]) if "@@JSON@@" in o else []
        for v, files in pycs.items():
            vt = [int(x) for x in v.split(".")]
            files = files if r.tier != "quick" else rnd.sample(files, min(4, len(files)))
            hosts = ([v] if v in C.HOSTS else []) + rnd.sample([h for h in HOSTS if h != v], 2)
            cases = [{"version": vt, "file": f, "max_codes": 8} for f in files]
            outs = {h: C.run_impl_op("make_std_api", cases, modules=MODS, host=C.HOSTS[h], timeout=900) for h in hosts}
            ref = outs[hosts[0]]
            for h in hosts[1:]:
                for cs, a, b in zip(cases, ref, outs[h]):
                    r.case(("msa", v, h, os.path.basename(cs["file"])), nontrivial=True)
                    r.count(f"make_std_api:{v}")
                    if a != b:
                        found = True
                        diff = None
                        if isinstance(a, dict) and isinstance(b, dict) and "codes" in a and "codes" in b:
                            for x, y in zip(a["codes"], b["codes"]):
                                for k in x:
                                    if x.get(k) != y.get(k):
                                        diff = {"code_object": x.get("name"), "field": k, f"on_host_{hosts[0]}": str(x.get(k))[:300], f"on_host_{h}": str(y.get(k))[:300]}
                                        break
                                if diff:
                                    break
                        if r.cov["distribution"].get("msa-mismatch:" + v, 0) < 1:
                            r.violation({"component": "make_std_api", "version": v, "file_compiled_by": v, "file": os.path.basename(cs["file"]), "hosts": [hosts[0], h], "difference": diff or str(a)[:300],
                                         "why": "make_std_api(version) answers differently on two hosts for the same file of that version (the first host is the version's own where installed)"})
                        r.count("msa-mismatch:" + v)
    except SystemExit:
        raise
    except Exception as e:
        import traceback
        traceback.print_exc()
        r.violation({"correspondence": "could not be run", "error": repr(e)}, found_input=False, name="C20-correspondence.json")
        lits = []
    if r.is_known("D40"):
        r.known_finding("D40", "on a 3.13 host dis.Bytecode flags is_jump_target also at the start and end offsets of exception-table ranges (its labels for the table printout); "
                               "xdis.std flags jump targets and handler targets only, which is what C04 prescribes")
    if r.is_known("D42"):
        r.known_finding("D42", "on 3.11-3.13 hosts xdis.std.get_instructions / Bytecode also yield the CACHE pseudo-instructions, which dis hides unless show_caches=True (3.11, 3.12) "
                               "and does not have at all in 3.13; all other instructions are compared")
    if r.is_known("D41"):
        r.known_finding("D41", "on a 3.13 host dis reports arg None for WITH_EXCEPT_START (opcode 44 = HAVE_ARGUMENT, not in dis.hasarg); xdis.std reports arg 0")
    if broken or not ok:
        if not found:
            r.violation({"broken": broken or "proof obligation", "theorem_or_tie": "Props/C20.v (chains regenerated from cross_dis.py and the hosts' dis.py)", "log": "" if broken else r.build_failure_excerpt()},
                        found_input=False, name="C20-obligation.json")
    elif lits:
        bad, errs = C.coq_cases(r.wd, "stdglue", HEADER + CASE_DEFS, "gcase", "gcase_ok", lits, chunk=400)
        if errs:
            r.violation({"correspondence": "coq evaluation failed", "error": str(errs[0])[:1500]}, found_input=False, name="C20-correspondence.json")
        for b in bad[:3]:
            r.violation({"component": "model of get_code_object / first_line vs the implementation", "case": owners[b],
                         "why": "the implementation's coercion outcome or shifted line differs from the model the theorems are about"}, found_input=owners[b]["kind"] == "first_line")
        r.cov["compared_in_coq"] = len(lits)
    r.cov["explanation"] = ("The data equality with dis is decided by running the real dis of each host; the theorems cover the glue (coercion chain for all objects, first_line) and C02-C05/C09/C17 the decoders. "
                            "CACHE pseudo-instructions are left out of the comparison (dis hides them by default; 3.13 has none). stack_effect is C15. The one known difference left is D40 (3.13's dis marks exception-range boundaries as jump targets).")

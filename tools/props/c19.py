"""C19 - freeze() encodes a line table that decodes back to the same mapping."""
import json
import os
import random

import common as C
from props import linegen as G

HEADER = ("From Xdis Require Import Base.Prelude Base.Result Base.LE Model.LineStarts Model.CoLines Model.Freeze Model.LineObs "
          "Spec.Lnotab Spec.Lines310.")
MODS = ["ops_lines"]
ORACLE = os.path.join(C.VERIF, "tools/harness/oracle_lines.py")
CLS = {"Code15": ([1, 5], "encode_lineno_tab_15"), "Code2": ([2, 7], "encode_lineno_tab_15"), "Code3": ([3, 6], "encode_lineno_tab_30"),
       "Code38": ([3, 8], "encode_lineno_tab_30"), "Code310": ([3, 10], None)}


def mappings(rnd, n):
    """(mapping, first, codelen, kind)"""
    out = [([(0, 1), (10, 130)], 1, 20, "wf"), ([(0, 1), (10, 300)], 1, 20, "wf"), ([(0, 1), (10, 5), (20, 3)], 1, 30, "wf"),
           ([(0, 1), (10, 2), (20, 3)], 1, 30, "wf"), ([(0, 7)], 7, 4, "wf"), ([(0, 9)], 7, 4, "wf"), ([], 3, 10, "empty")]
    gaps = [1, 2, 3, 10, 100, 254, 255, 256, 300, 508, 509, 510, 511, 600, 1000]
    dl = [1, 1, 2, 3, 126, 127, 128, 129, 253, 254, 255, 256, 257, 300, 381, 2000, -1, -2, -127, -128, -129, -130, -255, -256, -257, -300, -2000]
    for _ in range(n):
        kind = rnd.choice(["wf", "wf", "wf", "wf-up", "wf-up", "nonzero-start", "same-line", "past-end"])
        first = rnd.choice([1, 5, 1000, 100000])
        k = rnd.randrange(1, 7)
        off = 0 if kind != "nonzero-start" else rnd.choice([1, 6, 300])
        line = first + rnd.choice([0, 0, 1, 200, -3 if kind == "wf" else 4])
        mp = [(off, line)]
        for _ in range(k - 1):
            off += rnd.choice(gaps)
            d = rnd.choice(dl)
            if kind == "wf-up":
                d = abs(d)
            if kind == "same-line" and rnd.random() < 0.5:
                d = 0
            line += d
            mp.append((off, line))
        codelen = off + rnd.choice([1, 2, 50, 254, 255, 300]) if kind != "past-end" else max(0, off - rnd.choice([0, 1, 10]))
        out.append((mp, first, codelen, kind))
    return out


def mlit(mp):
    return "[" + "; ".join(f"({C.zlit(a)}, {C.zlit(b)})" for a, b in mp) + "]"


def describe(case, impl, model):
    return {"component": "freeze() / encode_lineno_tab", "input": case, "impl_observation": impl, "model_observation": model,
            "observation_format": "[0; len; table bytes...] ++ findlinestarts(frozen) ++ opc.findlinestarts(frozen)",
            "why": "the C19 theorems prove decode(model encoder) = mapping; the implementation's encoder differs from the model on this input"}


def correspondence(r):
    rnd = random.Random(r.seed * 77 + 19)
    scale = 1 if r.tier == "quick" else 10
    cases = []
    for mp, first, codelen, kind in mappings(rnd, 250 * scale):
        for cls in (list(CLS) if rnd.random() < 0.3 else [rnd.choice(list(CLS))]):
            as_dict = rnd.random() < 0.4 and len({o for o, _ in mp}) == len(mp)
            order = list(range(len(mp)))
            rnd.shuffle(order)
            cases.append({"cls": cls, "first": first, "codelen": codelen, "mapping": [list(p) for p in mp], "as_dict": as_dict,
                          "order": order, "version": CLS[cls][0], "kind": kind})
    for c in cases:
        r.count("freeze-kind:" + c["kind"])
        r.count("freeze-class:" + c["cls"])

    def term(c):
        v, enc = CLS[c["cls"]]
        if enc is None:
            return f"obs_freeze_310 {C.zlit(c['first'])} {c['codelen']} {mlit(c['mapping'])}"
        return f"obs_freeze_lnotab {enc} {C.zlist(v)} {C.zlit(c['first'])} {c['codelen']} {mlit(c['mapping'])}"
    C.correspond(r, "freeze", HEADER, "freeze", cases, term, modules=MODS, describe=describe, shards=4)
    return cases


def code311_roundtrip(r):
    """Code311 (3.11-3.13): freeze() writes a location table; xdis's line-start routines of 3.11/3.12/3.13 and the three real interpreters
    must read the mapping back (the 3.13 rule also reports the line-less lead-in as (0, None)).  Offsets are even (code units)."""
    rnd = random.Random(r.seed * 311 + 19)
    ms = [(mp, f, cl) for mp, f, cl, k in mappings(rnd, 120 if r.tier == "quick" else 1500) if k in ("wf", "wf-up", "nonzero-start") and mp
          and all(a[1] != b[1] for a, b in zip(mp, mp[1:])) and all(l > 0 for _, l in mp)]
    ms = [([(2 * o, l) for o, l in mp], f, 2 * cl + 2) for mp, f, cl in ms]
    cases = [{"mapping": [list(p) for p in mp], "first": f, "codelen": cl, "as_dict": i % 2 == 0} for i, (mp, f, cl) in enumerate(ms)]
    res = C.run_impl_op("freeze311", cases, modules=MODS)
    good = []
    for c, o in zip(cases, res):
        r.case(("freeze311", C.digest(c)), nontrivial=len(c["mapping"]) >= 2)
        r.count("freeze-class:Code311")
        want = [list(p) for p in c["mapping"]]
        if "error" in o or "table" not in o:
            r.violation({"component": "Code311.freeze()", "input": c, "result": o, "why": "freeze() of a well-formed {offset: line} table raised"})
            return
        for key in ("fls311", "fls312", "fls313"):
            got = [p for p in o[key] if p[1] is not None]
            if got != want:
                r.violation({"component": "Code311.freeze() / encode_lineno_tab", "input": c, "encoded_table": o["table"], "decoded_by": "xdis findlinestarts " + key[3:],
                             "decoded": o[key], "expected": want, "why": "the table freeze() wrote does not decode back to the supplied mapping"})
                return
        good.append((c, o))
    for v in ("3.11", "3.12", "3.13"):
        oc = [{"tab": o["table"], "first": c["first"], "codelen": c["codelen"]} for c, o in good]
        rc, out, err = C.run_py(ORACLE, host=C.ORACLES[v], stdin=json.dumps(oc), impl=False)
        rr = json.loads(out.split("@@JSON@@")[1])
        for (c, o), x in zip(good, rr):
            fls = x.get("fls")
            pairs = []
            if fls:
                i = 2
                while i < len(fls):
                    off = fls[i]
                    if fls[i + 1] == 0:
                        i += 2
                        continue
                    pairs.append([off, fls[i + 2]]); i += 3
            if pairs != [list(p) for p in c["mapping"]]:
                r.violation({"component": "Code311.freeze() / encode_lineno_tab", "input": c, "encoded_table": o["table"], "decoded_by": "CPython " + v + " dis.findlinestarts",
                             "decoded": x, "expected": c["mapping"], "why": "the real interpreter reads another mapping from the table freeze() wrote"})
                return
    r.cov["code311_tables_decoded_by_cpython"] = len(good) * 3


def validate_by_cpython(r):
    """The model encoders' tables, decoded by the real interpreters, give back every well-formed mapping."""
    rnd = random.Random(r.seed * 5 + 1)
    n = 200 if r.tier == "quick" else 2500
    ms = [(mp, f, cl) for mp, f, cl, k in mappings(rnd, n) if k in ("wf", "wf-up", "nonzero-start") and mp
          and all(a[1] != b[1] for a, b in zip(mp, mp[1:])) and all(l > 0 for _, l in mp)]
    total = 0
    plan = [("2.7", "encode_lineno_tab_15", True), ("3.6", "encode_lineno_tab_30", False), ("3.7", "encode_lineno_tab_30", False),
            ("3.8", "encode_lineno_tab_30", False), ("3.9", "encode_lineno_tab_30", False), ("3.10", None, False)]
    for v, enc, up in plan:
        sel = [(mp, f, cl) for mp, f, cl in ms if not up or (all(a[1] < b[1] for a, b in zip(mp, mp[1:])) and mp[0][1] >= f)]
        if enc is not None:
            # the lnotab formats cannot say "no line before the first entry" (offset 0 always starts co_firstlineno): mappings from offset 0 only
            sel = [(mp, f, cl) for mp, f, cl in sel if mp[0][0] == 0]
        # 1) ask Coq for the encoded tables
        terms = [(f"encode_lineno_tab_310_full {C.zlit(f)} {cl} {mlit(mp)}" if enc is None else f"{enc} {C.zlit(f)} {mlit(mp)}") for mp, f, cl in sel]
        out, err = C.coq_eval_term(r.wd, "enc" + v.replace(".", ""), HEADER, "[" + "; ".join(terms) + "]")
        if out is None:
            raise RuntimeError(err)
        import re
        body = out[out.index("=") + 1: out.rindex(":")]
        tabs = [[int(x) for x in re.findall(r"-?\d+", t)] for t in re.findall(r"\[([^\[\]]*)\]", body)]
        assert len(tabs) == len(sel), (len(tabs), len(sel))
        cases = [{"tab": t, "first": f, "codelen": cl} for t, (mp, f, cl) in zip(tabs, sel)]
        rc, o, e = C.run_py(ORACLE, host=C.ORACLES[v], stdin=json.dumps(cases), impl=False)
        res = json.loads(o.split("@@JSON@@")[1])
        for (mp, f, cl), c, rr in zip(sel, cases, res):
            want = [0, len(mp)]
            for a, b in mp:
                want += [a, 1, b]
            if rr.get("fls") != want:
                print(f"MACHINERY-ERROR: CPython {v} decodes the model encoder's table differently:", mp, f, cl, c["tab"], rr)
                raise SystemExit(2)
            total += 1
    r.cov["decoded_by_real_cpython"] = {"tables": total, "interpreters": [p[0] for p in plan], "disagreements": 0}


def run(r):
    r.cov["rule"] = ("theorems quantify over every mapping with strictly increasing offsets starting at 0 and consecutive lines different; correspondence: "
                     "offset gaps 1..1000 (254/255/256/510/511 boundaries), line steps +-1..+-2000 (127/128/129/255/256/257 boundaries), dict and list inputs, "
                     "plus ill-formed mappings (non-zero start, repeated line, offsets past the code); non-trivial = mapping with >= 2 entries; distinct by input")
    ok = r.build(extra_targets=["Model/LineObs.vo"])
    if not ok:
        r.violation({"broken": "proof obligation", "theorem_or_tie": "Props/C19.v", "log": r.build_failure_excerpt()}, found_input=False, name="C19-obligation.json")
    try:
        correspondence(r)
        code311_roundtrip(r)
    except SystemExit:
        raise
    except Exception as e:
        import traceback
        traceback.print_exc()
        r.violation({"correspondence": "could not be run", "error": repr(e)}, found_input=False, name="C19-correspondence.json")
    validate_by_cpython(r)

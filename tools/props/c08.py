"""C08 - magic-number knowledge is coherent and agrees with CPython's registry."""
import os
import random
import re

import common as C

HEADER = "From Xdis Require Import Base.Prelude Model.Magic Gen.Magics Gen.RefMagics Spec.Registry Proofs.MagicProofs."
IMPL = os.path.join(C.VERIF, "tools/harness/impl_run.py")


def table_search(r):
    """Failing-input search for the table obligations: evaluate each boolean checker's
    failure list inside Coq and report the offending rows."""
    found = False
    ok, log = C.coq_build(["Proofs/MagicProofs.vo"])
    if not ok:
        return False
    for name in ("registry_failures", "resolves_failures", "sysinfo_failures"):
        out, err = C.coq_eval_term(r.wd, name, HEADER, name)
        if out is None:
            continue
        body = out.split(":")[0]
        if not re.search(r"=\s*\[\s*\]", body):
            rows = " ".join(body.split())
            r.violation({"obligation": name, "failing_rows": rows,
                         "how": "Eval vm_compute in " + name + " over the regenerated Gen/Magics.v",
                         "meaning": {"registry_failures": "registry rows (magic, major, minor) xdis does not map to that major.minor",
                                     "resolves_failures": "accepted magics that yield no version tuple / opcode table",
                                     "sysinfo_failures": "release names whose table magic differs from the magic that release writes"}[name]},
                        name=f"C08-{name}.json")
            found = True
    for name in ("installed_ok", "get_opcode_model_ok", "tables_coherent"):
        out, err = C.coq_eval_term(r.wd, name, HEADER, name)
        if out is not None and "false" in out.split(":")[0]:
            r.violation({"obligation": name, "value": "false", "how": "Eval vm_compute in " + name}, name=f"C08-{name}.json")
            found = True
    return found


def correspondence(r):
    rnd = random.Random(r.seed)
    n = 3000 if r.tier == "quick" else 65536
    ints = set([0, 1, 255, 256, 65535, 65536, -1, 70000, 39169, 39170, 39171, 39172, 3571, 62211])
    import json
    gen = C.run_json(os.path.join(C.VERIF, "tools/translate/dump_magics.py"), {})
    ints.update(k for k, _ in gen["magicint2version"])
    if n >= 65536:
        ints.update(range(65536))
    while len(ints) < n:
        ints.add(rnd.randrange(0, 65536))
    ints = sorted(ints)
    res = C.run_json(IMPL, {"op": "int2magic", "cases": ints})["results"]
    lits = []
    for i, o in zip(ints, res):
        if isinstance(o, dict):
            lits.append(f"({C.zlit(i)}, None)")
            r.count("int2magic:error:" + o["err"])
        else:
            lits.append(f"({C.zlit(i)}, Some {C.zlist(o)})")
            r.count("int2magic:ok")
        r.case(("i2m", i), nontrivial=True, sample={"op": "int2magic", "in": i, "impl": o} if i in (39170, 3571, 70000) else None)
    check = "fun c => match int2magic (fst c), snd c with Some a, Some b => zlist_eqb a b | None, None => true | _, _ => false end"
    bad, errs = C.coq_cases(r.wd, "i2m", HEADER, "Z * option (list Z)", check, lits, chunk=3000)
    for e in errs:
        raise RuntimeError(f"coq case evaluation failed: {e}")
    for b in bad[:5]:
        r.violation({"component": "int2magic", "input": ints[b], "impl": res[b], "model": "Model.Magic.int2magic differs (see coq/Model/Magic.v)",
                     "theorem": "C08_inverse_int is about the model; impl disagrees with model on this input"})
    # executed, not only tabulated: a file that loads can be disassembled whatever its NAME says about PyPy, and sysinfo2magic() as a
    # function gives the table's magic for every final and release-candidate version_info the tables name
    for k, fname, nm in gen.get("get_opcode_named", []):
        r.case(("named", k, fname), nontrivial=True)
        r.count("get_opcode-by-name:" + ("ok" if nm else "FAILS"))
        if nm is None:
            r.violation({"component": "load.is_pypy + get_opcode", "magic": k, "file_name": fname,
                         "why": "a file with this magic and name loads (the magic resolves and has an opcode table under an ordinary name) but get_opcode raises for the "
                                "variant is_pypy() derives from the name: it can be loaded and not disassembled"})
            break
    nbad = 0
    for name, info, got, want in gen.get("sysinfo2magic_calls", []):
        r.case(("sysinfo", name), nontrivial=True)
        r.count("sysinfo2magic:" + ("ok" if got == want else "differs"))
        if got != want and nbad < 3:
            nbad += 1
            r.violation({"component": "magics.sysinfo2magic", "version_info": info, "release_name_in_tables": name, "returned": got, "table_magic_of_that_release": want,
                         "why": "sysinfo2magic(version_info) does not give the magic the tables record for that release"})
    # a magic the tables call PyPy is PyPy to the loader; and load_module reports the file's own magic back (48, PyPy 3.2's b'0\\0', is
    # reported as 3187 - the one documented rewrite)
    ispy = dict((int(k), v) for k, v in gen.get("is_pypy", []))
    for k, name in gen["magicint2version"]:
        if "pypy" in name.lower():
            r.case(("pypy-name", k), nontrivial=True)
            if not ispy.get(int(k)):
                r.violation({"component": "magics.PYPY3_MAGICS / load.is_pypy", "magic": k, "name_in_tables": name,
                             "why": "the tables name this magic a PyPy magic but load.is_pypy() says it is not: its files are decoded with CPython's opcode table"})
                break
    for k, got in gen.get("reported_magic", []):
        r.case(("reported", k), nontrivial=True)
        if got is not None and got != (3187 if k == 48 else k):
            r.violation({"component": "load_module_from_file_object", "file_magic": k, "reported_magic": got,
                         "why": "load_module reports another magic (and reads the file by that magic's rules) than the one the file carries"})
            break
    for (a, b), got in gen.get("opcode_for_unlisted_patch", []):
        r.case(("unlisted", a, b), nontrivial=True)
        if got != [a, b]:
            r.violation({"component": "op_imports.get_opcode_module", "version": [a, b, 99], "opcode_table_version": got,
                         "why": "a patch release the tables do not list is not given its own series' opcode table"})
            break
    # magic2int on byte strings of length 0..6
    bss = [[], [1], [1, 2, 3], [1, 2, 3, 4, 5], [0x99, 0x02, 0x99, 0x00], [0xcb, 0x0d, 13, 10]]
    for _ in range(600 if r.tier == "quick" else 5000):
        ln = rnd.choice([4, 4, 4, 4, 4, 4, 3, 5, 0, 2])
        bss.append([rnd.randrange(256) for _ in range(ln)])
    res2 = C.run_json(IMPL, {"op": "magic2int", "cases": bss})["results"]
    lits = []
    for b, o in zip(bss, res2):
        lits.append(f"({C.zlist(b)}, {'None' if isinstance(o, dict) else 'Some ' + C.zlit(o)})")
        r.count("magic2int:" + ("error:" + o["err"] if isinstance(o, dict) else "ok"))
        r.case(("m2i", tuple(b)), nontrivial=len(b) == 4, sample={"op": "magic2int", "in": b, "impl": o} if len(r.cov["samples"]) < 5 else None)
    check = "fun c => match magic2int (fst c), snd c with Some a, Some b => a =? b | None, None => true | _, _ => false end"
    bad, errs = C.coq_cases(r.wd, "m2i", HEADER, "list Z * option Z", check, lits, chunk=3000)
    for e in errs:
        raise RuntimeError(f"coq case evaluation failed: {e}")
    for b in bad[:5]:
        r.violation({"component": "magic2int", "input": bss[b], "impl": res2[b]})


def run(r):
    r.cov["rule"] = ("proof obligations: arithmetic theorems (all 65536 magics) + vm_compute obligations over tables regenerated from /repo; "
                     "correspondence: int2magic on every table magic, boundary values and random 16-bit ints (all 65536 in thorough), magic2int on random byte strings "
                     "of length 0-6; a case is non-trivial when the input is a 4-byte string / any integer, distinct by input")
    r.cov["exhaustive"] = r.tier == "thorough"
    broken = r.generate("magics")
    ok = False
    if not broken:
        ok = r.build()
    if broken or not ok:
        found = False if broken else table_search(r)
        if not found:
            r.violation({"broken": [b for b in broken] or "proof obligation",
                         "theorem_or_tie": "Props/C08.v (see build log excerpt)" if not broken else "translator tools/translate/magics.py failed closed",
                         "log": "" if broken else r.build_failure_excerpt()}, found_input=False, name="C08-obligation.json")
    try:
        correspondence(r)
    except Exception as e:
        import traceback; traceback.print_exc()
        r.violation({"correspondence": "could not be run", "error": repr(e)}, found_input=False, name="C08-correspondence.json")

"""C07 - results do not depend on the host Python or on which loader path is taken."""
import json
import os
import random
from concurrent.futures import ThreadPoolExecutor

import common as C
from props import c12
from props import instrgen as IG

MODS = ["ops_hostpath"]
HOSTS = ["3.8", "3.9", "3.10", "3.11", "3.12", "3.13"]


def first_diff(a, b, path=""):
    if type(a) != type(b):
        return path, a, b
    if isinstance(a, dict):
        for k in sorted(set(a) | set(b)):
            if k in ("host", "path", "native"):
                continue
            if k not in a or k not in b:
                return path + "/" + k, a.get(k), b.get(k)
            d = first_diff(a[k], b[k], path + "/" + k)
            if d:
                return d
        return None
    if isinstance(a, list):
        if len(a) != len(b):
            return path + "/len", len(a), len(b)
        for i, (x, y) in enumerate(zip(a, b)):
            d = first_diff(x, y, f"{path}[{i}]")
            if d:
                return d
        return None
    return None if a == b else (path, a, b)


def run(r):
    r.cov["rule"] = ("theorems: every host-identity test in the package is constant over the six hosts (sites regenerated from the AST) except to_native guards; fast path = portable path "
                     "for every payload (C01's theorem); execution: files of the corpus (1.0-3.12, PyPy) and files compiled by each installed interpreter, loaded under all six hosts; "
                     "for a file of the host's own version additionally through the portable unmarshaller (fast path switched off) and as a converted native code object; compared: header, "
                     "every code-object field, constants by kind and value, instruction stream with argval, labels, line starts, classic listing minus addresses and the banner; "
                     "non-trivial = file with at least 2 code objects; distinct by (file, host, path)")
    broken = r.generate("hostsites", "magics", "dispatch")
    ok = False if broken else r.build()
    found = False
    rnd = random.Random(r.seed * 701 + 7)
    quick = r.tier == "quick"
    try:
        corpus = [f for f in IG.corpus_files() if os.path.getsize(f) < 5000]
        # always there, whatever the seed: for every corpus directory of a version some host runs natively (3.8-3.13, PyPy 3.8+), the
        # smallest file of each distinct magic - files of a host's own major.minor whose magic is NOT the host's (3.8 pre-releases, PyPy)
        # are where a fast-path switch keyed on anything but the exact magic shows
        by_magic = {}
        for f in corpus:
            dname = os.path.basename(os.path.dirname(f))
            if any(dname.endswith(x) for x in ("3.8", "3.9", "3.10", "3.11", "3.12", "3.13", "pypy38", "pypy39", "pypy310")):
                with open(f, "rb") as fh:
                    m = int.from_bytes(fh.read(2), "little")
                k = (dname, m)
                if k not in by_magic or (os.path.getsize(f), f) < (os.path.getsize(by_magic[k]), by_magic[k]):
                    by_magic[k] = f
        pinned = sorted(by_magic.values())
        r.cov["pinned_same_minor_files"] = [os.path.relpath(f, C.REPO) for f in pinned]
        corpus = pinned + [f for f in rnd.sample(corpus, 40 if quick else len(corpus)) if f not in pinned]
        pycs = []
        for v in c12.VERSIONS:
            d = os.path.join(r.wd, "pyc", v)
            rc, o, err = C.run_py(c12.ORACLE_PYC, host=C.ORACLES[v], impl=False, stdin=json.dumps({"outdir": d, "stdlib": rnd.sample(c12.LIBS, 1 if quick else 6), "max_src": 15000}))
            fs = json.loads(o.split("@@JSON@@")[1]) if "@@JSON@@" in o else []
            fs = [f for f in fs if os.path.getsize(f) < 9000]
            # every generated source of that compiler (small, chosen to hit version-specific encodings), plus sampled stdlib modules
            pycs += [(v, f) for f in fs if os.path.basename(f).startswith("src_") or not quick or rnd.random() < 0.5]
        files = [("corpus", f) for f in corpus] + pycs
        cases_default = [{"file": f, "path": "default", "max_codes": 10} for _, f in files]

        def under(h):
            return C.run_impl_op("hostpath", cases_default, modules=MODS, host=C.HOSTS[h], timeout=2400)
        with ThreadPoolExecutor(max_workers=6) as ex:
            per_host = dict(zip(HOSTS, ex.map(under, HOSTS)))
        reported = 0
        harness_failures = [(h, files[i][1], o) for h in HOSTS for i, o in enumerate(per_host[h]) if isinstance(o, dict) and o.get("outer")]
        if harness_failures:
            # the runner itself failed (not xdis raising inside load/disassemble, which is recorded as "raised"): nothing was compared
            r.violation({"correspondence": "the cross-host runner failed before comparing anything", "first": [str(x)[:300] for x in harness_failures[:3]], "count": len(harness_failures)},
                        found_input=False, name="C07-correspondence.json")
        for idx, (origin, f) in enumerate(files):
            outs = {h: per_host[h][idx] for h in HOSTS}
            ref_h = origin if origin in HOSTS else "3.12"
            ref = outs[ref_h]
            for h in HOSTS:
                r.case(("host", f.replace(r.wd, ""), h), nontrivial=isinstance(outs[h], dict) and len(outs[h].get("codes", [])) >= 2)
                r.count("host:" + h)
                if h == ref_h:
                    continue
                d = first_diff(ref, outs[h])
                if d:
                    found = True
                    r.count("differs:" + h)
                    if reported < 4:
                        reported += 1
                        r.violation({"component": "host independence", "file": f if origin == "corpus" else os.path.basename(f), "compiled_by": origin, "hosts": [ref_h, h],
                                     "native_fast_path_on_first_host": bool(ref.get("native")), "where": d[0], f"on_{ref_h}": str(d[1])[:400], f"on_{h}": str(d[2])[:400],
                                     "pyc_base64": None if origin == "corpus" else __import__("base64").b64encode(open(f, "rb").read()).decode(),
                                     "why": "the same bytecode file gives different decoded content / listing under two hosts"})
        # loader paths on the host of the file's own version
        for v in HOSTS:
            fs = [f for o, f in pycs if o == v]
            for path in ("portable", "converted"):
                res = C.run_impl_op("hostpath", [{"file": f, "path": path, "max_codes": 10} for f in fs], modules=MODS, host=C.HOSTS[v], timeout=1800)
                for f, o in zip(fs, res):
                    if isinstance(o, dict) and "skip" in o:
                        continue
                    if isinstance(o, dict) and o.get("outer"):
                        if reported < 7:
                            reported += 1
                            r.violation({"correspondence": "the loader-path runner failed (the fast-path switch xdis.load.PYTHON_MAGIC_INT is gone, or the harness broke)", "file": os.path.basename(f),
                                         "host": v, "path": path, "result": str(o)[:300]}, found_input=False, name="C07-correspondence.json")
                        continue
                    base = per_host[v][[x for _, x in files].index(f)]
                    r.case(("path", os.path.basename(f), v, path), nontrivial=True)
                    r.count(f"path:{path}:{v}")
                    if not base.get("native"):
                        r.count("fast-path-not-taken:" + v)
                    d = first_diff(base, o)
                    if d:
                        found = True
                        if reported < 7:
                            reported += 1
                            r.violation({"component": "loader-path independence", "file": os.path.basename(f), "host": v, "paths": ["default (native fast path)", path], "where": d[0],
                                         "default": str(d[1])[:400], path: str(d[2])[:400], "pyc_base64": __import__("base64").b64encode(open(f, "rb").read()).decode(),
                                         "why": "the same file decodes / lists differently through two loader paths on the same host"})
    except SystemExit:
        raise
    except Exception as e:
        import traceback
        traceback.print_exc()
        r.violation({"correspondence": "could not be run", "error": repr(e)}, found_input=False, name="C07-correspondence.json")
    if broken or not ok:
        if not found:
            out = None
            if not broken:
                okb, _ = C.coq_build(["Model/HostIndep.vo"])
                if okb:
                    out, _ = C.coq_eval_term(r.wd, "c07", "From Xdis Require Import Gen.HostSites Model.HostIndep.", "(failing_tests, failing_uses)")
            r.violation({"broken": broken or "proof obligation", "theorem_or_tie": "Props/C07.v", "host_dependent_sites_not_accounted_for": " ".join((out or "").split())[:3000],
                         "log": "" if broken else r.build_failure_excerpt()}, found_input=False, name="C07-obligation.json")
    r.cov["explanation"] = ("PARTIAL: equality of the real runs across hosts and paths is observed, not proved; the theorems cover the host-identity tests (all sites, by evaluation for the six hosts) "
                            "and the agreement of the two readers. The listing comparison removes 0x addresses and the '# Disassembled from' banner line only.")

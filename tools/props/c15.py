"""C15 - stack effects equal the interpreter's for every opcode and operand."""
import random
import re

import common as C
from props import instrgen as IG

HEADER = ("From Xdis Require Import Base.Prelude Base.OpTable Base.Formula Gen.Opcodes Gen.RefStackEffect Model.Instr Model.StackEffect Model.LoadObs.")
MODS = ["ops_instr"]
VERS = ["36", "37", "38", "39", "310", "311", "312", "313"]


def search(r):
    ok, _ = C.coq_build(["Model/StackEffect.vo", "Gen/RefStackEffect.vo"])
    if not ok:
        return False
    found = False
    probe = "(map Z.of_nat (seq 0 300) ++ [511; 512; 1000; 4095; 4096; 65535; 65536; 65537; 1048581])"
    for v in VERS:
        term = (f"map (fun '(name, op, m, s) => (name, op, m, s, find (fun a => match eval_formula s a, eval_formula m a with "
                f"Some x, Some y => negb (x =? y) | Some _, None => true | None, _ => false end) {probe})) (se_failures opcode_{v} se_ref_{v})")
        out, err = C.coq_eval_term(r.wd, "sef" + v, HEADER, term)
        if out is None:
            continue
        body = " ".join(out.rsplit(":", 1)[0].split())
        if not re.search(r"=\s*\[\s*\]", body):
            r.violation({"version": v[0] + "." + v[1:], "failing_rows": body[:3000],
                         "row_format": "(opname, opcode, formula xstack_effect evaluates to, reference formula, Some operand on which they differ)",
                         "replay": "python3.x -c 'import dis; print(dis.stack_effect(OPCODE, OPERAND))'  vs  PYTHONPATH=/repo python -c 'from xdis.cross_dis import xstack_effect; ...'"},
                        name=f"C15-se_failures-{v}.json")
            found = True
    return found


def ev(f, x):
    t = f.replace("(", " ").replace(")", " ").split()
    k, a = t[0], [int(v) for v in t[1:]]
    return {"FConst": lambda: a[0], "FLin": lambda: a[0] * x + a[1], "FBit": lambda: a[1] if x & a[0] else a[2],
            "FMaskEq": lambda: a[2] if (x & a[0]) == a[1] else a[3], "FEq": lambda: a[1] if x == a[0] else a[2],
            "FLoHi": lambda: (x & 255) + (x >> 8) + a[0],
            "FPop4": lambda: a[0] - bool(x & 1) - bool(x & 2) - bool(x & 4) - bool(x & 8), "FNone": lambda: None}[k]()


def differential_search(r):
    """Failing-input search when the translation tie is broken: the running xstack_effect against the
    interpreters' reference formulas, on concrete (version, opcode, operand) triples."""
    from translate import stackeffect as SE
    ref = SE.reference_formulas(False)
    args = list(range(0, 40)) + [255, 256, 257, 1000, 65535, 65536, 70001]
    found = False
    for v, rows in ref.items():
        tname = "opcode_" + v.replace(".", "")
        cases, meta = [], []
        for name, op, f in rows:
            for a in args:
                want = ev(f, a)
                if want is None:
                    continue
                cases.append({"table": tname, "op": op, "arg": a})
                meta.append((name, op, a, want))
        res = C.run_impl_op("stack_effect", cases, modules=MODS, shards=4)
        for (name, op, a, want), o in zip(meta, res):
            got = o[2] if (isinstance(o, list) and len(o) == 3 and o[0] == 0 and o[1] == 1) else None
            if got != want:
                r.violation({"version": v, "opname": name, "opcode": op, "oparg": a, "xstack_effect": o, "cpython_stack_effect": want,
                             "replay": f"python{v} -c 'import dis; print(dis.stack_effect({op}, {a}))'"}, name=f"C15-diff-{v}-{name}.json")
                found = True
                break
    return found


def correspondence(r):
    rnd = random.Random(r.seed * 53 + 15)
    tables = IG.load_tables()
    cases = []
    args = [0, 1, 2, 3, 4, 5, 7, 8, 10, 11, 15, 16, 255, 256, 257, 1000, 65535, 65536, 70001]
    per = 3 if r.tier == "quick" else 12
    for name, t in sorted(tables.items()):
        for opname, op in t["opmap"]:
            if op >= 256:
                continue
            for a in ([0] if op < t["HAVE_ARGUMENT"] else rnd.sample(args, per)):
                cases.append({"table": name, "op": op, "arg": a})
    for c in cases[::50]:
        r.count("table:" + c["table"])
    def describe(case, impl, model):
        return {"component": "xstack_effect", "input": case, "impl_observation": impl, "model_observation": model,
                "why": "the translated formula (Gen/StackEffectX.v) evaluated in Coq differs from the running xstack_effect: the translator or the model no longer reflects the source"}
    C.correspond(r, "xse", HEADER, "stack_effect", cases,
                 lambda c: f"(0 :: oopt (xstack_effect {c['table']} {c['op']} {c['arg']}))", modules=MODS, describe=describe, shards=8, chunk=1500,
                 nontrivial=lambda c, o: c["arg"] != 0)


def run(r):
    r.cov["rule"] = ("theorem: all operands (unbounded Z) for every opcode of 3.6-3.13; obligations: one formula comparison per (version, opcode) over tables and a "
                     "decision chain regenerated from /repo on every run; reference formulas fitted to dis.stack_effect on operands 0..300 + boundaries "
                     "(quick) and verified on every operand < 2^16 (thorough); correspondence: translated model vs running xstack_effect on all 39 tables x "
                     "every opcode x sampled operands; non-trivial = operand != 0")
    from translate import stackeffect as SE
    broken = r.generate("opcodes")
    try:
        SE.generate(exhaustive=(r.tier == "thorough"))
        if r.tier == "thorough":
            r.cov["reference_formulas_checked_exhaustively"] = dict(SE.EXHAUSTIVE_COUNT)
            r.cov["exhaustive"] = True
    except SE.TranslationUnsupported as e:
        broken.append(("stackeffect", str(e)))
    ok = False if broken else r.build(extra_targets=["Model/StackEffect.vo"])
    if broken or not ok:
        found = differential_search(r) if broken else search(r)
        if not found:
            r.violation({"broken": broken or "proof obligation", "theorem_or_tie": "Props/C15.v" if not broken else "translator failed closed on xstack_effect",
                         "log": "" if broken else r.build_failure_excerpt()}, found_input=False, name="C15-obligation.json")
    if not broken:
        try:
            correspondence(r)
        except SystemExit:
            raise
        except Exception as e:
            import traceback
            traceback.print_exc()
            r.violation({"correspondence": "could not be run", "error": repr(e)}, found_input=False, name="C15-correspondence.json")
    r.cov["explanation"] = ("Versions 2.5-3.5 have no dis.stack_effect reference in this sandbox (2.7 has none at all); for them only the translation tie "
                            "(model = running code) is checked. `jump` is ignored by xstack_effect, which is the 'maximum over both branches' reading only where CPython's default agrees; it does for every opcode compared.")

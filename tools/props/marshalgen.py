"""Generators of marshal streams: values with explicit encoding choices (every type code, FLAG_REF on any
object, back-references, interned strings, text/binary floats, 32/64-bit/digit ints, None keys/values ...)."""
import struct

# families: which encodings exist
FAMS = {
    "2.3": dict(py3=False, interned=False, binfloat=False, sets=False, v34=False, int64=True),
    "2.4": dict(py3=False, interned=True, binfloat=False, sets=False, v34=False, int64=True),
    "2.7": dict(py3=False, interned=True, binfloat=True, sets=True, v34=False, int64=True),
    "3.3": dict(py3=True, interned=False, binfloat=True, sets=True, v34=False, int64=True),
    "3.4+": dict(py3=True, interned=False, binfloat=True, sets=True, v34=True, int64=False),
}


def fam_of_version(v):
    v = tuple(v[:2])
    if v >= (3, 4):
        return "3.4+"
    if v >= (3, 0):
        return "3.3"
    if v >= (2, 5):
        return "2.7"
    if v >= (2, 4):
        return "2.4"
    return "2.3"


def le32(n):
    return list(struct.pack("<i", n))


class Enc:
    def __init__(self, rnd, fam, allow_ref=True):
        self.rnd = rnd
        self.f = FAMS[fam]
        self.out = []
        self.nrefs = 0          # FLAG_REF objects started so far
        self.done_refs = []     # indices of completed flagged objects
        self.nstrs = 0          # py2 interned strings so far
        self.ft = {}            # text float -> bits
        self.allow_ref = allow_ref and self.f["v34"]
        self.kinds = {}

    def count(self, k):
        self.kinds[k] = self.kinds.get(k, 0) + 1

    def tcode(self, ch, flaggable=True):
        """emit type byte, maybe with FLAG_REF; returns the ref index or None"""
        b = ord(ch)
        idx = None
        if flaggable and self.allow_ref and self.rnd.random() < 0.3:
            b |= 0x80
            idx = self.nrefs
            self.nrefs += 1
            self.count("FLAG_REF")
        self.out.append(b)
        self.count(ch)
        return idx

    def finish(self, idx):
        if idx is not None:
            self.done_refs.append(idx)

    def gen(self, depth=0):
        r = self.rnd
        f = self.f
        # back-reference to a completed flagged object
        if self.allow_ref and self.done_refs and r.random() < 0.12:
            self.out.append(ord("r"))
            self.out += le32(r.choice(self.done_refs))
            self.count("r")
            return
        if f["interned"] and self.nstrs and r.random() < 0.08:
            self.out.append(ord("R"))
            self.out += le32(r.randrange(self.nstrs))
            self.count("R")
            return
        kinds = ["none", "bool", "int", "int", "bigint", "float", "complex", "bin", "text", "text", "ell", "stop"]
        if depth < 4:
            kinds += ["tuple", "tuple", "list", "dict"] + (["set", "frozenset"] if f["sets"] else [])
        k = r.choice(kinds)
        if k == "none":
            self.out.append(ord("N")); self.count("N")
        elif k == "bool":
            self.out.append(ord(r.choice("TF")))
        elif k == "ell":
            self.out.append(ord("."))
        elif k == "stop":
            self.out.append(ord("S"))
        elif k == "int":
            n = r.choice([0, 1, -1, 5, 255, 256, -32768, 2 ** 15, 2 ** 31 - 1, -2 ** 31, r.randrange(-10 ** 6, 10 ** 6)])
            if f["int64"] and r.random() < 0.25:
                n = r.choice([n, 2 ** 63 - 1, -2 ** 63, 2 ** 40 + 3])
                i = self.tcode("I"); self.out += list(struct.pack("<q", n)); self.finish(i)
            else:
                i = self.tcode("i"); self.out += le32(n); self.finish(i)
        elif k == "bigint":
            n = r.choice([0, 2 ** 31, -2 ** 31 - 1, 2 ** 63, -2 ** 63 - 5, 2 ** 200 + 12345, -(2 ** 100), 32768, 32767 * 32768 + 1])
            i = self.tcode("l")
            digs = []
            a = abs(n)
            while a:
                digs.append(a & 0x7FFF)
                a >>= 15
            self.out += le32(len(digs) if n >= 0 else -len(digs))
            for d in digs:
                self.out += list(struct.pack("<h", d))
            self.finish(i)
        elif k == "float":
            x = r.choice([0.0, -0.0, 1.5, -2.25, 1e300, 5e-324, float("inf"), float("-inf"), float("nan"), 0.1, 123456.789])
            if (f["binfloat"] and r.random() < 0.7) or (x != x and f["binfloat"]):
                bits = r.choice([struct.unpack("<Q", struct.pack("<d", x))[0], 0x7FF8000000000001, 0xFFF0000000000000, 0x8000000000000000, 0x7FF0000000000000])
                i = self.tcode("g"); self.out += list(struct.pack("<Q", bits)); self.finish(i)
            else:
                if x != x:
                    x = 2.5      # the sign of a NaN parsed from text differs between builds: not a text-float case
                s = repr(x).encode()
                self.ft[tuple(s)] = struct.unpack("<Q", struct.pack("<d", float(s)))[0]
                i = self.tcode("f"); self.out += [len(s)] + list(s); self.finish(i)
        elif k == "complex":
            re_, im = r.choice([(1.0, 2.0), (0.0, -0.0), (1e10, -3.5), (float("inf"), 1.0)])
            if f["binfloat"] and r.random() < 0.7:
                i = self.tcode("y"); self.out += list(struct.pack("<dd", re_, im)); self.finish(i)
            else:
                i = self.tcode("x")
                for x in (re_, im):
                    s = repr(x).encode()
                    self.ft[tuple(s)] = struct.unpack("<Q", struct.pack("<d", float(s)))[0]
                    self.out += [len(s)] + list(s)
                self.finish(i)
        elif k == "bin":
            b = r.choice([b"", b"abc", b"\xff\xfe\x00", bytes(range(200, 256)), b"x" * 300, "hé".encode("utf-8")])
            if f["interned"] and r.random() < 0.4:
                self.out.append(ord("t")); self.count("t")
                self.out += le32(len(b)) + list(b)
                self.nstrs += 1
            else:
                i = self.tcode("s"); self.out += le32(len(b)) + list(b); self.finish(i)
        elif k == "text":
            s = r.choice(["", "abc", "name_1", "héllo", "中文", "\U0001F600 astral", "x" * 300])
            b = s.encode("utf-8")
            if f["v34"] and all(c < 128 for c in b) and r.random() < 0.7:
                if len(b) < 256 and r.random() < 0.6:
                    i = self.tcode(r.choice("zZ")); self.out += [len(b)] + list(b)
                else:
                    i = self.tcode(r.choice("aA")); self.out += le32(len(b)) + list(b)
                self.finish(i)
            elif f["v34"] and r.random() < 0.2:
                i = self.tcode("t"); self.out += le32(len(b)) + list(b); self.finish(i)
            else:
                if f["v34"] and r.random() < 0.15:
                    b = "lone \ud800 surrogate".encode("utf-8", "surrogatepass")
                i = self.tcode("u"); self.out += le32(len(b)) + list(b); self.finish(i)
        elif k in ("tuple", "list", "set", "frozenset"):
            n = r.choice([0, 1, 2, 3, 5, 255, 256, 300] if depth < 2 else [0, 1, 2, 3])
            if n > 20:
                # big containers hold cheap items
                sub = "small"
            else:
                sub = None
            if k == "tuple" and f["v34"] and n < 256 and r.random() < 0.6:
                i = self.tcode(")"); self.out.append(n)
            else:
                i = self.tcode({"tuple": "(", "list": "[", "set": "<", "frozenset": ">"}[k]); self.out += le32(n)
            if k in ("set", "frozenset"):
                # distinct, hashable, order-independent items; from 3.4 each may carry FLAG_REF itself (the compiler
                # shares members of a shared frozenset constant), which makes the order of reference slots observable
                for j in range(n):
                    if self.allow_ref and n <= 20 and r.random() < 0.5:
                        if r.random() < 0.5:
                            ii = self.tcode("i"); self.out += le32(1000 + j * 7); self.finish(ii)
                        else:
                            b = ("m%d" % j).encode()
                            ii = self.tcode(r.choice("zZ")); self.out += [len(b)] + list(b); self.finish(ii)
                    else:
                        self.out.append(ord("i")); self.out += le32(1000 + j * 7)
            else:
                for j in range(n):
                    if sub:
                        self.out.append(ord("i")); self.out += le32(j)
                    else:
                        self.gen(depth + 1)
            self.finish(i)
        elif k == "dict":
            i = self.tcode("{")
            n = r.choice([0, 1, 2, 4])
            for j in range(n):
                # distinct keys; None as a key or value now and then
                if j == 0 and r.random() < 0.3:
                    self.out.append(ord("N"))
                else:
                    self.out.append(ord("i")); self.out += le32(50 + j)
                if r.random() < 0.3:
                    self.out.append(ord("N"))
                else:
                    self.gen(depth + 1)
            self.out.append(ord("0"))
            self.finish(i)


def slot_order_stream(rnd, kind=None, m=None):
    """3.4+: a FLAG_REF container with FLAG_REF members, then a back-reference to every slot: which object sits in which
    slot depends on whether the container reserves its slot before or after reading its members."""
    kind = kind or rnd.choice(["(", ")", "[", "<", ">", "{"])
    m = m or rnd.randrange(1, 4)
    out = [ord("("), 0, 0, 0, 0]
    items = 1
    FLAG = 0x80
    out.append(ord(kind) | FLAG)
    if kind == ")":
        out.append(m)
    elif kind != "{":
        out += le32(m)
    for j in range(m):
        if kind == "{":
            out += [ord("i") | FLAG] + le32(70 + j)          # key
            b = ("v%d" % j).encode()
            out += [ord("z") | FLAG, len(b)] + list(b)      # value
        elif rnd.random() < 0.5:
            out += [ord("i") | FLAG] + le32(1000 + j)
        else:
            b = ("m%d" % j).encode()
            out += [ord("Z") | FLAG, len(b)] + list(b)
    if kind == "{":
        out.append(ord("0"))
    nslots = 1 + (2 * m if kind == "{" else m)
    refs = list(range(nslots))
    rnd.shuffle(refs)
    for i in refs:
        out += [ord("r")] + le32(i)
        items += 1
    out[1:5] = le32(items)
    return out, [], {"slot-order:" + kind: 1}


def interned_dup_stream(rnd):
    """2.4-2.7: the same interned string written twice with 't' (marshal.c appends both), then 'R' references to every index"""
    strs = [b"ab", b"cd", b"ab", b"ef", b"cd"][: rnd.randrange(3, 6)]
    out = [ord("("), 0, 0, 0, 0]
    items = 0
    for b in strs:
        out += [ord("t")] + le32(len(b)) + list(b)
        items += 1
    refs = list(range(len(strs)))
    rnd.shuffle(refs)
    for i in refs:
        out += [ord("R")] + le32(i)
        items += 1
    out[1:5] = le32(items)
    return out, [], {"interned-dup": 1}


def stream(rnd, fam):
    if FAMS[fam]["v34"] and rnd.random() < 0.08:
        return slot_order_stream(rnd)
    if FAMS[fam]["interned"] and rnd.random() < 0.06:
        return interned_dup_stream(rnd)
    e = Enc(rnd, fam)
    if rnd.random() < 0.6:
        # the shape of a co_consts: a tuple of several values (a lone leaf exercises one reader only)
        n = rnd.randrange(2, 7)
        if e.f["v34"] and rnd.random() < 0.5:
            i = e.tcode(")"); e.out.append(n)
        else:
            i = e.tcode("("); e.out += le32(n)
        for _ in range(n):
            e.gen(1)
        e.finish(i)
    else:
        e.gen(0)
    return e.out, sorted((list(k), v) for k, v in e.ft.items()), e.kinds


def _leaf(kind):
    """a fixed encoding of one leaf of the given type code -> (bytes, float-table entries)"""
    ft = {}
    if kind in "NTF.S":
        return [ord(kind)], ft
    if kind == "i":
        return [ord("i")] + le32(-77), ft
    if kind == "I":
        return [ord("I")] + list(struct.pack("<q", 2 ** 40 + 3)), ft
    if kind == "l":
        return [ord("l")] + le32(3) + list(struct.pack("<hhh", 1, 2, 3)), ft
    if kind == "g":
        return [ord("g")] + list(struct.pack("<d", -2.25)), ft
    if kind == "y":
        return [ord("y")] + list(struct.pack("<dd", 1.5, -0.0)), ft
    if kind == "f":
        t = b"2.5"; ft[tuple(t)] = struct.unpack("<Q", struct.pack("<d", 2.5))[0]
        return [ord("f"), len(t)] + list(t), ft
    if kind == "x":
        out = [ord("x")]
        for t in (b"1.0", b"-3.5"):
            ft[tuple(t)] = struct.unpack("<Q", struct.pack("<d", float(t)))[0]
            out += [len(t)] + list(t)
        return out, ft
    if kind == "J":
        # (pseudo-kind) 3.4+: an interned str that is not ASCII is written with 't'; this one holds a lone surrogate (UTF-8 with surrogatepass)
        b = "\ud800 y".encode("utf-8", "surrogatepass")
        return [ord("t")] + le32(len(b)) + list(b), ft
    if kind in "stuaA":
        b = b"abc" if kind in "aA" else "h\u00e9".encode("utf-8")
        return [ord(kind)] + le32(len(b)) + list(b), ft
    if kind in "zZ":
        return [ord(kind), 2, 104, 105], ft
    raise ValueError(kind)


def leaves_of(fam):
    f = FAMS[fam]
    ks = list("NTF.Silfxsu")
    if f["int64"]:
        ks.append("I")
    if f["binfloat"]:
        ks += ["g", "y"]
    if f["interned"] or f["v34"]:
        ks.append("t")
    if f["v34"]:
        ks += list("aAzZJ")
    return ks


def matrix_streams(fam):
    """deterministic: every container code of the family around every leaf code, small and (for sequences) with more than 255 items,
    so that each (container reader, member reader) pair is exercised whatever the seed"""
    f = FAMS[fam]
    conts = ["(", "["] + (["<", ">"] if f["sets"] else []) + ([")"] if f["v34"] else []) + ["{k", "{v"]
    out = []
    for c in conts:
        for k in leaves_of(fam):
            lb, ft = _leaf(k)
            seven = [ord("i")] + le32(7)
            for big in (False, True):
                if big and c not in ("(", "["):
                    continue
                if c in ("{k", "{v"):
                    if c == "{k" and k in "NTF":      # None/bools as keys: fine for marshal, kept
                        pass
                    bs = [ord("{")] + (lb + seven if c == "{k" else seven + lb) + [ord("0")]
                else:
                    n = 300 if big else 2
                    items = lb + seven + (seven * (n - 2) if big else [])
                    bs = [ord(c)] + ([n] if c == ")" else le32(n)) + items
                    if c in "<>" and big:
                        continue
                out.append((bs, sorted((list(a), b) for a, b in ft.items()), {"matrix:" + c[0] + k: 1}))
    if f["v34"]:
        # every FLAG_REF container kind with FLAG_REF members and a back-reference to every slot (which object sits in which slot shows
        # whether the container reserved its slot before reading its members), whatever the seed
        import random
        for kind in ["(", ")", "[", "<", ">", "{"]:
            for m in (1, 3):
                out.append(slot_order_stream(random.Random(ord(kind) * 7 + m), kind, m))
    if f["interned"]:
        import random
        for j in range(3):
            out.append(interned_dup_stream(random.Random(j)))
    return out


def ft_lit(ft):
    from common import blist
    return "[" + "; ".join(f"({blist(k)}, {v})" for k, v in ft) + "]"

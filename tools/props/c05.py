"""C05 - line-number mapping equals CPython's for every line-table format."""
import json
import os
import random

import common as C
from props import linegen as G

HEADER = ("From Xdis Require Import Base.Prelude Base.Result Base.LE Model.LineStarts Model.CoLines Model.LineObs "
          "Spec.Lnotab Spec.Lines310 Spec.Loc311.")
MODS = ["ops_lines"]
ORACLE = os.path.join(C.VERIF, "tools/harness/oracle_lines.py")


def vlit(v):
    return "None" if v is None else f"(Some {C.zlist(v)})"


def describe(component):
    def d(case, impl, model):
        return {"component": component, "input": case, "impl_observation": impl, "model_observation": model,
                "why": "the C05 theorems prove model = CPython's decoder; the implementation differs from the model on this input",
                "observation_format": "[0; n; (offset; 1; line | 0)...] / triples (start; end; line-opt) / [1; error code]"}
    return d


def correspondence(r):
    rnd = random.Random(r.seed * 1000003 + 5)
    scale = 1 if r.tier == "quick" else 8
    # --- co_lnotab decoder through the opcode modules of many versions
    cases = []
    versions = [None, [1, 5], [2, 4], [2, 7], [3, 0], [3, 3], [3, 5], [3, 6], [3, 7], [3, 8], [3, 9]]
    for tab, first, codelen, kind in G.lnotab_tables(rnd, 220 * scale):
        for v in ([rnd.choice(versions)] if kind == "random" else versions):
            for dup in ((False,) if rnd.random() < 0.7 else (False, True)):
                cases.append({"version": v, "dup": dup, "first": first, "codelen": codelen, "tab": tab, "kind": kind})
    # the public xdis.findlinestarts given the version as load_module returns it (three components: micro 0 and a later patch release)
    pub = []
    for c in cases[:: 3]:
        if c["version"] is not None:
            for micro in (0, 2):
                pub.append(dict(c, triple=c["version"] + [micro], kind="public-3-tuple"))
    cases = cases + pub
    for c in cases:
        r.count("lnotab-kind:" + c["kind"])
    C.correspond(r, "lnotab", HEADER, "lnotab", cases,
                 lambda c: f"obs_lnotab {vlit(c['version'])} {C.boollit(c['dup'])} {C.zlit(c['first'])} {c['codelen']} {C.blist(c['tab'])}",
                 modules=MODS, describe=describe("cross_dis.findlinestarts (co_lnotab)"), shards=4)
    # --- 3.10 co_lines and findlinestarts over it
    cases = [{"first": first, "tab": tab} for tab, first in G.tables310(rnd, 300 * scale)]
    C.correspond(r, "colines310", HEADER, "colines310", cases,
                 lambda c: f"obs_colines310 {C.zlit(c['first'])} {C.blist(c['tab'])}", modules=MODS, describe=describe("Code310.co_lines"))
    cases2 = [dict(c, version=[3, 10]) for c in cases if len(c["tab"]) % 2 == 0]
    # --- 3.11+ location tables
    t311 = [{"first": first, "tab": tab} for tab, first in G.tables311(rnd, 400 * scale)]
    C.correspond(r, "colines311", HEADER, "colines311", t311,
                 lambda c: f"obs_colines311 {C.zlit(c['first'])} {C.blist(c['tab'])}", modules=MODS, describe=describe("Code311.co_lines / parse_linetable"))
    for v in ([3, 11], [3, 12], [3, 13]):
        cases2 += [dict(c, version=v) for c in t311[:: 2 if scale == 1 else 1]]
    C.correspond(r, "fls_code", HEADER, "fls_code", cases2,
                 lambda c: f"obs_fls_code {C.zlist(c['version'])} {C.zlit(c['first'])} {C.blist(c['tab'])}", modules=MODS,
                 describe=describe("opc.findlinestarts over co_lines()"))
    # --- offset2line
    cases = []
    for _ in range(400 * scale):
        n = rnd.choice([0, 1, 2, 3, 5, 8, 13, 40])
        offs = sorted(rnd.sample(range(0, 3 * n + 10), n))
        ls = [[o, rnd.randrange(1, 500)] for o in offs]
        for q in {0, offs[0] if offs else 3, (offs[-1] + 1) if offs else 7, rnd.randrange(0, 3 * n + 12), rnd.randrange(0, 3 * n + 12)}:
            cases.append({"offset": q, "ls": ls})
    C.correspond(r, "offset2line", HEADER, "offset2line", cases,
                 lambda c: f"obs_offset2line {c['offset']} [" + "; ".join(f"({a}, {b})" for a, b in c["ls"]) + "]", modules=MODS,
                 describe=describe("bytecode.offset2line"), nontrivial=lambda c, o: len(c["ls"]) > 1)


def loaded_path(r):
    """The same tables on the path a file takes: the reference interpreter builds a code object around the table and marshals it, xdis's
    unmarshaller loads it, the version's findlinestarts reads the loaded object; compared with the interpreter's own dis.findlinestarts.
    Among the tables: pairs of bytes >= 0x80 that form valid UTF-8 sequences (a line table mistaken for text loses entries)."""
    from props import c10
    rnd = random.Random(r.seed * 131 + 5)
    fixed = [([6, 1, 0xC2, 0xA9], 1, 240), ([0xC3, 0xA9, 4, 1], 1, 240), ([2, 0xE4, 0xB8, 0xAD, 2, 1], 3, 400), ([0xD0, 0x90, 0xD1, 0x8F], 1, 500),
             ([6, 1, 200, 3, 255, 0, 4, 1], 10, 600), ([0xF0, 0x9F, 0x98, 0x80], 1, 600)]
    tabs = fixed + [(t, f, cl) for t, f, cl, k in G.lnotab_tables(rnd, 40 if r.tier == "quick" else 400)]
    for v in ("2.7", "3.6", "3.7", "3.8", "3.9"):
        cases = [{"tab": t, "first": f, "codelen": cl, "marshal": True} for t, f, cl in tabs]
        rc, out, err = C.run_py(ORACLE, host=C.ORACLES[v], stdin=json.dumps(cases), impl=False)
        res = json.loads(out.split("@@JSON@@")[1])
        vt = [int(x) for x in v.split(".")]
        todo = [(c, o) for c, o in zip(cases, res) if "payload" in o and "fls" in o]
        got = C.run_impl_op("fls_loaded", [{"magic": c10.ORACLE_MAGIC[v], "version": vt, "payload": o["payload"]} for c, o in todo], modules=MODS)
        for (c, o), g in zip(todo, got):
            r.case(("loaded", v, C.digest(c["tab"])), nontrivial=len(c["tab"]) >= 4)
            r.count("loaded-path:" + v)
            if g != o["fls"]:
                r.violation({"component": "findlinestarts of a code object as xdis.unmarshal.load_code returns it", "version": v, "co_lnotab": c["tab"], "co_firstlineno": c["first"],
                             "code_length": c["codelen"], "xdis": g if isinstance(g, list) else str(g), "cpython_dis_findlinestarts": o["fls"],
                             "why": "the (offset, line) pairs differ from what the producing CPython's dis.findlinestarts gives for the same code object (format: [0, n, offset, 1, line, ...])"})
                if len(r.violations) > 4:
                    return


def validate_spec(r):
    """Spec/* vs the real interpreters' dis.findlinestarts / co_lines()."""
    rnd = random.Random(r.seed * 31 + 7)
    n = 120 if r.tier == "quick" else 1500
    total = 0
    fam = {"2.7": "spec_findlinestarts_pre36", "3.6": "spec_findlinestarts_36_37", "3.7": "spec_findlinestarts_36_37",
           "3.8": "spec_findlinestarts_38_39", "3.9": "spec_findlinestarts_38_39"}
    tabs = [(t, f, cl) for t, f, cl, k in G.lnotab_tables(rnd, n)]
    for v, spec in fam.items():
        cases = [{"tab": t, "first": f, "codelen": cl} for t, f, cl in tabs]
        rc, out, err = C.run_py(ORACLE, host=C.ORACLES[v], stdin=json.dumps(cases), impl=False)
        res = json.loads(out.split("@@JSON@@")[1])
        lits = [f"(obs_pairs ({spec} {C.zlit(c['first'])} {c['codelen']} {C.blist(c['tab'])}), {C.zlist(o['fls'])})" for c, o in zip(cases, res) if "fls" in o]
        bad, errs = C.coq_cases(r.wd, "spec" + v.replace(".", ""), HEADER, "list Z * list Z", "fun c => zlist_eqb (fst c) (snd c)", lits)
        if C.spec_problem(r, errs, bad):
            print(f"MACHINERY-ERROR: lnotab spec disagrees with CPython {v}:", errs[:1], [cases[b] for b in bad[:3]], [res[b] for b in bad[:3]])
            raise SystemExit(2)
        total += len(lits)
    # 3.10
    # first line far from 0: CPython reports a negative computed line as None, which no compiler-made table has
    t310 = [(t, f + 100000) for t, f in G.tables310(rnd, n) if len(t) % 2 == 0 and G.wf310(t)]
    cases = [{"tab": t, "first": f} for t, f in t310]
    rc, out, err = C.run_py(ORACLE, host=C.ORACLES["3.10"], stdin=json.dumps(cases), impl=False)
    res = json.loads(out.split("@@JSON@@")[1])
    lits = []
    for c, o in zip(cases, res):
        if "lines" in o:
            lits.append(f"(obs_triples (spec_lines_310 {C.zlit(c['first'])} {C.blist(c['tab'])}) ++ obs_pairs (spec_fls (spec_lines_310 {C.zlit(c['first'])} {C.blist(c['tab'])}) None), {C.zlist(o['lines'] + o['fls'])})")
    bad, errs = C.coq_cases(r.wd, "spec310", HEADER, "list Z * list Z", "fun c => zlist_eqb (fst c) (snd c)", lits)
    if C.spec_problem(r, errs, bad):
        print("MACHINERY-ERROR: 3.10 line-table spec disagrees with CPython 3.10:", errs[:1], [cases[b] for b in bad[:3]], [res[b] for b in bad[:3]])
        raise SystemExit(2)
    total += len(lits)
    # 3.11 - 3.13: tables produced by the spec encoder from abstract entries
    ents = G.entries311(rnd, n)
    for v in ("3.11", "3.12", "3.13"):
        cases = [{"tab": G.encode311(es), "first": f} for es, f in ents]
        rc, out, err = C.run_py(ORACLE, host=C.ORACLES[v], stdin=json.dumps(cases), impl=False)
        res = json.loads(out.split("@@JSON@@")[1])
        lits = []
        for (es, f), c, o in zip(ents, cases, res):
            if "lines" not in o:
                continue
            el = G.entries_lit(es)
            merged = "true" if v != "3.11" else "false"
            flsterm = (f"obs_pairs_opt (spec_fls_313 (sem_lines {merged} {C.zlit(f)} {el}) LFalse)" if v == "3.13"
                       else f"obs_pairs (spec_fls (sem_lines {merged} {C.zlit(f)} {el}) None)")
            lits.append(f"(encode_entries {el} ++ obs_triples (sem_lines {merged} {C.zlit(f)} {el}) ++ {flsterm} ++ obs_positions (sem_positions {C.zlit(f)} {el}), "
                        f"{C.zlist(c['tab'] + o['lines'] + o['fls'] + o['positions'])})")
        bad, errs = C.coq_cases(r.wd, "spec" + v.replace(".", ""), HEADER, "list Z * list Z", "fun c => zlist_eqb (fst c) (snd c)", lits, chunk=200)
        if C.spec_problem(r, errs, bad):
            print(f"MACHINERY-ERROR: location-table spec disagrees with CPython {v}:", errs[:1], [(ents[b], res[b]) for b in bad[:2]])
            raise SystemExit(2)
        total += len(lits)
    r.cov["spec_validation"] = {"tables_checked_against_real_interpreters": total, "interpreters": ["2.7", "3.6", "3.7", "3.8", "3.9", "3.10", "3.11", "3.12", "3.13"], "disagreements": 0}


def run(r):
    r.cov["rule"] = ("theorems quantify over all byte tables; correspondence: structured tables (offset gaps 0..600, line gaps -300..+2000, continuation entries, "
                     "no-line entries, tables running past the end of the code, empty tables) + raw random bytes, through the opcode modules of 11 versions; "
                     "non-trivial = at least one (offset,line) pair beyond the first; distinct by input")
    ok = r.build(extra_targets=["Model/LineObs.vo", "Spec/Loc311.vo"])
    if not ok:
        r.violation({"broken": "proof obligation", "theorem_or_tie": "Props/C05.v", "log": r.build_failure_excerpt()}, found_input=False, name="C05-obligation.json")
    try:
        correspondence(r)
        loaded_path(r)
    except SystemExit:
        raise
    except Exception as e:
        import traceback
        traceback.print_exc()
        r.violation({"correspondence": "could not be run", "error": repr(e)}, found_input=False, name="C05-correspondence.json")
    validate_spec(r)

"""Generators of code bytes for the instruction-stream family."""
import glob
import os

import common as C


def load_tables():
    from translate import opcodes as T
    d = T.dump_impl()
    return {t["name"]: t for t in d["tables"]}


REF_CACHE = {}


def ref_caches():
    """opname -> cache entries, from the installed 3.11-3.13 opcode modules"""
    if not REF_CACHE:
        from translate import opcodes as T
        o = T.dump_oracles()
        for v, t in o.items():
            REF_CACHE[v] = dict(t["cache"])
    return REF_CACHE


def emit(t, op, arg, code):
    """append one instruction (with EXTENDED_ARG prefixes as needed) to code"""
    word = tuple(t["version_tuple"]) >= (3, 6)
    if op < t["HAVE_ARGUMENT"]:
        code += [op, 0] if word else [op]
        return
    if word:
        chunks = []
        a = arg
        while True:
            chunks.append(a & 255)
            a >>= 8
            if not a:
                break
        for c in reversed(chunks[1:]):
            code += [t["EXTENDED_ARG"], c]
        code += [op, chunks[0]]
    else:
        if arg >= 65536:
            hi = arg >> 16
            code += [t["EXTENDED_ARG"], hi & 255, (hi >> 8) & 255]
        code += [op, arg & 255, (arg >> 8) & 255]


def synth(rnd, t, n_instr, caches=None, small_nonjump=False, no_ext=False):
    """a structurally valid instruction sequence for table t"""
    defined = sorted(v for k, v in t["opmap"] if v < 256 and not k.startswith("INSTRUMENTED"))
    jumps = [o for o in t["hasjrel"] + t["hasjabs"] if o < 256]
    code = []
    for _ in range(n_instr):
        r = rnd.random()
        if jumps and r < 0.35:
            op = rnd.choice(jumps)
        else:
            op = rnd.choice(defined)
        if op == t["EXTENDED_ARG"]:
            continue
        arg = rnd.choice([0, 1, 2, 5, 100, 255, 256, 257, 300, 65535, 65536, 70000, 2 ** 24, 2 ** 24 + 7]) if rnd.random() < 0.5 else rnd.randrange(0, 40)
        if tuple(t["version_tuple"]) < (3, 6):
            arg = min(arg, 2 ** 31 - 1)
        if small_nonjump and op not in jumps:
            arg = rnd.randrange(0, 250)
        if no_ext:
            arg = min(arg, 65535 if tuple(t["version_tuple"]) < (3, 6) else 255)
        name = t["opname"][op]
        # operands some formatters index tables with: keep them valid (invalid operands are not "code objects")
        if op in t["hascompare"]:
            k = rnd.randrange(0, 6)
            vt = tuple(t["version_tuple"])
            arg = k << (5 if vt >= (3, 13) else 4 if vt >= (3, 12) else 0)
        elif name in ("RAISE_VARARGS", "BINARY_OP", "CALL_INTRINSIC_1", "CALL_INTRINSIC_2"):
            arg = rnd.randrange(0, 3)
        emit(t, op, arg, code)
        if caches:
            name = t["opname"][op]
            code += [0, 0] * caches.get(name, 0)
    return code


def all_opcodes(rnd, t, caches=None, chunk=40):
    """every defined opcode of the table at least once (sequences of `chunk` instructions), operands kept valid as in synth()"""
    defined = sorted(v for k, v in t["opmap"] if v < 256 and not k.startswith("INSTRUMENTED") and v != t["EXTENDED_ARG"])
    vt = tuple(t["version_tuple"])
    out = []
    for i in range(0, len(defined), chunk):
        code = []
        for op in defined[i:i + chunk]:
            name = t["opname"][op]
            arg = rnd.choice([1, 2, 5, 6, 9, 11, 13, 300])
            if vt < (3, 6):
                arg = min(arg, 2 ** 31 - 1)
            if op in t["hascompare"]:
                arg = rnd.randrange(0, 6) << (5 if vt >= (3, 13) else 4 if vt >= (3, 12) else 0)
            elif name in ("RAISE_VARARGS", "BINARY_OP", "CALL_INTRINSIC_1", "CALL_INTRINSIC_2"):
                arg = rnd.randrange(0, 3)
            emit(t, op, arg, code)
            if caches:
                code += [0, 0] * caches.get(name, 0)
        out.append(code)
    return out


def corpus_files(limit_per_dir=None):
    out = []
    for d in sorted(glob.glob(os.path.join(C.REPO, "test", "bytecode_*"))):
        fs = sorted(glob.glob(os.path.join(d, "*.pyc")))
        if limit_per_dir:
            fs = fs[:limit_per_dir]
        out += fs
    return out

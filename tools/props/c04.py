"""C04 - jump targets, labels and is_jump_target agree with CPython and with each other."""
import common as C
from props import c02


def run(r):
    r.cov["rule"] = ("theorems quantify over all code byte strings and all (offset, operand) pairs; correspondence (shared with C02): per opcode table (39) synthetic "
                     "sequences weighted towards jumps with operands around 2^8/2^16/2^24 and EXTENDED_ARG prefixes, cache words for 3.11+, truncations, corpus code objects; "
                     "observed: opc.findlabels, Instruction.argval of jrel/jabs, is_jump_target; non-trivial = at least two decoded instructions; distinct by (table, bytes)")
    broken = r.generate("opcodes", "small")
    ok = False if broken else r.build(extra_targets=["Model/InstrObs.vo", "Spec/Dis.vo"])
    if broken or not ok:
        r.violation({"broken": broken or "proof obligation", "theorem_or_tie": "Props/C04.v", "log": "" if broken else r.build_failure_excerpt()},
                    found_input=False, name="C04-obligation.json")
    try:
        cases = c02.run_correspondence(r)
        # the public xdis.findlabels (cross_dis.findlabels: findlabels_pre_310 below 3.10, findlabels_310 from 3.10) on the same code strings,
        # for the versions whose byte layout it reads correctly (it unpacks 3.6-3.9 word code as byte code: outside)
        from props import instrgen as IG
        tabs = IG.load_tables()
        pub = [c for c in cases if c["table"] in tabs and not ((3, 6) <= tuple(tabs[c["table"]]["version_tuple"][:2]) < (3, 10))][:: 2 if r.tier == "quick" else 1]
        C.correspond(r, "xdis_findlabels", c02.HEADER, "xdis_findlabels", pub, lambda c: f"obs_xdis_findlabels {c['table']} {C.blist(c['code'])}", modules=c02.MODS,
                     describe=c02.describe("xdis.findlabels (the cross_dis export)"), shards=8, chunk=300)
    except SystemExit:
        raise
    except Exception as e:
        import traceback
        traceback.print_exc()
        r.violation({"correspondence": "could not be run", "error": repr(e)}, found_input=False, name="C04-correspondence.json")
    c02.validate_spec(r, what=("labels",))
    r.cov["explanation"] = ("'Every target is the start of an instruction or len(co_code)' is a fact about the code a compiler emits, not about xdis; "
                            "it is not a theorem here. xdis.findlabels (the cross_dis export) on 3.6-3.9 word code is outside the observed APIs.")

"""C03 - operands resolve to the same constant, name or variable CPython resolves."""
import json
import os
import random

import common as C
from props import instrgen as IG
from props import c02

HEADER = c02.HEADER + "\nFrom Xdis Require Import Model.Resolve."
MODS = ["ops_instr"]
ORACLE = os.path.join(C.VERIF, "tools/harness/oracle_resolve.py")


def synth(rnd, t, caches, n):
    vt = tuple(t["version_tuple"])
    cats = {"const": t["hasconst"], "name": t["hasname"], "local": t["haslocal"], "free": t["hasfree"], "compare": t["hascompare"]}
    defined = {v for k, v in t["opmap"] if not k.startswith("INSTRUMENTED")}
    pool = [(k, op) for k, ops in cats.items() for op in ops if op < 256 and op in defined]
    code = []
    for _ in range(n):
        k, op = rnd.choice(pool)
        name = t["opname"][op]
        if k == "const":
            arg = rnd.randrange(0, 30)
        elif k == "name":
            arg = rnd.randrange(0, 26)
            if vt >= (3, 11) and name == "LOAD_GLOBAL" or vt >= (3, 12) and name == "LOAD_ATTR":
                arg = rnd.randrange(0, 50)
            if vt >= (3, 12) and name == "LOAD_SUPER_ATTR":
                arg = rnd.randrange(0, 100)
        elif k == "local":
            arg = rnd.randrange(0, 8)
            if vt >= (3, 13) and name in ("LOAD_FAST_LOAD_FAST", "STORE_FAST_LOAD_FAST", "STORE_FAST_STORE_FAST"):
                arg = (rnd.randrange(0, 6) << 4) | rnd.randrange(0, 6)
        elif k == "free":
            arg = rnd.randrange(0, 9 if vt >= (3, 11) else 5)
        else:
            arg = rnd.randrange(0, 6) << (5 if vt >= (3, 13) else 4 if vt >= (3, 12) else 0)
        IG.emit(t, op, arg, code)
        if caches:
            code += [0, 0] * caches.get(name, 0)
    return code


def describe(case, impl, model):
    return {"component": "Instruction.argval / optype (operand resolution)", "input": case, "impl_observation": impl[:120], "model_observation": model[:600],
            "observation_format": "[0; n; per table-indexed instruction: offset; kind; value] kind 1 const (1000+i), 2 name ('n'/'v'/'c'/'f' *1000 + index), 5 cmp index, 6 pair, 9 raw; markers: varnames v0-v3, cellvars (v0, c1), freevars (f0, v1)",
            "why": "C03_resolve proves the model resolves as CPython does; the implementation differs from the model on this code"}


def run(r):
    r.cov["rule"] = ("theorem: all opcodes x all operands x all tables; correspondence: per opcode table, code built from its const/name/local/free/compare opcodes over marker tables "
                     "(a parameter that is also a cell, a free variable that has the name of a local, out-of-range name indices, LOAD_GLOBAL/LOAD_ATTR/LOAD_SUPER_ATTR flag bits, shifted COMPARE_OP, 3.13 pairs); "
                     "the spec is run against the real dis of 3.8-3.13 on the same code; non-trivial = at least 3 resolved operands")
    broken = r.generate("opcodes", "small")
    ok = False if broken else r.build(extra_targets=["Model/InstrObs.vo"])
    if broken or not ok:
        found = False
        if not broken:
            okb, _ = C.coq_build(["Model/ResolveChecks.vo"])
            out, err = C.coq_eval_term(r.wd, "pf", HEADER + "\nFrom Xdis Require Import Model.ResolveChecks.",
                                       "(map (fun '(T, R) => (t_name T, plan_failures T R)) res_pairs, map (fun '(T, R) => (t_name T, cmp_diff (t_cmp_op T) (r_cmp_op R) 0)) res_pairs)") if okb else (None, "")
            if out and ("(" in out.split("cmp")[0]):
                import re
                rows = re.findall(r'\("(opcode_\w+)"%string,\s*\[\s*\(([^\]]+)\]', " ".join(out.split()))
                if rows:
                    r.violation({"obligation": "plan_failures / cmp_spelling_diffs", "failing_rows": " ".join(out.split())[:2500],
                                 "meaning": "(table, [(opcode, opname)...]) whose resolution plan differs from CPython's; or comparison spellings beyond the known three"}, name="C03-plans.json")
                    found = True
        if not found:
            r.violation({"broken": broken or "proof obligation", "theorem_or_tie": "Props/C03.v", "log": "" if broken else r.build_failure_excerpt()},
                        found_input=False, name="C03-obligation.json")
    if r.is_known("D16"):
        r.known_finding("D16", "cmp_op spells 'not-in', 'is-not', 'exception-match' where CPython (<= 3.8) says 'not in', 'is not', 'exception match'; indices agree")
    rnd = random.Random(r.seed * 313 + 3)
    try:
        tables = IG.load_tables()
        caches = IG.ref_caches()
        cases = []
        per = 4 if r.tier == "quick" else 40
        for name, t in sorted(tables.items()):
            v = ".".join(str(x) for x in t["version_tuple"][:2])
            cz = caches.get(v) if tuple(t["version_tuple"]) >= (3, 11) else None
            if not (t["hasconst"] or t["hasname"]):
                continue
            for _ in range(per):
                cases.append({"table": name, "code": synth(rnd, t, cz, rnd.choice([3, 8, 20]))})
        for c in cases:
            r.count("table:" + c["table"])
        C.correspond(r, "resolve", HEADER, "resolve", cases, lambda c: f"obs_resolve {c['table']} {C.blist(c['code'])}", modules=MODS, describe=describe, shards=8, chunk=100,
                     nontrivial=lambda c, o: isinstance(o, list) and len(o) > 1 and o[0] == 0 and o[1] >= 3)
        # spec vs the real dis (code.replace with marker tables needs 3.8+)
        total = 0
        for v in ("3.8", "3.9", "3.10", "3.11", "3.12", "3.13"):
            t = tables["opcode_" + v.replace(".", "")]
            cz = caches.get(v) if tuple(t["version_tuple"]) >= (3, 11) else None
            oc = [{"code": synth(rnd, t, cz, rnd.choice([3, 8, 20]))} for _ in range(25 if r.tier == "quick" else 300)]
            res = []
            for k in range(0, len(oc), 10):
                # small batches: a reference interpreter can crash on made-up code (3.12 does now and then); such a batch is skipped
                rc, out, err = C.run_py(ORACLE, host=C.ORACLES[v], stdin=json.dumps(oc[k:k + 10]), impl=False)
                if "@@JSON@@" in out:
                    res += json.loads(out.split("@@JSON@@")[1])
                else:
                    res += [{"err": "interpreter crashed"}] * len(oc[k:k + 10])
                    r.count("oracle-crash:" + v)
            ref = c02.REFNAME[v]
            lits = [f"(obs_spec_resolve {ref} {C.blist(c['code'])}, {C.zlist(o['obs'])})" for c, o in zip(oc, res) if "obs" in o]
            bad, errs = C.coq_cases(r.wd, "specres" + v.replace(".", ""), HEADER, "list Z * list Z", "fun c => zlist_eqb (fst c) (snd c)", lits, chunk=150)
            if C.spec_problem(r, errs, bad):
                print(f"MACHINERY-ERROR: resolution spec disagrees with CPython {v}'s dis:", errs[:1], [lits[b][:300] for b in bad[:2]])
                raise SystemExit(2)
            total += len(lits)
        r.cov["spec_validation"] = {"code_objects_checked_against_real_dis": total, "interpreters": ["3.8", "3.9", "3.10", "3.11", "3.12", "3.13"], "disagreements": 0}
    except SystemExit:
        raise
    except Exception as e:
        import traceback
        traceback.print_exc()
        r.violation({"correspondence": "could not be run", "error": repr(e)}, found_input=False, name="C03-correspondence.json")
    # a free variable that shares its name with a local (3.12+ inlined comprehensions): the case in real compiler output,
    # against the real dis of 3.12 and 3.13 (defect D45, repaired; the marker tables above hold such a free variable too)
    try:
        for v in ("3.12", "3.13"):
            d = os.path.join(r.wd, "freelocal" + v)
            os.makedirs(d, exist_ok=True)
            pyc = os.path.join(d, "freelocal.pyc")
            rc, out, err = C.run_py(os.path.join(C.VERIF, "tools/harness/oracle_freelocal.py"), host=C.ORACLES[v], stdin=json.dumps({"dir": d, "out": pyc}), impl=False)
            want = json.loads(out.split("@@JSON@@")[1])
            res = C.run_impl_op("freelocal", [{"file": pyc}], modules=MODS)[0]
            r.case(("freelocal", v), nontrivial=True)
            got = res.get("rows") if isinstance(res, dict) else None
            if isinstance(res, dict) and (res.get("rows_via_other") != res.get("rows") or res.get("lines_via_other") != res.get("lines")):
                r.violation({"component": "Bytecode(a).get_instructions(b)", "version": v, "of_b": {"rows": res.get("rows"), "lines": res.get("lines")},
                             "via_a": {"rows": res.get("rows_via_other"), "lines": res.get("lines_via_other")},
                             "why": "get_instructions(x) resolves x's operands and lines with x's own tables; through a Bytecode object made for another code object it answers differently"})
            diff = [(a, b) for a, b in zip(want["rows"], got)] if isinstance(got, list) else None
            bad = [(a, b) for a, b in (diff or []) if a != b]
            if got is None or not isinstance(got, list) or len(got) != len(want["rows"]):
                r.violation({"component": "operand resolution, free variable named like a local", "version": v, "dis": want, "xdis": got, "why": "the instruction rows differ in number"})
            elif bad:
                r.violation({"component": "operand resolution, free variable named like a local", "version": v, "differences": bad[:6], "tables": {k: want[k] for k in ("varnames", "cellvars", "freevars")},
                             "why": "xdis resolves other names than the producing CPython's dis"})
    except SystemExit:
        raise
    except Exception as e:
        import traceback
        traceback.print_exc()
        r.violation({"correspondence": "free/local witness could not be run", "error": repr(e)}, found_input=False, name="C03-correspondence.json")
    r.cov["explanation"] = ("The resolved OBJECT is identified by (table, index) over marker tables; constants' own values are C01/C10's business. argrepr text is not compared (C12). "
                            "For tables without an installed interpreter the plan is not compared with a reference.")

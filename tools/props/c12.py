"""C12 - listings are total, faithful to the instruction stream, and clean."""
import json
import os
import random

import common as C
from props import instrgen as IG
from props import linegen as LG

HEADER = "From Xdis Require Import Base.Prelude Model.Listing."
MODS = ["ops_listing"]
FORMATS = ["classic", "bytes", "extended", "extended-bytes", "xasm", "header"]
COQFMT = {"classic": "Classic", "bytes": "Bytes", "extended": "Extended", "extended-bytes": "ExtendedBytes"}
ORACLE_PYC = os.path.join(C.VERIF, "tools/harness/oracle_pyc.py")
LIBS = ["abc.py", "bisect.py", "colorsys.py", "copy.py", "fnmatch.py", "glob.py", "heapq.py", "keyword.py", "linecache.py", "posixpath.py", "queue.py",
        "reprlib.py", "sched.py", "shlex.py", "stat.py", "string.py", "textwrap.py", "types.py", "warnings.py", "weakref.py", "contextlib.py", "functools.py",
        "dis.py", "opcode.py", "tokenize.py", "json/decoder.py", "json/encoder.py", "dataclasses.py", "enum.py", "fractions.py", "statistics.py",
        "asyncio/queues.py", "asyncio/locks.py", "ast.py", "struct.py", "gettext.py", "hmac.py", "numbers.py", "pprint.py", "random.py", "socketserver.py",
        "tempfile.py", "threading.py", "csv.py", "difflib.py", "collections/__init__.py", "argparse.py", "inspect.py", "typing.py", "zipfile.py"]
VERSIONS = ["2.7", "3.6", "3.7", "3.8", "3.9", "3.10", "3.11", "3.12", "3.13"]


def zs(s):
    return "[" + ";".join(str(ord(ch)) for ch in s) + "]"


def rec_lit(x):
    return (f"mk_linstr {C.zlit(x['off'])} {C.zlit(x['op'])} {zs(x['name'])} {C.optlit(x['arg'], C.zlit)} {zs(x['repr'])} {C.optlit(x['argval'], C.zlit)} "
            f"{C.boollit(x['target'])} {C.optlit(x['line'], C.zlit)} {C.zlit(x['size'])} {C.boollit(x['hasarg'])}")


def recs_lit(recs):
    return "[" + ";\n ".join(rec_lit(x) for x in recs) + "]"


def piece_lit(fmt, recs, text):
    """(model side, implementation side) pair; full text for classic/bytes, line prefixes for the extended formats"""
    f = COQFMT[fmt]
    if fmt in ("classic", "bytes"):
        return f"(LFull {f} {recs_lit(recs)} {zs(text)})"
    lines = text.split("\n")
    assert lines[-1] == "" or not text
    lines = lines[:-1]
    return f"(LPref {f} {recs_lit(recs)} [" + "; ".join(zs(ln) for ln in lines) + "])"


CASE_DEFS = """
Inductive lcase := LFull (f : lfmt) (is : list linstr) (t : list Z) | LPref (f : lfmt) (is : list linstr) (ls : list (list Z)).
Definition lcase_ok (c : lcase) : bool :=
  match c with
  | LFull f is t => zlist_eqb (listing_text f is) t
  | LPref f is ls => lines_ok (listing_prefixes f is) ls
  end.
"""


LINE_RE = None


def property_level_failure(fmt, recs, text):
    """Independent of the model: does this classic/bytes text break what C12 states?  Parses every line loosely
    (any column widths) and compares with the instruction stream.  Returns a description or None."""
    import re
    shown = []
    pend = None
    for x in recs:
        line = x["line"] if pend is None else pend[0]
        pend = (x["argval"],) if x["name"] == "SET_LINENO" else None
        if x["name"] == "CACHE" and fmt != "bytes":
            continue
        shown.append((x, line))
    rows = []
    for ln in text.split("\n"):
        if not ln.strip() or ln.startswith("#"):
            continue
        m = re.match(r"^\s*(?:(-?\d+):)?\s*(-->)?\s*(>>)?\s*(\d+)\s+(?:\|[0-9a-f ]*\|\s+)?(\S+)\s*(.*)$", ln)
        if not m:
            return {"unparsable_line": ln}
        rows.append(m.groups())
    if len(rows) != len(shown):
        return {"rows_in_listing": len(rows), "instructions_to_show": len(shown)}
    for (lno, cur, mark, off, name, operand), (x, line) in zip(rows, shown):
        want_operand = "" if x["arg"] is None else ("(%s)" % x["repr"] if x["repr"] else repr(x["arg"]))
        if int(off) != x["off"] or name != x["name"] or (mark is not None) != x["target"] or (None if lno is None else int(lno)) != line or operand.strip() != want_operand.strip():
            return {"listing_row": [lno, mark, off, name, operand], "instruction": x, "expected_line_number": line}
    return None


def make_pycs(r, rnd):
    """valid bytecode files of every installed interpreter (its own compiler and py_compile)"""
    quick = r.tier == "quick"
    out = []
    for v in VERSIONS:
        libs = rnd.sample(LIBS, 3) if quick else rnd.sample(LIBS, 24)
        d = os.path.join(r.wd, "pyc", v)
        rc, o, err = C.run_py(ORACLE_PYC, host=C.ORACLES[v], impl=False,
                              stdin=json.dumps({"outdir": d, "stdlib": libs, "max_src": 25000 if quick else 60000,
                                                # an int constant beyond the 4300-digit limit of int -> str conversion on 3.11+ hosts (2.7's test_long.py has 10**5000)
                                                "extra_sources": [["hugeint", "big = 0x" + "f" * 5000 + "\nt = (1, 0x" + "e" * 4500 + ")\n"]]}))
        if "@@JSON@@" not in o:
            raise RuntimeError(f"oracle_pyc under {v} failed: {err[-800:]}")
        fs = json.loads(o.split("@@JSON@@")[1])
        r.count("compiled-by:" + v, len(fs))
        out += [(v, f) for f in fs]
    return out


def synth_cases(r, rnd):
    tables = IG.load_tables()
    caches = IG.ref_caches()
    cases = []
    per = 2 if r.tier == "quick" else 12
    lim = {"hasconst": 30, "hasname": 20, "haslocal": 4, "hasfree": 3}
    for name, t in sorted(tables.items()):
        vt = tuple(t["version_tuple"])
        v = ".".join(str(x) for x in vt[:2])
        cz = caches.get(v) if vt >= (3, 11) else None
        for _ in range(per):
            n = rnd.choice([2, 6, 15])
            # one instruction at a time so that table-indexed operands can be kept inside the marker tables
            code = []
            starts = []
            for _ in range(n):
                starts.append(len(code))
                part = IG.synth(rnd, t, 1, cz)
                if not part:
                    continue
                word = vt >= (3, 6)
                # locate the real opcode (after EXTENDED_ARG prefixes)
                step = 2 if word else 3
                k = 0
                while part[k] == t["EXTENDED_ARG"] and k + step < len(part):
                    k += step
                op = part[k]
                for key, m in lim.items():
                    if op in t[key]:
                        part = []
                        IG.emit(t, op, rnd.randrange(0, m), part)
                        if cz:
                            part += [0, 0] * cz.get(t["opname"][op], 0)
                code += part
            lnotab = None
            if (1, 5) <= vt < (3, 10) and starts:
                first = 1
                mp = []
                ln = first
                for s in starts[1:]:
                    if rnd.random() < 0.5:
                        ln += rnd.choice([1, 1, 2, 40, 300])
                        mp.append((s, ln))
                lnotab = LG.enc_lnotab(mp, first, signed=vt >= (3, 6))
            for fmt in ("classic", "bytes"):
                cases.append({"table": name, "code": code, "lnotab": lnotab, "fmt": fmt})
    return cases


def run(r):
    r.cov["rule"] = ("theorems: every instruction stream x the four listing formats (rows = shown instructions once, in order, with their fields; line numbers; '>>'; columns); "
                     "correspondence: Bytecode.dis() text vs the model's text, code point by code point, for classic and bytes, and line by line on the row prefix for extended / "
                     "extended-bytes, over the code objects of /repo's corpus, of files compiled by the installed 2.7 and 3.6-3.13 interpreters, and of synthetic instruction "
                     "sequences for all 39 opcode tables; totality, clean stdout/stderr and 'the stream is exactly header + code info + listing (+ exception table)' for all six "
                     "formats on every file; non-trivial = a listing of at least 3 rows; distinct by (file or code, format)")
    ok = r.build(extra_targets=["Model/Listing.vo"])
    if not ok:
        r.violation({"broken": "proof obligation", "theorem_or_tie": "Props/C12.v", "log": r.build_failure_excerpt()}, found_input=False, name="C12-obligation.json")
    rnd = random.Random(r.seed * 1217 + 12)
    quick = r.tier == "quick"
    try:
        corpus = [f for f in IG.corpus_files()]
        compiled = make_pycs(r, rnd)
        files = [("corpus", f) for f in corpus] + compiled
        # which files also get their text compared inside Coq
        deep = set(rnd.sample(range(len(corpus)), 30 if quick else len(corpus)))
        deep_files = {corpus[i] for i in deep} | {f for v, f in compiled if quick and os.path.basename(f).startswith("src_") or not quick}
        if quick:
            byv = {}
            for v, f in compiled:
                if os.path.basename(f).startswith("lib_"):
                    byv.setdefault(v, []).append(f)
            for v, fs in byv.items():
                deep_files.add(rnd.choice(fs))
        cases = []
        for origin, f in files:
            for fmt in FORMATS:
                cases.append({"file": f, "fmt": fmt, "origin": origin, "pieces": f in deep_files and fmt in COQFMT, "max_text": 12000 if quick else 25000})
        res = C.run_impl_op("listing_file", cases, modules=MODS, shards=12, timeout=3000)
        lits, owners = [], []
        reported = set()
        for c, o in zip(cases, res):
            r.count("format:" + c["fmt"])
            r.count("origin:" + c["origin"])
            if not isinstance(o, dict) or "raised" not in o:
                raise RuntimeError(f"listing_file returned {str(o)[:300]} for {c}")
            rows = sum(len(p.get("recs", [])) for p in o.get("pieces", [])) if o.get("pieces") else o.get("lines", 0)
            r.case(("file", c["file"].replace(r.wd, ""), c["fmt"]), nontrivial=o["raised"] is None and (rows >= 3 or c["fmt"] in ("header", "xasm")),
                   sample={"file": c["file"], "fmt": c["fmt"], "out_len": o.get("out_len")} if len(r.cov["samples"]) < 6 and c["fmt"] != "header" else None)
            if o["raised"] is not None:
                key = ("raised", c["fmt"], o["raised"], o.get("where"))
                r.count("raised:" + c["fmt"])
                if key not in reported:
                    reported.add(key)
                    r.violation({"component": "disassemble_file", "file": c["file"], "format": c["fmt"], "raised": o["raised"], "message": o.get("msg"), "where": o.get("where"),
                                 "replay": f"PYTHONPATH=/repo /venv/bin/python -c \"import sys; from xdis.disasm import disassemble_file; disassemble_file('{c['file']}', sys.stdout, asm_format='{c['fmt']}')\"",
                                 "why": "disassembly of a valid bytecode file raised", "origin": c["origin"], "compiled_by": None if c["origin"] == "corpus" else "CPython " + c["origin"] + " py_compile",
                                 "pyc_base64": None if c["origin"] == "corpus" else __import__("base64").b64encode(open(c["file"], "rb").read()).decode()})
                continue
            if o["stdout"] or o["stderr"]:
                key = ("stray", c["fmt"], (o["stdout"] + o["stderr"])[:40])
                if key not in reported:
                    reported.add(key)
                    r.violation({"component": "disassemble_file", "file": c["file"], "format": c["fmt"], "stdout": o["stdout"], "stderr": o["stderr"],
                                 "why": "something was written to sys.stdout / sys.stderr although an output stream was given"})
            if c["fmt"] == "header" and o.get("all_comment") is False:
                r.violation({"component": "disassemble_file header format", "file": c["file"], "why": "the header format wrote a line that is not a '#' comment"})
            if c["fmt"] in COQFMT:
                if not o.get("stream_ok"):
                    key = ("stream", c["fmt"], c["file"])
                    if len([k for k in reported if k[0] == "stream"]) < 3:
                        reported.add(key)
                        r.violation({"component": "disassemble_file output stream", "file": c["file"], "format": c["fmt"], "diff": o.get("stream_diff"),
                                     "why": "the output stream is not header + code info + listing (+ exception table) of the queued code objects"})
                if c["pieces"]:
                    for p in o["pieces"]:
                        if p.get("skipped"):
                            r.count("piece-skipped-size")
                            continue
                        wrong = [x for x in p["recs"] if x["target"] != x["target_indep"]]
                        if wrong and ("jt", c["file"]) not in reported and len([k for k in reported if k[0] == "jt"]) < 2:
                            reported.add(("jt", c["file"]))
                            r.violation({"component": "Bytecode / listing: '>>' marks", "file": c["file"], "format": c["fmt"], "code_object": p["name"], "instruction": wrong[0],
                                         "why": "the instruction's is_jump_target (and so its '>>' mark) is not 'offset is a label of the code or, from 3.11, a handler target of its exception table'",
                                         "origin": c["origin"]})
                        lits.append(piece_lit(c["fmt"], p["recs"], p["text"]))
                        owners.append({"file": c["file"], "format": c["fmt"], "code_object": p["name"], "recs": p["recs"], "text": p["text"]})
                        r.count("piece:" + c["fmt"])
        # synthetic instruction sequences (classic / bytes)
        sc = synth_cases(r, rnd)
        sres = C.run_impl_op("listing_synth", sc, modules=MODS, shards=8)
        for c, o in zip(sc, sres):
            if not isinstance(o, dict) or "raised" not in o:
                raise RuntimeError(f"listing_synth returned {str(o)[:300]}")
            if o["raised"] is not None or o.get("bad"):
                r.count("synthetic:not-listable")      # made-up operands: not a valid code object, nothing is claimed
                continue
            r.count("synthetic:" + c["fmt"])
            r.case(("synth", C.digest(c)), nontrivial=len(o["recs"]) >= 3)
            if o["stdout"] or o["stderr"]:
                r.violation({"component": "Bytecode.dis", "input": c, "stdout": o["stdout"], "stderr": o["stderr"], "why": "stray output"})
            lits.append(piece_lit(c["fmt"], o["recs"], o["text"]))
            owners.append({"synthetic": c, "format": c["fmt"], "recs": o["recs"], "text": o["text"]})
        # case files are kept below ~250 kB each (a 1 MB literal overflows coqc's stack)
        avg = max(1, sum(len(x) for x in lits) // max(1, len(lits)))
        big = max(len(x) for x in lits) if lits else 0
        bad, errs = C.coq_cases(r.wd, "listing", HEADER + CASE_DEFS, "lcase", "lcase_ok", lits, chunk=max(1, min(40, 250000 // max(avg, big // 2 or 1))))
        if errs:
            raise RuntimeError(f"coq case evaluation failed: {errs[0]}")
        r.cov["texts_compared_in_coq"] = len(lits)
        ext_bad = [b for b in bad if owners[b]["format"] not in ("classic", "bytes")]
        bad = [b for b in bad if owners[b]["format"] in ("classic", "bytes")]
        # C12 states faithfulness for classic and bytes only; row prefixes of the extended formats are informational
        r.cov["extended_row_prefix_mismatches"] = [{k: owners[b].get(k) for k in ("file", "format", "code_object")} for b in ext_bad[:10]]
        for b in bad[:3]:
            ow = owners[b]
            f = COQFMT[ow["format"]]
            term = f"listing_text {f} {recs_lit(ow['recs'])}" if ow["format"] in ("classic", "bytes") else f"listing_prefixes {f} {recs_lit(ow['recs'])}"
            mout, _ = C.coq_eval_term(r.wd, f"listing_m{b}", HEADER + "\nFrom Coq Require Import ZArith List. Import ListNotations. Open Scope Z_scope.", term)
            model_txt = None
            if mout and ow["format"] in ("classic", "bytes"):
                import re
                m = re.search(r"=\s*\[(.*?)\]\s*:\s*list Z", mout, re.S)
                if m:
                    model_txt = "".join(chr(int(x)) for x in re.findall(r"\d+", m.group(1)))
            ow = dict(ow)
            ow["recs"] = ow["recs"][:60]
            ow["text"] = ow["text"][:4000]
            ow["model_text"] = (model_txt or " ".join((mout or "").split()))[:4000]
            pf = property_level_failure(ow["format"], owners[b]["recs"], owners[b]["text"])
            ow["property_level_failure"] = pf
            ow["why"] = ("the listing text differs from the model's text (theorems C12_* are about the model). property_level_failure: what a loose parse of the text, independent "
                         "of column widths, finds wrong against the instruction stream (missing / repeated / out-of-order row, other offset / name / operand / '>>' / line number); "
                         "null = the text still carries the right rows and only its layout left the model")
            r.violation(ow, found_input=pf is not None)
    except SystemExit:
        raise
    except Exception as e:
        import traceback
        traceback.print_exc()
        r.violation({"correspondence": "could not be run", "error": repr(e)}, found_input=False, name="C12-correspondence.json")
    # the operand text of Python 2 unicode constants is what Python 2 prints for them
    try:
        pyc27 = os.path.join(r.wd, "uni27.pyc")
        rc, o, err = C.run_py(os.path.join(C.VERIF, "tools/harness/oracle_unirepr.py"), host=C.ORACLES["2.7"], impl=False, stdin=json.dumps({"out": pyc27}))
        want = json.loads(o.split("@@JSON@@")[1])["reprs"]
        got = C.run_impl_op("unicode_reprs", [{"file": pyc27}], modules=MODS)[0]
        r.case(("unicode-reprs",), nontrivial=True)
        if got != want:
            r.violation({"component": "operand text of Python 2 unicode constants (UnicodeForPython3.__repr__)", "xdis_operands": got, "python27_reprs": want,
                         "source": "a = u'abc'; b = u'h\\xe9llo'; c = u'uni\\xe9 \\u4e2d'; d = u\"q's\"; e = u'a\\nb\\t'; f = u'\\U0001F600 x'; g = u'back\\\\slash'  (compiled by 2.7)",
                         "why": "the LOAD_CONST operand of a 2.7 listing is not the constant as Python 2.7 itself prints it"})
    except SystemExit:
        raise
    except Exception as e:
        import traceback
        traceback.print_exc()
        r.violation({"correspondence": "unicode operand check could not be run", "error": repr(e)}, found_input=False, name="C12-correspondence.json")
    r.cov["explanation"] = ("PARTIAL for the extended formats and xasm: their operand text (stack-simulated expressions, xasm labels) is not modelled; for them the check decides totality, "
                            "clean streams and, for extended / extended-bytes, that every line starts with the modelled row prefix (line column, '>>', offset, bytes, name). "
                            "Totality over 'every valid file' is explored on real compiler output only (corpus + nine installed compilers); it is an observation, not a theorem. "
                            "The Instruction records fed to the model are the implementation's own (their tie to the code bytes is C02/C03/C05/C17).")

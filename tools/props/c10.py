"""C10 - every marshal encoding of a constant decodes to the same value."""
import json
import os
import random

import common as C
from props import marshalgen as MG

HEADER = "From Xdis Require Import Base.Prelude Base.Result Model.Unmarshal Model.UnmarshalObs Gen.Magics Gen.Dispatch."
MODS = ["ops_marshal"]
ORACLE = os.path.join(C.VERIF, "tools/harness/oracle_marshal.py")
FAM_MAGICS = {"2.3": [62011, 60202, 20121], "2.4": [62061], "2.7": [62211, 62131, 62161], "3.3": [3230, 3131, 3180], "3.4+": [3310, 3351, 3379, 3394, 3413, 3425, 3439, 3495, 3531, 3571]}
ORACLE_MAGIC = {"2.7": 62211, "3.6": 3379, "3.7": 3394, "3.8": 3413, "3.9": 3425, "3.10": 3439, "3.11": 3495, "3.12": 3531, "3.13": 3571}


def describe(case, impl, model):
    return {"component": "xdis.unmarshal.load_code", "input": {"magic": case["magic"], "bytes": case["bytes"]}, "impl_observation": impl[:80], "model_observation": model[:600],
            "observation_format": "[0; bytes left; value] with value tags 0 NULL,1 None,2 True,3 False,4 Ellipsis,5 StopIteration,6 int,7 float bits,8 complex,9 bytes/str8,10 text,11 tuple,12 list,13 set,14 frozenset,15 dict,16 code; or [1; error code]",
            "why": "C10_agree proves the model decodes what CPython's marshal decodes; the implementation differs from the model on this stream"}


def gen_cases(r, n):
    rnd = random.Random(r.seed * 8191 + 10)
    cases = []
    for fam, magics in FAM_MAGICS.items():
        for mi, (bs, ft, kinds) in enumerate(MG.matrix_streams(fam)):
            r.count("matrix:" + fam)
            cases.append({"magic": magics[mi % len(magics)], "bytes": bs, "ft": ft, "fam": fam})
        for _ in range(n):
            bs, ft, kinds = MG.stream(rnd, fam)
            for k, v in kinds.items():
                r.count("typecode:" + k, v)
            cases.append({"magic": rnd.choice(magics), "bytes": bs, "ft": ft, "fam": fam})
            # truncations (not of streams with text floats: a cut decimal string has no entry in the float table)
            if rnd.random() < 0.1 and len(bs) > 2 and not ft:
                cases.append({"magic": cases[-1]["magic"], "bytes": bs[: rnd.randrange(1, len(bs))], "ft": ft, "fam": fam, "trunc": True})
    return cases


def correspondence(r):
    cases = gen_cases(r, 120 if r.tier == "quick" else 1500)
    for c in cases:
        r.count("family:" + c["fam"])
    C.correspond(r, "unmarshal", HEADER, "unmarshal", cases,
                 lambda c: f"obs_load (xdis_cfg {c['magic']}) {MG.ft_lit(c['ft'])} {C.blist(c['bytes'])}", modules=MODS, describe=describe, shards=8, chunk=120)


def validate_spec(r):
    rnd = random.Random(r.seed * 577 + 3)
    n = 80 if r.tier == "quick" else 1000
    total = 0
    for v, magic in ORACLE_MAGIC.items():
        fam = MG.fam_of_version([int(x) for x in v.split(".")])
        cases = [{"bytes": bs, "ft": ft} for bs, ft, _ in MG.matrix_streams(fam)]
        for _ in range(n):
            bs, ft, _ = MG.stream(rnd, fam)
            cases.append({"bytes": bs, "ft": ft})
            # (2.7's marshal reads integers past the end of the string as -1 bytes instead of failing: no truncations there)
            if v != "2.7" and rnd.random() < 0.15 and len(bs) > 2:
                cases.append({"bytes": bs[: rnd.randrange(1, len(bs))], "ft": ft})
        rc, out, err = C.run_py(ORACLE, host=C.ORACLES[v], stdin=json.dumps(cases), impl=False)
        if "@@JSON@@" not in out:
            raise RuntimeError(f"oracle {v}: {err[-1500:]}")
        res = json.loads(out.split("@@JSON@@")[1])
        lits = []
        keep = []
        for c, o in zip(cases, res):
            if "ok" in o:
                # marshal.loads ignores trailing bytes: compare the value only
                lits.append(f"(match load (cpy_cfg {magic}) {C.blist(c['bytes'])} with Ok (v, _) => 0 :: obs_pv {MG.ft_lit(c['ft'])} v | Err e => [1; err_code e] end, {C.zlist(o['ok'])})")
            else:
                lits.append(f"(match load (cpy_cfg {magic}) {C.blist(c['bytes'])} with Ok _ => [0] | Err _ => [1] end, [1])")
            keep.append((c, o))
        bad, errs = C.coq_cases(r.wd, "specm" + v.replace(".", ""), HEADER, "list Z * list Z", "fun c => zlist_eqb (fst c) (snd c)", lits, chunk=150)
        if C.spec_problem(r, errs, bad):
            print(f"MACHINERY-ERROR: marshal spec disagrees with CPython {v}'s marshal.loads:", errs[:1], [(keep[b][0]["bytes"][:60], keep[b][1]) for b in bad[:3]])
            raise SystemExit(2)
        total += len(lits)
    r.cov["spec_validation"] = {"streams_checked_against_real_marshal_loads": total, "interpreters": list(ORACLE_MAGIC), "disagreements": 0}


def run(r):
    r.cov["rule"] = ("theorem: all byte streams; correspondence: value trees over every type code with random encoding choices (i/I/l ints, text/binary floats and complex, "
                     "s/t/R and u/a/A/z/Z/t strings, FLAG_REF on any object, r back-references, ( ) [ < > { containers of 0..300 items, None keys/values) "
                     "for 5 marshal families x 20 magics, plus truncations; non-trivial = decoded value is a container; distinct by (magic, bytes)")
    broken = r.generate("magics", "dispatch")
    ok = False if broken else r.build(extra_targets=["Model/UnmarshalObs.vo"])
    if broken or not ok:
        r.violation({"broken": broken or "proof obligation", "theorem_or_tie": "Props/C10.v", "log": "" if broken else r.build_failure_excerpt()},
                    found_input=False, name="C10-obligation.json")
    try:
        correspondence(r)
    except SystemExit:
        raise
    except Exception as e:
        import traceback
        traceback.print_exc()
        r.violation({"correspondence": "could not be run", "error": repr(e)}, found_input=False, name="C10-correspondence.json")
    validate_spec(r)

"""C09 - opcode tables match the interpreter's own opcode module."""
import re

import common as C

HEADER = "From Xdis Require Import Base.Prelude Base.OpTable Gen.Opcodes Gen.RefOpcodes Proofs.OpcodeChecks."


def parse_failures(out):
    body = out.rsplit(":", 1)[0]
    return re.findall(r'\("([^"]*)"(?:%string)?,\s*"([^"]*)"(?:%string)?,\s*\(?(-?\d+)\)?\)', " ".join(body.split()))


def table_search(r):
    ok, log = C.coq_build(["Proofs/OpcodeChecks.vo"])
    if not ok:
        return False
    found = False
    for name in ("coherence_failures", "oracle_failures"):
        out, err = C.coq_eval_term(r.wd, name, HEADER, name)
        if out is None:
            continue
        fs = parse_failures(out)
        if fs:
            r.violation({"obligation": name, "failing_rows": [{"table": a, "check": b, "opcode": int(c)} for a, b, c in fs[:40]],
                         "how": f"Eval vm_compute in {name} over the regenerated Gen/Opcodes.v",
                         "replay": "PYTHONPATH=/repo python -c 'from xdis.op_imports import op_imports; m=op_imports[KEY]; print(m.opname[N], m.opmap, m.hasjrel, ...)'"},
                        name=f"C09-{name}.json")
            found = True
    out, err = C.coq_eval_term(r.wd, "keymap", HEADER, "keymap_failures")
    if out is not None and not re.search(r"=\s*\[\s*\]", out):
        r.violation({"obligation": "keymap_failures", "rows": " ".join(out.split())}, name="C09-keymap.json")
        found = True
    return found


def run(r):
    r.cov["rule"] = ("every (table, opcode number, check) triple of the 39 opcode tables regenerated from /repo is decided inside Coq by vm_compute; "
                     "agreement with the interpreter's opcode module is decided for the 9 tables whose CPython is installed (2.7, 3.6-3.13); "
                     "a case = one (table, opcode slot); non-trivial = the slot holds a defined opcode")
    r.cov["exhaustive"] = True
    broken = r.generate("opcodes")
    ok = False if broken else r.build()
    if broken or not ok:
        found = False if broken else table_search(r)
        if not found:
            r.violation({"broken": broken or "proof obligation", "theorem_or_tie": "Props/C09.v" if not broken else "translator tools/translate/opcodes.py failed closed",
                         "log": "" if broken else r.build_failure_excerpt()}, found_input=False, name="C09-obligation.json")
    # coverage measurement from the generated data
    try:
        from translate import opcodes as T
        d = T.dump_impl()
        for t in d["tables"]:
            defined = {v for _, v in t["opmap"]}
            for n, nm in enumerate(t["opname"]):
                r.case((t["name"], n), nontrivial=n in defined)
            r.count("table:" + t["name"], len(t["opmap"]))
        r.cov["samples"] = [{"table": t["name"], "version": t["version_tuple"], "HAVE_ARGUMENT": t["HAVE_ARGUMENT"], "EXTENDED_ARG": t["EXTENDED_ARG"],
                             "defined": len(t["opmap"]), "hasjrel": t["hasjrel"]} for t in d["tables"][15:18]]
        r.cov["tables_without_reference_interpreter"] = [t["name"] for t in d["tables"] if t["name"] not in
                                                         ("opcode_27", "opcode_36", "opcode_37", "opcode_38", "opcode_39", "opcode_310", "opcode_311", "opcode_312", "opcode_313")]
        r.cov["explanation"] = ("Coherence is proved for all 39 tables; agreement with CPython's opcode module is decided only for the 9 versions installed in the sandbox. "
                                "For the other 30 tables (1.0-2.6, 3.0-3.5, PyPy variants) no reference opcode module exists here, so that clause is not decided for them.")
    except Exception as e:
        r.note(f"coverage measurement failed: {e!r}")

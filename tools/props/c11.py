"""C11 - corrupt or hostile bytecode files fail cleanly."""
import glob
import os
import random
import struct

import common as C

HEADER = "From Xdis Require Import Base.Prelude Base.Result Model.Magic Model.Load Model.Unmarshal Model.UnmarshalObs Model.LoadModule Gen.Magics."
MODS = ["ops_marshal"]


def seeds():
    """the smallest corpus file of every version directory"""
    out = []
    for d in sorted(glob.glob(os.path.join(C.REPO, "test", "bytecode_*"))):
        fs = sorted(glob.glob(os.path.join(d, "*.pyc")), key=os.path.getsize)
        if fs:
            out.append(fs[0])
    return out


def hostile(rnd, magic_bytes, hdr):
    """adversarial length / reference fields behind a valid header"""
    big = struct.pack("<i", 0x7FFFFFFF)
    neg = struct.pack("<i", -5)
    yield "huge-tuple", hdr + b"(" + big + b"N" * 10
    yield "huge-string", hdr + b"s" + big + b"abc"
    yield "neg-string", hdr + b"s" + neg + b"abcdef"
    yield "huge-long", hdr + b"l" + big + b"\x01\x00"
    yield "bad-ref", hdr + b"r" + struct.pack("<i", 12345)
    yield "neg-ref", hdr + b"r" + neg
    yield "deep-tuples", hdr + b"(\x01\x00\x00\x00" * 3000 + b"N"
    yield "deep-lists", hdr + b"[\x01\x00\x00\x00" * 50000 + b"N"
    yield "dict-no-end", hdr + b"{" + b"NN" * 2000
    yield "unknown-code", hdr + b"\x07\x08\x09"
    yield "bad-utf8", hdr + b"u\x02\x00\x00\x00\xff\xfe"
    yield "long-100k-tuple", hdr + b"(" + struct.pack("<i", 100000) + b"N" * 100000
    yield "selfref-list", hdr + b"\xdb\x01\x00\x00\x00r\x00\x00\x00\x00"
    # a negative string length inside a container: a reader that steps BACK by that length re-reads the same item for ever
    yield "dict-negstr", hdr + b"{s" + neg + b"N0"
    yield "dict-negstr-key-value", hdr + b"{s" + neg + b"s" + neg + b"0"
    yield "list-negstr", hdr + b"[" + big + b"s" + neg
    yield "tuple-neg-unicode", hdr + b"(" + big + b"u" + neg
    yield "dict-neg-float", hdr + b"{f\xfbN0"
    # a 3.11+ code object with 200000 local-variable slots (honest counts, ends before its file name): splitting localsplusnames into the
    # three name tuples has to be linear
    n = 200000
    yield "localsplus-200k", (hdr + b"c" + struct.pack("<iiiii", 0, 0, 0, 1, 0) + b"s\x02\x00\x00\x00S\x00" + b"(\x00\x00\x00\x00" + b"(\x00\x00\x00\x00"
                              + b"(" + struct.pack("<i", n) + b"N" * n + b"s" + struct.pack("<i", n) + b"\x20" * n)


def run(r):
    r.cov["rule"] = ("theorem: all byte strings; exploration of the real process: every prefix and single-byte mutations (64 positions x 4 values + 4 positions x all 256 values) of the "
                     "smallest corpus file of each version directory, adversarial length/reference/nesting fields behind every released header form, random bytes; per input: "
                     "outcome class, wall time (< 10 s), audit events (exec/compile/import/open-for-write/os mutators); non-trivial = input is not a valid file; distinct by bytes")
    broken = r.generate("magics", "dispatch")
    ok = False if broken else r.build()
    if broken or not ok:
        r.violation({"broken": broken or "proof obligation", "theorem_or_tie": "Props/C11.v", "log": "" if broken else r.build_failure_excerpt()},
                    found_input=False, name="C11-obligation.json")
    rnd = random.Random(r.seed * 31337 + 11)
    cases = []
    files = seeds()
    if r.tier == "quick":
        files = files[::2] + files[1::6]
    for f in files:
        data = open(f, "rb").read()
        if len(data) > 4000:
            continue
        tag = os.path.basename(os.path.dirname(f))
        cases.append({"bytes": list(data), "kind": "valid", "src": tag})
        step = 1 if r.tier == "thorough" else max(1, len(data) // 60)
        for k in range(0, len(data), step):
            cases.append({"bytes": list(data[:k]), "kind": "prefix", "src": tag})
        poss = rnd.sample(range(len(data)), min(len(data), 64 if r.tier == "thorough" else 24))
        for p in poss:
            for val in rnd.sample(range(256), 4):
                m = bytearray(data); m[p] = val
                cases.append({"bytes": list(m), "kind": "mutation", "src": tag})
        for p in rnd.sample(range(len(data)), min(len(data), 4 if r.tier == "thorough" else 1)):
            for val in range(0, 256, 1 if r.tier == "thorough" else 5):
                m = bytearray(data); m[p] = val
                cases.append({"bytes": list(m), "kind": "mutation-allvalues", "src": tag})
        p = rnd.randrange(len(data))
        cases.append({"bytes": list(data[:p] + data[p + 1:]), "kind": "deletion", "src": tag})
        cases.append({"bytes": list(data[:p] + bytes([rnd.randrange(256)]) + data[p:]), "kind": "insertion", "src": tag})
    headers = {"2.7": b"\x03\xf3\r\n\0\0\0\0", "3.3": struct.pack("<H", 3230) + b"\r\n" + b"\0" * 8, "3.8": struct.pack("<H", 3413) + b"\r\n" + b"\0" * 12,
               "3.12": struct.pack("<H", 3531) + b"\r\n" + b"\0" * 12, "3.11": struct.pack("<H", 3495) + b"\r\n" + b"\0" * 12, "3.13": struct.pack("<H", 3571) + b"\r\n" + b"\0" * 12, "1.5": struct.pack("<H", 20121) + b"\r\n\0\0\0\0", "interim": struct.pack("<H", 3010) + b"\x01\x02" + b"\0" * 8,
               "dropbox": struct.pack("<H", 62135) + b"\r\n" + b"\0" * 4, "dropbox-hacked": struct.pack("<H", 62215) + b"zz" + b"\0" * 4}
    for hn, hdr in headers.items():
        for kind, body in hostile(rnd, hdr[:4], hdr):
            body = body + b"\0" * max(0, 50 - len(body))
            cases.append({"bytes": list(body), "kind": "hostile:" + kind, "src": hn})
    for _ in range(100 if r.tier == "quick" else 2000):
        cases.append({"bytes": [rnd.randrange(256) for _ in range(rnd.choice([0, 3, 49, 50, 51, 200]))], "kind": "random", "src": "-"})
    try:
        res = C.run_impl_op("load_outcome", cases, modules=MODS, shards=12, timeout=3000)
        slow = []
        for c, o in zip(cases, res):
            r.count("kind:" + c["kind"].split(":")[0])
            r.count("outcome:" + ("returned", "ImportError", "OTHER", "TIME-LIMIT")[o["cls"]] if isinstance(o, dict) else "harness-error")
            r.case(("c11", C.digest(c["bytes"])), nontrivial=c["kind"] != "valid",
                   sample={"kind": c["kind"], "src": c["src"], "len": len(c["bytes"]), "outcome": o} if len(r.cov["samples"]) < 6 and c["kind"].startswith("hostile") else None)
            if not isinstance(o, dict):
                r.violation({"component": "load_module", "input_bytes": c["bytes"][:400], "kind": c["kind"], "src": c["src"], "harness": str(o)[:200]})
                continue
            if o["cls"] == 2:
                r.violation({"component": "load_module", "input_bytes": c["bytes"][:2000], "input_len": len(c["bytes"]), "kind": c["kind"], "src": c["src"], "raised": o["name"],
                             "why": "an exception other than ImportError escaped (C11_only_importerror holds of the model; the implementation differs)",
                             "replay_py": "write the bytes to x.pyc; PYTHONPATH=/repo python -c 'from xdis.load import load_module; load_module(\"x.pyc\")'"})
            if o["bad_events"]:
                r.violation({"component": "load_module", "input_bytes": c["bytes"][:2000], "kind": c["kind"], "src": c["src"], "audit_events": o["bad_events"],
                             "why": "loading executed, compiled, imported or wrote something"})
            if o["ms"] > 10000:
                slow.append((c["kind"], c["src"], o["ms"]))
                host_magic = c["bytes"][:2] == [203, 13]     # 3531: the magic of the interpreter running the quick tier (/venv, 3.12)
                # D32's region: a host-magic file whose first object is '(' with length 0x7fffffff (whatever follows it)
                if host_magic and c["bytes"][16:21] == [40, 255, 255, 255, 127] and r.is_known("D32"):
                    r.known_finding("D32", "file with the host's own magic and a 2^31-1 tuple length: the builtin marshal fast path spends tens of seconds allocating before failing")
                    continue
                r.violation({"component": "load_module", "input_bytes": c["bytes"][:400], "input_len": len(c["bytes"]), "kind": c["kind"], "src": c["src"], "ms": o["ms"], "why": "did not terminate promptly (> 10 s)"})
            if len(r.violations) > 8:
                break
        r.cov["max_ms"] = max((o["ms"] for o in res if isinstance(o, dict)), default=0)
        # the model on the same inputs: where it predicts ImportError for a header-level reason the implementation must not return
        small = [c for c in cases if len(c["bytes"]) <= 400][:: 3 if r.tier == "quick" else 1]
        idx = {id(c): o for c, o in zip(cases, res)}
        lits = []
        for c in small:
            o = idx[id(c)]
            lits.append(f"(match header_outcome {C.blist(c['bytes'])} with Returned => [0] | Raised e => [1; err_code e] end, [{o['cls'] if isinstance(o, dict) else 9}])")
        check = "fun c => match fst c, snd c with [0], [0] => true | [1; 11], [1] => true | [0], [1] => true | _, _ => false end"
        bad, errs = C.coq_cases(r.wd, "outc", HEADER, "list Z * list Z", check, lits, chunk=150)
        if errs:
            raise RuntimeError(errs[0])
        for b in bad[:3]:
            r.violation({"component": "load_module outcome vs model", "input_bytes": small[b]["bytes"], "kind": small[b]["kind"], "impl": idx[id(small[b])],
                         "why": "the header stage of the model rejects this file (ImportError) but the implementation returned, or raised something else"})
        r.cov["model_outcome_comparisons"] = len(lits)
    except SystemExit:
        raise
    except Exception as e:
        import traceback
        traceback.print_exc()
        r.violation({"correspondence": "could not be run", "error": repr(e)}, found_input=False, name="C11-correspondence.json")
    r.cov["explanation"] = ("PARTIAL: the theorem is about the model (exception-class plumbing for all byte strings). That the real process does not exec/import/compile/write, "
                            "stays within memory and time, is decided by monitored execution on the explored inputs only. Termination of the reader MODEL for all inputs "
                            "is a theorem (C11_reader_never_out_of_fuel: the fuel load() gives always suffices); wall-clock time of the real reader is observed.")

"""C14 - xdis.marsh and the built-in marshal are interchangeable on plain values."""
import os
import random

import common as C
from props import marshalgen as MG

HEADER = "From Xdis Require Import Base.Prelude Base.Result Base.LE Model.Unmarshal Model.UnmarshalObs Model.Marsh Gen.Magics Gen.Dispatch."
MODS = ["ops_marshal"]


def gen_value(rnd, depth=0):
    kinds = ["none", "true", "false", "ell", "stop", "int", "int", "float", "complex", "bin", "text", "text"]
    if depth < 3:
        kinds += ["tuple", "tuple", "list", "dict", "set", "frozenset"]
    k = rnd.choice(kinds)
    if k in ("none", "true", "false", "ell", "stop"):
        return [k]
    if k == "int":
        return ["int", str(rnd.choice([0, 1, -1, 255, 32767, 32768, -32768, 2 ** 15 * 5, 2 ** 30 - 1, 2 ** 30, 2 ** 31 - 1, 2 ** 31, -2 ** 31, -2 ** 31 - 1, 2 ** 63, -2 ** 64 + 3,
                                       2 ** 200 + 12345, -(2 ** 450), rnd.randrange(-10 ** 12, 10 ** 12)]))]
    if k == "float":
        import struct
        x = rnd.choice([0.0, -0.0, 1.5, 0.1, -2.5e-300, 1e300, float("inf"), float("-inf"), 123456.789e5, 5e-324])
        return ["float", struct.unpack("<Q", struct.pack("<d", x))[0]]
    if k == "complex":
        import struct
        a, b = rnd.choice([(1.0, 2.0), (0.0, -0.0), (1e10, -3.5)])
        return ["complex", struct.unpack("<Q", struct.pack("<d", a))[0], struct.unpack("<Q", struct.pack("<d", b))[0]]
    if k == "bin":
        return ["bin", list(rnd.choice([b"", b"abc", b"\xff\x00\x80", bytes(range(256)), b"x" * 300]))]
    if k == "text":
        s = rnd.choice(["", "abc", "h\xe9", "\xff\x80", "中文", "\U0001F600", "\ud800 lone", "a" * 300, "\x00\x7f"])
        return ["text", list(s.encode("utf-8", "surrogatepass"))]
    if k in ("tuple", "list"):
        n = rnd.choice([0, 1, 2, 3, 300 if depth == 0 else 2])
        return [k, [gen_value(rnd, depth + 1) if n < 10 else ["int", str(i)] for i in range(n)]]
    if k in ("set", "frozenset"):
        n = rnd.choice([0, 1, 3])
        return [k, [["int", str(1000 + 17 * i)] for i in range(n)]]
    n = rnd.choice([0, 1, 3])
    return ["dict", [[["int", str(70 + i)] if i else rnd.choice([["none"], ["text", [107]]]), gen_value(rnd, depth + 1)] for i in range(n)]]


def lit(s):
    k = s[0]
    if k == "none": return "PNone"
    if k == "true": return "PTrue"
    if k == "false": return "PFalse"
    if k == "ell": return "PEllipsis"
    if k == "stop": return "PStopIter"
    if k == "int": return f"(PInt {C.zlit(int(s[1]))})"
    if k == "float": return f"(PFloat {s[1]})"
    if k == "complex": return f"(PComplex (PFloat {s[1]}) (PFloat {s[2]}))"
    if k == "bin": return f"(PBin {C.blist(s[1])})"
    if k == "text": return f"(PText {C.blist(s[1])})"
    if k in ("tuple", "list", "set", "frozenset"):
        c = {"tuple": "PTuple", "list": "PList", "set": "PSet", "frozenset": "PFrozenSet"}[k]
        return f"({c} [" + "; ".join(lit(x) for x in s[1]) + "])"
    return "(PDict [" + "; ".join(f"({lit(a)}, {lit(b)})" for a, b in s[1]) + "])"


def run(r):
    r.cov["rule"] = ("theorems: loads(dumps v) = v for every plain value tree (two readers) and the 15-bit digit codec; correspondence: random plain value trees (ints at 2^15/2^31/2^63/2^200 boundaries, floats incl. inf/-0.0/subnormal, "
                     "text from ASCII/Latin-1/BMP/astral/lone surrogates, bytes, tuples/lists up to 300 items, sets, frozensets, dicts with None keys) through "
                     "xdis.marsh.dumps (bytes vs model, and the host's marshal.loads of them) and xdis.marsh.loads of the host's marshal.dumps(v, 0|1); non-trivial = container value")
    r.cov["explanation"] = ("Theorems: loads(dumps v) = v for every plain value tree through xdis.marsh's reader and through CPython's reader of every 3.x magic (Spec side). "
                            "By correspondence only: that Model.Marsh.dumps is what xdis.marsh.dumps writes, and xdis.marsh.loads of the HOST's marshal.dumps output.")
    broken = r.generate("magics", "dispatch")
    ok = False if broken else r.build(extra_targets=["Model/Marsh.vo", "Model/UnmarshalObs.vo"])
    if broken or not ok:
        r.violation({"broken": broken or "proof obligation", "theorem_or_tie": "Props/C14.v", "log": "" if broken else r.build_failure_excerpt()},
                    found_input=False, name="C14-obligation.json")
    rnd = random.Random(r.seed * 1409 + 14)
    n = 150 if r.tier == "quick" else 1500
    # always there, whatever the seed: every boundary of the integer encodings (15-bit digits, 31/32/63/64-bit words), the floats and
    # complex numbers with signed zeros and infinities in either part, each text class - alone and inside a tuple
    import struct
    fb = lambda x: struct.unpack("<Q", struct.pack("<d", x))[0]
    fixed = [["int", str(k)] for e in (15, 30, 31, 32, 45, 62, 63, 64, 65, 127, 128) for k in (2 ** e - 1, 2 ** e, 2 ** e + 1, -(2 ** e) - 1, -(2 ** e), -(2 ** e) + 1)]
    fixed += [["float", fb(x)] for x in (0.0, -0.0, float("inf"), float("-inf"), 5e-324, 1.7976931348623157e308, 0.1)]
    fixed += [["complex", fb(a), fb(b)] for a, b in ((1.0, float("inf")), (float("inf"), 1.0), (-0.0, 1.0), (1.0, -0.0), (-0.0, -0.0), (float("-inf"), float("inf")), (0.5, -2.0))]
    fixed += [["stop"], ["ell"], ["text", list("\ud800".encode("utf-8", "surrogatepass"))], ["text", list("h\xe9 \u4e2d \U0001F600".encode("utf-8"))], ["bin", list(range(256))]]
    fixed += [["tuple", fixed[i: i + 6]] for i in range(0, len(fixed), 6)]
    fixed += [["list", [["stop"], ["ell"], ["none"]]], ["dict", [[["stop"], ["ell"]], [["none"], ["stop"]]]], ["frozenset", [["stop"]]], ["set", [["ell"]]]]
    vals = fixed + [gen_value(rnd) for _ in range(n)]
    hosts = [C.HOST_DEFAULT] if r.tier == "quick" else [C.HOST_DEFAULT] + [C.HOSTS[h] for h in ("3.8", "3.9", "3.10", "3.11", "3.13")]
    try:
        for host in hosts:
            res = C.run_impl_op("marsh_dumps", [{"value": v} for v in vals], modules=MODS, host=host, shards=4)
            lits, keep = [], []
            for v, o in zip(vals, res):
                r.case(("dumps", C.digest(v), host), nontrivial=v[0] in ("tuple", "list", "dict", "set", "frozenset"),
                       sample={"op": "marsh.dumps", "value": v, "bytes": o.get("bytes", o.get("err"))[:40] if isinstance(o.get("bytes", []), list) else o.get("err")} if len(r.cov["samples"]) < 3 else None)
                r.count("dumps:" + ("ok" if "bytes" in o else "err:" + o.get("err", "?")))
                if "bytes" not in o:
                    r.violation({"component": "xdis.marsh.dumps", "value": v, "error": o.get("err"), "host": host,
                                 "why": "dumps raised on a plain value the property says it must encode"})
                    continue
                if o.get("host_back") != o.get("orig"):
                    r.violation({"component": "xdis.marsh.dumps -> host marshal.loads", "value": v, "dumps_bytes": o["bytes"][:200], "host_loads": o.get("host_back", o.get("host_err")),
                                 "expected": o["orig"][:200], "host": host})
                    continue
                reprs = "[" + "; ".join(f"({b}, {C.blist(s)})" for b, s in o["reprs"]) + "]"
                lits.append(f"(dumps (fun b => match zassoc b {reprs} with Some s => s | None => [] end) false false {lit(o['seen'])}, {C.blist(o['bytes'])})")
                keep.append((v, o))
            if host == C.HOST_DEFAULT:
                bad, errs = C.coq_cases(r.wd, "mdumps", HEADER, "list Z * list Z", "fun c => zlist_eqb (fst c) (snd c)", lits, chunk=100)
                if errs:
                    raise RuntimeError(errs[0])
                for b in bad[:3]:
                    r.violation({"component": "xdis.marsh.dumps (bytes) vs Model.Marsh.dumps", "value": keep[b][0], "impl_bytes": keep[b][1]["bytes"][:300]})
            # loads of the host's version-0/1 streams
            hd = C.run_impl_op("host_dumps", [{"value": v} for v in vals], modules=MODS, host=host, shards=4)
            # CPython's writer for format versions 0 / 1 as modelled (dumps g17 false true) against the host's real marshal.dumps, byte for byte
            wl, wo = [], []
            def has_set(x):
                return isinstance(x, list) and (x[:1] in (["set"], ["frozenset"]) or any(has_set(y) for y in x))
            for v, o in zip(vals, hd):
                if has_set(v):
                    continue        # marshal writes set members in an order of its own (sorted by their bytes from 3.11): read back by value below
                tbl = "[" + "; ".join(f"({b}, {C.blist(t)})" for b, t in o["g17"]) + "]"
                for key in ("v0", "v1"):
                    wl.append(f"(dumps (fun b => match zassoc b {tbl} with Some s => s | None => [] end) false true {lit(o['seen'])}, {C.blist(o[key])})")
                    wo.append((v, key))
            wbad, werrs = C.coq_cases(r.wd, "hostw" + host.replace("/", "_")[-12:], HEADER, "list Z * list Z", "fun c => zlist_eqb (fst c) (snd c)", wl, chunk=100)
            if C.spec_problem(r, werrs, wbad):
                print("MACHINERY-ERROR: the model of CPython's marshal writer (format 0/1) disagrees with the host's marshal.dumps:", werrs[:1], [wo[b] for b in wbad[:3]])
                raise SystemExit(2)
            r.cov.setdefault("spec_validation", {})["host_writer_streams_" + os.path.basename(os.path.dirname(os.path.dirname(host)))] = len(wl)
            streams = []
            for v, o in zip(vals, hd):
                for key in ("v0", "v1"):
                    streams.append({"bytes": o[key], "orig": o["orig"], "value": v, "fmt": key})
            lr = C.run_impl_op("marsh_loads", streams, modules=MODS, host=host, shards=4)
            for s, o in zip(streams, lr):
                r.case(("loads", C.digest(s["bytes"]), host), nontrivial=s["value"][0] in ("tuple", "list", "dict", "set", "frozenset"))
                r.count("loads:" + ("ok" if isinstance(o, list) and o[:1] == [0] else "err"))
                if o != [0] + s["orig"]:
                    r.violation({"component": "xdis.marsh.loads of host marshal.dumps(v, %s)" % s["fmt"][1], "value": s["value"], "stream": s["bytes"][:200],
                                 "xdis_loads": o[:200] if isinstance(o, list) else o, "expected": ([0] + s["orig"])[:200], "host": host})
                    if len(r.violations) > 6:
                        break
            if host == C.HOST_DEFAULT:
                # model of loads (shared reader with marsh_cfg) against the implementation
                def ftl(s):
                    return MG.ft_lit(MG_float_table(s))
                C.correspond(r, "mloads", HEADER, "marsh_loads", streams,
                             lambda c: f"(match load marsh_cfg {C.blist(c['bytes'])} with Ok (v, _) => 0 :: obs_pv {ft_of(c['bytes'])} v | Err e => [1; err_code e] end)",
                             modules=MODS, chunk=100, describe=lambda case, impl, model: {"component": "xdis.marsh.loads vs model (shared reader, marsh_cfg)",
                                                                                            "stream": case["bytes"][:200], "impl": impl[:100], "model": model[:300]})
        # nesting: the host's marshal writes and reads containers nested 2000 deep; xdis.marsh recurses in Python (two to three frames a level)
        for depth, kind in ((150, "tuple"), (150, "list"), (700, "tuple"), (700, "list")):
            o = C.run_impl_op("marsh_nested", [{"depth": depth, "kind": kind}], modules=MODS)[0]
            r.case(("nested", depth, kind), nontrivial=True)
            r.count(f"nested-{depth}:" + str(o.get("dumps")) + "/" + str(o.get("loads")))
            bad = [k for k in ("dumps", "loads") if o.get(k) != "ok"]
            if not bad:
                continue
            if depth >= 700 and all(o.get(k) == "RecursionError" for k in bad) and r.is_known("D44"):
                r.known_finding("D44", "containers nested about 500 deep or more: xdis.marsh.dumps / loads raise RecursionError under the default recursion limit; the host's marshal handles 2000 levels")
                continue
            r.violation({"component": "xdis.marsh on nested containers", "depth": depth, "kind": kind, "outcome": o,
                         "why": "a value the host's marshal writes and reads is refused or changed by xdis.marsh"})
        # ill-formed streams through xdis.marsh.loads against the reader model (marsh_cfg): truncations, unknown codes, and negative sizes,
        # which its buffer reader refuses (a negative size would step backwards and re-read the same item for ever inside a container)
        import struct
        neg = list(struct.pack("<i", -5))
        hostile = [{"bytes": b} for b in ([ord("s")] + neg + [97, 98], [ord("{"), ord("s")] + neg + [ord("N"), ord("0")], [ord("[")] + list(struct.pack("<i", 3)) + [ord("s")] + neg,
                                          [ord("(")] + list(struct.pack("<i", 2)) + [ord("u")] + neg + [ord("N")], [ord("u")] + list(struct.pack("<i", -1)), [ord("t")] + neg,
                                          [ord("s")] + list(struct.pack("<i", 10)) + [1, 2], [ord("(")] + list(struct.pack("<i", 2)) + [ord("N")], [7], [], [ord("{"), ord("N")],
                                          [ord("l")] + list(struct.pack("<i", 2)) + [1, 0], [ord("i"), 1, 2])]
        C.correspond(r, "mloads_illformed", HEADER, "marsh_loads", hostile,
                     lambda c: f"(match load marsh_cfg {C.blist(c['bytes'])} with Ok (v, _) => 0 :: obs_pv [] v | Err e => [1; err_code e] end)",
                     modules=MODS, chunk=100, describe=lambda case, impl, model: {"component": "xdis.marsh.loads on an ill-formed stream vs model (shared reader, marsh_cfg)",
                                                                                    "stream": case["bytes"][:200], "impl": impl[:100], "model": model[:300]})
    except SystemExit:
        raise
    except Exception as e:
        import traceback
        traceback.print_exc()
        r.violation({"correspondence": "could not be run", "error": repr(e)}, found_input=False, name="C14-correspondence.json")
    r.cov["hosts"] = hosts


def ft_of(payload):
    from props import c01
    return MG.ft_lit(c01.float_table(payload))

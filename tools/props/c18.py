"""C18 - each call's result is independent of what the process did before."""
import json
import os
import random
import subprocess
from concurrent.futures import ThreadPoolExecutor

import common as C
from props import instrgen as IG

SCRIPT = os.path.join(C.VERIF, "tools/harness/history_run.py")
FORMATS = ["classic", "bytes", "extended", "extended-bytes", "xasm", "header"]
VERSIONS = [[1, 5], [2, 4], [2, 7], [3, 0], [3, 3], [3, 5], [3, 6], [3, 7], [3, 8], [3, 9], [3, 10], [3, 11], [3, 12], [3, 13]]
# cells the model classes as changing after import (Model/History.v weak_cell), by the names the run-time snapshot gives them
WEAK_RUNTIME = ("xdis.unmarshal:load_code.__defaults__[1]", "xdis.unmarshal:_VersionIndependentUnmarshaller.__init__.__defaults__[0]",
                "xdis.dropbox.decrypt25:misses", "xdis.instruction:Instruction.disassemble.__defaults__")


def run_one(req):
    p = subprocess.run([C.HOST_DEFAULT, "-B", SCRIPT], input=json.dumps(req), stdout=subprocess.PIPE, stderr=subprocess.PIPE, text=True, env=C.impl_env(), timeout=1200)
    for line in reversed(p.stdout.splitlines()):
        if line.startswith("@@JSON@@"):
            return json.loads(line[8:])
    raise RuntimeError("history_run produced nothing: " + p.stderr[-1500:])


CODE2_STREAM = (b"c\x00\x00\x00\x00\x00\x00\x00\x00\x01\x00\x00\x00@\x00\x00\x00s\x04\x00\x00\x00d\x00\x00S(\x01\x00\x00\x00N(\x00\x00\x00\x00(\x00\x00\x00\x00(\x00\x00\x00\x00(\x00\x00\x00\x00"
                b"s\x01\x00\x00\x00fs\x01\x00\x00\x00m\x01\x00\x00\x00s\x00\x00\x00\x00")
PYPY_VERSIONS = ([2, 7], [3, 5], [3, 6], [3, 7], [3, 8], [3, 9], [3, 10])
FLAGS = [0x43, 0x1000000, 0x100000 | 0x40, 0x200000 | 0x3, 0x400 | 0x800 | 0x43, 0x10000000 | 0x20, 0x2000 | 0x100, 0x400000]


def rand_op(rnd, files, mbytes):
    k = rnd.choice(["load", "load", "disasm", "disasm", "disasm", "opcode", "stdapi", "mdumps", "mloads", "stdfns", "stdfns", "colines", "stackeffects", "sysinfo2magic", "prettyflags"])
    if k in ("stdfns", "colines"):
        return {"k": k, "file": rnd.choice(files)}
    if k == "stackeffects":
        v = rnd.choice(VERSIONS)
        return {"k": k, "version": v, "pypy": rnd.random() < 0.35 and v in PYPY_VERSIONS}
    if k == "sysinfo2magic":
        maj, mnr = rnd.choice([(2, 7), (3, 5), (3, 5), (3, 6), (3, 7), (3, 8), (3, 10), (3, 12)])
        return {"k": k, "info": [maj, mnr, rnd.randrange(0, 6), "final", 0]}
    if k == "prettyflags":
        return {"k": k, "flags": rnd.choice(FLAGS), "pypy": rnd.random() < 0.4}
    if k == "load":
        return {"k": "load", "file": rnd.choice(files)}
    if k == "disasm":
        return {"k": "disasm", "file": rnd.choice(files), "fmt": rnd.choice(FORMATS)}
    if k == "opcode":
        v = rnd.choice(VERSIONS)
        return {"k": "opcode", "version": v, "pypy": rnd.random() < 0.2 and v in ([2, 7], [3, 5], [3, 6], [3, 7], [3, 8], [3, 9], [3, 10])}
    if k == "stdapi":
        v = rnd.choice(VERSIONS)
        return {"k": "stdapi", "version": v, "pypy": rnd.random() < 0.35 and v in ([2, 7], [3, 5], [3, 6], [3, 7], [3, 8], [3, 9], [3, 10])}
    if k == "mdumps":
        return {"k": "mdumps", "value": rnd.randrange(18)}
    if rnd.random() < 0.3:
        # a marshalled Python 2 code object read with xdis.marsh.loads (the reader the Dropbox loader borrows)
        return {"k": "mloads", "bytes": list(CODE2_STREAM), "version": "2.5"}
    return {"k": "mloads", "bytes": rnd.choice(mbytes)}


def sibling(rnd, probe, files):
    """an operation related to the probe: same version in the other variant, the same file through another entry point, the same source
    compiled for another version, the same release series, the same flags for the other variant - what a memo keyed too coarsely confuses"""
    k = probe["k"]
    o = dict(probe)
    if k in ("opcode", "stdapi", "stackeffects"):
        if probe["version"] in PYPY_VERSIONS:
            o["pypy"] = not probe.get("pypy")
        o["k"] = rnd.choice(["opcode", "stdapi", "stackeffects"])
        return o
    if k in ("load", "disasm", "stdfns", "colines"):
        f = probe["file"]
        if rnd.random() < 0.5:
            base = os.path.basename(f).split(".")[0]
            same_src = [g for g in files if g != f and os.path.basename(g).split(".")[0] == base]
            if same_src:
                f = rnd.choice(same_src)
        kk = rnd.choice(["load", "disasm", "stdfns", "colines"])
        o = {"k": kk, "file": f}
        if kk == "disasm":
            o["fmt"] = rnd.choice(FORMATS)
        return o
    if k == "sysinfo2magic":
        o["info"] = list(probe["info"]); o["info"][2] = rnd.randrange(0, 6)
        return o
    if k == "prettyflags":
        o["pypy"] = not probe.get("pypy")
        return o
    if k in ("mloads", "mdumps"):
        db = [f for f in files if "dropbox" in f]
        if db and rnd.random() < 0.5:
            return {"k": "load", "file": rnd.choice(db)}
    return o


def run(r):
    r.cov["rule"] = ("theorem: all finite operation sequences (frame argument over the regenerated inventory of shared mutable state); execution: random sequences of 1-40 public "
                     "operations (load_module, disassemble_file in six formats, get_opcode, make_std_api, the std-style functions and co_lines() on every code object of a file, stack effects of a whole table, "
                     "sysinfo2magic, pretty_flags, marsh dumps/loads over files of all versions; 40% of a history are operations related to the probe: other variant of its version, same file "
                     "through another entry point, same source compiled for another version) in one process, then a probe, "
                     "compared with the same probe as the first call of a fresh process and with its own repetition; every module-level container and mutable default of xdis.* is "
                     "digested before and after; non-trivial = history of at least 3 operations; distinct by (history, probe)")
    broken = r.generate("mutstate")
    ok = False if broken else r.build(extra_targets=["Model/History.vo"])
    found = False
    rnd = random.Random(r.seed * 1801 + 18)
    quick = r.tier == "quick"
    try:
        # every small corpus file, and the Dropbox-encrypted one whatever its size (its loader swaps a decoder into xdis.marsh)
        files = [f for f in IG.corpus_files() if os.path.getsize(f) < 6000 or "dropbox" in f]
        # and Dropbox files that FAIL part-way (cut in the middle / one byte of the encrypted body flipped): what the loader borrowed has to be put back then too
        for i, f in enumerate([f for f in files if "dropbox" in f][:1]):
            data = open(f, "rb").read()
            os.makedirs(os.path.join(r.wd, "dropbox-bad"), exist_ok=True)
            for tag, bad in (("cut", data[: len(data) // 2]), ("flip", data[:200] + bytes([data[200] ^ 0x5A]) + data[201:])):
                p = os.path.join(r.wd, "dropbox-bad", f"{tag}-{i}.pyc")
                with open(p, "wb") as fh:
                    fh.write(bad)
                files.append(p)
        mbytes = [list(b) for b in (b"i\x05\x00\x00\x00", b"(\x02\x00\x00\x00i\x01\x00\x00\x00N", b"s\x03\x00\x00\x00abc", b"[\x01\x00\x00\x00T", b"{i\x01\x00\x00\x00N0", b"g\x00\x00\x00\x00\x00\x00\xf8?",
                                       # Python 2 style streams: interned strings ('t') and references to them ('R')
                                       b"(\x03\x00\x00\x00t\x01\x00\x00\x00xt\x01\x00\x00\x00yR\x00\x00\x00\x00", b"(\x02\x00\x00\x00t\x05\x00\x00\x00alphaR\x00\x00\x00\x00",
                                       b"(\x04\x00\x00\x00t\x01\x00\x00\x00at\x01\x00\x00\x00bR\x01\x00\x00\x00R\x00\x00\x00\x00", b"[\x02\x00\x00\x00t\x04\x00\x00\x00betaR\x00\x00\x00\x00")]
        seqs = []
        for i in range(160 if quick else 1600):
            n = rnd.choice([1, 2, 3, 5, 8, 13, 25, 40] if not quick else [1, 3, 5, 8, 15, 25])
            probe = rand_op(rnd, files, mbytes)
            ops = [sibling(rnd, probe, files) if rnd.random() < 0.4 else rand_op(rnd, files, mbytes) for _ in range(n)]
            if i % 5 == 0 and ops:
                probe = dict(rnd.choice(ops))      # repeat something the history already did
            seqs.append({"ops": ops, "probe": probe})
        probes = {}
        for s in seqs:
            probes[json.dumps(s["probe"], sort_keys=True)] = s["probe"]
        with ThreadPoolExecutor(max_workers=C.NCPU) as ex:
            fresh = dict(zip(probes, ex.map(lambda p: run_one({"ops": [], "probe": p}), probes.values())))
            outs = list(ex.map(run_one, seqs))
        unexpected_cells = {}
        for s, o in zip(seqs, outs):
            key = json.dumps(s["probe"], sort_keys=True)
            r.case(("hist", C.digest(s)), nontrivial=len(s["ops"]) >= 3, sample={"history_len": len(s["ops"]), "probe": s["probe"]} if len(r.cov["samples"]) < 6 else None)
            r.count("probe:" + s["probe"]["k"])
            r.count("history_len:" + str(len(s["ops"])))
            f = fresh[key]
            if f["probe"] != f["probe_again"] or o["probe"] != o["probe_again"]:
                found = True
                if r.cov["distribution"].get("repeat-differs", 0) < 2:
                    r.violation({"component": "repeating a call", "probe": s["probe"], "history": s["ops"], "fresh": f, "after_history": o, "why": "the same call made twice in a row gives different results"})
                r.count("repeat-differs")
            elif o["probe"] != f["probe"]:
                found = True
                # shrink: drop operations while the difference stays
                ops = list(s["ops"])
                i = 0
                while i < len(ops) and len(ops) > 1:
                    trial = ops[:i] + ops[i + 1:]
                    t = run_one({"ops": trial, "probe": s["probe"]})
                    if t["probe"] != f["probe"]:
                        ops = trial
                    else:
                        i += 1
                if r.cov["distribution"].get("history-dependent", 0) < 3:
                    r.violation({"component": "history independence", "probe": s["probe"], "minimal_history": ops, "result_digest_fresh_process": f["probe"], "result_digest_after_history": o["probe"],
                                 "changed_cells": o["changed_cells"], "replay": "echo '<this json as {ops, probe}>' | PYTHONPATH=/repo /venv/bin/python /verif/tools/harness/history_run.py",
                                 "why": "the probe's result after this history differs from its result as the first call of a fresh process"})
                r.count("history-dependent")
            for c in o["changed_cells"]:
                if not c.startswith(WEAK_RUNTIME):
                    unexpected_cells.setdefault(c, s)
                r.count("changed:" + c)
        r.cov["cells_digested"] = outs[0]["n_cells"] if outs else 0
        if unexpected_cells and not found:
            for c, s in list(unexpected_cells.items())[:2]:
                r.violation({"component": "shared state written after import", "cell": c, "history": s["ops"], "probe": s["probe"],
                             "why": "a module-level container or mutable default outside the model's weak cells changed during public operations (Model/History.v weak_cell); no probe was seen to depend on it"},
                            found_input=False)
    except SystemExit:
        raise
    except Exception as e:
        import traceback
        traceback.print_exc()
        r.violation({"correspondence": "could not be run", "error": repr(e)}, found_input=False, name="C18-correspondence.json")
    if broken or not ok:
        if not found:
            out, _ = C.coq_eval_term(r.wd, "c18", "From Coq Require Import List String. From Xdis Require Import Base.Prelude Gen.MutState Model.History.",
                                     "(filter (fun s => negb (is_some (classify s))) mutation_sites, filter (fun x : string * string * string => smem (fst (fst x)) write_only_names) content_reads)") if not broken else (None, "")
            r.violation({"broken": broken or "proof obligation", "theorem_or_tie": "Props/C18.v C18_inventory over Gen/MutState.v", "unclassified_sites_and_reads_of_write_only_cells": " ".join((out or "").split())[:3000],
                         "log": "" if broken else r.build_failure_excerpt()}, found_input=False, name="C18-obligation.json")
    r.cov["explanation"] = ("PARTIAL: the theorem is a frame argument over a model whose weak cells and statement classes are checked against an inventory regenerated from the AST; that each real "
                            "function reads and writes only what its class says is observed by execution (digest of every xdis.* module-level container and mutable default before/after, probe "
                            "results against a fresh process). State inside C extension modules or the interpreter (linecache, import system, warnings registry) is outside the inventory.")

"""C02 - the instruction stream decodes exactly as CPython's dis does for that version."""
import json
import os
import random

import common as C
from props import instrgen as IG

HEADER = ("From Xdis Require Import Base.Prelude Base.Result Base.OpTable Gen.Opcodes Gen.RefOpcodes Model.Instr Model.InstrObs Spec.Dis.")
MODS = ["ops_instr"]


def describe(component):
    def d(case, impl, model):
        return {"component": component, "input": case, "impl_observation": impl, "model_observation": model,
                "observation_format": "[0; n; per instruction: offset; opcode; arg-opt; inst_size; has_extended_arg; is_jump_target; jump-argval-opt] or [1; error code]",
                "why": "the theorems prove model = CPython's _unpack_opargs / findlabels; the implementation differs from the model on this input"}
    return d


def gen_cases(r, scale):
    rnd = random.Random(r.seed * 4099 + 2)
    tables = IG.load_tables()
    caches = IG.ref_caches()
    cases = []
    for name, t in sorted(tables.items()):
        v = ".".join(str(x) for x in t["version_tuple"][:2])
        cz = caches.get(v) if tuple(t["version_tuple"]) >= (3, 11) else None
        for k in range(6 * scale):
            code = IG.synth(rnd, t, rnd.choice([1, 2, 5, 12, 30]), cz)
            kind = "synthetic"
            if rnd.random() < 0.2 and code:
                code = code[: rnd.randrange(len(code))]
                kind = "truncated"
            cases.append({"table": name, "code": code, "kind": kind})
        # word code before 3.11: operands of 2^31 and more (three EXTENDED_ARG prefixes) are plain unsigned numbers there
        vt = tuple(t["version_tuple"][:2])
        om = dict(t["opmap"]) if not isinstance(t["opmap"], dict) else t["opmap"]
        if (3, 6) <= vt <= (3, 10) and "EXTENDED_ARG" in om and "LOAD_CONST" in om:
            ea, lc = om["EXTENDED_ARG"], om["LOAD_CONST"]
            for hi in (0x80, 0xFF):
                cases.append({"table": name, "code": [ea, hi, ea, 0, ea, 1, lc, 2, lc, 0], "kind": "operand>=2^31"})
        # every defined opcode of the table at least once, whatever the seed
        for code in IG.all_opcodes(rnd, t, cz):
            cases.append({"table": name, "code": code, "kind": "all-opcodes"})
    # real code objects of the historical corpus
    files = IG.corpus_files(limit_per_dir=2 if scale == 1 else None)
    real = C.run_impl_op("corpus_codes", [{"files": files, "max_per_file": 4 if scale == 1 else 12, "max_len": 600}], modules=MODS)[0]
    for x in real:
        if "code" in x and x["full"]:
            cases.append({"table": x["table"], "code": x["code"], "kind": "corpus"})
    return cases


def run_correspondence(r, tag="instrs"):
    scale = 1 if r.tier == "quick" else 6
    cases = gen_cases(r, scale)
    for c in cases:
        r.count("kind:" + c["kind"])
        r.count("table:" + c["table"])
    C.correspond(r, tag, HEADER, "instrs", cases, lambda c: f"obs_instrs {c['table']} {C.blist(c['code'])}", modules=MODS,
                 describe=describe("get_instructions_bytes (instruction stream, is_jump_target, jump argval)"), shards=8, chunk=150)
    C.correspond(r, "labels", HEADER, "labels", cases, lambda c: f"obs_labels {c['table']} {C.blist(c['code'])}", modules=MODS,
                 describe=describe("opc.findlabels"), shards=8, chunk=300)
    return cases


ORACLE = os.path.join(C.VERIF, "tools/harness/oracle_dis.py")
REFNAME = {"2.7": "ref_27", "3.6": "ref_36", "3.7": "ref_37", "3.8": "ref_38", "3.9": "ref_39", "3.10": "ref_310", "3.11": "ref_311", "3.12": "ref_312", "3.13": "ref_313"}


def validate_spec(r, what=("unpack", "labels")):
    """Spec/Dis.v vs the real dis._unpack_opargs / dis.findlabels of every installed interpreter."""
    rnd = random.Random(r.seed * 271 + 9)
    tables = IG.load_tables()
    caches = IG.ref_caches()
    n = 60 if r.tier == "quick" else 600
    total = 0
    for v, ref in REFNAME.items():
        t = tables["opcode_" + v.replace(".", "")]
        cz = caches.get(v) if tuple(t["version_tuple"]) >= (3, 11) else None
        cases = []
        for _ in range(n):
            # 2.7: dis.disassemble resolves operands (tables of 300 entries are supplied) and dis.findlabels ignores
            # EXTENDED_ARG (a limitation of that dis, not of the interpreter), so labels are compared on code without it
            noext = v == "2.7" and rnd.random() < 0.5
            code = IG.synth(rnd, t, rnd.choice([1, 3, 8, 20]), cz, small_nonjump=(v == "2.7"), no_ext=noext)
            if rnd.random() < 0.15 and len(code) > 4:
                code = code[: rnd.randrange(2, len(code)) // 2 * 2] if tuple(t["version_tuple"]) >= (3, 6) else code
            cases.append({"code": code, "noext": noext})
        rc, out, err = C.run_py(ORACLE, host=C.ORACLES[v], stdin=json.dumps(cases), impl=False)
        if "@@JSON@@" not in out:
            raise RuntimeError(f"oracle {v} produced no result: {err[-1500:]}")
        res = json.loads(out.split("@@JSON@@")[1])
        lits = []
        for c, o in zip(cases, res):
            if "unpack" in o and "unpack" in what:
                lits.append(f"(obs_spec_unpack {ref} {C.blist(c['code'])}, {C.zlist(o['unpack'])})")
            if "labels" in o and "labels" in what and (v != "2.7" or c["noext"]):
                lits.append(f"(obs_spec_labels {ref} {C.blist(c['code'])}, {C.zlist(o['labels'])})")
        bad, errs = C.coq_cases(r.wd, "specdis" + v.replace(".", ""), HEADER, "list Z * list Z", "fun c => zlist_eqb (fst c) (snd c)", lits, chunk=300)
        if C.spec_problem(r, errs, bad):
            print(f"MACHINERY-ERROR: Spec/Dis.v disagrees with CPython {v}'s dis:", errs[:1], [lits[b][:400] for b in bad[:3]])
            raise SystemExit(2)
        total += len(lits)
    r.cov["spec_validation"] = {"comparisons_with_real_dis": total, "interpreters": list(REFNAME), "disagreements": 0}


def run(r):
    r.cov["rule"] = ("theorems quantify over all code byte strings; correspondence: per opcode table (39) synthetic instruction sequences with 0-3 EXTENDED_ARG prefixes, "
                     "operands around 2^8/2^16/2^24, inline cache words for 3.11+, truncated tails, random bytes, plus the code objects of /repo's corpus files; "
                     "non-trivial = at least two decoded instructions; distinct by (table, bytes)")
    broken = r.generate("opcodes", "small")
    ok = False if broken else r.build(extra_targets=["Model/InstrObs.vo", "Spec/Dis.vo"])
    if broken or not ok:
        r.violation({"broken": broken or "proof obligation", "theorem_or_tie": "Props/C02.v", "log": "" if broken else r.build_failure_excerpt()},
                    found_input=False, name="C02-obligation.json")
    try:
        run_correspondence(r)
    except SystemExit:
        raise
    except Exception as e:
        import traceback
        traceback.print_exc()
        r.violation({"correspondence": "could not be run", "error": repr(e)}, found_input=False, name="C02-correspondence.json")
    validate_spec(r)

"""C06 - the pyc header is decoded per the file format of the bytecode's version."""
import os
import random
import re

import common as C

HEADER = ("From Xdis Require Import Base.Prelude Base.Result Base.LE Model.Magic Model.Load Model.LoadObs Gen.Magics Gen.RefMagics "
          "Spec.Registry Spec.Header Proofs.HeaderDefs.")
IMPL = os.path.join(C.VERIF, "tools/harness/impl_run.py")
DUMP = os.path.join(C.VERIF, "tools/translate/dump_magics.py")


def le(n, k):
    return [(n >> (8 * i)) & 255 for i in range(k)]


def gen_cases(r, magics):
    rnd = random.Random(r.seed * 7919 + 6)
    flags = [0, 1, 2, 3, 0x01000000, 0x80000001, 0x00000100, 0xFFFFFFFF, 0xFFFFFFFE]
    cases = []
    per = 3 if r.tier == "quick" else 12
    for m in magics:
        mb = le(m, 2) + ([0x99, 0] if m in (39170, 39171) else [13, 10])
        for fl in flags + [rnd.getrandbits(32) for _ in range(per)]:
            body = le(fl, 4) + le(rnd.getrandbits(32), 4) + le(rnd.getrandbits(32), 4) + [rnd.randrange(256) for _ in range(rnd.choice([0, 1, 5, 40]))]
            cases.append({"bytes": mb + body, "name38": rnd.random() < 0.15, "kind": "table-magic"})
        # truncated headers (error branches) and a wrong tail
        for cut in (4, 5, 7, 8, 11, 12, 15):
            body = le(rnd.choice(flags), 4) + le(rnd.getrandbits(32), 4) + le(rnd.getrandbits(32), 4)
            cases.append({"bytes": (mb + body)[:cut], "name38": False, "kind": "truncated"})
        cases.append({"bytes": le(m, 2) + [rnd.randrange(256), rnd.randrange(256)] + le(1, 4) + le(5, 8), "name38": False, "kind": "wrong-tail"})
    for _ in range(200 if r.tier == "quick" else 3000):
        m = rnd.randrange(65536)
        cases.append({"bytes": le(m, 2) + [13, 10] + [rnd.randrange(256) for _ in range(12)], "name38": False, "kind": "random-magic"})
    for n in range(0, 4):
        cases.append({"bytes": [1, 2, 3][:n], "name38": False, "kind": "short-magic"})
    return cases


def correspondence(r):
    gen = C.run_json(DUMP, {})
    magics = [k for k, _ in gen["magicint2version"] if k != 62135]  # Dropbox files take the unmodelled decrypt path
    cases = gen_cases(r, magics)
    res = C.run_json(IMPL, {"op": "header", "cases": cases})["results"]
    lits = []
    for c, o in zip(cases, res):
        if isinstance(o, dict):
            o = [1, 50]
        lits.append(f"({C.boollit(c['name38'])}, {C.blist(c['bytes'])}, {C.zlist(o)})")
        r.count("kind:" + c["kind"])
        r.count("outcome:" + ("ok" if o[0] == 0 else f"err{o[1]}"))
        r.case(("hdr", tuple(c["bytes"]), c["name38"]), nontrivial=(o[0] == 0), sample={"in": c["bytes"][:16], "impl_obs": o} if len(r.cov["samples"]) < 4 and o[0] == 0 else None)
    check = "fun c => let '(n, bs, o) := c in zlist_eqb (obs_header n bs) o"
    bad, errs = C.coq_cases(r.wd, "hdr", HEADER, "bool * list Z * list Z", check, lits, chunk=500)
    if errs:
        raise RuntimeError(f"coq case evaluation failed: {errs[0]}")
    known_d29 = 0
    for b in bad:
        c, o = cases[b], res[b]
        mout, _ = C.coq_eval_term(r.wd, f"m{b}", HEADER, f"obs_header {C.boollit(c['name38'])} {C.blist(c['bytes'])}")
        r.violation({"component": "load_module_from_file_object header", "input_bytes": c["bytes"], "name38": c["name38"], "kind": c["kind"],
                     "impl_observation": o, "model_observation": " ".join((mout or "").split()),
                     "observation_format": "[0; len(version); version...; opt ts; magic_int; pypy; opt size; opt sip; bytes left for the code object] or [1; error code]",
                     "why": "C06_agree proves model = format spec for every released magic; the implementation differs from the model on this input",
                     "replay_py": "PYTHONPATH=/repo python -c 'import io;from xdis.load import load_module_from_file_object as f;print(f(io.BytesIO(bytes(%r)),get_code=False))'" % (c["bytes"],)})
        if len(r.violations) >= 5:
            break
    return len(cases)


def validate_spec(r):
    """Spec vs the real interpreters (py_compile in every invalidation mode)."""
    recs = []
    for v, exe in sorted(C.ORACLES.items()):
        for n, mt in ((1, 1234567890), (300, 4000000000)):
            rc, out, err = C.run_py(os.path.join(C.VERIF, "tools/harness/oracle_header.py"), args=[n, mt], host=exe, impl=False)
            for line in out.splitlines():
                if line.startswith("@@JSON@@"):
                    import json
                    recs += json.loads(line[8:])
    lits = []
    for rec in recs:
        exp = C.optlit(rec["ts"], C.zlit) + ", " + C.optlit(rec["size"], C.zlit) + ", " + C.optlit(rec["hash"], C.zlit)
        lits.append(f"({C.zlist(rec['version'])}, {C.blist(rec['head'])}, ({exp}), {16 - rec['code_at']})")
    check = ("fun c => let '(v, hd, (ts, sz, hs), restlen) := c in match spec_fields (spec_kind v) (skipn 4 hd) with "
             "Some (ts', sz', hs', rest) => match ts, ts' with Some a, Some b => a =? b | None, None => true | _, _ => false end && "
             "match sz, sz' with Some a, Some b => a =? b | None, None => true | _, _ => false end && "
             "match hs, hs' with Some a, Some b => a =? b | None, None => true | _, _ => false end && (zlen rest =? restlen) | None => false end")
    bad, errs = C.coq_cases(r.wd, "spec", HEADER, "list Z * list Z * (option Z * option Z * option Z) * Z", check, lits)
    if C.spec_problem(r, errs, bad):
        print("MACHINERY-ERROR: header spec disagrees with the real interpreters:", errs, [recs[b] for b in bad])
        raise SystemExit(2)
    r.cov["spec_validation"] = {"files": len(recs), "interpreters": sorted(C.ORACLES), "disagreements": 0}


def table_search(r):
    ok, _ = C.coq_build(["Proofs/HeaderDefs.vo"])
    if not ok:
        return False
    out, err = C.coq_eval_term(r.wd, "df", HEADER, "decide_failures")
    if out and not re.search(r"=\s*\[\s*\]", out.rsplit(":", 1)[0]):
        r.violation({"obligation": "decide_failures", "failing_rows": " ".join(out.split()),
                     "meaning": "released magics (magic, [major;minor], 4 magic bytes) for which the header decision (version, magic, field layout, pypy flag) is not the format's"},
                    name="C06-decide_failures.json")
        return True
    return False


def run(r):
    r.cov["rule"] = ("theorem C06_agree: all byte strings after every released magic; correspondence: every magic of the table x PEP 552 flag words "
                     "{0,1,2,3,2^24,2^31+1,256,2^32-1,...,random} x random timestamp/size/hash x truncations and wrong magic tails, model evaluated in Coq; "
                     "non-trivial = the implementation returned a tuple; distinct by input bytes")
    broken = r.generate("magics")
    ok = False if broken else r.build(extra_targets=['Model/LoadObs.vo', 'Proofs/HeaderDefs.vo'])
    if broken or not ok:
        found = False if broken else table_search(r)
        if not found:
            r.violation({"broken": broken or "proof obligation", "theorem_or_tie": "Props/C06.v", "log": "" if broken else r.build_failure_excerpt()},
                        found_input=False, name="C06-obligation.json")
    try:
        correspondence(r)
    except SystemExit:
        raise
    except Exception as e:
        import traceback
        traceback.print_exc()
        r.violation({"correspondence": "could not be run", "error": repr(e)}, found_input=False, name="C06-correspondence.json")
    validate_spec(r)
    r.cov["explanation"] = ("Dropbox magic 62135 (fix_dropbox_pyc) and magic 3393 (a 3.7 beta) are outside the theorem; they are not final releases. "
                            "1.0-1.4 magics come from xdis's own table (no reference in the sandbox).")

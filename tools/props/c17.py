"""C17 - 3.11+ exception and position tables decode as CPython decodes them."""
import json
import os
import random

import common as C
from props import linegen as G

HEADER = ("From Xdis Require Import Base.Prelude Base.Result Base.LE Model.LineStarts Model.CoLines Model.ExcTable Model.LineObs "
          "Spec.Lnotab Spec.Lines310 Spec.Loc311 Spec.ExcTable.")
MODS = ["ops_lines"]
ORACLE = os.path.join(C.VERIF, "tools/harness/oracle_lines.py")


def describe(component):
    def d(case, impl, model):
        return {"component": component, "input": case, "impl_observation": impl, "model_observation": model,
                "why": "the C17 theorems prove model = CPython's decoding of every well-formed table; the implementation differs from the model on this input"}
    return d


def bdig(v):
    ds = []
    while True:
        ds.append(v & 63)
        v >>= 6
        if not v:
            break
    return ds[::-1]


def correspondence(r):
    rnd = random.Random(r.seed * 917 + 17)
    scale = 1 if r.tier == "quick" else 10
    t311 = [{"first": f, "tab": t} for t, f in G.tables311(rnd, 500 * scale)]
    for c in t311:
        r.count("loc-table-len:" + ("0" if not c["tab"] else "1-8" if len(c["tab"]) <= 8 else "9+"))
    C.correspond(r, "positions311", HEADER, "positions311", t311,
                 lambda c: f"obs_positions311 {C.zlit(c['first'])} {C.blist(c['tab'])}", modules=MODS, describe=describe("Code311.co_positions / parse_location_entries"))
    # parse_positions(), the per-code-unit twin of co_positions(), on encoder-made tables: the expansion of the model's entries
    units = [{"first": f, "tab": G.encode311(es)} for es, f in G.entries311(rnd, 150 * scale)]
    C.correspond(r, "positions311_units", HEADER + "\nFrom Xdis Require Import Proofs.Loc311Proofs.", "positions311_units", units,
                 lambda c: f"(match parse_location_entries {C.zlit(c['first'])} {C.blist(c['tab'])} with Ok es => obs_positions (expand_entries es) | Err e => [1; err_code e] end)",
                 modules=MODS, describe=describe("code311.parse_positions (per code unit)"))
    C.correspond(r, "colines311", HEADER, "colines311", t311,
                 lambda c: f"obs_colines311 {C.zlit(c['first'])} {C.blist(c['tab'])}", modules=MODS, describe=describe("Code311.co_lines / parse_linetable"))
    exc = []
    for es in G.exc_entries(rnd, 300 * scale):
        tab = G.encode_exc(es)
        exc.append({"tab": tab, "kind": "wellformed"})
        if tab and rnd.random() < 0.4:
            exc.append({"tab": tab[: rnd.randrange(len(tab))], "kind": "truncated"})
    for _ in range(100 * scale):
        exc.append({"tab": [rnd.randrange(256) for _ in range(rnd.randrange(0, 12))], "kind": "random"})
    for c in exc:
        r.count("exc-kind:" + c["kind"])
    C.correspond(r, "exc", HEADER, "exc", exc, lambda c: f"obs_exc {C.blist(c['tab'])}", modules=MODS, describe=describe("bytecode.parse_exception_table"))
    ex2 = [dict(c, version=v) for c in exc[:: 3] for v in ([3, 11], [3, 12], [3, 13])]
    C.correspond(r, "exc_bytecode", HEADER, "exc_bytecode", ex2, lambda c: f"obs_exc {C.blist(c['tab'])}", modules=MODS,
                 describe=describe("Bytecode.exception_entries"))
    # the same entries through Bytecode on the oldest and the newest host that can import xdis: the table belongs to the bytecode's version,
    # not to the interpreter running xdis
    for h in ("3.8", "3.13"):
        C.correspond(r, "exc_bytecode_host" + h.replace(".", ""), HEADER, "exc_bytecode", ex2[:: 2], lambda c: f"obs_exc {C.blist(c['tab'])}", modules=MODS, host=C.HOSTS[h],
                     describe=describe(f"Bytecode.exception_entries on a {h} host"))
    # the "ExceptionTable:" section of a listing: one line per entry, in order, with start, inclusive end, target, depth, lasti
    ex3 = [c for c in ex2 if c["kind"] == "wellformed"]
    C.correspond(r, "exc_render", HEADER, "exc_render", ex3, lambda c: f"obs_exc_text {C.blist(c['tab'])}", modules=MODS,
                 describe=describe("cross_dis.format_exception_table ('ExceptionTable:' section of listings)"))


def validate_spec(r):
    rnd = random.Random(r.seed * 13 + 3)
    n = 150 if r.tier == "quick" else 2000
    total = 0
    ents = G.exc_entries(rnd, n)
    for v in ("3.11", "3.12", "3.13"):
        cases = [{"tab": [128 + 0 * 8 + 0, 0], "first": 1, "exc": G.encode_exc(es)} for es in ents]
        rc, out, err = C.run_py(ORACLE, host=C.ORACLES[v], stdin=json.dumps(cases), impl=False)
        res = json.loads(out.split("@@JSON@@")[1])
        lits = []
        for es, c, o in zip(ents, cases, res):
            if "exc" not in o:
                continue
            el = "[" + "; ".join(f"{{| x_start := {C.zlist(bdig(s))}; x_size := {C.zlist(bdig(sz))}; x_target := {C.zlist(bdig(t))}; x_dl := {C.zlist(bdig((d << 1) | (1 if l else 0)))} |}}"
                                 for s, sz, t, d, l in es) + "]"
            lits.append(f"(encode_xtable ({el} : list xentry) ++ obs_xsem {el}, {C.zlist(c['exc'] + o['exc'])})")
        bad, errs = C.coq_cases(r.wd, "specx" + v.replace(".", ""), HEADER, "list Z * list Z", "fun c => zlist_eqb (fst c) (snd c)", lits, chunk=200)
        if C.spec_problem(r, errs, bad):
            print(f"MACHINERY-ERROR: exception-table spec disagrees with CPython {v}:", errs[:1], [(ents[b], res[b]) for b in bad[:2]])
            raise SystemExit(2)
        total += len(lits)
    # location tables: same validation as C05's (entries -> encoder -> real co_lines()/co_positions())
    ents = G.entries311(rnd, n)
    for v in ("3.11", "3.12", "3.13"):
        cases = [{"tab": G.encode311(es), "first": f} for es, f in ents]
        rc, out, err = C.run_py(ORACLE, host=C.ORACLES[v], stdin=json.dumps(cases), impl=False)
        res = json.loads(out.split("@@JSON@@")[1])
        lits = []
        for (es, f), c, o in zip(ents, cases, res):
            if "lines" not in o:
                continue
            el = G.entries_lit(es)
            merged = "true" if v != "3.11" else "false"
            lits.append(f"(encode_entries {el} ++ obs_triples (sem_lines {merged} {C.zlit(f)} {el}) ++ obs_positions (sem_positions {C.zlit(f)} {el}), "
                        f"{C.zlist(c['tab'] + o['lines'] + o['positions'])})")
        bad, errs = C.coq_cases(r.wd, "specl" + v.replace(".", ""), HEADER, "list Z * list Z", "fun c => zlist_eqb (fst c) (snd c)", lits, chunk=200)
        if C.spec_problem(r, errs, bad):
            print(f"MACHINERY-ERROR: location-table spec disagrees with CPython {v}:", errs[:1], [(ents[b], res[b]) for b in bad[:2]])
            raise SystemExit(2)
        total += len(lits)
    r.cov["spec_validation"] = {"tables_checked_against_real_interpreters": total, "interpreters": ["3.11", "3.12", "3.13"], "disagreements": 0}


def run(r):
    r.cov["rule"] = ("theorems quantify over all lists of well-formed entries (five location forms, digit-list varints of any length, four-varint exception entries); "
                     "correspondence: encoder-made tables over random entries, truncations and raw random bytes; non-trivial = at least one decoded entry; distinct by input")
    ok = r.build(extra_targets=["Model/LineObs.vo"])
    if not ok:
        r.violation({"broken": "proof obligation", "theorem_or_tie": "Props/C17.v", "log": r.build_failure_excerpt()}, found_input=False, name="C17-obligation.json")
    try:
        correspondence(r)
    except SystemExit:
        raise
    except Exception as e:
        import traceback
        traceback.print_exc()
        r.violation({"correspondence": "could not be run", "error": repr(e)}, found_input=False, name="C17-correspondence.json")
    validate_spec(r)
    r.cov["explanation"] = ("co_positions() of xdis returns one tuple per table entry; the theorem C17_positions_per_unit proves its expansion per code unit equals CPython's. "
                            "Rendering of the 'ExceptionTable:' listing section is covered by C12, not here.")

"""C16 - native and portable code objects convert back and forth without loss."""
import random

import common as C
from props import c12

HEADER = "From Xdis Require Import Base.Prelude Gen.CodeType Gen.RefCodeType Model.CodeConv."
MODS = ["ops_codeconv"]
HOSTS = ["3.8", "3.9", "3.10", "3.11", "3.12", "3.13"]
EXPECT = {"3.8": "Code38", "3.9": "Code38", "3.10": "Code310", "3.11": "Code311", "3.12": "Code311", "3.13": "Code311"}

CASE_DEFS = """
From Coq Require Import ZArith List String. Import ListNotations. Open Scope Z_scope.
Fixpoint obj_eqb (a b : list (string * Z)) : bool :=
  match a, b with
  | [], [] => true
  | (k, v) :: a', (k', v') :: b' => String.eqb k k' && (v =? v') && obj_eqb a' b'
  | _, _ => false
  end.
(* (host, native attributes, class reported, portable attributes reported, attributes of the object to_native() returned) *)
Definition cc_case := (list Z * list (string * Z) * string * list (string * Z) * list (string * Z))%type.
Definition cc_ok (c : cc_case) : bool :=
  let '(host, nat, cls, port, back) := c in
  match to_portable Z host nat with
  | Some (mc, mattrs) =>
      String.eqb mc cls && obj_eqb mattrs port &&
      match roundtrip Z host nat with
      | Some view => forallb (fun kv : string * Z => match sassoc (fst kv) back with Some v => v =? snd kv | None => false end) view
      | None => false
      end
  | None => false
  end.
"""


def alit(pairs):
    return "[" + "; ".join(f"({C.slit(k)}%string, {C.zlit(v)})" for k, v in pairs) + "]"


def run(r):
    r.cov["rule"] = ("theorems: every host 3.8-3.13 x every valuation of the host's code attributes (tables regenerated from /repo's AST and from the interpreters); "
                     "execution on each of the six hosts: every code object (functions, classes, comprehensions, generators, lambdas, nested) of generated sources and "
                     "of that interpreter's own stdlib modules goes codeType2Portable -> to_native(); every data attribute compared, plus ==, type, replace() semantics; "
                     "the model's predicted class / portable attributes / constructor view compared inside Coq with what really came out; "
                     "non-trivial = code object with a non-empty line table and at least one constant; distinct by (host, source, name, first line)")
    broken = r.generate("codetype")
    ok = False if broken else r.build(extra_targets=["Model/CodeConv.vo"])
    found = False
    rnd = random.Random(r.seed * 1601 + 16)
    quick = r.tier == "quick"
    lits, owners = [], []
    try:
        for v in HOSTS:
            libs = rnd.sample(c12.LIBS, 4) if quick else c12.LIBS
            res = C.run_impl_op("codeconv", [{"stdlib": libs, "max_codes": 150 if quick else 3000, "max_src": 40000 if quick else 200000}], modules=MODS, host=C.HOSTS[v], timeout=1800)[0]
            if not isinstance(res, list):
                raise RuntimeError(f"codeconv under {v}: {str(res)[:400]}")
            for rec in res:
                r.count("host:" + v)
                key = ("cc", v, rec["src"], rec["name"], rec["line"])
                nt = len(rec.get("native", [])) > 10
                r.case(key, nontrivial=nt, sample={k: rec[k] for k in ("src", "name", "line", "host", "cls") if k in rec} if len(r.cov["samples"]) < 8 and r.cov["distribution"].get("host:" + v, 0) == 2 else None)
                why = None
                if "portable_error" in rec:
                    why = "codeType2Portable raised: " + rec["portable_error"]
                elif rec["cls"] != EXPECT[v]:
                    why = f"portable type {rec['cls']} chosen on host {v}, expected {EXPECT[v]}"
                elif "native_error" in rec:
                    why = "to_native() raised: " + rec["native_error"]
                elif not rec["is_code"] or not rec["eq"] or rec["fields_differ"]:
                    why = f"round trip differs: == is {rec['eq']}, fields that differ: {rec['fields_differ']}"
                else:
                    rp = rec["replace"]
                    badr = [k for k in ("new_values", "distinct_object", "type_kept", "others_kept", "falsy_values_set", "no_sharing", "unknown_field_rejected", "original_unchanged") if rp.get(k) is not True]
                    if "error" in rp or badr:
                        why = f"replace(): {rp.get('error') or badr}"
                if why:
                    r.count("failed:" + v)
                    if not found or r.cov["distribution"].get("failed:" + v, 0) <= 1:
                        found = True
                        r.violation({"component": "codeType2Portable / to_native / replace", "host": v, "code_object": {k: rec.get(k) for k in ("src", "name", "line")}, "why": why,
                                     "replay": f"PYTHONPATH=/repo {C.HOSTS[v]} -c \"see tools/harness/ops_codeconv.py: op_codeconv on source '{rec['src']}' code object '{rec['name']}' line {rec['line']}\"",
                                     "record": {k: rec.get(k) for k in ("cls", "eq", "fields_differ", "replace", "portable_error", "native_error")}})
                if "back" in rec:
                    lits.append(f"({C.zlist(rec['host'])}, {alit(rec['native'])}, {C.slit(rec['cls'])}%string, {alit(rec['portable'])}, {alit(rec['back'])})")
                    owners.append(rec)
    except SystemExit:
        raise
    except Exception as e:
        import traceback
        traceback.print_exc()
        r.violation({"correspondence": "could not be run", "error": repr(e)}, found_input=False, name="C16-correspondence.json")
        lits = []
    if broken or not ok:
        # the proof obligation over the regenerated tables no longer checks: a concrete failing object was looked for above
        if not found:
            r.violation({"broken": broken or "proof obligation", "theorem_or_tie": "Props/C16.v (C16_roundtrip / C16_class over Gen/CodeType.v)", "log": "" if broken else r.build_failure_excerpt()},
                        found_input=False, name="C16-obligation.json")
    elif lits:
        bad, errs = C.coq_cases(r.wd, "codeconv", HEADER + CASE_DEFS, "cc_case", "cc_ok", lits, chunk=150)
        if errs:
            r.violation({"correspondence": "coq evaluation failed", "error": str(errs[0])[:1500]}, found_input=False, name="C16-correspondence.json")
        for b in bad[:3]:
            ow = owners[b]
            r.violation({"component": "model of codeType2Portable / to_native vs the implementation", "host": ow["host"], "code_object": {k: ow.get(k) for k in ("src", "name", "line")},
                         "cls": ow["cls"], "native": ow["native"], "portable": ow["portable"], "back": ow["back"],
                         "why": "the class, the portable object's attributes or the constructor fields differ from what the model (over which C16_roundtrip is proved) predicts; "
                                "the round trip itself compared equal on this object"}, found_input=False)
        r.cov["compared_in_coq"] = len(lits)
    r.cov["explanation"] = ("The theorem is about attribute plumbing (which attribute of the native object reaches which constructor position); deepcopy/freeze/check inside to_native() and the "
                            "interpreter's own constructor are exercised by execution on the six hosts, where every data attribute of the result is compared with the original. "
                            "Values are compared through a canonical hash (code constants by name, code and first line).")

"""C13 - a bytecode file read and written back is the same program for its Python."""
import json
import os
import random

import common as C

HEADER = ("From Xdis Require Import Base.Prelude Base.Result Base.LE Model.Magic Model.Load Model.LoadObs Model.WriteHeader Gen.Magics Gen.RefMagics "
          "Spec.Registry Spec.Header Proofs.HeaderDefs Proofs.HeaderProofs Proofs.WriteProofs.")
RT = os.path.join(C.VERIF, "tools/harness/roundtrip.py")


def run(r):
    r.cov["rule"] = ("theorems: header written for every released magic x every 32-bit timestamp/size reads back (format spec and load_module's parser); payload written for every "
                     "2.0-2.7 and 3.0-3.10 magic x every code-object tree is read back by that version's reader model and by xdis's; "
                     "correspondence: write_bytecode_file header bytes vs model for every table magic; round trip through the REAL target interpreters: sources "
                     "compiled by 2.7, 3.6-3.10, loaded by xdis, written back, and compared by the target's own marshal.loads (code-object == and constant kinds), "
                     "re-read by xdis; 3.11+ targets must raise; non-trivial = a round trip through a real interpreter")
    broken = r.generate("magics")
    ok = False if broken else r.build(extra_targets=["Model/LoadObs.vo"])
    if broken or not ok:
        r.violation({"broken": broken or "proof obligation", "theorem_or_tie": "Props/C13.v", "log": "" if broken else r.build_failure_excerpt()},
                    found_input=False, name="C13-obligation.json")
    rnd = random.Random(r.seed + 13)
    try:
        gen = C.run_json(os.path.join(C.VERIF, "tools/translate/dump_magics.py"), {})
        magics = [k for k, t in gen["magic_tuple"] if t is not None]
        cases = []
        for m in magics:
            for ts, size in ((1, 0), (4294967295, 4294967295), (rnd.randrange(1, 2 ** 32), rnd.randrange(2 ** 32))):
                cases.append({"magic": m, "ts": ts, "size": size})
        C.correspond(r, "whdr", HEADER, "write_header", cases,
                     lambda c: f"(match write_header {c['magic']} {c['ts']} {c['size']} with Ok h => 0 :: zlen h :: h | Err e => [1; err_code e] end)",
                     describe=lambda case, impl, model: {"component": "write_bytecode_file header", "input": case, "impl": impl, "model": model}, chunk=400,
                     nontrivial=lambda c, o: False)
        targets = [("2.7", C.ORACLES["2.7"]), ("3.6", C.ORACLES["3.6"]), ("3.7", C.ORACLES["3.7"]), ("3.8", C.ORACLES["3.8"]), ("3.9", C.ORACLES["3.9"]),
                   ("3.10", C.ORACLES["3.10"]), ("3.11", C.ORACLES["3.11"]), ("3.13", C.ORACLES["3.13"])]
        # corpus files of every version the writer has a layout for (2.0-2.7 via dump_code2, 3.0-3.10 via dump_code3), PyPy included;
        # the smallest files of each directory in the quick tier
        import glob
        corpus = []
        per_dir = 3 if r.tier == "quick" else 12
        for dname in sorted(os.listdir(os.path.join(C.REPO, "test"))):
            if not dname.startswith("bytecode_") or "dropbox" in dname:
                continue
            fs = sorted(glob.glob(os.path.join(C.REPO, "test", dname, "*.pyc")), key=lambda f: (os.path.getsize(f), f))
            fs = [f for f in fs if os.path.getsize(f) < 5000]
            rnd.shuffle(fs)
            corpus += sorted(fs[:per_dir])
        rc, out, err = C.run_py(RT, stdin=json.dumps({"targets": targets, "corpus": corpus, "corpus_root": os.path.join(C.REPO, "test")}), timeout=1500)
        if "@@JSON@@" not in out:
            raise RuntimeError("roundtrip harness failed: " + err[-1500:])
        recs = json.loads(out.split("@@JSON@@")[1])
        for rec in recs:
            r.case(("rt", rec["target"], rec["source"]), nontrivial=True, sample=rec if len(r.cov["samples"]) < 6 else None)
            r.count("roundtrip:" + rec["target"] + (":" + ".".join(map(str, rec["version"])) if rec["target"] == "corpus" and "version" in rec else ""))
            if "skip" in rec:
                continue
            if "load_error" in rec:
                r.violation({"component": "load_module", "record": rec, "why": "a valid bytecode file (corpus file, file compiled by an installed interpreter, or such a file under "
                             "another magic with the same code-object layout) could not be loaded at all, so it cannot be written back either"})
                continue
            vt = tuple(rec.get("version", ()))
            if rec["target"] == "corpus":
                # no interpreter judges these: the writer either raises (a layout it does not have: before 2.0, 3.11+) or writes a file
                # xdis reads back to the same content; the payload is compared with the writer model below
                if "write_error" in rec:
                    if (2, 0) <= vt < (3, 11):
                        r.violation({"component": "write_bytecode_file", "record": rec, "why": "the writer raised for a version it has a layout for"})
                elif rec.get("xdis_reread_equal") is not True:
                    r.violation({"component": "write_bytecode_file / load_module", "record": {k: v for k, v in rec.items() if "payload" not in k and k != "float_reprs"},
                                 "why": "a corpus file written back is not read by xdis to the same content (the writer emitted a different program instead of raising)"})
                continue
            new_layout = rec["target"] in ("3.11", "3.12", "3.13")
            if new_layout:
                if "write_error" not in rec:
                    if rec.get("target_says") != "1 1":
                        r.violation({"component": "write_bytecode_file", "record": rec, "why": "a 3.11+ file was written that its Python does not load to the original program"})
                continue
            if "write_error" in rec:
                r.violation({"component": "write_bytecode_file", "record": rec, "why": "the writer raised for a version it supports"})
            elif rec.get("target_says") != "1 1":
                r.violation({"component": "write_bytecode_file", "record": {k: v for k, v in rec.items() if "payload" not in k and k != "float_reprs"},
                             "why": "the target interpreter loads the written file to a different code object (first flag: ==, second: every field of every "
                                    "nested code object incl. filename and line table, constants by type and value)"})
            elif rec.get("xdis_reread_equal") is not True:
                r.violation({"component": "write_bytecode_file / load_module", "record": {k: v for k, v in rec.items() if "payload" not in k and k != "float_reprs"},
                             "why": "xdis does not read the written file back to the same content"})
        # the payload writer model (Model.Marsh.dumps / dumps2 with code objects) against what write_bytecode_file wrote: evaluated inside
        # Coq on the value the reader model reads from the ORIGINAL payload
        lits, owners = [], []
        for rec in recs:
            # PyPy 3.2 stores names and file names as 's' strings, which load_code turns into text and the writer emits as 'u': the reader
            # model keeps them as bytes, so these payloads are judged by xdis's re-read only
            if "written_payload" in rec and len(rec["orig_payload"]) < 6000 and "3.2pypy" not in rec["source"]:
                tbl = "[" + "; ".join(f"({b}, {C.blist(s_)})" for b, s_ in rec["float_reprs"]) + "]"
                lits.append(f"({rec['magic']}, {tbl}, {C.blist(rec['orig_payload'])}, {C.blist(rec['written_payload'])})")
                owners.append(rec)
        hdr2 = HEADER + "\nFrom Xdis Require Import Model.Unmarshal Model.UnmarshalObs Model.Marsh Gen.Dispatch Proofs.MarshRoundTrip."
        wr_term = ("(let rf := (fun b => match zassoc b tbl with Some s => s | None => [] end) in "
                   "if tuple_geb (magic_version m) [3; 0] then dumps rf (posonly_read (cpy_cfg m)) false v else dumps2 rf (vge (xdis_cfg m) [2; 3]) v)")
        # byte for byte; when the tree holds a set of two or more members (written in the host's iteration order): same length, and the
        # reader model reads the written bytes to the same value (sets compared sorted, floats through their repr)
        chk = ("fun c : Z * list (Z * list Z) * list Z * list Z => let '(m, tbl, orig, written) := c in "
               "match load (xdis_cfg m) orig with Ok (v, _) => has_float_text v || (let w := " + wr_term + " in if has_multi_set v then "
               "(zlen w =? zlen written) && match load (xdis_cfg m) written with Ok (v', st') => "
               "let ft := map (fun p : Z * list Z => (snd p, fst p)) tbl in zlist_eqb (obs_pv ft v') (obs_pv ft v) && (zlen (inp st') =? 0) | Err _ => false end "
               "else zlist_eqb w written) | Err _ => false end")
        bad, errs = C.coq_cases(r.wd, "payload", hdr2, "Z * list (Z * list Z) * list Z * list Z", chk, lits, chunk=6)
        if errs:
            raise RuntimeError(f"payload cases: {errs[0]}")
        for b in bad[:3]:
            ow = owners[b]
            r.violation({"component": "Model.Marsh.dumps / dumps2 (code objects) vs write_bytecode_file payload", "target": ow["target"], "source": ow["source"],
                         "version": ow.get("version"), "orig_payload": ow["orig_payload"][:300], "written_payload": ow["written_payload"][:300],
                         "why": "the bytes written after the header are not what the writer model (over which C13_payload_* and C13_payload2_* are proved) produces "
                                "for the loaded code object; by those theorems the model's bytes are read back to the original by the version's own reader"},
                        found_input=True)
        skipped, errs = C.coq_cases(r.wd, "payloadskip", hdr2, "Z * list (Z * list Z) * list Z * list Z",
                                    "fun c : Z * list (Z * list Z) * list Z * list Z => let '(m, tbl, orig, written) := c in "
                                    "match load (xdis_cfg m) orig with Ok (v, _) => negb (has_float_text v) | Err _ => true end", lits, chunk=12)
        r.cov["payloads_with_text_floats_compared_by_value_only"] = [owners[b]["source"] for b in skipped]
        r.cov["payloads_py2_compared_in_coq"] = sum(1 for o in owners if tuple(o.get("version", (3,))) < (3, 0))
        r.cov["payloads_compared_in_coq"] = len(lits)
        for rec in recs:
            for k in ("orig_payload", "written_payload", "float_reprs"):
                rec.pop(k, None)
        r.cov["roundtrips"] = recs
    except SystemExit:
        raise
    except Exception as e:
        import traceback
        traceback.print_exc()
        r.violation({"correspondence": "could not be run", "error": repr(e)}, found_input=False, name="C13-correspondence.json")
    r.cov["explanation"] = ("Header and payload are proved for Python 3.0-3.10 targets (payload: CPython's reader model and xdis's own reader return the tree that was written, any nesting). "
                            "For Python 2.0-2.7 targets (dump_code2, Python 2 str/unicode/int/long kinds, 16-bit fields before 2.3) the same two theorems are C13_payload2_*; the writer model is tied "
                            "to write_bytecode_file byte for byte on files compiled by the real 2.7 (non-ASCII file name and strings, 64-bit ints, longs, unicode) and on corpus files of 2.1-2.7, 3.0-3.10 and PyPy. 'Executing it behaves identically' is taken from code-object "
                            "equality as judged by the real 2.7 and 3.6-3.10 interpreters. 3.11+ is refused by the writer (raises).")

"""C13 - a bytecode file read and written back is the same program for its Python."""
import json
import os
import random

import common as C

HEADER = ("From Xdis Require Import Base.Prelude Base.Result Base.LE Model.Magic Model.Load Model.LoadObs Model.WriteHeader Gen.Magics Gen.RefMagics "
          "Spec.Registry Spec.Header Proofs.HeaderDefs Proofs.HeaderProofs Proofs.WriteProofs.")
RT = os.path.join(C.VERIF, "tools/harness/roundtrip.py")


def run(r):
    r.cov["rule"] = ("theorems: header written for every released magic x every 32-bit timestamp/size reads back (format spec and load_module's parser); "
                     "correspondence: write_bytecode_file header bytes vs model for every table magic; round trip through the REAL target interpreters: sources "
                     "compiled by 2.7, 3.6-3.10, loaded by xdis, written back, and compared by the target's own marshal.loads (code-object == and constant kinds), "
                     "re-read by xdis; 3.11+ targets must raise; non-trivial = a round trip through a real interpreter")
    broken = r.generate("magics")
    ok = False if broken else r.build(extra_targets=["Model/LoadObs.vo"])
    if broken or not ok:
        r.violation({"broken": broken or "proof obligation", "theorem_or_tie": "Props/C13.v", "log": "" if broken else r.build_failure_excerpt()},
                    found_input=False, name="C13-obligation.json")
    rnd = random.Random(r.seed + 13)
    try:
        gen = C.run_json(os.path.join(C.VERIF, "tools/translate/dump_magics.py"), {})
        magics = [k for k, t in gen["magic_tuple"] if t is not None]
        cases = []
        for m in magics:
            for ts, size in ((1, 0), (4294967295, 4294967295), (rnd.randrange(1, 2 ** 32), rnd.randrange(2 ** 32))):
                cases.append({"magic": m, "ts": ts, "size": size})
        C.correspond(r, "whdr", HEADER, "write_header", cases,
                     lambda c: f"(match write_header {c['magic']} {c['ts']} {c['size']} with Ok h => 0 :: zlen h :: h | Err e => [1; err_code e] end)",
                     describe=lambda case, impl, model: {"component": "write_bytecode_file header", "input": case, "impl": impl, "model": model}, chunk=400,
                     nontrivial=lambda c, o: False)
        targets = [("2.7", C.ORACLES["2.7"]), ("3.6", C.ORACLES["3.6"]), ("3.7", C.ORACLES["3.7"]), ("3.8", C.ORACLES["3.8"]), ("3.9", C.ORACLES["3.9"]),
                   ("3.10", C.ORACLES["3.10"]), ("3.11", C.ORACLES["3.11"]), ("3.13", C.ORACLES["3.13"])]
        rc, out, err = C.run_py(RT, stdin=json.dumps({"targets": targets}), timeout=900)
        if "@@JSON@@" not in out:
            raise RuntimeError("roundtrip harness failed: " + err[-1500:])
        recs = json.loads(out.split("@@JSON@@")[1])
        for rec in recs:
            r.case(("rt", rec["target"], rec["source"]), nontrivial=True, sample=rec if len(r.cov["samples"]) < 6 else None)
            r.count("roundtrip:" + rec["target"])
            if "skip" in rec:
                continue
            new_layout = rec["target"] in ("3.11", "3.12", "3.13")
            if new_layout:
                if "write_error" not in rec:
                    if rec.get("target_says") != "1 1":
                        r.violation({"component": "write_bytecode_file", "record": rec, "why": "a 3.11+ file was written that its Python does not load to the original program"})
                continue
            if "write_error" in rec:
                r.violation({"component": "write_bytecode_file", "record": rec, "why": "the writer raised for a version it supports"})
            elif rec.get("target_says") != "1 1":
                r.violation({"component": "write_bytecode_file", "record": rec,
                             "why": "the target interpreter loads the written file to a different code object (first flag: ==, second: same constant kinds)"})
            elif rec.get("xdis_reread_equal") is not True:
                r.violation({"component": "write_bytecode_file / load_module", "record": rec, "why": "xdis does not read the written file back to the same content"})
        # the payload writer model (Model.Marsh.dumps with code objects) against what write_bytecode_file wrote: evaluated inside Coq on the
        # value the reader model reads from the ORIGINAL payload
        lits, owners = [], []
        for rec in recs:
            if "written_payload" in rec and len(rec["orig_payload"]) < 6000:
                tbl = "[" + "; ".join(f"({b}, {C.blist(s_)})" for b, s_ in rec["float_reprs"]) + "]"
                lits.append(f"({rec['magic']}, {tbl}, {C.blist(rec['orig_payload'])}, {C.blist(rec['written_payload'])})")
                owners.append(rec)
        hdr2 = HEADER + "\nFrom Xdis Require Import Model.Unmarshal Model.UnmarshalObs Model.Marsh Gen.Dispatch Proofs.MarshRoundTrip."
        chk = ("fun c : Z * list (Z * list Z) * list Z * list Z => let '(m, tbl, orig, written) := c in "
               "match load (xdis_cfg m) orig with Ok (v, _) => zlist_eqb (dumps (fun b => match zassoc b tbl with Some s => s | None => [] end) (posonly_read (cpy_cfg m)) false v) written | Err _ => false end")
        bad, errs = C.coq_cases(r.wd, "payload", hdr2, "Z * list (Z * list Z) * list Z * list Z", chk, lits, chunk=6)
        if errs:
            raise RuntimeError(f"payload cases: {errs[0]}")
        for b in bad[:2]:
            ow = owners[b]
            r.violation({"component": "Model.Marsh.dumps (code objects) vs write_bytecode_file payload", "target": ow["target"], "source": ow["source"],
                         "orig_payload": ow["orig_payload"][:300], "written_payload": ow["written_payload"][:300],
                         "why": "the bytes written after the header are not what the writer model (over which C13_payload_* are proved) produces for the loaded code object"},
                        found_input=False)
        r.cov["payloads_compared_in_coq"] = len(lits)
        for rec in recs:
            for k in ("orig_payload", "written_payload", "float_reprs"):
                rec.pop(k, None)
        r.cov["roundtrips"] = recs
    except SystemExit:
        raise
    except Exception as e:
        import traceback
        traceback.print_exc()
        r.violation({"correspondence": "could not be run", "error": repr(e)}, found_input=False, name="C13-correspondence.json")
    r.cov["explanation"] = ("Header and payload are proved for Python 3.0-3.10 targets (payload: CPython's reader model and xdis's own reader return the tree that was written, any nesting). "
                            "For Python 2 targets (dump_code2) the payload is decided by execution on the real 2.7 only. 'Executing it behaves identically' is taken from code-object "
                            "equality as judged by the real 2.7 and 3.6-3.10 interpreters. 3.11+ is refused by the writer (raises).")

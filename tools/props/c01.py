"""C01 - unmarshalled code objects equal what the producing CPython itself loads."""
import glob
import json
import os
import random

import common as C
from props import c10
from props import marshalgen as MG

HEADER = c10.HEADER
MODS = ["ops_marshal"]
ORC = os.path.join(C.VERIF, "tools/harness/oracle_compile.py")
STDLIB = ["this.py", "colorsys.py", "keyword.py", "bisect.py", "abc.py", "sched.py", "quopri.py", "stat.py", "types.py", "copyreg.py", "nturl2path.py", "fnmatch.py",
          "glob.py", "shlex.py", "netrc.py", "textwrap.py", "heapq.py", "hmac.py", "contextlib.py", "dis.py"]


def describe(case, impl, model):
    return {"component": "xdis.unmarshal.load_code / load_module (code object tree)", "input": {k: (v if k != "bytes" else v[:200]) for k, v in case.items()},
            "impl_observation": impl[:120], "model_observation": model[:800],
            "observation_format": "[0; bytes left; 16; argcount; posonlyargcount|-1; kwonlyargcount; nlocals; stacksize; flags; firstlineno; code; consts; names; varnames; freevars; cellvars; filename; name; qualname; linetable; exceptiontable] (values tagged as in C10)",
            "why": "C01_load proves the model returns CPython's tree; the implementation differs from the model on this payload"}


def header_len(data):
    """bytes before the code object, per the header rules checked by C06 (asked of the implementation itself)"""
    res = C.run_impl_op("header", [{"bytes": list(data[:64]) + [0] * 0, "name38": False}])[0]
    if not isinstance(res, list) or res[0] != 0:
        return None
    return min(64, len(data)) - res[-1]


def float_table(payload):
    """every length-prefixed substring that parses as a float (a superset of the text floats the stream holds)"""
    import struct
    ft = {}
    for p in range(len(payload) - 1):
        n = payload[p]
        sub = bytes(payload[p + 1: p + 1 + n])
        if 0 < n <= 40 and len(sub) == n:
            try:
                ft[tuple(sub)] = struct.unpack("<Q", struct.pack("<d", float(sub)))[0]
            except ValueError:
                pass
    return sorted((list(k), v) for k, v in ft.items())


def corpus_cases(r):
    files = sorted(glob.glob(os.path.join(C.REPO, "test", "bytecode_*", "*.pyc")))
    rnd = random.Random(r.seed + 101)
    if r.tier == "quick":
        by = {}
        for f in files:
            by.setdefault(os.path.dirname(f), []).append(f)
        files = [rnd.choice(v) for v in by.values()] + rnd.sample(files, 10)
    cases = []
    for f in files:
        data = open(f, "rb").read()
        if len(data) > 6000 or data[:2] == bytes([0x37, 0xF2])[:2] and False:
            continue
        magic = data[0] + 256 * data[1]
        if magic in (62135, 21150, 21280):   # Dropbox-encrypted / Graal (JVM) files: bodies are not decoded by xdis
            continue
        # PyPy 3.2 marshals names as 's' byte strings, which xdis hands out as text: the model's result goes through the pypy32_fix adapter
        # (Model/UnmarshalObs.v) for these files; what PyPy 3.2 itself loads is not decidable here (no such interpreter)
        hl = header_len(data)
        if hl is None:
            continue
        if data[0:1] == b"0":
            magic = 3187
        payload = list(data[hl:])
        old = magic in (39170, 39171, 11913, 5892, 20121, 50428, 50823, 60202, 60717, 62011, 62021, 62041, 62051, 62061)
        cases.append({"magic": magic, "bytes": payload, "file": os.path.relpath(f, C.REPO), "kind": "corpus", "ft": float_table(payload) if old else [],
                      "pypy32": data[0:1] == b"0"})
    return cases


def pypy32_synthetic():
    """a PyPy 3.2 code object (3.2 layout; names, file name and name as 's' strings) whose CONSTANTS hold byte strings - directly, in a
    nested tuple and in a frozenset - beside text: the name convention must not leak into the constants"""
    import struct
    w = lambda n: list(struct.pack("<i", n))
    s_ = lambda b: [ord("s")] + w(len(b)) + list(b)
    u_ = lambda t: [ord("u")] + w(len(t.encode())) + list(t.encode())
    tup = lambda items: [ord("(")] + w(len(items)) + [x for it in items for x in it]
    consts = tup([[ord("N")], s_(b"GET"), u_("text"), tup([s_(b"in"), tup([s_(b"ner")])]), [ord(">")] + w(2) + s_(b"m1") + s_(b"m2"), s_(b"\xff\xfe")])
    body = ([ord("c")] + w(0) + w(0) + w(0) + w(2) + w(64) + s_(b"d\x00\x00S") + consts + tup([s_(b"nm"), s_(b"other")]) + tup([s_(b"v")]) + tup([]) + tup([])
            + s_(b"file.py") + s_(b"<module>") + w(1) + s_(b"\x00\x01"))
    return {"magic": 3187, "bytes": body, "file": "synthetic:pypy3.2-bytes-constants", "kind": "synthetic-pypy32", "ft": [], "pypy32": True}


def py20_synthetic():
    """a Python 2.0 code object (magic 50823): the 1.5-2.0 layout - 16-bit argcount/nlocals/stacksize/flags, no co_freevars / co_cellvars
    (those came with nested scopes in 2.1), 16-bit first line.  No 2.0 interpreter or file exists here; the layout is CPython 2.0's marshal.c."""
    import struct
    h = lambda n: list(struct.pack("<h", n))
    w = lambda n: list(struct.pack("<i", n))
    s_ = lambda b: [ord("s")] + w(len(b)) + list(b)
    tup = lambda items: [ord("(")] + w(len(items)) + [x for it in items for x in it]
    body = ([ord("c")] + h(0) + h(0) + h(1) + h(0) + s_(b"\x7f\x00\x00d\x00\x00Z\x00\x00d\x01\x00S") + tup([[ord("i")] + w(1), [ord("N")]]) + tup([s_(b"x")]) + tup([])
            + s_(b"a.py") + s_(b"?") + h(1) + s_(b""))
    return {"magic": 50823, "bytes": body, "file": "synthetic:python-2.0-module", "kind": "synthetic-py20", "ft": []}


def oracle_cases(r):
    cases, spec = [], []
    n = 3 if r.tier == "quick" else len(STDLIB)
    for v, magic in c10.ORACLE_MAGIC.items():
        rc, out, err = C.run_py(ORC, host=C.ORACLES[v], stdin=json.dumps({"stdlib": STDLIB[:n], "max_len": 3500 if r.tier == "quick" else 9000}), impl=False)
        if "@@JSON@@" not in out:
            raise RuntimeError(f"oracle_compile {v}: {err[-1500:]}")
        for x in json.loads(out.split("@@JSON@@")[1]):
            cases.append({"magic": magic, "bytes": x["payload"], "file": f"cpython-{v}:{x['name']}", "kind": "compiled-by-" + v})
            spec.append((v, magic, x))
            if v == "3.8" and x["name"] in ("posonly", "closure", "kwonly"):
                # the same 3.8 payloads under the pre-release magics that already have this layout (co_posonlyargcount came with 3410)
                for m2 in (3410, 3411):
                    cases.append({"magic": m2, "bytes": x["payload"], "file": f"cpython-3.8-payload-under-magic-{m2}:{x['name']}", "kind": "prerelease-magic-twin"})
    return cases, spec


def run(r):
    r.cov["rule"] = ("theorem: all payload byte strings, all magics; correspondence: the code-object trees of /repo's corpus files (1.0-3.12, PyPy) and of sources "
                     "compiled and marshalled by each installed interpreter (closures whose parameter is a cell, class bodies, comprehensions, >255-element constant "
                     "tuples, frozenset constants, big ints, nan/inf/-0.0, non-ASCII names, async, positional-only) plus its stdlib modules; "
                     "non-trivial = a code object with nested code; distinct by payload")
    broken = r.generate("magics", "dispatch")
    ok = False if broken else r.build(extra_targets=["Model/UnmarshalObs.vo"])
    if broken or not ok:
        r.violation({"broken": broken or "proof obligation", "theorem_or_tie": "Props/C01.v", "log": "" if broken else r.build_failure_excerpt()},
                    found_input=False, name="C01-obligation.json")
    try:
        cases = corpus_cases(r) + [pypy32_synthetic(), py20_synthetic()]
        oc, spec = oracle_cases(r)
        cases += oc
        for c in cases:
            r.count("source:" + c["kind"])
        C.correspond(r, "loadcode", HEADER, "unmarshal", cases,
                     lambda c: f"{'obs_load_pypy32' if c.get('pypy32') else 'obs_load'} (xdis_cfg {c['magic']}) {MG.ft_lit(c.get('ft', []))} {C.blist(c['bytes'])}", modules=MODS,
                     describe=describe, shards=8, chunk=25, nontrivial=lambda c, o: isinstance(o, list) and o[:1] == [0] and o.count(16) > 1)
        # the spec against what each interpreter's own marshal.loads returned for its own payloads
        lits = [f"(match load (cpy_cfg {magic}) {C.blist(x['payload'])} with Ok (v, st) => zlen (inp st) :: obs_pv [] v | Err e => [1; err_code e] end, {C.zlist(x['obs'])})"
                for v, magic, x in spec]
        bad, errs = C.coq_cases(r.wd, "speccode", HEADER, "list Z * list Z", "fun c => zlist_eqb (fst c) (snd c)", lits, chunk=25)
        if C.spec_problem(r, errs, bad):
            print("MACHINERY-ERROR: marshal spec disagrees with the interpreter's own load of its own code object:", errs[:1], [(spec[b][0], spec[b][2]["name"]) for b in bad[:5]])
            raise SystemExit(2)
        r.cov["spec_validation"] = {"code_objects_checked_against_real_marshal_loads": len(lits), "interpreters": list(c10.ORACLE_MAGIC), "disagreements": 0}
    except SystemExit:
        raise
    except Exception as e:
        import traceback
        traceback.print_exc()
        r.violation({"correspondence": "could not be run", "error": repr(e)}, found_input=False, name="C01-correspondence.json")
    r.cov["explanation"] = ("Dropbox-encrypted (62135) and Graal (JVM) files are outside the model. 2.0 bytecode is read with the 2.1 layout (free/cell vars); no 2.0 interpreter or file "
                            "exists here to decide it. Text payloads are assumed valid UTF-8 (surrogatepass). The CPython side (strict reader) is validated for 2.7 and 3.6-3.13 only.")

"""Generators for line tables (lnotab, 3.10 range table, 3.11+ location table, exception table)."""
import common as C


# ---------------------------------------------------------------- lnotab
def enc_lnotab(mapping, first, signed=True):
    """A plain encoder in the style of CPython's assemble_lnotab (used only to make
    structured inputs; correctness is irrelevant - any byte table is a legal input)."""
    out = []
    addr, line = 0, first
    for off, ln in mapping:
        da, dl = off - addr, ln - line
        while da > 255:
            out += [255, 0]
            da -= 255
        if signed:
            while dl > 127:
                out += [da, 127]
                da = 0
                dl -= 127
            while dl < -128:
                out += [da, 128]
                da = 0
                dl += 128
            out += [da, dl & 255]
        else:
            if dl < 0:
                dl = 0
            while dl > 255:
                out += [da, 255]
                da = 0
                dl -= 255
            out += [da, dl]
        addr, line = off, ln
    return out


def lnotab_tables(rnd, n):
    """yields (table, first, codelen, kind)"""
    yield [], 1, 0, "empty"
    yield [], 7, 10, "empty"
    yield [6, 1, 8, 200, 3, 255], 10, 40, "fixed"
    yield [6, 1, 8, 200, 3, 255], 10, 12, "fixed"
    yield [0, 5, 0, 5, 4, 1], 3, 100, "fixed"
    yield [255, 0, 45, 1, 0, 127, 0, 127, 2, 128], 1, 1000, "fixed"
    for i in range(n):
        kind = rnd.choice(["structured", "structured", "structured-past-end", "dups", "random", "odd"])
        first = rnd.choice([1, 1, 2, 10, 300, 70000])
        if kind in ("structured", "structured-past-end"):
            k = rnd.randrange(1, 9)
            off, ln = 0, first
            mp = []
            for _ in range(k):
                off += rnd.choice([0, 1, 2, 3, 6, 10, 100, 254, 255, 256, 300, 600])
                ln += rnd.choice([0, 1, 1, 2, 5, 126, 127, 128, 129, 255, 256, 300, 2000, -1, -2, -127, -128, -129, -300])
                mp.append((off, ln))
            tab = enc_lnotab(mp, first, signed=rnd.random() < 0.7)
            codelen = off + rnd.choice([2, 10, 100]) if kind == "structured" else max(0, off - rnd.choice([0, 1, 5, 50, 300]))
        elif kind == "dups":
            tab = []
            for _ in range(rnd.randrange(1, 8)):
                tab += [rnd.choice([0, 1, 3, 254, 255]), rnd.choice([0, 0, 1, 255])]
            codelen = rnd.choice([0, 5, 50, 5000])
        elif kind == "odd":
            tab = [rnd.randrange(256) for _ in range(rnd.choice([1, 3, 5, 7]))]
            codelen = rnd.choice([0, 5, 50, 5000])
        else:
            tab = [rnd.randrange(256) for _ in range(2 * rnd.randrange(1, 12))]
            codelen = rnd.choice([0, 5, 50, 500, 5000])
        yield tab, first, codelen, kind


# ---------------------------------------------------------------- 3.10
def tables310(rnd, n):
    yield [], 1
    yield [2, 1, 2, 0, 2, 1, 6, 0], 10
    yield [2, 1, 2, 128, 2, 0, 6, 255], 10
    yield [0, 1, 2, 1, 0, 5, 4, 128, 6, 3], 10
    for i in range(n):
        kind = rnd.choice(["structured", "structured", "random", "odd"])
        first = rnd.choice([1, 2, 10, 300, 70000])
        if kind == "structured":
            tab = []
            for _ in range(rnd.randrange(1, 10)):
                tab += [rnd.choice([0, 0, 2, 2, 4, 6, 100, 254, 255]), rnd.choice([0, 0, 1, 1, 2, 5, 127, 128, 128, 129, 255, 254, 200])]
            if tab[-2] == 0:
                tab[-2] = 2
        elif kind == "odd":
            tab = [rnd.randrange(256) for _ in range(rnd.choice([1, 3, 5]))]
        else:
            tab = [rnd.randrange(256) for _ in range(2 * rnd.randrange(1, 10))]
        yield tab, first


def wf310(tab):
    """the last entry is a non-empty range (CPython reads past the table otherwise)"""
    return len(tab) >= 2 and len(tab) % 2 == 0 and tab[-2] != 0


# ---------------------------------------------------------------- 3.11+
def digits(v):
    """canonical base-64 little-endian digits of v >= 0 (what write_location_varint emits)"""
    ds = []
    while v >= 64:
        ds.append(v & 63)
        v >>= 6
    ds.append(v)
    return ds


def sdigits(v):
    return digits(((-v) << 1) | 1 if v < 0 else v << 1)


def rand_entry(rnd):
    ln = rnd.randrange(1, 9)
    k = rnd.choice(["short", "short", "oneline", "nocol", "long", "long", "none"])
    if k == "short":
        return ("LShort", ln, rnd.randrange(0, 10), rnd.randrange(0, 128))
    if k == "oneline":
        return ("LOneLine", ln, rnd.randrange(0, 3), rnd.randrange(0, 128), rnd.randrange(0, 128))
    big = [0, 1, 2, 3, 31, 32, 33, 63, 64, 100, 2047, 2048, 4095, 4096, 70000, 2 ** 20 + 5]
    sd = rnd.choice([0, 1, -1, 2, -2, 31, 32, -32, -33, 63, 64, 1000, -1000, 2047, -2048, 100000, -100000])
    if k == "nocol":
        return ("LNoCol", ln, sdigits(sd))
    if k == "long":
        return ("LLong", ln, sdigits(sd), digits(rnd.choice(big[:9])), digits(rnd.choice(big)), digits(rnd.choice(big)))
    return ("LNone", ln)


def entries311(rnd, n):
    out = [([("LShort", 1, 0, 0)], 1), ([("LNone", 3)], 5), ([("LLong", 2, sdigits(-3), digits(2), digits(0), digits(70)), ("LNone", 1), ("LNoCol", 8, sdigits(0))], 100)]
    for _ in range(n):
        es = [rand_entry(rnd) for _ in range(rnd.randrange(1, 9))]
        # keep lines positive
        out.append((es, rnd.choice([1000000, 2000000])))
    return out


def enc_digits(ds):
    return [64 + d for d in ds[:-1]] + [ds[-1]]


def encode311(es):
    out = []
    for e in es:
        k, ln = e[0], e[1]
        if k == "LShort":
            out += [128 + e[2] * 8 + ln - 1, e[3]]
        elif k == "LOneLine":
            out += [128 + (10 + e[2]) * 8 + ln - 1, e[3], e[4]]
        elif k == "LNoCol":
            out += [128 + 13 * 8 + ln - 1] + enc_digits(e[2])
        elif k == "LLong":
            out += [128 + 14 * 8 + ln - 1] + enc_digits(e[2]) + enc_digits(e[3]) + enc_digits(e[4]) + enc_digits(e[5])
        else:
            out += [128 + 15 * 8 + ln - 1]
    return out


def entries_lit(es):
    parts = []
    for e in es:
        args = " ".join(C.zlist(a) if isinstance(a, list) else C.zlit(a) for a in e[1:])
        parts.append(f"{e[0]} {args}")
    return "[" + "; ".join(parts) + "]"


def tables311(rnd, n):
    """(table, first): mostly well-formed tables from the encoder, plus raw random bytes"""
    for es, f in entries311(rnd, n):
        yield encode311(es), f
    yield [], 1
    for _ in range(max(10, n // 8)):
        yield [rnd.randrange(256) for _ in range(rnd.randrange(1, 14))], rnd.choice([1, 1000])


# ---------------------------------------------------------------- exception table (3.11+)
def enc_exc_varint(v, first=False):
    """6 bits per byte, most significant first, bit 6 = continuation, bit 7 = entry start"""
    ds = []
    while True:
        ds.append(v & 63)
        v >>= 6
        if not v:
            break
    ds.reverse()
    out = [64 | d for d in ds[:-1]] + [ds[-1]]
    if first:
        out[0] |= 128
    return out


def exc_entries(rnd, n):
    out = []
    for _ in range(n):
        es = []
        for _ in range(rnd.randrange(0, 6)):
            start = rnd.choice([0, 1, 5, 63, 64, 100, 4095, 4096, 300000])
            size = rnd.choice([1, 2, 63, 64, 5000])
            target = rnd.choice([0, 7, 64, 4096, 262144])
            depth = rnd.choice([0, 1, 2, 31, 32, 100])
            lasti = rnd.random() < 0.4
            es.append((start, size, target, depth, lasti))
        out.append(es)
    return out


def encode_exc(es):
    out = []
    for start, size, target, depth, lasti in es:
        out += enc_exc_varint(start, True) + enc_exc_varint(size) + enc_exc_varint(target) + enc_exc_varint((depth << 1) | (1 if lasti else 0))
    return out

import importlib
import os
import subprocess
import sys

sys.path.insert(0, os.path.dirname(os.path.abspath(__file__)))
import common as C

GENS = [f[:-3] for f in sorted(os.listdir(os.path.join(C.VERIF, "tools/translate")))
        if f.endswith(".py") and not f.startswith(("dump_", "_"))]


def main():
    os.makedirs(C.GEN, exist_ok=True)
    for g in GENS:
        mod = importlib.import_module("translate." + g)
        if hasattr(mod, "generate"):
            print("generate", g, flush=True)
            mod.generate()
    bad = C.forbidden_scan()
    if bad:
        print("forbidden constructs:", bad)
        sys.exit(1)
    with C.BuildLock():
        C.coq_makefile()
        p = subprocess.run(["timeout", "3000", "make", f"-j{C.NCPU}", "-k"], cwd=C.COQ)
    # a failing obligation at setup time is reported by the checks themselves, not here
    print("setup: coq build rc", p.returncode)
    sys.exit(0)


if __name__ == "__main__":
    main()

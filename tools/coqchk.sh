#!/bin/bash
# Re-checks every compiled property file and everything it depends on with Coq's independent checker and prints the axioms used.
cd "$(dirname "$0")/../coq"
timeout 6000 coqchk -silent -o -R . Xdis $(ls Props/*.vo | sed 's|Props/\(.*\)\.vo|Xdis.Props.\1|')

#!/bin/bash
# Runs the thorough tier of every claimed check once (seed from VERIF_SEED or 1).
cd "$(dirname "$0")/.."
./setup.sh >/dev/null 2>&1
props=${1:-$(python3 -c "import json; print(' '.join(c['property_id'] for c in json.load(open('MANIFEST.json'))['checks']))")}
for p in $props; do
  t0=$(date +%s)
  out=$(VERIF_SEED=${VERIF_SEED:-1} ./check $p --tier thorough 2>&1 | tail -3 | cut -c1-400)
  echo "thorough $p ($(( $(date +%s) - t0 )) s) :: $(echo "$out" | tr '\n' ' ')"
done

# Runs under a reference interpreter: its own marshal.loads on given byte strings; the observation
# mirrors coq/Model/UnmarshalObs.v:obs_pv (strings: 2.x str -> bin, unicode -> text; 3.x bytes -> bin, str -> text).
import json, marshal, struct, sys, types
PY3 = sys.version_info[0] >= 3
if PY3:
    unicode = str
    long = int


def fbits(x):
    return struct.unpack("<Q", struct.pack("<d", x))[0]


def obs(v):
    if v is None: return [1]
    if v is True: return [2]
    if v is False: return [3]
    if v is Ellipsis: return [4]
    if v is StopIteration: return [5]
    if isinstance(v, (int, long)): return [17 if (not PY3 and isinstance(v, long)) else 6, int(v)]
    if isinstance(v, float): return [7, fbits(v)]
    if isinstance(v, complex): return [8, fbits(v.real), fbits(v.imag)]
    if isinstance(v, unicode):
        b = bytearray(v.encode("utf-8", "surrogatepass") if PY3 else v.encode("utf-8"))
        return [10, len(b)] + list(b)
    if isinstance(v, (bytes, bytearray)):
        b = bytearray(v)
        return [9, len(b)] + list(b)
    if isinstance(v, tuple):
        out = [11, len(v)]
        for x in v: out += obs(x)
        return out
    if isinstance(v, list):
        out = [12, len(v)]
        for x in v: out += obs(x)
        return out
    if isinstance(v, (set, frozenset)):
        items = sorted(obs(x) for x in v)
        out = [13 if isinstance(v, set) else 14, len(v)]
        for it in items: out += it
        return out
    if isinstance(v, dict):
        out = [15, len(v)]
        for it in sorted(obs(k) + obs(x) for k, x in v.items()): out += it
        return out
    if isinstance(v, types.CodeType):
        g = lambda n, d: getattr(v, n, d)
        ints = [v.co_argcount, g("co_posonlyargcount", -1), g("co_kwonlyargcount", 0), v.co_nlocals, v.co_stacksize, v.co_flags, v.co_firstlineno]
        lt = v.co_linetable if sys.version_info >= (3, 10) else v.co_lnotab
        objs = [v.co_code, v.co_consts, v.co_names, v.co_varnames, v.co_freevars, v.co_cellvars, v.co_filename, v.co_name,
                g("co_qualname", None), lt, g("co_exceptiontable", None)]
        out = [16] + [int(x) for x in ints]
        for o in objs: out += obs(o)
        return out
    raise TypeError(type(v))


def main():
    cases = json.load(sys.stdin)
    out = []
    for c in cases:
        data = bytes(bytearray(c["bytes"]))
        try:
            v = marshal.loads(data)
            out.append({"ok": [0] + obs(v)})
        except Exception as e:
            out.append({"err": type(e).__name__})
    sys.stdout.write("@@JSON@@" + json.dumps(out) + "\n")

if __name__ == '__main__':
    main()

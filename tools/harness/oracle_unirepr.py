# -*- coding: utf-8 -*-
# Runs under Python 2.7: compiles a source holding unicode constants, writes the .pyc, and prints what 2.7 itself shows for each
# unicode constant (repr), in co_consts order - the operand text its dis prints for LOAD_CONST.
import json, sys, marshal, imp, struct
SRC = u"# -*- coding: utf-8 -*-\na = u'abc'\nb = u'h\\xe9llo'\nc = u'uni\\xe9 \\u4e2d'\nd = u\"q's\"\ne = u'a\\nb\\t'\nf = u'\\U0001F600 x'\ng = u'back\\\\slash'\n".encode("utf-8")
def main():
    out = json.load(sys.stdin)["out"]
    co = compile(SRC, "uni.py", "exec")
    with open(out, "wb") as fh:
        fh.write(imp.get_magic() + struct.pack("<I", 0) + marshal.dumps(co))
    reprs = [repr(c) for c in co.co_consts if isinstance(c, unicode)]
    sys.stdout.write("@@JSON@@" + json.dumps({"reprs": reprs}) + "\n")
main()

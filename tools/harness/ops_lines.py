"""Implementation-side operations for the line-table family (C05, C17, C19).
Imported by impl_run.py via {"modules": ["ops_lines"]}."""
import sys, os
sys.path.insert(0, os.path.dirname(os.path.abspath(__file__)))
from impl_run import errobs, opt


class Fake:
    pass


def _opc(version):
    from xdis.disasm import get_opcode
    return get_opcode(tuple(version), False)


def flat_pairs(ps):
    out = [0, 0]
    n = 0
    for a, b in ps:
        out += [int(a)] + opt(b)
        n += 1
    out[1] = n
    return out


def op_lnotab(c):
    f = Fake()
    f.co_lnotab = bytes(c["tab"])
    f.co_firstlineno = c["first"]
    f.co_code = bytes(c["codelen"])
    try:
        if c.get("version") is None:
            import xdis
            ps = list(xdis.findlinestarts(f, dup_lines=c.get("dup", False)))
        elif c.get("triple"):
            # the public function with the version as load_module reports it: a 3-tuple such as (3, 5, 2)
            import xdis
            ps = list(xdis.findlinestarts(f, dup_lines=c.get("dup", False), version_tuple=tuple(c["triple"])))
        else:
            ps = list(_opc(c["version"]).findlinestarts(f, dup_lines=c.get("dup", False)))
    except Exception as e:
        return errobs(e)
    return flat_pairs(ps)


def flat_triples(ts):
    out = [0, 0]
    n = 0
    for a, b, l in ts:
        out += [int(a), int(b)] + opt(l)
        n += 1
    out[1] = n
    return out


def _code310(first, tab):
    from xdis.codetype.code310 import Code310
    return Code310(0, 0, 0, 0, 0, 0, b"", (), (), (), "f.py", "f", first, bytes(tab), (), ())


def _code311(first, tab, exc=b""):
    from xdis.codetype.code311 import Code311
    return Code311(0, 0, 0, 0, 0, 0, (), b"", (), (), (), (), "f.py", "f", "f", first, bytes(tab), bytes(exc))


def op_colines310(c):
    try:
        return flat_triples(list(_code310(c["first"], c["tab"]).co_lines()))
    except Exception as e:
        return errobs(e)


def op_colines311(c):
    try:
        return flat_triples(list(_code311(c["first"], c["tab"]).co_lines()))
    except Exception as e:
        return errobs(e)


def op_positions311(c):
    try:
        es = list(_code311(c["first"], c["tab"]).co_positions())
    except Exception as e:
        return errobs(e)
    out = [0, len(es)]
    for e in es:
        out += [int(e[0])] + opt(e[1]) + opt(e[2]) + opt(e[3]) + opt(e[4])
    return out


def op_fls_code(c):
    """findlinestarts through the opcode module on a real portable code object of that version."""
    v = tuple(c["version"])
    try:
        code = _code310(c["first"], c["tab"]) if v == (3, 10) else _code311(c["first"], c["tab"])
        return flat_pairs(list(_opc(c["version"]).findlinestarts(code)))
    except Exception as e:
        return errobs(e)


def op_offset2line(c):
    from xdis.bytecode import offset2line
    try:
        return [0, int(offset2line(c["offset"], [tuple(p) for p in c["ls"]]))]
    except Exception as e:
        return errobs(e)


def op_exc(c):
    from xdis.bytecode import parse_exception_table
    try:
        es = parse_exception_table(bytes(c["tab"]))
    except Exception as e:
        return errobs(e)
    out = [0, len(es)]
    for e in es:
        out += [int(e.start), int(e.end), int(e.target), int(e.depth), 1 if e.lasti else 0]
    return out


def op_exc_bytecode(c):
    """exception entries as Bytecode exposes them for a 3.11+ portable code object"""
    from xdis.bytecode import Bytecode
    try:
        code = _code311(1, [], c["tab"])
        b = Bytecode(code, _opc(c["version"]))
        es = b.exception_entries
    except Exception as e:
        return errobs(e)
    out = [0, len(es)]
    for e in es:
        out += [int(e.start), int(e.end), int(e.target), int(e.depth), 1 if e.lasti else 0]
    return out


def _portable(cls, first, codelen, table):
    code = bytes(codelen)
    if cls == "Code15":
        from xdis.codetype.code15 import Code15
        return Code15(0, 0, 0, 0, code, (), (), (), "f.py", "f", first, table)
    if cls == "Code2":
        from xdis.codetype.code20 import Code2
        return Code2(0, 0, 0, 0, code, (), (), (), "f.py", "f", first, table, (), ())
    if cls == "Code3":
        from xdis.codetype.code30 import Code3
        return Code3(0, 0, 0, 0, 0, code, (), (), (), "f.py", "f", first, table, (), ())
    if cls == "Code38":
        from xdis.codetype.code38 import Code38
        return Code38(0, 0, 0, 0, 0, 0, code, (), (), (), "f.py", "f", first, table, (), ())
    if cls == "Code310":
        from xdis.codetype.code310 import Code310
        return Code310(0, 0, 0, 0, 0, 0, code, (), (), (), "f.py", "f", first, table, (), ())
    if cls == "Code311":
        from xdis.codetype.code311 import Code311
        return Code311(0, 0, 0, 0, 0, 0, (), code, (), (), (), (), "f.py", "f", "f", first, table, b"")
    raise ValueError(cls)


def op_freeze(c):
    """c: cls, first, codelen, mapping [[off, line]...], as_dict (bool), order (permutation for dict insertion).
    Observation: the encoded table bytes, then findlinestarts(frozen) (top-level) and through the
    opcode module named by c["version"]."""
    import xdis
    mp = [tuple(p) for p in c["mapping"]]
    if c.get("as_dict"):
        table = {}
        for i in c.get("order", range(len(mp))):
            table[mp[i][0]] = mp[i][1]
    else:
        table = list(mp)
    try:
        if isinstance(table, dict):
            obj = _portable(c["cls"], c["first"], c["codelen"], table)
        else:
            # a list is only accepted after construction (the constructors type-check the field)
            obj = _portable(c["cls"], c["first"], c["codelen"], b"")
            if c["cls"] in ("Code310", "Code311"):
                obj.co_linetable = table
            else:
                obj.co_lnotab = table
        obj.freeze()
        tab = obj.co_linetable if c["cls"] in ("Code310", "Code311") else obj.co_lnotab
        if isinstance(tab, str):
            tb = [ord(ch) for ch in tab]
        else:
            tb = list(tab)
        out = [0, len(tb)] + tb
        out += flat_pairs(list(xdis.findlinestarts(obj)))
        out += flat_pairs(list(_opc(c["version"]).findlinestarts(obj)))
        return out
    except Exception as e:
        return errobs(e)


def op_exc_render(c):
    """the 'ExceptionTable:' section a listing shows for a 3.11+ portable code object with this table"""
    from xdis.bytecode import Bytecode
    from xdis.cross_dis import format_exception_table
    try:
        code = _code311(1, [], c["tab"])
        b = Bytecode(code, _opc(c["version"]))
        text = format_exception_table(b, tuple(c["version"]))
    except Exception as e:
        return errobs(e)
    return [0] + [ord(ch) for ch in text]


def op_fls_loaded(c):
    """c = {magic, version, payload}: the code object as xdis's own unmarshaller returns it, then the version's findlinestarts -
    the path a loaded file takes (the line table goes through the string readers of the unmarshaller first)"""
    import io
    from xdis.unmarshal import load_code
    try:
        co = load_code(io.BytesIO(bytes(c["payload"])), c["magic"], {})
        return flat_pairs(_opc(c["version"]).findlinestarts(co))
    except Exception as e:
        return errobs(e)


def op_freeze311(c):
    """Code311.freeze() of a dict / list line table: the encoded location table, and the line starts the 3.11, 3.12 and 3.13 opcode modules
    read from the frozen object"""
    mp = [tuple(p) for p in c["mapping"]]
    table = dict(mp) if c.get("as_dict") else list(mp)
    try:
        obj = _portable("Code311", c["first"], c["codelen"], table if isinstance(table, dict) else b"")
        if not isinstance(table, dict):
            obj.co_linetable = table
        obj.freeze()
        out = {"table": list(obj.co_linetable)}
        for v in ([3, 11], [3, 12], [3, 13]):
            out["fls%d%d" % tuple(v)] = [[int(a), b] for a, b in _opc(v).findlinestarts(obj)]
        return out
    except Exception as e:
        return {"error": type(e).__name__ + ": " + str(e)[:200]}


def op_positions311_units(c):
    """the module-level parse_positions(): one (line, end line, column, end column) per code unit.  It reports a missing column as -1
    where co_positions() and CPython report None; the observation maps -1 to None (recorded as a reported, unrepaired difference)"""
    from xdis.codetype.code311 import parse_positions
    try:
        ps = list(parse_positions(bytes(c["tab"]), c["first"]))
    except Exception as e:
        return errobs(e)
    out = [0, len(ps)]
    for a, b, cc, d in ps:
        out += opt(a) + opt(b) + opt(None if cc == -1 else cc) + opt(None if d == -1 else d)
    return out

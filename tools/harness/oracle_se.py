# Runs under a reference interpreter (3.6+): dis.stack_effect over every opcode and a set of operands.
# mode "quick": operands 0..300 + boundary values; "full": every operand below 2**16 + larger samples.
import dis, json, opcode, sys
mode = sys.argv[1] if len(sys.argv) > 1 else "quick"
if mode == "full":
    args = list(range(0, 65536)) + [65536, 65537, 2**20, 2**20 + 5, 2**24 + 3, 2**31 - 1]
else:
    args = list(range(0, 301)) + [511, 512, 1000, 4095, 4096, 65535, 65536, 65537, 2**20 + 5, 2**24 + 3]

def ev(f, x):
    """evaluate a formula text (as written by tools/translate/stackeffect.py:fit) at x"""
    t = f.replace("(", " ").replace(")", " ").split()
    k, a = t[0], [int(v) for v in t[1:]]
    if k == "FConst": return a[0]
    if k == "FLin": return a[0] * x + a[1]
    if k == "FBit": return a[1] if x & a[0] else a[2]
    if k == "FMaskEq": return a[2] if (x & a[0]) == a[1] else a[3]
    if k == "FEq": return a[1] if x == a[0] else a[2]
    if k == "FLoHi": return (x & 255) + (x >> 8) + a[0]
    if k == "FPop4": return a[0] - bool(x & 1) - bool(x & 2) - bool(x & 4) - bool(x & 8)
    if k == "FNone": return None
    raise ValueError(f)

if mode == "verify":
    # stdin: [[name, op, formula]]: check the formula against dis.stack_effect for every operand < 2**16 and beyond
    rows = json.load(sys.stdin)
    bad = []
    n = 0
    big = list(range(0, 65536)) + [65536, 65537, 2**20, 2**20 + 5, 2**24 + 3]
    for name, op, f in rows:
        has = (op in opcode.hasarg) if sys.version_info >= (3, 12) else op >= opcode.HAVE_ARGUMENT
        for a in (big if has else [0]):
            try:
                r = dis.stack_effect(op, a) if has else dis.stack_effect(op)
            except ValueError:
                r = None
            n += 1
            if ev(f, a) != r:
                bad.append((name, op, a, r, f))
                break
    sys.stdout.write("@@JSON@@" + json.dumps({"checked": n, "bad": bad}) + "\n")
    sys.exit(0)

out = []
for name, op in sorted(opcode.opmap.items(), key=lambda kv: kv[1]):
    if op >= 256 or name.startswith("INSTRUMENTED"):
        continue
    if sys.version_info >= (3, 12):
        has = op in opcode.hasarg
    else:
        has = op >= opcode.HAVE_ARGUMENT
    samples = []
    if has:
        for a in args:
            try:
                samples.append((a, dis.stack_effect(op, a)))
            except ValueError:
                samples.append((a, None))
    else:
        try:
            samples.append((0, dis.stack_effect(op)))
        except ValueError:
            samples.append((0, None))
    if mode == "full" and has:
        # keep the report small: the fit is done here, only a digest of samples is returned with it
        pass
    out.append((name, op, samples if mode != "full" else samples))
sys.stdout.write("@@JSON@@" + json.dumps(out) + "\n")

# Runs under a reference interpreter (3.6+): dis.get_instructions over code objects with marker tables.
import dis, json, opcode, sys
V = sys.version_info[:2]
def f(a, b, c, d):
    e = 1
    def g(): return a + e
    return g
base = f.__code__
MARK = {"consts": 30, "names": 20, "vars": 4, "cells": ["v0", "c1"], "frees": ["f0", "v1"]}
def enc(name): return ord(name[0]) * 1000 + int(name[1:])
def mk(code):
    kw = dict(co_code=bytes(bytearray(code)), co_consts=tuple(1000 + i for i in range(MARK["consts"])), co_names=tuple("n%d" % i for i in range(MARK["names"])),
              co_varnames=tuple("v%d" % i for i in range(MARK["vars"])), co_cellvars=tuple(MARK["cells"]), co_freevars=tuple(MARK["frees"]), co_nlocals=MARK["vars"])
    return base.replace(**kw)
def insts(co):
    # the byte-level entry points: they resolve operands but never touch the line / position tables
    # (a code object with made-up code can crash 3.12's co_positions())
    code = co.co_code
    if V >= (3, 13):
        labels = dis._make_labels_map(code)
        res = dis.ArgResolver(co_consts=co.co_consts, names=co.co_names, varname_from_oparg=co._varname_from_oparg, labels_map=labels)
        return dis._get_instructions_bytes(code, linestarts=None, arg_resolver=res)
    if V >= (3, 11):
        return dis._get_instructions_bytes(code, co._varname_from_oparg, co.co_names, co.co_consts)
    return dis._get_instructions_bytes(code, co.co_varnames, co.co_names, co.co_consts, co.co_cellvars + co.co_freevars)


def main():
    cases = json.load(sys.stdin)
    res = []
    cats = set(opcode.hasconst) | set(opcode.hasname) | set(opcode.haslocal) | set(opcode.hasfree) | set(opcode.hascompare)
    for c in cases:
        try:
            co = mk(c["code"])
            out = [0, 0]; n = 0
            for x in insts(co):
                if x.opcode not in cats or x.arg is None:
                    continue
                v = x.argval
                if x.opcode in opcode.hascompare:
                    o = [5, list(opcode.cmp_op).index(v)] if v in opcode.cmp_op else [8]
                elif isinstance(v, tuple):
                    o = [6] + sum(([2, enc(a)] if isinstance(a, str) else [9, int(a)] for a in v), [])
                elif isinstance(v, str):
                    o = [2, enc(v)]
                elif isinstance(v, int):
                    o = [1, v] if v >= 1000 else [9, v]
                else:
                    continue        # dis left the operand unresolved (UNKNOWN)
                out += [x.offset] + o; n += 1
            out[1] = n
            res.append({"obs": out})
        except Exception as e:
            res.append({"err": type(e).__name__ + ": " + str(e)[:100]})
    sys.stdout.write("@@JSON@@" + json.dumps(res) + "\n")
main()

"""C16 - runs under an implementation host (3.8 ... 3.13) with PYTHONPATH=/repo: converts native code objects of THIS
interpreter to xdis's portable type and back, and reports hashed field values for the in-Coq comparison."""
import hashlib
import os
import sys
import types
import warnings


def canon(v, depth=0):
    if isinstance(v, types.CodeType) or type(v).__name__.startswith("Code"):
        return ("code", getattr(v, "co_name", None), canon(getattr(v, "co_code", None)), getattr(v, "co_firstlineno", None),
                tuple(canon(c, depth + 1) for c in getattr(v, "co_consts", ())) if depth < 6 else None)
    if isinstance(v, (tuple, list)):
        return (type(v).__name__,) + tuple(canon(x, depth + 1) for x in v)
    if isinstance(v, frozenset):
        return ("frozenset",) + tuple(sorted(repr(canon(x, depth + 1)) for x in v))
    if isinstance(v, float):
        return ("float", v.hex())
    if isinstance(v, complex):
        return ("complex", v.real.hex(), v.imag.hex())
    return (type(v).__name__, repr(v))


def h(v):
    return int.from_bytes(hashlib.sha256(repr(canon(v)).encode("utf-8", "backslashreplace")).digest()[:7], "big")


def data_attrs(o):
    out = []
    with warnings.catch_warnings():
        warnings.simplefilter("ignore")
        for n in sorted(dir(o)):
            if n.startswith("co_"):
                v = getattr(o, n)
                if not callable(v):
                    out.append((n, v))
    return out


def all_codes(co, acc):
    acc.append(co)
    for c in co.co_consts:
        if isinstance(c, types.CodeType):
            all_codes(c, acc)
    return acc


class _S(str):
    pass


def op_codeconv(c):
    """c = {stdlib: [...], max_codes}: -> list of per-code-object records"""
    import oracle_compile as OC
    from xdis.codetype import codeType2Portable
    srcs = [(n, s) for n, s in OC.SOURCES]
    lib = os.path.dirname(os.__file__)
    for fn in c.get("stdlib", []):
        p = os.path.join(lib, fn)
        if os.path.exists(p) and os.path.getsize(p) < c.get("max_src", 60000):
            with open(p, "rb") as f:
                srcs.append((fn, f.read()))
    codes = []
    for name, src in srcs:
        try:
            top = compile(src, name + ".py" if not name.endswith(".py") else name, "exec")
        except Exception:
            continue
        for co in all_codes(top, []):
            codes.append((name, co))
    step = max(1, len(codes) // c.get("max_codes", 400))
    picked = codes[::step]
    # fields varied one at a time on real code objects (values the compiler does not produce together but the host accepts): a round trip
    # that recomputes one field from another, masks flag bits or assumes text is ASCII shows here
    variants = []
    fn_codes = [co for _, co in codes if co.co_name != "<module>" and co.co_varnames][:3]
    for co in fn_codes:
        for label, kw in (("nlocals+2", {"co_nlocals": co.co_nlocals + 2}), ("stacksize+7", {"co_stacksize": co.co_stacksize + 7}),
                          ("flag-annotations", {"co_flags": co.co_flags | 0x1000000}), ("firstlineno-0", {"co_firstlineno": 0}),
                          ("firstlineno-70000", {"co_firstlineno": 70000}), ("name-non-ascii", {"co_name": "n\u00e9_\u4e2d"}), ("filename-empty", {"co_filename": ""}),
                          # values the host accepts although no compiler makes them: a str subclass as name (bytecode tools make these)
                          ("name-str-subclass", {"co_name": _S("sub")})):
            try:
                variants.append(("variant:" + label, co.replace(**kw)))
            except Exception:
                pass        # this host does not accept the combination (3.11+ ties co_nlocals to the variable tables)
    out = []
    for name, co in picked + variants:
        rec = {"src": name, "name": co.co_name, "line": co.co_firstlineno, "host": list(sys.version_info[:2])}
        nat = data_attrs(co)
        rec["native"] = [[k, h(v)] for k, v in nat]
        try:
            with warnings.catch_warnings():
                warnings.simplefilter("ignore")
                p = codeType2Portable(co)
        except Exception as e:
            rec["portable_error"] = type(e).__name__ + ": " + str(e)[:200]
            out.append(rec)
            continue
        rec["cls"] = type(p).__name__
        rec["portable"] = [[k, h(v)] for k, v in sorted(vars(p).items()) if k.startswith("co_")]
        try:
            with warnings.catch_warnings():
                warnings.simplefilter("ignore")
                n = p.to_native()
        except Exception as e:
            rec["native_error"] = type(e).__name__ + ": " + str(e)[:200]
            out.append(rec)
            continue
        back = data_attrs(n)
        rec["back"] = [[k, h(v)] for k, v in back]
        rec["is_code"] = isinstance(n, types.CodeType)
        rec["eq"] = bool(n == co)
        rec["fields_differ"] = [k for (k, v), (k2, v2) in zip(nat, back) if k != k2 or h(v) != h(v2)] + ([] if len(nat) == len(back) else ["<attribute count>"])
        # replace(): a changed copy; the original (and the portable object's mutable parts) untouched
        before = [[k, h(v)] for k, v in sorted(vars(p).items()) if k.startswith("co_")]
        rp = {}
        try:
            q = p.replace(co_name="replaced_name", co_firstlineno=co.co_firstlineno + 1000)
            rp["new_values"] = q.co_name == "replaced_name" and q.co_firstlineno == co.co_firstlineno + 1000
            rp["distinct_object"] = q is not p
            rp["type_kept"] = type(q) is type(p)
            others = [k for k in vars(p) if k.startswith("co_") and k not in ("co_name", "co_firstlineno")]
            rp["others_kept"] = all(h(getattr(q, k)) == h(getattr(p, k)) for k in others)
            # zero / empty replacement values are values too
            falsy = {"co_flags": 0, "co_argcount": 0, "co_stacksize": 0, "co_names": (), "co_consts": (), "co_name": ""}
            falsy = {k: v for k, v in falsy.items() if hasattr(p, k)}
            qf = p.replace(**falsy)
            rp["falsy_values_set"] = all(getattr(qf, k) == v for k, v in falsy.items())
            # mutable state must not be shared
            p2 = codeType2Portable(co)
            p2.co_consts = list(p2.co_consts)
            p2.co_names = list(p2.co_names)
            q2 = p2.replace(co_name="x")
            q2.co_consts.append("extra")
            q2.co_names.append("extra")
            rp["no_sharing"] = len(p2.co_consts) == len(co.co_consts) and len(p2.co_names) == len(co.co_names)
            try:
                p.replace(co_no_such_field=1)
                rp["unknown_field_rejected"] = False
            except TypeError:
                rp["unknown_field_rejected"] = True
        except Exception as e:
            rp["error"] = type(e).__name__ + ": " + str(e)[:200]
        after = [[k, h(v)] for k, v in sorted(vars(p).items()) if k.startswith("co_")]
        rp["original_unchanged"] = before == after
        rec["replace"] = rp
        out.append(rec)
    return out

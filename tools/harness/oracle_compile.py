# Runs under a reference interpreter: compiles generated sources (and a few of its own stdlib modules)
# with ITS compiler, marshals the module code object with ITS marshal, and reports the payload bytes
# together with the observation of what ITS marshal.loads returns for them.
import json, marshal, os, sys
sys.path.insert(0, os.path.dirname(os.path.abspath(__file__)))
import oracle_marshal as OM  # obs(); its main() is guarded below

PY3 = sys.version_info[0] >= 3
V = sys.version_info[:2]

SOURCES = [
    ("consts", "a = 1\nb = -1\nc = 2**31\nd = 2**63\ne = 2**200 + 7\nf = 1.5\ng = -0.0\nh = 1e999\ni = 1j\nj = 'abc'\nk = b'\\xff\\x00'\n"
               "l = u'h\\xe9llo \\u4e2d'\nm = (1, 2, (3, 4))\nn = None\no = True\np = ...\n" if PY3 else
               "a = 1\nb = -1\nc = 2**31\nd = 2**63\ne = 2**200 + 7\nf = 1.5\ng = -0.0\nh = 1e999\ni = 1j\nj = 'abc'\nk = '\\xff\\x00'\n"
               "l = u'h\\xe9llo \\u4e2d'\nm = (1, 2, (3, 4))\nn = None\no = True\np64 = (-2**40, 2**40 + 3, -5000000000, -2147483649, 2**62)\n"),
    ("closure", "def outer(a, b=2, *c, **d):\n    x = a\n    def inner(y):\n        return x + y + a + b\n    return inner\n"),
    ("klass", "class K(object):\n    '''doc'''\n    z = 3\n    def m(self, q):\n        return [i * q for i in range(self.z)]\n"),
    ("sets", "def f(v):\n    return v in {1, 2, 3} or v in ('a', 'b') or v in frozenset([9])\n" if V >= (3, 2) else "def f(v):\n    return v in (1, 2, 3)\n"),
    ("bigtuple", "t = (" + ", ".join(str(i) for i in range(300)) + ")\nu = (" + ", ".join("'s%d'" % i for i in range(270)) + ")\n"),
    ("tryexc", "def g(x):\n    try:\n        with open(x) as fh:\n            for line in fh:\n                yield line\n    except (IOError, ValueError) as e:\n        raise RuntimeError(e)\n    finally:\n        x = None\n"),
    ("shared", "def h():\n    a = ('shared', 'tuple', 1.25)\n    b = ('shared', 'tuple', 1.25)\n    c = 'shared'\n    return a, b, c, 'shared', 1.25\n"
               # one complex, one big int and one bytes constant used by several code objects: written once and referenced (FLAG_REF) from 3.4 on
               "def k1():\n    return 2.5j, 2**70, b'shared bytes'\ndef k2():\n    return (2.5j, 'q r'), 2**70, b'shared bytes'\nk3 = (2.5j, 2**70)\n"),
]
SOURCES += [
    ("subscr", "def def_op(name, op):\n    opname[op] = name\n    opmap[name] = op\n\ndef g(a, i, j):\n    a[i] = a[j]\n    a[i:j] = a[j:i]\n    a[i] += 1\n    del a[j]\n    return a[i][j], a[::2], a[i:j:2]\n"),
    ("exprs", "def e(a, b, c, *r, **k):\n    x = a + b * c - (a // b) % c ** 2\n    y = (a < b < c) and not (a == b or b != c) or a is b or a is not c or a in r or b not in k\n"
              "    z = a if b else c\n    w = [a, b, *r] if r else (a, b)\n    d = {'\\n': a, 'k': b, 1: c}\n    s = {a, b}\n    f = lambda q, p=1: q + p\n    x += 1; y |= 2; z <<= 3\n"
              "    return f(a, p=b), e(*r, **k), -a, ~b, +c, (x, y, z, w, d, s)\n" if V >= (3, 5) else
              "def e(a, b, c, *r, **k):\n    x = a + b * c - (a // b) % c ** 2\n    y = (a < b < c) and not (a == b or b != c) or a is b or a is not c or a in r or b not in k\n"
              "    z = a if b else c\n    d = {'\\n': a, 'k': b, 1: c}\n    f = lambda q, p=1: q + p\n    x += 1; y |= 2; z <<= 3\n"
              "    return f(a, p=b), e(*r, **k), -a, ~b, +c, (x, y, z, d)\n"),
    ("flow", "import os, sys as system\nfrom os import path as p, sep\nfrom . import sibling\nG = 0\ndef fl(n):\n    global G\n    i = 0\n    while i < n:\n        i += 1\n        if i % 2:\n            continue\n"
             "        if i > 10:\n            break\n    else:\n        G = i\n    for a, (b, c) in []:\n        pass\n    assert n, 'msg'\n    try:\n        n = 1 // n\n    except ZeroDivisionError:\n        pass\n"
             "    except Exception as ex:\n        raise\n    else:\n        n = 2\n    finally:\n        del i\n    return [q for q in range(n) if q], {q: q for q in range(n)}, {q for q in range(n)}, (q for q in range(n))\n"),
    ("sharedset", "def s1(x):\n    return x in {'alpha', 'beta', 'gamma'}\ndef s2(x):\n    return x in {'alpha', 'beta', 'gamma'} or x == 'alpha'\ndef s3(x):\n    return 'gamma', 'beta', x in {'alpha', 'beta', 'gamma'}\n"),
    ("linegaps", "def lg(n):\n    a = n\n" + "\n" * 150 + "    b = a\n" + "\n" * 300 + "    while b:\n        b -= 1\n" + "\n" * 200 + "        a += b\n    return (a,\n" + "\n" * 140 + "            b)\n"
                 # a single step of more than 2047 lines: three-chunk varints in the 3.11+ location table, multi-entry gaps before
                 "def lg2(n):\n    a = n\n" + "\n" * 2100 + "    return a\n"),
    ("deco", "def dec(f):\n    return f\n@dec\nclass C(object):\n    a = 1\n    @staticmethod\n    def s(x=1, *y, **z):\n        return x\n    @property\n    def p(self):\n        return self.a\n"
             "    def m(self):\n        return super(C, self).__init__()\n"),
]
# byte strings inside containers of every reader: a tuple of more than 255 items (type code '(' even from 3.4), a small tuple, a frozenset
# built by the compiler for `in {...}`, nested tuples; text beside them
SOURCES.append(("bytesin", "bt = (" + ", ".join("b'k%d'" % i for i in range(260)) + ")\nst = (b'GET', 'text', (b'in', (b'ner',)))\n"
                "def meth(m):\n    return m in {b'GET', b'HEAD', b'\\xff'} or m in {'get', 'head'} or m in (b'PUT', b'PATCH')\n" if PY3 else
                "bt = (" + ", ".join("'k%d'" % i for i in range(260)) + ")\nst = ('GET', u'text', ('in', ('ner',)))\n"
                "def meth(m):\n    return m in ('GET', 'HEAD', '\\xff') or m in (u'get', u'head')\n"))
# every augmented assignment operator (the extended operand formatters build format strings from the operator text: '%=' needs care) and
# calls whose callee was made on the spot: zero-argument call of a fresh lambda, of a fresh generator expression's function
SOURCES.append(("augcalls", "def au(a, b):\n    a += b; a -= b; a *= b; a /= b; a //= b; a %= b; a **= b\n    a <<= b; a >>= b; a &= b; a |= b; a ^= b\n    c = a % b\n    return a, c\n"
                + ("def am(a, b):\n    a @= b\n    return a @ b\n" if V >= (3, 5) else "")
                + "x = (lambda: 1)()\ny = (lambda q: q)(2)\nz = (lambda *r, **k: r)(1, k=2)\ndef gen_type():\n    return type((lambda: (yield))())\n"))
if not PY3:
    SOURCES.append(("py2zoo", "def old(a, b, tb):\n    print >>a, b,\n    print a\n    exec 'x = 1' in {}\n    y = `a`\n    z = a <> b\n    try:\n        raise ValueError, b, tb\n    except ValueError, e:\n        raise e\n    return 0777, 10L, ur'x'\n"))
if V >= (3, 6):
    SOURCES.append(("fstr", "def fs(a, b):\n    v: int = 3\n    return f'{a!r:>{b}} and {a + b:.2f} {v}' + f'{a}'\n"))
if V >= (3, 10):
    SOURCES.append(("match", "def mt(c):\n    match c:\n        case [x, y, *rest]:\n            return x\n        case {'k': v, **kw}:\n            return v\n        case str() | int(real=1):\n            return c\n        case _:\n            return None\n"))
if V >= (3, 11):
    SOURCES.append(("excgroup", "def eg():\n    try:\n        pass\n    except* ValueError as e:\n        raise\n"))
if V >= (3, 12):
    SOURCES.append(("generic", "type A[T] = list[T]\ndef gen[T](x: T) -> T:\n    return x\nclass K[T]:\n    pass\n"))
if V >= (3, 5):
    SOURCES.append(("async", "async def co(a):\n    async with a as b:\n        async for c in b:\n            await c\n"))
if V >= (3, 8):
    SOURCES.append(("posonly", "def po(a, b, /, c, *, d=1):\n    return (x := a) + b + c + d\n"))
if V >= (3, 0):
    SOURCES.append(("kwonly", "def kw(a, *, k1, k2=2, **rest) -> int:\n    nonlocal_ = 1\n    def q():\n        nonlocal nonlocal_\n        nonlocal_ += 1\n    return k1\n"))
    SOURCES.append(("nonascii", "\u00e9t\u00e9 = '\u00e9'\ndef \u00fcber(\u03b1):\n    return \u03b1\n"))


def main():
    req = json.load(sys.stdin)
    out = []
    items = [(n, s) for n, s in SOURCES]
    lib = os.path.dirname(os.__file__)
    for fn in req.get("stdlib", []):
        p = os.path.join(lib, fn)
        if os.path.exists(p):
            try:
                with open(p, "rb") as f:
                    items.append((fn, f.read()))
            except Exception:
                pass
    for name, src in items:
        try:
            co = compile(src, name + ".py", "exec")
            payload = marshal.dumps(co)
        except Exception as e:
            continue
        if len(payload) > req.get("max_len", 4000):
            continue
        v = marshal.loads(payload)
        out.append({"name": name, "payload": list(bytearray(payload)), "obs": [0] + OM.obs(v)})
    sys.stdout.write("@@JSON@@" + json.dumps(out) + "\n")


if __name__ == "__main__":
    main()

# Runs under a reference interpreter: compiles generated sources (and a few of its own stdlib modules)
# with ITS compiler, marshals the module code object with ITS marshal, and reports the payload bytes
# together with the observation of what ITS marshal.loads returns for them.
import json, marshal, os, sys
sys.path.insert(0, os.path.dirname(os.path.abspath(__file__)))
import oracle_marshal as OM  # obs(); its main() is guarded below

PY3 = sys.version_info[0] >= 3
V = sys.version_info[:2]

SOURCES = [
    ("consts", "a = 1\nb = -1\nc = 2**31\nd = 2**63\ne = 2**200 + 7\nf = 1.5\ng = -0.0\nh = 1e999\ni = 1j\nj = 'abc'\nk = b'\\xff\\x00'\n"
               "l = u'h\\xe9llo \\u4e2d'\nm = (1, 2, (3, 4))\nn = None\no = True\np = ...\n" if PY3 else
               "a = 1\nb = -1\nc = 2**31\nd = 2**63\ne = 2**200 + 7\nf = 1.5\ng = -0.0\nh = 1e999\ni = 1j\nj = 'abc'\nk = '\\xff\\x00'\n"
               "l = u'h\\xe9llo \\u4e2d'\nm = (1, 2, (3, 4))\nn = None\no = True\n"),
    ("closure", "def outer(a, b=2, *c, **d):\n    x = a\n    def inner(y):\n        return x + y + a + b\n    return inner\n"),
    ("klass", "class K(object):\n    '''doc'''\n    z = 3\n    def m(self, q):\n        return [i * q for i in range(self.z)]\n"),
    ("sets", "def f(v):\n    return v in {1, 2, 3} or v in ('a', 'b') or v in frozenset([9])\n" if V >= (3, 2) else "def f(v):\n    return v in (1, 2, 3)\n"),
    ("bigtuple", "t = (" + ", ".join(str(i) for i in range(300)) + ")\nu = (" + ", ".join("'s%d'" % i for i in range(270)) + ")\n"),
    ("tryexc", "def g(x):\n    try:\n        with open(x) as fh:\n            for line in fh:\n                yield line\n    except (IOError, ValueError) as e:\n        raise RuntimeError(e)\n    finally:\n        x = None\n"),
    ("shared", "def h():\n    a = ('shared', 'tuple', 1.25)\n    b = ('shared', 'tuple', 1.25)\n    c = 'shared'\n    return a, b, c, 'shared', 1.25\n"),
]
if V >= (3, 5):
    SOURCES.append(("async", "async def co(a):\n    async with a as b:\n        async for c in b:\n            await c\n"))
if V >= (3, 8):
    SOURCES.append(("posonly", "def po(a, b, /, c, *, d=1):\n    return (x := a) + b + c + d\n"))
if V >= (3, 0):
    SOURCES.append(("kwonly", "def kw(a, *, k1, k2=2, **rest) -> int:\n    nonlocal_ = 1\n    def q():\n        nonlocal nonlocal_\n        nonlocal_ += 1\n    return k1\n"))
    SOURCES.append(("nonascii", "\u00e9t\u00e9 = '\u00e9'\ndef \u00fcber(\u03b1):\n    return \u03b1\n"))


def main():
    req = json.load(sys.stdin)
    out = []
    items = [(n, s) for n, s in SOURCES]
    lib = os.path.dirname(os.__file__)
    for fn in req.get("stdlib", []):
        p = os.path.join(lib, fn)
        if os.path.exists(p):
            try:
                with open(p, "rb") as f:
                    items.append((fn, f.read()))
            except Exception:
                pass
    for name, src in items:
        try:
            co = compile(src, name + ".py", "exec")
            payload = marshal.dumps(co)
        except Exception as e:
            continue
        if len(payload) > req.get("max_len", 4000):
            continue
        v = marshal.loads(payload)
        out.append({"name": name, "payload": list(bytearray(payload)), "obs": [0] + OM.obs(v)})
    sys.stdout.write("@@JSON@@" + json.dumps(out) + "\n")


if __name__ == "__main__":
    main()

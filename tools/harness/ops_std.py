"""C20 - runs under an implementation host (3.8 ... 3.13) with PYTHONPATH=/repo: compares xdis.std with THIS interpreter's
dis module on the objects dis accepts."""
import dis
import sys
import types
import warnings

V = sys.version_info[:2]

SRC = r'''
import os
G = 3
def plain(a, b=2, *c, k=1, **d):
    x = a + b
    for i in range(x):
        if i % 2:
            continue
        x += i
    while x > 100:
        x -= G
    return [x, c, d, k]

def closure(a):
    y = a * 2
    def inner(z):
        try:
            return y + z + a
        except (ValueError, KeyError) as e:
            raise RuntimeError(str(e))
        finally:
            os.getpid()
    return inner

def gen(n):
    for i in range(n):
        yield i
    yield from range(3)

async def coro(a):
    async with a as b:
        async for c in b:
            await c
    return [q async for q in a]

async def agen(n):
    for i in range(n):
        yield i

class K(object):
    """doc"""
    z = 3
    def method(self, q):
        return {i: q for i in range(self.z)}
    @classmethod
    def cm(cls):
        return cls.z
    @staticmethod
    def sm(a):
        return lambda b: a + b

def big():
    t = (''' + ", ".join(str(i) for i in range(300)) + r''')
    s = 0
    for v in t:
        s += v
    return s

def manyconsts():
    v = 0.5
    v = 1.5
    v = 2.5
    v = 3.5
    v = 4.5
    v = 5.5
    v = 6.5
    v = 7.5
    v = 8.5
    v = 9.5
    v = 10.5
    v = 11.5
    v = 12.5
    v = 13.5
    v = 14.5
    v = 15.5
    v = 16.5
    v = 17.5
    v = 18.5
    v = 19.5
    v = 20.5
    v = 21.5
    v = 22.5
    v = 23.5
    v = 24.5
    v = 25.5
    v = 26.5
    v = 27.5
    v = 28.5
    v = 29.5
    v = 30.5
    v = 31.5
    v = 32.5
    v = 33.5
    v = 34.5
    v = 35.5
    v = 36.5
    v = 37.5
    v = 38.5
    v = 39.5
    v = 40.5
    v = 41.5
    v = 42.5
    v = 43.5
    v = 44.5
    v = 45.5
    v = 46.5
    v = 47.5
    v = 48.5
    v = 49.5
    v = 50.5
    v = 51.5
    v = 52.5
    v = 53.5
    v = 54.5
    v = 55.5
    v = 56.5
    v = 57.5
    v = 58.5
    v = 59.5
    v = 60.5
    v = 61.5
    v = 62.5
    v = 63.5
    v = 64.5
    v = 65.5
    v = 66.5
    v = 67.5
    v = 68.5
    v = 69.5
    v = 70.5
    v = 71.5
    v = 72.5
    v = 73.5
    v = 74.5
    v = 75.5
    v = 76.5
    v = 77.5
    v = 78.5
    v = 79.5
    v = 80.5
    v = 81.5
    v = 82.5
    v = 83.5
    v = 84.5
    v = 85.5
    v = 86.5
    v = 87.5
    v = 88.5
    v = 89.5
    v = 90.5
    v = 91.5
    v = 92.5
    v = 93.5
    v = 94.5
    v = 95.5
    v = 96.5
    v = 97.5
    v = 98.5
    v = 99.5
    v = 100.5
    v = 101.5
    v = 102.5
    v = 103.5
    v = 104.5
    v = 105.5
    v = 106.5
    v = 107.5
    v = 108.5
    v = 109.5
    v = 110.5
    v = 111.5
    v = 112.5
    v = 113.5
    v = 114.5
    v = 115.5
    v = 116.5
    v = 117.5
    v = 118.5
    v = 119.5
    v = 120.5
    v = 121.5
    v = 122.5
    v = 123.5
    v = 124.5
    v = 125.5
    v = 126.5
    v = 127.5
    v = 128.5
    v = 129.5
    v = 130.5
    v = 131.5
    v = 132.5
    v = 133.5
    v = 134.5
    v = 135.5
    v = 136.5
    v = 137.5
    v = 138.5
    v = 139.5
    v = 140.5
    v = 141.5
    v = 142.5
    v = 143.5
    v = 144.5
    v = 145.5
    v = 146.5
    v = 147.5
    v = 148.5
    v = 149.5
    v = 150.5
    v = 151.5
    v = 152.5
    v = 153.5
    v = 154.5
    v = 155.5
    v = 156.5
    v = 157.5
    v = 158.5
    v = 159.5
    v = 160.5
    v = 161.5
    v = 162.5
    v = 163.5
    v = 164.5
    v = 165.5
    v = 166.5
    v = 167.5
    v = 168.5
    v = 169.5
    v = 170.5
    v = 171.5
    v = 172.5
    v = 173.5
    v = 174.5
    v = 175.5
    v = 176.5
    v = 177.5
    v = 178.5
    v = 179.5
    v = 180.5
    v = 181.5
    v = 182.5
    v = 183.5
    v = 184.5
    v = 185.5
    v = 186.5
    v = 187.5
    v = 188.5
    v = 189.5
    v = 190.5
    v = 191.5
    v = 192.5
    v = 193.5
    v = 194.5
    v = 195.5
    v = 196.5
    v = 197.5
    v = 198.5
    v = 199.5
    v = 200.5
    v = 201.5
    v = 202.5
    v = 203.5
    v = 204.5
    v = 205.5
    v = 206.5
    v = 207.5
    v = 208.5
    v = 209.5
    v = 210.5
    v = 211.5
    v = 212.5
    v = 213.5
    v = 214.5
    v = 215.5
    v = 216.5
    v = 217.5
    v = 218.5
    v = 219.5
    v = 220.5
    v = 221.5
    v = 222.5
    v = 223.5
    v = 224.5
    v = 225.5
    v = 226.5
    v = 227.5
    v = 228.5
    v = 229.5
    v = 230.5
    v = 231.5
    v = 232.5
    v = 233.5
    v = 234.5
    v = 235.5
    v = 236.5
    v = 237.5
    v = 238.5
    v = 239.5
    v = 240.5
    v = 241.5
    v = 242.5
    v = 243.5
    v = 244.5
    v = 245.5
    v = 246.5
    v = 247.5
    v = 248.5
    v = 249.5
    v = 250.5
    v = 251.5
    v = 252.5
    v = 253.5
    v = 254.5
    v = 255.5
    v = 256.5
    v = 257.5
    v = 258.5
    v = 259.5
    v = 260.5
    v = 261.5
    v = 262.5
    v = 263.5
    v = 264.5
    v = 265.5
    v = 266.5
    v = 267.5
    v = 268.5
    v = 269.5
    v = 270.5
    v = 271.5
    v = 272.5
    v = 273.5
    v = 274.5
    v = 275.5
    v = 276.5
    v = 277.5
    v = 278.5
    v = 279.5
    v = 280.5
    v = 281.5
    v = 282.5
    v = 283.5
    v = 284.5
    v = 285.5
    v = 286.5
    v = 287.5
    v = 288.5
    v = 289.5
    v = 290.5
    v = 291.5
    v = 292.5
    v = 293.5
    v = 294.5
    v = 295.5
    v = 296.5
    v = 297.5
    v = 298.5
    v = 299.5
    return v

def manylines(a):

    b = a


    c = b
    return (a,
            b,
            c)
'''


def objects():
    ns = {}
    code = compile(SRC, "<c20>", "exec")
    exec(code, ns)
    k = ns["K"]()
    g = ns["gen"](3)
    co = ns["coro"](None)
    ag = ns["agen"](2)
    inner = ns["closure"](1)
    objs = [("function", ns["plain"]), ("closure-inner", inner), ("bound-method", k.method), ("classmethod", ns["K"].cm), ("staticmethod-result", ns["K"].sm),
            ("lambda", ns["K"].sm(1)), ("generator", g), ("coroutine", co), ("async-generator", ag), ("code", ns["plain"].__code__), ("module-code", code),
            ("source-expr", "a + b * 3"), ("source-stmt", "x = 1\nfor i in y:\n    x += i\n"), ("big", ns["big"]), ("manylines", ns["manylines"]), ("manyconsts", ns["manyconsts"]),
            ("gen-function", ns["gen"]), ("coro-function", ns["coro"]), ("class-method-function", ns["K"].method)]
    # two functions whose code objects compare equal on hosts up to 3.10 (same name, first line, code bytes and constants) but whose
    # line tables differ: anything remembered per code object *value* answers the second with the first one's lines
    tw = []
    for src in ("def twin(a):\n    b = a\n\n\n    return b\n", "def twin(a):\n\n\n    b = a\n    return b\n"):
        n2 = {}
        exec(compile(src, "<c20>", "exec"), n2)
        tw.append(n2["twin"])
    objs += [("twin-a", tw[0]), ("twin-b", tw[1])]
    extra = []
    for name, o in list(objs):
        c = getattr(o, "__code__", None)
        if c is not None:
            for cst in c.co_consts:
                if isinstance(cst, types.CodeType):
                    extra.append((name + "/nested:" + cst.co_name, cst))
    return objs + extra, (co,)


def norm_dis(ins):
    """a dis.Instruction of this host -> comparable tuple"""
    if V >= (3, 13):
        line = ins.line_number if ins.starts_line else None
    else:
        line = ins.starts_line
    return ins


def row_dis(i):
    if V >= (3, 13):
        line = i.line_number if i.starts_line else None
    else:
        line = i.starts_line
    return {"opcode": i.opcode, "opname": i.opname, "arg": i.arg, "offset": i.offset, "target": bool(i.is_jump_target), "line": line, "argval": argval_key(i.argval)}


def row_x(i):
    return {"opcode": i.opcode, "opname": i.opname, "arg": i.arg, "offset": i.offset, "target": bool(i.is_jump_target), "line": i.starts_line, "argval": argval_key(i.argval)}


def argval_key(v):
    if isinstance(v, types.CodeType) or type(v).__name__.startswith("Code"):
        return "code:" + str(getattr(v, "co_name", "?"))
    return repr(v)


EXTRA_CACHE = [0]


def compare_streams(d, x, fields):
    # dis hides CACHE entries unless show_caches=True (3.11, 3.12) and has none at all from 3.13; xdis.std always yields them
    EXTRA_CACHE[0] += max(0, sum(r["opname"] == "CACHE" for r in x) - sum(r["opname"] == "CACHE" for r in d))
    d = [r for r in d if r["opname"] != "CACHE"]
    x = [r for r in x if r["opname"] != "CACHE"]
    if len(d) != len(x):
        return {"kind": "length", "dis": len(d), "xdis": len(x)}
    for a, b in zip(d, x):
        for f in fields:
            if a[f] != b[f]:
                return {"kind": "field", "field": f, "dis": a, "xdis": b}
    return None


def table_argval(opc, op):
    return op in opc.hasconst or op in opc.hasname or op in opc.haslocal or op in opc.hasfree or op in opc.hasjrel or op in opc.hasjabs


CHAIN_ATTRS = ["__func__", "__code__", "func_code", "gi_code", "ag_code", "cr_code", "co_code"]


def tree(x, path, depth=0):
    """the attribute tree the coercion chains look at; every node carries its path as an attribute name"""
    attrs = [["id:" + path, None]]
    for a in CHAIN_ATTRS:
        if hasattr(x, a):
            if a == "co_code" or depth >= 3:
                attrs.append([a, {"str": False, "attrs": []}])
            else:
                attrs.append([a, tree(getattr(x, a), path + "." + a, depth + 1)])
    return {"str": isinstance(x, str), "attrs": attrs}


def coercion_outcome(S, o):
    from xdis.cross_dis import get_code_object
    try:
        r = get_code_object(o)
    except TypeError:
        return "TypeError"
    except AttributeError:
        return "AttributeError"
    cands = []
    # a bound method also answers x.__code__ (delegated to its function): the chain's own path comes first
    if hasattr(o, "__func__"):
        for a in ("__code__", "gi_code", "ag_code", "cr_code"):
            if hasattr(o.__func__, a):
                cands.append(("x.__func__." + a, getattr(o.__func__, a)))
        cands.append(("x.__func__", o.__func__))
    cands.append(("x", o))
    for a in ("__code__", "gi_code", "ag_code", "cr_code"):
        if hasattr(o, a):
            cands.append(("x." + a, getattr(o, a)))
    for p, v in cands:
        if r is v:
            return p
    if isinstance(o, str):
        return "compiled"
    return "other"


def exc_boundaries(co):
    try:
        ents = dis._parse_exception_table(co)
    except Exception:
        return set()
    out = set()
    for e in ents:
        out.add(e.start)
        out.add(e.end)
    return out


def op_stdcmp(c):
    """-> {"checked": n, "mismatches": [...], "by_api": {...}}"""
    warnings.simplefilter("ignore")
    import xdis.std as S
    out = {"host": list(V), "mismatches": [], "checked": {}}

    def miss(api, what, detail):
        if len(out["mismatches"]) < 40:
            out["mismatches"].append({"api": api, "object": what, "detail": detail})

    def cnt(api):
        out["checked"][api] = out["checked"].get(api, 0) + 1

    objs, to_close = objects()
    FIELDS = ["opcode", "opname", "arg", "offset", "target", "line"]
    for name, o in objs:
        for first_line in (None, 0, 1, 500):
            api = "get_instructions" + ("" if first_line is None else "(first_line)")
            try:
                d = [row_dis(i) for i in (dis.get_instructions(o) if first_line is None else dis.get_instructions(o, first_line=first_line))]
            except Exception as e:
                d = e
            try:
                x = [row_x(i) for i in (S.get_instructions(o) if first_line is None else S.get_instructions(o, first_line=first_line))]
            except Exception as e:
                x = e
            cnt(api)
            if isinstance(d, Exception):
                continue       # dis itself does not accept it: nothing is claimed
            if isinstance(x, Exception):
                miss(api, name, {"kind": "raised", "xdis": type(x).__name__ + ": " + str(x)[:150], "first_line": first_line})
                continue
            r = compare_streams(d, x, FIELDS)
            if r is None:
                # argval where dis resolves through a table or a jump
                opc = S.opc
                for a, b in zip([q for q in d if q["opname"] != "CACHE"], [q for q in x if q["opname"] != "CACHE"]):
                    if table_argval(opc, a["opcode"]) and a["argval"] != b["argval"]:
                        r = {"kind": "field", "field": "argval", "dis": a, "xdis": b}
                        break
            if r is not None:
                r["first_line"] = first_line
                miss(api, name, r)
        # Bytecode class
        cnt("Bytecode")
        try:
            d = [row_dis(i) for i in dis.Bytecode(o)]
        except Exception as e:
            d = None
        if d is not None:
            try:
                x = [row_x(i) for i in S.Bytecode(o)]
                r = compare_streams(d, x, FIELDS)
                if r is not None:
                    cobj = o if isinstance(o, types.CodeType) else getattr(o, "__code__", None) or getattr(o, "gi_code", None) or getattr(o, "cr_code", None) or getattr(o, "ag_code", None)
                    if r.get("field") == "target" and cobj is not None:
                        r["exc_range_boundary"] = r["dis"]["offset"] in exc_boundaries(cobj)
                    miss("Bytecode", name, r)
            except Exception as e:
                miss("Bytecode", name, {"kind": "raised", "xdis": type(e).__name__ + ": " + str(e)[:150]})
            try:
                d1 = [row_dis(i) for i in dis.Bytecode(o, first_line=77)]
                x1 = [row_x(i) for i in S.Bytecode(o, first_line=77)]
                r = compare_streams(d1, x1, FIELDS)
                cnt("Bytecode(first_line)")
                if r is not None:
                    cobj = o if isinstance(o, types.CodeType) else getattr(o, "__code__", None) or getattr(o, "gi_code", None) or getattr(o, "cr_code", None) or getattr(o, "ag_code", None)
                    if r.get("field") == "target" and cobj is not None:
                        r["exc_range_boundary"] = r["dis"]["offset"] in exc_boundaries(cobj)
                    miss("Bytecode(first_line)", name, r)
            except Exception as e:
                miss("Bytecode(first_line)", name, {"kind": "raised", "xdis": type(e).__name__ + ": " + str(e)[:150]})
        co = o if isinstance(o, types.CodeType) else getattr(o, "__code__", None)
        if co is not None:
            cnt("findlabels")
            try:
                dl, xl = list(dis.findlabels(co.co_code)), list(S.findlabels(co.co_code))
                if dl != xl:
                    miss("findlabels", name, {"dis": dl[:30], "xdis": xl[:30]})
            except Exception as e:
                miss("findlabels", name, {"kind": "raised", "xdis": type(e).__name__ + ": " + str(e)[:150]})
            cnt("findlinestarts")
            try:
                dl, xl = list(dis.findlinestarts(co)), list(S.findlinestarts(co))
                if dl != xl:
                    miss("findlinestarts", name, {"dis": dl[:30], "xdis": xl[:30]})
            except Exception as e:
                miss("findlinestarts", name, {"kind": "raised", "xdis": type(e).__name__ + ": " + str(e)[:150]})
    # the glue the Coq model describes: coercion outcome per object, first_line shift per instruction
    out["coercion"] = []
    class Duck(object):
        pass
    d1 = Duck(); d1.co_code = b""
    d2 = Duck(); d2.__code__ = d1
    d3 = Duck(); d3.__func__ = d2
    d4 = Duck(); d4.gi_code = d1; d4.cr_code = 5
    d5 = Duck(); d5.cr_code = 5
    d6 = Duck(); d6.__func__ = 5
    for name, o in objs + [("int", 5), ("none", None), ("class", Duck), ("duck-code", d1), ("duck-fn", d2), ("duck-method", d3), ("duck-gen", d4), ("duck-bad-coro", d5), ("duck-bad-method", d6)]:
        out["coercion"].append({"object": name, "tree": tree(o, "x"), "outcome": coercion_outcome(S, o)})
    out["shifts"] = []
    for name, o in objs[:12]:
        try:
            co = o if isinstance(o, types.CodeType) else (compile(o, "<disassembly>", "exec") if isinstance(o, str) else None)
            base = [i.starts_line for i in S.get_instructions(o)]
            for f in (0, 1, 77, 100000):
                sh = [i.starts_line for i in S.get_instructions(o, first_line=f)]
                from xdis.cross_dis import get_code_object
                fl = get_code_object(o).co_firstlineno
                out["shifts"].append({"object": name, "first_line": f, "firstlineno": fl, "pairs": [[a, b] for a, b in zip(base, sh)][:60]})
        except Exception as e:
            out["shifts"].append({"object": name, "error": type(e).__name__})
    # module-level tables
    cnt("tables")
    if dict(S.opmap) != {k: v for k, v in dis.opmap.items()}:
        a, b = dict(S.opmap), dict(dis.opmap)
        miss("opmap", "-", {"only_dis": sorted(set(b.items()) - set(a.items()))[:10], "only_xdis": sorted(set(a.items()) - set(b.items()))[:10]})
    dn = list(dis.opname)
    xn = list(S.opname)
    bad = [(i, dn[i], xn[i]) for i in range(min(len(dn), len(xn), 256)) if dn[i] != xn[i] and not (dn[i].startswith("<") and xn[i].startswith("<"))]
    if bad:
        miss("opname", "-", {"differ": bad[:10]})
    for nm in ("hasconst", "hasname"):
        if sorted(getattr(S, nm)) != sorted(getattr(dis, nm)):
            miss(nm, "-", {"dis": sorted(getattr(dis, nm)), "xdis": sorted(getattr(S, nm))})
    for nm in ("HAVE_ARGUMENT", "EXTENDED_ARG"):
        if getattr(S, nm) != getattr(dis, nm):
            miss(nm, "-", {"dis": getattr(dis, nm), "xdis": getattr(S, nm)})
    for cr in to_close:
        cr.close()
    out["extra_cache_instructions"] = EXTRA_CACHE[0]
    return out


def op_make_std_api(c):
    """c = {version: [maj, min], file: pyc of that version}: make_std_api(version) on that version's code objects -> rows"""
    warnings.simplefilter("ignore")
    from xdis.std import make_std_api
    from xdis.load import load_module
    from xdis.codetype.base import iscode
    api = make_std_api(tuple(c["version"]))
    v, ts, magic, co, pypy, size, sip = load_module(c["file"])
    out = []
    stack = [co]
    n = 0
    while stack and n < c.get("max_codes", 6):
        k = stack.pop()
        n += 1
        rec = {"name": str(k.co_name)}
        try:
            rec["rows"] = [[i.offset, i.opcode, i.opname, i.arg, bool(i.is_jump_target), i.starts_line] for i in api.get_instructions(k)]
            rec["bytecode_rows"] = [[i.offset, i.opcode, i.opname, i.arg, bool(i.is_jump_target), i.starts_line] for i in api.Bytecode(k)]
            rec["labels"] = list(api.findlabels(k.co_code))
            rec["linestarts"] = [list(t) for t in api.findlinestarts(k)]
        except Exception as e:
            rec["raised"] = type(e).__name__ + ": " + str(e)[:200]
        out.append(rec)
        for cst in k.co_consts:
            if iscode(cst):
                stack.append(cst)
    return {"api_version": list(api.python_version_tuple[:2]), "opmap_size": len(api.opmap), "codes": out}

# Runs under a reference interpreter: compiles a tiny source in every invalidation mode it
# supports and reports the header bytes with the ground-truth field values.
import json, os, sys, tempfile, py_compile, shutil
d = tempfile.mkdtemp(prefix="xdis-hdr-", dir="/var/tmp")
out = []
try:
    src = os.path.join(d, "m.py")
    with open(src, "w") as f:
        f.write("x = 1\n" * int(sys.argv[1]) if len(sys.argv) > 1 else "x = 1\n")
    mt = int(sys.argv[2]) if len(sys.argv) > 2 else 1234567890
    os.utime(src, (mt, mt))
    size = os.path.getsize(src)
    modes = [None]
    if sys.version_info >= (3, 7):
        modes = [py_compile.PycInvalidationMode.TIMESTAMP, py_compile.PycInvalidationMode.CHECKED_HASH, py_compile.PycInvalidationMode.UNCHECKED_HASH]
    for mode in modes:
        dst = os.path.join(d, "m.pyc")
        if mode is None:
            py_compile.compile(src, cfile=dst, doraise=True)
        else:
            py_compile.compile(src, cfile=dst, doraise=True, invalidation_mode=mode)
        data = bytearray(open(dst, "rb").read())
        rec = {"version": list(sys.version_info[:2]), "head": list(data[:16]), "len": len(data), "mode": str(mode)}
        if mode is not None and "HASH" in str(mode):
            import importlib.util
            h = importlib.util.source_hash(open(src, "rb").read())
            rec["hash"] = int.from_bytes(h, "little"); rec["ts"] = None; rec["size"] = None
        else:
            rec["hash"] = None; rec["ts"] = mt
            rec["size"] = size if sys.version_info >= (3, 3) else None
        # where does the code object start?  marshal.loads must accept data[k:] exactly at the header end
        import marshal
        k = 8 if sys.version_info < (3, 3) else (12 if sys.version_info < (3, 7) else 16)
        marshal.loads(bytes(data[k:]))
        rec["code_at"] = k
        out.append(rec)
finally:
    shutil.rmtree(d, ignore_errors=True)
sys.stdout.write("@@JSON@@" + json.dumps(out) + "\n")

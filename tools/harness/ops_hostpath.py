"""C07 - runs under an implementation host with PYTHONPATH=/repo.  For one bytecode file and one loader path, everything
the property lists: header tuple, code-object content (all fields, constants by kind and value), instruction stream,
labels, line starts, classic listing text (addresses and the banner line naming the host removed)."""
import contextlib
import io
import re
import sys
import types
import warnings

ADDR = re.compile(r"0x[0-9a-fA-F]+")


def iscodeobj(v):
    return isinstance(v, types.CodeType) or (type(v).__name__.startswith("Code") and hasattr(v, "co_code"))


def cval(v, depth=0):
    """constants by kind and value"""
    if iscodeobj(v):
        return ["code", str(getattr(v, "co_name", ""))]
    if isinstance(v, bool) or v is None or v is Ellipsis:
        return [type(v).__name__, repr(v)]
    if isinstance(v, int):
        return ["int", str(v)]
    if isinstance(v, float):
        return ["float", v.hex()]
    if isinstance(v, complex):
        return ["complex", v.real.hex(), v.imag.hex()]
    if isinstance(v, str):
        return ["str", v.encode("utf-8", "surrogatepass").hex()]
    if isinstance(v, (bytes, bytearray)):
        return ["bytes", bytes(v).hex()]
    if isinstance(v, (tuple, list)):
        return [type(v).__name__] + [cval(x, depth + 1) for x in v]
    if isinstance(v, (set, frozenset)):
        return [type(v).__name__] + sorted(repr(cval(x, depth + 1)) for x in v)
    return [type(v).__name__, ADDR.sub("0xX", repr(v))]


def line_table(co, vt):
    if vt >= (3, 10) and hasattr(co, "co_linetable"):
        return co.co_linetable
    with warnings.catch_warnings():
        warnings.simplefilter("ignore")
        return getattr(co, "co_lnotab", None)


def content(co, vt):
    f = {}
    for n in ("co_argcount", "co_posonlyargcount", "co_kwonlyargcount", "co_nlocals", "co_stacksize", "co_flags", "co_firstlineno"):
        if hasattr(co, n) and (n != "co_posonlyargcount" or vt >= (3, 8)) and (n != "co_kwonlyargcount" or vt >= (3, 0)):
            f[n] = getattr(co, n)
    for n in ("co_code", "co_names", "co_varnames", "co_freevars", "co_cellvars", "co_filename", "co_name"):
        if hasattr(co, n):
            f[n] = cval(getattr(co, n))
    if vt >= (3, 11):
        f["co_qualname"] = cval(getattr(co, "co_qualname", None))
        f["co_exceptiontable"] = cval(getattr(co, "co_exceptiontable", None))
    lt = line_table(co, vt)
    f["line_table"] = cval(lt if not isinstance(lt, str) else lt.encode("latin-1"))
    f["co_consts"] = [cval(c) for c in co.co_consts]
    return f


def op_hostpath(c):
    """c = {file, path: default | portable | converted}"""
    warnings.simplefilter("ignore")
    import xdis.load
    from xdis.bytecode import Bytecode
    from xdis.disasm import get_opcode, disco
    from xdis.codetype import codeType2Portable
    # the switch of the native fast path: load.py compares the file's magic with its module global PYTHON_MAGIC_INT
    has_switch = hasattr(xdis.load, "PYTHON_MAGIC_INT")
    saved = getattr(xdis.load, "PYTHON_MAGIC_INT", None)
    if c["path"] == "portable" and not has_switch:
        raise RuntimeError("xdis.load has no PYTHON_MAGIC_INT: the harness cannot switch the fast path off")
    out = {"host": list(sys.version_info[:2]), "path": c["path"]}
    so = io.StringIO()
    try:
        with contextlib.redirect_stdout(so), contextlib.redirect_stderr(so):
            if c["path"] == "portable":
                xdis.load.PYTHON_MAGIC_INT = -1          # never equal to a file's magic: xdis's own unmarshaller reads it
            vt, ts, magic, co, pypy, size, sip = xdis.load.load_module(c["file"])
            out["native"] = isinstance(co, types.CodeType)
            if c["path"] == "converted":
                if not isinstance(co, types.CodeType):
                    return {"skip": "not a native code object on this host"}
                top = codeType2Portable(co)
            else:
                top = co
            out["header"] = [list(vt[:2]), ts, magic, bool(pypy), size, sip]
            opc = get_opcode(vt, pypy)
            codes = []
            queue = [top]
            while queue and len(codes) < c.get("max_codes", 12):
                k = queue.pop(0)
                bc = Bytecode(k, opc, dup_lines=False)
                rows = [[i.offset, i.opcode, i.opname, i.arg, cval(i.argval), bool(i.is_jump_target), i.starts_line] for i in bc]
                rec = {"name": str(k.co_name), "content": content(k, tuple(vt[:2])), "rows": rows, "labels": sorted(opc.findlabels(k.co_code, opc)),
                       "linestarts": [list(t) for t in opc.findlinestarts(k, dup_lines=True)]}
                codes.append(rec)
                for cst in k.co_consts:
                    if iscodeobj(cst):
                        queue.append(cst)
            out["codes"] = codes
            lst = io.StringIO()
            disco(vt, top, ts, out=lst, is_pypy=pypy, magic_int=magic, source_size=size, sip_hash=sip, asm_format="classic")
            text = ADDR.sub("0xX", lst.getvalue())
            # the banner naming the host: "# Disassembled from Python <sys.version>", which spans two lines when sys.version does
            lines = text.split("\n")
            keep = []
            skip_cont = False
            for ln in lines:
                if ln.startswith("# Disassembled from"):
                    skip_cont = True
                    continue
                if skip_cont and re.match(r"^# \[.*\]$", ln):
                    skip_cont = False
                    continue
                skip_cont = False
                keep.append(ln)
            out["listing"] = keep
    except Exception as e:
        import traceback
        tb = traceback.extract_tb(e.__traceback__)[-1]
        out["raised"] = type(e).__name__ + ": " + str(e)[:200] + " at %s:%s" % (tb[0], tb[1])
    finally:
        if has_switch:
            xdis.load.PYTHON_MAGIC_INT = saved
    return out

"""Runs under the implementation host: for each source, compile it with the TARGET interpreter, load the
.pyc with xdis, write it back with write_bytecode_file, and let the TARGET interpreter compare its own
marshal.loads of the two files field by field (code-object ==).  Also re-read the written file with xdis."""
import contextlib, io, json, os, shutil, subprocess, sys, tempfile
sys.path.insert(0, os.path.dirname(os.path.abspath(__file__)))

SOURCES = {
    "consts": "# -*- coding: utf-8 -*-\nx = 'str'\ny = u'uni\\xe9 \\u4e2d'\nz = (1, 2.5, 2**70, -2**31, None, 'a', b'b\\xff', 1e300, -0.0, 3j)\nw = 2**31\n",
    "funcs": "def f(a, b=3, *c, **d):\n    '''doc'''\n    q = a\n    def g(y):\n        return q + y + b\n    return [g(i) for i in range(2)]\nclass K(object):\n    v = {1: 2, 'k': (None,)}\n    def m(self):\n        try:\n            return self.v[1]\n        except KeyError:\n            raise\n        finally:\n            pass\n",
    "posonly": "def q(a, b, /, c, *, d, e=1):\n    return a + b + c + d + e\ndef k(*, x):\n    return x\ndef p(a, /):\n    return lambda z, /, *, w: (a, z, w)\n",
    # the file name itself is not ASCII: co_filename of a Python 2 code object is then a str holding UTF-8 bytes
    "caf\u00e9": "# -*- coding: utf-8 -*-\ndef f(x):\n    return x\nk = 'caf\\xc3\\xa9'\nr = '\\xff\\xfe'\nn = 2 ** 40\nm = -2 ** 63\n",
    "big": "t = (" + ", ".join(str(i) for i in range(300)) + ")\ns = 'x' * 3\n" + "\n".join("v%d = %d" % (i, i) for i in range(40)) + "\n",
}
CHK = ("import marshal,sys\nV=sys.version_info\n"
       "def ld(p):\n d=open(p,'rb').read()\n k=8 if V<(3,3) else (12 if V<(3,7) else 16)\n return marshal.loads(d[k:]), d[:k]\n"
       "F=[n for n in ('co_argcount','co_posonlyargcount','co_kwonlyargcount','co_nlocals','co_stacksize','co_flags','co_code','co_names','co_varnames',"
       "'co_freevars','co_cellvars','co_filename','co_name','co_qualname','co_firstlineno','co_lnotab','co_linetable','co_exceptiontable')]\n"
       "def same(a,b):\n"
       " if type(a) is not type(b): return False\n"
       " if hasattr(a,'co_code'):\n"
       "  for n in F:\n"
       "   if (V<(3,10) or n!='co_lnotab') and hasattr(a,n) and not same(getattr(a,n),getattr(b,n)): return False\n"
       "  return same(a.co_consts,b.co_consts)\n"
       " if isinstance(a,(tuple,list)): return len(a)==len(b) and all(same(x,y) for x,y in zip(a,b))\n"
       " if isinstance(a,float): return repr(a)==repr(b)\n"
       " if isinstance(a,complex): return repr(a)==repr(b)\n"
       " if isinstance(a,(set,frozenset)): return sorted(map(repr,a))==sorted(map(repr,b))\n"
       " return a==b\n"
       "a,ha=ld(sys.argv[1]); b,hb=ld(sys.argv[2])\n"
       "sys.stdout.write('%d %d\\n' % (a==b, same(a,b)))\n")


def float_reprs(code):
    import struct
    fl = {}

    def walk(v):
        if isinstance(v, float):
            fl[struct.unpack("<Q", struct.pack("<d", v))[0]] = list(repr(v).encode())
        elif isinstance(v, complex):
            walk(v.real); walk(v.imag)
        elif isinstance(v, (tuple, list, set, frozenset)):
            for x in v:
                walk(x)
        elif isinstance(v, dict):
            for k, x in v.items():
                walk(k); walk(x)
        elif hasattr(v, "co_consts"):
            for x in v.co_consts:
                walk(x)
    walk(code)
    return sorted(fl.items())


def header_len(vt):
    return 8 if vt < (3, 3) else (12 if vt < (3, 7) else 16)


def one(rec, pyc, wr, exe, buf, load_module, write_bytecode_file, obs_value):
    """load pyc, write it back to wr, record payloads (writer-supported layouts), let the target judge, re-read with xdis"""
    try:
        with contextlib.redirect_stdout(buf), contextlib.redirect_stderr(buf):
            t = load_module(pyc)
    except Exception as e:
        rec["load_error"] = type(e).__name__ + ": " + str(e)[:200]
        return
    try:
        with contextlib.redirect_stdout(buf), contextlib.redirect_stderr(buf):
            vt = tuple(t[0][:2])
            rec["version"] = list(vt)
            write_bytecode_file(wr, t[3], t[2], compilation_ts=1234567, filesize=99)
        rec["written"] = True
        if (2, 0) <= vt < (3, 11):
            k = header_len(vt)
            rec["magic"] = t[2]
            rec["orig_payload"] = list(open(pyc, "rb").read()[k:])
            rec["written_payload"] = list(open(wr, "rb").read()[k:])
            rec["float_reprs"] = float_reprs(t[3])
    except Exception as e:
        rec["write_error"] = type(e).__name__
        return
    if exe:
        q = subprocess.run([exe, "-c", CHK, pyc, wr], stdout=subprocess.PIPE, stderr=subprocess.PIPE, text=True)
        rec["target_says"] = q.stdout.strip() if q.returncode == 0 else ("ERROR " + q.stderr.strip()[-300:])
    try:
        with contextlib.redirect_stdout(buf), contextlib.redirect_stderr(buf):
            t2 = load_module(wr)
        py3 = tuple(t[0]) >= (3, 0)
        # magic 3393 (3.7.0b3) is always read as a hash-based header (a reader quirk outside C06's released magics): no timestamp to compare
        rec["xdis_reread_equal"] = (obs_value(t[3], py3) == obs_value(t2[3], py3)) and (t2[1] == 1234567 or t[2] == 3393) and t2[0] == t[0]
    except Exception as e:
        rec["xdis_reread_equal"] = "ERROR " + type(e).__name__


def main():
    req = json.load(sys.stdin)
    buf = io.StringIO()
    with contextlib.redirect_stdout(buf), contextlib.redirect_stderr(buf):
        from xdis.load import load_module, write_bytecode_file
        from ops_marshal import obs_value
    d = tempfile.mkdtemp(prefix="xdis-rt-", dir="/var/tmp")
    out = []
    try:
        for ver, exe in req["targets"]:
            for name, src in SOURCES.items():
                rec = {"target": ver, "source": name}
                sp = os.path.join(d, name + ".py")
                with open(sp, "w", encoding="utf-8") as f:
                    f.write(src)
                pyc = os.path.join(d, "%s-%s.pyc" % (name, ver)); wr = os.path.join(d, "%s-%s-w.pyc" % (name, ver))
                p = subprocess.run([exe, "-c", "import py_compile,sys; py_compile.compile(sys.argv[1], cfile=sys.argv[2], doraise=True)", sp, pyc], stderr=subprocess.PIPE, text=True)
                if p.returncode:
                    rec["skip"] = "target cannot compile the source"
                    out.append(rec); continue
                one(rec, pyc, wr, exe, buf, load_module, write_bytecode_file, obs_value)
                out.append(rec)
                # the same payload under the magic PyPy of that level writes (no PyPy here: same code-object layout, another magic):
                # whatever the writer decides from the magic NUMBER must hold for these too
                # 3.8 also: the pre-release magics 3410 and 3411, which already store co_posonlyargcount (PEP 570 came with 3410)
                for pm in {"3.8": (256, 3410, 3411), "3.9": (336,), "3.10": (384,)}.get(ver, ()):
                    if name in ("funcs", "posonly") and "written" in rec:
                        twin = os.path.join(d, "%s-%s-twin%d.pyc" % (name, ver, pm)); wr2 = os.path.join(d, "%s-%s-twin%d-w.pyc" % (name, ver, pm))
                        data = open(pyc, "rb").read()
                        with open(twin, "wb") as f:
                            f.write(bytes([pm & 255, pm >> 8]) + data[2:])
                        rec2 = {"target": "corpus", "source": "magic-twin-%d-of-%s/%s" % (pm, ver, name)}
                        one(rec2, twin, wr2, None, buf, load_module, write_bytecode_file, obs_value)
                        out.append(rec2)
        # bytecode files of the repository's corpus (versions with no interpreter here included): written back, re-read by xdis,
        # payload compared with the writer model inside Coq
        for i, path in enumerate(req.get("corpus", [])):
            rec = {"target": "corpus", "source": os.path.relpath(path, req.get("corpus_root", "/"))}
            wr = os.path.join(d, "corpus-%d-w.pyc" % i)
            one(rec, path, wr, None, buf, load_module, write_bytecode_file, obs_value)
            out.append(rec)
    finally:
        shutil.rmtree(d, ignore_errors=True)
    sys.__stdout__.write("@@JSON@@" + json.dumps(out) + "\n")


main()

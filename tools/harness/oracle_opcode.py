# Runs under a reference interpreter (2.7 / 3.6+), no /repo on the path: dumps its opcode module.
import json, sys
import opcode, dis
t = {}
t["version"] = list(sys.version_info[:3])
t["opmap"] = sorted((str(k), int(v)) for k, v in opcode.opmap.items())
t["opname"] = [str(x) for x in opcode.opname]
t["HAVE_ARGUMENT"] = int(opcode.HAVE_ARGUMENT)
t["EXTENDED_ARG"] = int(opcode.EXTENDED_ARG)
for s in ["hasjrel", "hasjabs", "hasconst", "hasname", "haslocal", "hasfree", "hascompare", "hasarg", "hasexc", "hasnargs"]:
    t[s] = sorted(int(x) for x in getattr(opcode, s, []))
ice = getattr(opcode, "_inline_cache_entries", None)
if isinstance(ice, dict):
    t["cache"] = sorted((str(k), int(v)) for k, v in ice.items() if v)
elif ice is not None:
    t["cache"] = [(opcode.opname[i], int(v)) for i, v in enumerate(ice) if v]
else:
    t["cache"] = []
t["cmp_op"] = [str(x) for x in opcode.cmp_op]
sys.stdout.write("@@JSON@@" + json.dumps(t) + "\n")

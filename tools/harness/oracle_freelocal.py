# Runs under a reference interpreter (3.12+): a function in which a FREE variable shares its name with a LOCAL (the target of an inlined
# comprehension, PEP 709).  Writes the .pyc and reports what dis resolves for every local / cell / free operand of that function.
import dis, json, sys, py_compile, os
SRC = "def outer():\n    x = 1\n    z = 2\n    def g(a):\n        y = [x for x in range(a)]\n        return x, z, y\n    return g\n"
def main():
    req = json.load(sys.stdin)
    p = os.path.join(req["dir"], "freelocal.py")
    with open(p, "w") as f:
        f.write(SRC)
    py_compile.compile(p, cfile=req["out"], doraise=True)
    top = compile(SRC, "freelocal.py", "exec")
    outer = [c for c in top.co_consts if hasattr(c, "co_code")][0]
    g = [c for c in outer.co_consts if hasattr(c, "co_code") and c.co_name == "g"][0]
    rows = [[i.offset, i.opname, i.argval if isinstance(i.argval, (str, int)) else list(i.argval)] for i in dis.get_instructions(g)
            if i.opname.startswith(("LOAD_FAST", "STORE_FAST", "LOAD_DEREF", "STORE_DEREF", "MAKE_CELL", "LOAD_CLOSURE", "DELETE_FAST", "LOAD_FAST_AND_CLEAR"))]
    sys.stdout.write("@@JSON@@" + json.dumps({"rows": rows, "varnames": list(g.co_varnames), "cellvars": list(g.co_cellvars), "freevars": list(g.co_freevars)}) + "\n")
main()

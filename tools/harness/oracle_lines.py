# Runs under a reference interpreter (2.7, 3.6+), nothing from /repo: real dis.findlinestarts,
# co_lines(), co_positions() on code objects carrying the given raw tables.
import json, sys, types, dis

def f(): pass
base = f.__code__
V = sys.version_info[:2]

def mk(tab, first, codelen, exc=None):
    code = bytes(bytearray([9, 0] * (codelen // 2) + [9] * (codelen % 2)))
    tab = bytes(bytearray(tab))
    if V >= (3, 8):
        kw = dict(co_code=code, co_firstlineno=first)
        if V >= (3, 10):
            kw["co_linetable"] = tab
        else:
            kw["co_lnotab"] = tab
        if exc is not None and V >= (3, 11):
            kw["co_exceptiontable"] = bytes(bytearray(exc))
        return base.replace(**kw)
    if V >= (3, 0):
        return types.CodeType(0, 0, 0, 1, 0, code, (), (), (), "f.py", "f", first, tab)
    return types.CodeType(0, 0, 1, 0, code, (), (), (), "f.py", "f", first, tab)

def opt(x):
    return [0] if x is None else [1, int(x)]

def main():
    cases = json.load(sys.stdin)
    out = []
    for c in cases:
        r = {}
        try:
            co = mk(c["tab"], c["first"], c.get("codelen", 0), c.get("exc"))
            ps = list(dis.findlinestarts(co))
            o = [0, len(ps)]
            for a, b in ps:
                o += [int(a)] + opt(b)
            r["fls"] = o
            if c.get("marshal"):
                import marshal
                r["payload"] = list(bytearray(marshal.dumps(co)))
            if V >= (3, 10):
                ts = list(co.co_lines())
                o = [0, len(ts)]
                for a, b, l in ts:
                    o += [int(a), int(b)] + opt(l)
                r["lines"] = o
            if V >= (3, 11):
                ps = list(co.co_positions())
                o = [0, len(ps)]
                for p in ps:
                    o += opt(p[0]) + opt(p[1]) + opt(p[2]) + opt(p[3])
                r["positions"] = o
                if c.get("exc") is not None:
                    es = dis._parse_exception_table(co)
                    o = [0, len(es)]
                    for e in es:
                        o += [int(e.start), int(e.end), int(e.target), int(e.depth), 1 if e.lasti else 0]
                    r["exc"] = o
        except Exception as e:
            r["error"] = type(e).__name__ + ": " + str(e)
        out.append(r)
    sys.stdout.write("@@JSON@@" + json.dumps(out) + "\n")

main()

"""Runs under an implementation host with PYTHONPATH=/repo.  Reads a JSON
document {"op": name, "cases": [...]} on stdin, writes @@JSON@@[results].
stdout/stderr of xdis itself are captured so debug prints cannot corrupt the channel."""
import contextlib
import io
import json
import sys

_real_stdout = sys.stdout
_cap = io.StringIO()


def err(e):
    return {"err": type(e).__name__}


def op_int2magic(c):
    import xdis.magics as M
    try:
        return list(M.int2magic(c))
    except Exception as e:
        return err(e)


def op_magic2int(c):
    import xdis.magics as M
    try:
        return int(M.magic2int(bytes(c)))
    except Exception as e:
        return err(e)


ERRCODE = {"EOFError": 1, "ValueError": 2, "error": 3, "IndexError": 4, "KeyError": 5, "TypeError": 6,
           "UnicodeDecodeError": 7, "UnicodeEncodeError": 7, "AssertionError": 8, "AttributeError": 9, "RuntimeError": 10,
           "ImportError": 11, "RecursionError": 12, "MemoryError": 13, "OverflowError": 14, "StopIteration": 15,
           "ZeroDivisionError": 16}


def errobs(e):
    return [1, ERRCODE.get(type(e).__name__, 50)]


def opt(x):
    return [0] if x is None else [1, int(x)]


class _KeepOpen(io.BytesIO):
    """BytesIO whose close() records the position instead of closing."""
    final_pos = None

    def close(self):
        if self.final_pos is None:
            self.final_pos = self.tell()


def op_header(c):
    """c = {"bytes": [...], "name38": bool}; observation list mirrors Model/LoadObs.v:obs_header"""
    from xdis.load import load_module_from_file_object
    data = bytes(c["bytes"])
    fp = _KeepOpen(data)
    name = "x.pypy38.pyc" if c.get("name38") else "x.pyc"
    try:
        t = load_module_from_file_object(fp, filename=name, get_code=False)
    except Exception as e:
        return errobs(e)
    tv = [int(x) for x in t[0]]
    return [0, len(tv)] + tv + opt(t[1]) + [int(t[2]), 1 if t[4] else 0] + opt(t[5]) + opt(t[6]) + [len(data) - fp.final_pos]


def op_write_header(c):
    """c = {magic, ts, size}: the bytes write_bytecode_file emits before the payload (payload = marshal of None)"""
    import os, tempfile
    from xdis.load import write_bytecode_file
    fd, path = tempfile.mkstemp(prefix="xdis-wh-", dir="/var/tmp")
    os.close(fd)
    try:
        write_bytecode_file(path, None, c["magic"], compilation_ts=c["ts"], filesize=c["size"])
        data = open(path, "rb").read()
    except Exception as e:
        return errobs(e)
    finally:
        os.unlink(path)
    if not data.endswith(b"N"):
        return [1, 51]
    return [0, len(data) - 1] + list(data[:-1])


OPS = {k[3:]: v for k, v in list(globals().items()) if k.startswith("op_")}


def scrub(o):
    """ints too large for the interpreter's int -> str conversion (3.11+) cannot go through json: they leave as None (no check reads them;
    the limit is NOT lifted in this process, so that the library's own handling of such constants stays observable)"""
    if isinstance(o, bool) or o is None or isinstance(o, (str, float)):
        return o
    if isinstance(o, int):
        return None if o.bit_length() > 12000 else o
    if isinstance(o, (list, tuple)):
        return [scrub(x) for x in o]
    if isinstance(o, dict):
        return dict((k, scrub(v)) for k, v in o.items())
    return o


def main():
    req = json.load(sys.stdin)
    with contextlib.redirect_stdout(_cap), contextlib.redirect_stderr(_cap):
        for modname in req.get("modules", []):
            mod = __import__(modname)
            for k in dir(mod):
                if k.startswith("op_"):
                    OPS[k[3:]] = getattr(mod, k)
        f = OPS[req["op"]]
        out = []
        for c in req["cases"]:
            try:
                out.append(f(c))
            except Exception as e:
                out.append({"err": type(e).__name__, "outer": True})
    _real_stdout.write("@@JSON@@" + json.dumps({"results": scrub(out), "captured": _cap.getvalue()[-2000:]}, default=repr) + "\n")


if __name__ == "__main__":
    main()

"""Runs under an implementation host with PYTHONPATH=/repo.  Reads a JSON
document {"op": name, "cases": [...]} on stdin, writes @@JSON@@[results].
stdout/stderr of xdis itself are captured so debug prints cannot corrupt the channel."""
import contextlib
import io
import json
import sys

_real_stdout = sys.stdout
_cap = io.StringIO()


def err(e):
    return {"err": type(e).__name__}


def op_int2magic(c):
    import xdis.magics as M
    try:
        return list(M.int2magic(c))
    except Exception as e:
        return err(e)


def op_magic2int(c):
    import xdis.magics as M
    try:
        return int(M.magic2int(bytes(c)))
    except Exception as e:
        return err(e)


OPS = {k[3:]: v for k, v in list(globals().items()) if k.startswith("op_")}


def main():
    req = json.load(sys.stdin)
    with contextlib.redirect_stdout(_cap), contextlib.redirect_stderr(_cap):
        for modname in req.get("modules", []):
            mod = __import__(modname)
            for k in dir(mod):
                if k.startswith("op_"):
                    OPS[k[3:]] = getattr(mod, k)
        f = OPS[req["op"]]
        out = []
        for c in req["cases"]:
            try:
                out.append(f(c))
            except Exception as e:
                out.append({"err": type(e).__name__, "outer": True})
    _real_stdout.write("@@JSON@@" + json.dumps({"results": out, "captured": _cap.getvalue()[-2000:]}) + "\n")


if __name__ == "__main__":
    main()

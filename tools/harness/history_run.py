"""C18 - runs under the implementation host with PYTHONPATH=/repo.  stdin: {"ops": [...], "probe": op}.
Executes the operations in order in THIS process, then the probe (twice), and prints the digests of the probe's results
plus the names of the shared mutable cells (module-level containers, mutable default arguments) that changed since import."""
import contextlib
import hashlib
import io
import json
import re
import sys
import types
import collections

ADDR = re.compile(r"0x[0-9a-fA-F]+")


def canon(v, depth=0):
    if depth > 6:
        return "..."
    if isinstance(v, types.CodeType) or type(v).__name__.startswith("Code") and hasattr(v, "co_code"):
        fields = []
        for n in sorted(dir(v)):
            if n.startswith("co_") and n != "co_lnotab":
                try:
                    x = getattr(v, n)
                except Exception:
                    continue
                if not callable(x):
                    fields.append((n, canon(x, depth + 1)))
        return ("code", tuple(fields))
    if isinstance(v, (tuple, list)):
        return (type(v).__name__,) + tuple(canon(x, depth + 1) for x in v)
    if isinstance(v, (set, frozenset)):
        return (type(v).__name__,) + tuple(sorted(repr(canon(x, depth + 1)) for x in v))
    if isinstance(v, dict):
        return ("dict",) + tuple(sorted((repr(canon(k, depth + 1)), repr(canon(x, depth + 1))) for k, x in v.items()))
    if isinstance(v, str):
        return ("str", ADDR.sub("0xX", v))       # object addresses inside rendered text differ between processes
    if isinstance(v, float):
        return ("float", v.hex())
    if isinstance(v, (types.FunctionType, types.BuiltinFunctionType, types.MethodType)):
        return ("function", getattr(v, "__module__", ""), getattr(v, "__qualname__", getattr(v, "__name__", "")))
    if isinstance(v, types.ModuleType):
        return ("module", v.__name__)
    return (type(v).__name__, ADDR.sub("0xX", repr(v)))


def dig(v):
    return hashlib.sha256(repr(canon(v)).encode("utf-8", "backslashreplace")).hexdigest()[:16]


def run_op(o):
    k = o["k"]
    out, so, se = io.StringIO(), io.StringIO(), io.StringIO()
    with contextlib.redirect_stdout(so), contextlib.redirect_stderr(se):
        try:
            if k == "load":
                from xdis.load import load_module
                r = load_module(o["file"])
            elif k == "disasm":
                from xdis.disasm import disassemble_file
                disassemble_file(o["file"], out, asm_format=o["fmt"])
                # xasm names inner code objects by id(): strip addresses and the ids embedded in names
                r = re.sub(r"_0x[0-9a-f]+", "_0xX", ADDR.sub("0xX", out.getvalue()))
            elif k == "opcode":
                from xdis.disasm import get_opcode
                m = get_opcode(tuple(o["version"]), o.get("pypy", False))
                r = {n: getattr(m, n) for n in dir(m) if not n.startswith("__") and isinstance(getattr(m, n), (list, dict, set, frozenset, tuple, int, str))}
            elif k == "stdapi":
                from xdis.std import make_std_api
                a = make_std_api(tuple(o["version"]), "pypy" if o.get("pypy") else None)
                r = {"opmap": a.opmap, "opname": a.opname, "hasconst": a.hasconst, "hasname": a.hasname, "HAVE_ARGUMENT": a.HAVE_ARGUMENT, "EXTENDED_ARG": a.EXTENDED_ARG,
                     "version": a.python_version_tuple, "is_pypy": a.is_pypy}
            elif k == "stdfns":
                # the std-style functions on every code object of a file: labels, line starts, instruction rows, code info text
                from xdis.load import load_module
                from xdis.std import make_std_api
                t = load_module(o["file"])
                a = make_std_api(tuple(t[0][:2]), "pypy" if t[4] else None)
                rows, queue = [], [t[3]]
                while queue and len(rows) < 8:
                    co = queue.pop(0)
                    ins = [(i.offset, i.opcode, i.opname, i.arg, canon(i.argval), i.argrepr, bool(i.is_jump_target), i.starts_line) for i in a.get_instructions(co)]
                    rows.append((str(co.co_name), sorted(a.findlabels(co.co_code)), [tuple(x) for x in a.findlinestarts(co)], ins, a.code_info(co)))
                    queue += [c for c in co.co_consts if hasattr(c, "co_code")]
                r = rows
            elif k == "colines":
                # line and position tables of every code object, asked twice, after a Bytecode object was built from it
                from xdis.load import load_module
                from xdis.disasm import get_opcode
                from xdis.bytecode import Bytecode
                t = load_module(o["file"])
                opc = get_opcode(t[0], t[4])
                rows, queue = [], [t[3]]
                while queue and len(rows) < 8:
                    co = queue.pop(0)
                    b = Bytecode(co, opc)
                    first = [(i.offset, i.starts_line) for i in b]
                    cl = list(co.co_lines()) if hasattr(co, "co_lines") else None
                    cl2 = list(co.co_lines()) if hasattr(co, "co_lines") else None
                    rows.append((str(co.co_name), first, cl, cl2, [tuple(x) for x in opc.findlinestarts(co)], sorted(opc.findlabels(co.co_code, opc)), getattr(b, "exception_entries", None) and len(b.exception_entries)))
                    queue += [c for c in co.co_consts if hasattr(c, "co_code")]
                r = rows
            elif k == "stackeffects":
                from xdis.std import make_std_api
                a = make_std_api(tuple(o["version"]), "pypy" if o.get("pypy") else None)
                out_ = []
                for op in range(256):
                    for arg in (None, 0, 1, 3, 258):
                        try:
                            out_.append((op, arg, a.stack_effect(op, arg)))
                        except Exception as e:
                            out_.append((op, arg, type(e).__name__))
                r = out_
            elif k == "sysinfo2magic":
                from xdis.magics import sysinfo2magic
                r = sysinfo2magic(tuple(o["info"]))
            elif k == "prettyflags":
                from xdis.cross_dis import pretty_flags
                r = pretty_flags(o["flags"], is_pypy=bool(o.get("pypy")))
            elif k == "mdumps":
                import xdis.marsh as M
                r = M.dumps(VALUES[o["value"]])
            elif k == "mloads":
                import xdis.marsh as M
                r = M.loads(bytes(o["bytes"]), o["version"]) if o.get("version") else M.loads(bytes(o["bytes"]))
            else:
                raise ValueError(k)
        except Exception as e:
            r = ("raised", type(e).__name__, ADDR.sub("0xX", str(e))[:200])
    return dig((r, so.getvalue()[:200], se.getvalue()[:200]))


VALUES = [None, 0, -1, 2 ** 31, 2 ** 100 + 3, 1.5, -0.0, "text", "hé", b"bytes\xff", (1, (2, 3), "x"), [1, [2], {}], {"k": 1, 2: None}, {1, 2, 3}, frozenset(["a"]), 1j, True, Ellipsis]

MUTABLE = (list, dict, set, bytearray, collections.deque)


def snapshot():
    cells = {}
    for name, mod in sorted(sys.modules.items()):
        if not (name == "xdis" or name.startswith("xdis.")) or mod is None:
            continue
        for a, v in sorted(vars(mod).items()):
            if a.startswith("__"):
                continue
            if v is vars(mod):
                continue        # `loc = locals()` at module level: the namespace itself, whose entries are digested one by one
            if isinstance(v, MUTABLE):
                cells[name + ":" + a] = dig(v)
            elif isinstance(v, types.FunctionType) and v.__module__ == name:
                for i, d in enumerate(v.__defaults__ or ()):
                    if isinstance(d, MUTABLE):
                        cells[f"{name}:{v.__qualname__}.__defaults__[{i}]"] = str(len(d)) + ":" + dig(d)
            elif isinstance(v, type) and v.__module__ == name:
                for ma, mv in sorted(vars(v).items()):
                    if isinstance(mv, MUTABLE) and not ma.startswith("__"):
                        cells[f"{name}:{v.__name__}.{ma}"] = dig(mv)
                    f = mv.__func__ if isinstance(mv, (staticmethod, classmethod)) else mv
                    if isinstance(f, types.FunctionType):
                        for i, d in enumerate(f.__defaults__ or ()):
                            if isinstance(d, MUTABLE):
                                cells[f"{name}:{f.__qualname__}.__defaults__[{i}]"] = str(len(d)) + ":" + dig(d)
    return cells


def main():
    req = json.load(sys.stdin)
    with contextlib.redirect_stdout(io.StringIO()), contextlib.redirect_stderr(io.StringIO()):
        import xdis, xdis.std, xdis.marsh, xdis.disasm, xdis.load, xdis.unmarshal, xdis.op_imports  # noqa
    before = snapshot()
    for o in req["ops"]:
        run_op(o)
    p1 = run_op(req["probe"])
    p2 = run_op(req["probe"])
    after = snapshot()
    changed = sorted(k for k in set(before) | set(after) if before.get(k) != after.get(k))
    sys.stdout.write("@@JSON@@" + json.dumps({"probe": p1, "probe_again": p2, "changed_cells": changed, "n_cells": len(after)}) + "\n")


if __name__ == "__main__":
    main()

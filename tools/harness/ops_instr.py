"""Implementation-side operations for the instruction stream / label family (C02, C03, C04, C12, C20)."""
import sys, os
sys.path.insert(0, os.path.dirname(os.path.abspath(__file__)))
from impl_run import errobs, opt

_opc_cache = {}


def table(name):
    """name like 'opcode_27' -> the opcode module"""
    if name not in _opc_cache:
        import importlib
        _opc_cache[name] = importlib.import_module("xdis.opcodes." + name)
    return _opc_cache[name]


def op_instrs(c):
    """raw get_instructions_bytes over a byte string"""
    from xdis.bytecode import get_instructions_bytes
    opc = table(c["table"])
    code = bytes(c["code"])
    try:
        ins = list(get_instructions_bytes(code, opc))
    except Exception as e:
        return errobs(e)
    out = [0, len(ins)]
    for x in ins:
        if x.opname != opc.opname[x.opcode]:
            # the instruction's name is the table's name of its opcode number (the table's names are C09's obligation); anything else
            # is reported as an observation no model produces
            return [1, 77, x.offset, x.opcode]
        out += [x.offset, x.opcode] + opt(x.arg) + [x.inst_size, 1 if x.has_extended_arg else 0, 1 if x.is_jump_target else 0]
        out += opt(x.argval if x.optype in ("jrel", "jabs") and x.arg is not None else None)
    return out


def op_labels(c):
    opc = table(c["table"])
    try:
        ls = opc.findlabels(bytes(c["code"]), opc)
    except Exception as e:
        return errobs(e)
    return [0, len(ls)] + [int(x) for x in ls]


def op_xdis_findlabels(c):
    """the public xdis.findlabels (cross_dis.findlabels) with an explicit opcode module"""
    import xdis
    opc = table(c["table"])
    try:
        ls = xdis.findlabels(bytes(c["code"]), opc)
    except Exception as e:
        return errobs(e)
    return [0, len(ls)] + [int(x) for x in ls]


def op_corpus_codes(c):
    """c = {"files": [paths]} -> [{table, code, consts..}] for every code object in those files"""
    from xdis.load import load_module
    from xdis.disasm import get_opcode
    from xdis.codetype.base import iscode
    out = []
    for path in c["files"]:
        try:
            v, ts, magic, co, pypy, size, sip = load_module(path)
            opc = get_opcode(v, pypy)
        except Exception as e:
            out.append({"file": path, "error": type(e).__name__})
            continue
        stack = [co]
        n = 0
        while stack and n < c.get("max_per_file", 6):
            k = stack.pop()
            n += 1
            code = k.co_code
            if isinstance(code, str):
                code = [ord(ch) for ch in code]
            out.append({"file": path, "table": opc.__name__.split(".")[-1], "code": list(code)[: c.get("max_len", 1200)],
                        "full": len(code) <= c.get("max_len", 1200)})
            for cst in getattr(k, "co_consts", ()):
                if iscode(cst):
                    stack.append(cst)
    return out


def op_stack_effect(c):
    """c = {table, op, arg}"""
    from xdis.cross_dis import xstack_effect
    opc = table(c["table"])
    try:
        r = xstack_effect(c["op"], opc, c["arg"])
    except Exception as e:
        return errobs(e)
    return [0] + opt(r)


MARK = {"consts": 30, "names": 20, "vars": 4, "cells": ["v0", "c1"], "frees": ["f0", "v1"]}


def _enc(name):
    return ord(name[0]) * 1000 + int(name[1:])


def _portable_with_markers(vt, code):
    """a portable code object of version vt whose tables hold marker values (const i -> 1000+i, name 'n<i>', ...)"""
    from xdis.codetype import to_portable
    consts = tuple(1000 + i for i in range(MARK["consts"]))
    names = tuple("n%d" % i for i in range(MARK["names"]))
    varnames = tuple("v%d" % i for i in range(MARK["vars"]))
    return to_portable(co_argcount=0, co_posonlyargcount=0, co_kwonlyargcount=0, co_nlocals=len(varnames), co_stacksize=1, co_flags=0,
                       co_code=bytes(code), co_consts=consts, co_names=names, co_varnames=varnames, co_filename="f.py", co_name="f", co_qualname="f",
                       co_firstlineno=1, co_lnotab=b"", co_freevars=tuple(MARK["frees"]), co_cellvars=tuple(MARK["cells"]), co_exceptiontable=b"",
                       version_triple=tuple(vt))


def op_resolve(c):
    """c = {table, code}: Bytecode over a marker-table code object; per instruction [offset, kind, value...]"""
    from xdis.bytecode import Bytecode
    opc = table(c["table"])
    try:
        co = _portable_with_markers(opc.version_tuple, c["code"])
        ins = list(Bytecode(co, opc))
    except Exception as e:
        return errobs(e)
    out = [0, 0]
    n = 0
    for x in ins:
        if x.optype not in ("const", "name", "local", "free", "compare") or x.arg is None:
            continue
        v = x.argval
        if x.optype == "compare":
            o = [5, list(opc.cmp_op).index(v)] if v in opc.cmp_op else [8]
        elif isinstance(v, tuple):
            o = [6] + sum(([2, _enc(a)] if isinstance(a, str) else [9, int(a)] for a in v), [])
        elif isinstance(v, str):
            o = [2, _enc(v)]
        elif isinstance(v, int):
            o = [1, v] if v >= 1000 else [9, v]
        else:
            o = [7]
        out += [x.offset] + o
        n += 1
    out[1] = n
    return out


def op_freelocal(c):
    """c = {file}: the local / cell / free operands xdis resolves in the function g of tools/harness/oracle_freelocal.py's module"""
    from xdis.load import load_module
    from xdis.disasm import get_opcode
    from xdis.bytecode import Bytecode
    t = load_module(c["file"])
    opc = get_opcode(t[0], t[4])
    outer = [k for k in t[3].co_consts if hasattr(k, "co_code")][0]
    g = [k for k in outer.co_consts if hasattr(k, "co_code") and k.co_name == "g"][0]
    def rows_of(ins):
        rows = []
        for i in ins:
            if i.opname.startswith(("LOAD_FAST", "STORE_FAST", "LOAD_DEREF", "STORE_DEREF", "MAKE_CELL", "LOAD_CLOSURE", "DELETE_FAST", "LOAD_FAST_AND_CLEAR")):
                rows.append([i.offset, i.opname, i.argval if isinstance(i.argval, (str, int)) else list(i.argval)])
        return rows
    own = list(Bytecode(g, opc))
    # the same function through a Bytecode object that was made for ANOTHER code object: get_instructions(x) is about x
    other = list(Bytecode(outer, opc).get_instructions(g))
    lines = lambda ins: [[i.offset, i.starts_line] for i in ins if i.starts_line is not None]
    return {"rows": rows_of(own), "rows_via_other": rows_of(other), "lines": lines(own), "lines_via_other": lines(other)}

# Runs under a reference interpreter (2.7, 3.6 ... 3.13): compiles sources with ITS compiler and writes .pyc files
# with ITS py_compile into the directory given on stdin.  Used to obtain valid bytecode files of every installed version.
import json, os, sys, py_compile
sys.path.insert(0, os.path.dirname(os.path.abspath(__file__)))
import oracle_compile as OC


def main():
    req = json.load(sys.stdin)
    outdir = req["outdir"]
    if not os.path.isdir(outdir):
        os.makedirs(outdir)
    done = []
    for name, src in list(OC.SOURCES) + [tuple(x) for x in req.get("extra_sources", [])]:
        p = os.path.join(outdir, "src_" + name + ".py")
        if sys.version_info[0] >= 3:
            with open(p, "w", encoding="utf-8") as f:
                f.write(src)
        else:
            with open(p, "w") as f:
                f.write(src)
        try:
            py_compile.compile(p, cfile=p + "c", doraise=True)
            done.append(p + "c")
        except Exception:
            pass
    lib = os.path.dirname(os.__file__)
    for fn in req.get("stdlib", []):
        p = os.path.join(lib, fn)
        if os.path.exists(p) and os.path.getsize(p) <= req.get("max_src", 60000):
            c = os.path.join(outdir, "lib_" + fn.replace("/", "_") + "c")
            try:
                py_compile.compile(p, cfile=c, doraise=True)
                done.append(c)
            except Exception:
                pass
    sys.stdout.write("@@JSON@@" + json.dumps(done) + "\n")


if __name__ == "__main__":
    main()

"""Implementation-side operations for the marshal family (C01, C10, C11, C13, C14).
The observation of a value mirrors coq/Model/UnmarshalObs.v:obs_pv."""
import struct
import sys, os
sys.path.insert(0, os.path.dirname(os.path.abspath(__file__)))
from impl_run import errobs, opt


def fbits(x):
    return struct.unpack("<Q", struct.pack("<d", x))[0]


def obs_value(v, py3, depth=0):
    """py3: the bytecode (not the host) is Python 3"""
    from xdis.cross_types import UnicodeForPython3
    from xdis.codetype.base import CodeBase
    import xdis.unmarshal as U
    if depth > 400:
        raise RecursionError("observation too deep")
    if v is None:
        return [1]
    if v is True:
        return [2]
    if v is False:
        return [3]
    if v is Ellipsis:
        return [4]
    if v is StopIteration:
        return [5]
    if v is getattr(U, "NULL", object()):
        return [0]
    if isinstance(v, UnicodeForPython3):
        b = v.value
        return [10, len(b)] + list(b)
    if isinstance(v, int):
        from xdis.cross_types import LongTypeForPython3
        return [17 if isinstance(v, LongTypeForPython3) else 6, int(v)]
    if isinstance(v, float):
        return [7, fbits(v)]
    if isinstance(v, complex):
        return [8, fbits(v.real), fbits(v.imag)]
    if isinstance(v, (bytes, bytearray)):
        return [9, len(v)] + list(v)
    if isinstance(v, str):
        b = v.encode("utf-8", "surrogatepass")
        return [10 if py3 else 9, len(b)] + list(b)
    if isinstance(v, tuple):
        out = [11, len(v)]
        for x in v:
            out += obs_value(x, py3, depth + 1)
        return out
    if isinstance(v, list):
        out = [12, len(v)]
        for x in v:
            out += obs_value(x, py3, depth + 1)
        return out
    if isinstance(v, (set, frozenset)):
        items = sorted(obs_value(x, py3, depth + 1) for x in v)
        out = [13 if isinstance(v, set) else 14, len(v)]
        for it in items:
            out += it
        return out
    if isinstance(v, dict):
        out = [15, len(v)]
        for it in sorted(obs_value(k, py3, depth + 1) + obs_value(x, py3, depth + 1) for k, x in v.items()):
            out += it
        return out
    if isinstance(v, CodeBase) or hasattr(v, "co_code"):
        g = lambda n, d: getattr(v, n, d)
        posonly = g("co_posonlyargcount", -1)
        ints = [g("co_argcount", 0), -1 if posonly is None else posonly, g("co_kwonlyargcount", 0), g("co_nlocals", 0), g("co_stacksize", 0), g("co_flags", 0), g("co_firstlineno", -1)]
        lt = g("co_linetable", None) if hasattr(v, "co_linetable") else g("co_lnotab", b"")
        objs = [g("co_code", b""), g("co_consts", ()), g("co_names", ()), g("co_varnames", ()), g("co_freevars", ()), g("co_cellvars", ()),
                g("co_filename", None), g("co_name", None), g("co_qualname", None), lt, g("co_exceptiontable", None)]
        out = [16] + [int(x) for x in ints]
        for o in objs:
            out += obs_value(o, py3, depth + 1)
        return out
    raise TypeError("unobservable %r" % type(v))


class _PosIO:
    pass


def op_unmarshal(c):
    """c = {"magic": int, "bytes": [...]}: xdis.unmarshal.load_code on a file object; observation = [0, bytes left, value...]"""
    import io
    from xdis.unmarshal import load_code
    from xdis.magics import magic_int2tuple
    data = bytes(c["bytes"])
    fp = io.BytesIO(data)
    try:
        py3 = tuple(magic_int2tuple(c["magic"])) >= (3, 0)
        # read the value the way the constants of a code object are read (t_code passes bytes_for_s = "3.x bytecode")
        from xdis.unmarshal import _VersionIndependentUnmarshaller
        um = _VersionIndependentUnmarshaller(fp, c["magic"], py3, {})
        um.version_tuple = tuple(magic_int2tuple(c["magic"]))
        v = um.r_object(bytes_for_s=py3)
        return [0, len(data) - fp.tell()] + obs_value(v, py3)
    except RecursionError as e:
        return errobs(e)
    except Exception as e:
        return errobs(e)


def op_load_file(c):
    """c = {"path": ...}: load_module on a real file -> header items + code observation"""
    from xdis.load import load_module
    try:
        t = load_module(c["path"])
    except Exception as e:
        return errobs(e)
    return [0, 0] + obs_value(t[3], tuple(t[0]) >= (3, 0))


def _plain_from_spec(s):
    """rebuild a Python value from the JSON spec used by tools/props/c14.py"""
    k = s[0]
    if k == "none": return None
    if k == "true": return True
    if k == "false": return False
    if k == "ell": return Ellipsis
    if k == "stop": return StopIteration
    if k == "int": return int(s[1])
    if k == "float": return struct.unpack("<d", struct.pack("<Q", s[1]))[0]
    if k == "complex": return complex(struct.unpack("<d", struct.pack("<Q", s[1]))[0], struct.unpack("<d", struct.pack("<Q", s[2]))[0])
    if k == "bin": return bytes(s[1])
    if k == "text": return bytes(s[1]).decode("utf-8", "surrogatepass")
    if k == "tuple": return tuple(_plain_from_spec(x) for x in s[1])
    if k == "list": return [_plain_from_spec(x) for x in s[1]]
    if k == "set": return set(_plain_from_spec(x) for x in s[1])
    if k == "frozenset": return frozenset(_plain_from_spec(x) for x in s[1])
    if k == "dict": return dict((_plain_from_spec(a), _plain_from_spec(b)) for a, b in s[1])
    raise ValueError(k)


def _spec_from_plain(v):
    """the value as the model sees it: sets in iteration order, floats by bit pattern"""
    if v is None: return ["none"]
    if v is True: return ["true"]
    if v is False: return ["false"]
    if v is Ellipsis: return ["ell"]
    if v is StopIteration: return ["stop"]
    if isinstance(v, int): return ["int", str(int(v))]
    if isinstance(v, float): return ["float", fbits(v)]
    if isinstance(v, complex): return ["complex", fbits(v.real), fbits(v.imag)]
    if isinstance(v, bytes): return ["bin", list(v)]
    if isinstance(v, str): return ["text", list(v.encode("utf-8", "surrogatepass"))]
    if isinstance(v, tuple): return ["tuple", [_spec_from_plain(x) for x in v]]
    if isinstance(v, list): return ["list", [_spec_from_plain(x) for x in v]]
    if isinstance(v, frozenset): return ["frozenset", [_spec_from_plain(x) for x in v]]
    if isinstance(v, set): return ["set", [_spec_from_plain(x) for x in v]]
    if isinstance(v, dict): return ["dict", [[_spec_from_plain(a), _spec_from_plain(b)] for a, b in v.items()]]
    raise TypeError(type(v))


def _floats_in(v, acc):
    if isinstance(v, float):
        acc[fbits(v)] = list(repr(v).encode())
    elif isinstance(v, complex):
        acc[fbits(v.real)] = list(repr(v.real).encode()); acc[fbits(v.imag)] = list(repr(v.imag).encode())
    elif isinstance(v, (tuple, list, set, frozenset)):
        for x in v: _floats_in(x, acc)
    elif isinstance(v, dict):
        for a, b in v.items(): _floats_in(a, acc); _floats_in(b, acc)


def op_marsh_dumps(c):
    """c = {"value": spec}: returns {"bytes": xdis.marsh.dumps(v), "seen": the value as iterated, "reprs": {bits: repr bytes},
       "host_back": observation of the host's marshal.loads(dumps(v)), "orig": observation of v}"""
    import marshal
    import xdis.marsh as M
    v = _plain_from_spec(c["value"])
    out = {"seen": _spec_from_plain(v)}
    reprs = {}
    _floats_in(v, reprs)
    out["reprs"] = sorted(reprs.items())
    try:
        b = M.dumps(v)
        out["bytes"] = list(b)
    except Exception as e:
        out["err"] = type(e).__name__
        return out
    out["orig"] = obs_value(v, True)
    try:
        out["host_back"] = obs_value(marshal.loads(b), True)
    except Exception as e:
        out["host_err"] = type(e).__name__
    return out


def op_marsh_loads(c):
    """c = {"bytes": [...]}: xdis.marsh.loads"""
    import xdis.marsh as M
    try:
        v = M.loads(bytes(c["bytes"]))
    except Exception as e:
        return errobs(e)
    if v is M._NULL:
        return [0, 0]
    return [0] + obs_value(v, True)


def op_host_dumps(c):
    """host marshal.dumps(v, version) for version 0 and 1 -> streams"""
    import marshal
    v = _plain_from_spec(c["value"])
    g17 = {}

    def walk(x):
        if isinstance(x, float):
            g17[fbits(x)] = list(("%.17g" % x).encode())      # PyOS_double_to_string(x, 'g', 17, 0, NULL); inf / nan spelled as marshal does
        elif isinstance(x, complex):
            walk(x.real); walk(x.imag)
        elif isinstance(x, (tuple, list, set, frozenset)):
            for y in x: walk(y)
        elif isinstance(x, dict):
            for a, b in x.items(): walk(a); walk(b)
    walk(v)
    return {"v0": list(marshal.dumps(v, 0)), "v1": list(marshal.dumps(v, 1)), "orig": obs_value(v, True), "seen": _spec_from_plain(v), "g17": sorted(g17.items())}


_AUDIT = {"on": False, "events": []}
_AUDIT_INSTALLED = [False]


def _hook(event, args):
    if not _AUDIT["on"]:
        return
    if event in ("os.system", "subprocess.Popen", "os.remove", "os.rename", "os.mkdir", "os.rmdir", "os.truncate", "shutil.rmtree", "socket.connect", "ctypes.dlopen"):
        _AUDIT["events"].append(event)
    elif event in ("compile", "exec"):
        # the interpreter's own import machinery compiles / executes library modules (traceback, linecache ...);
        # what must never be compiled or executed is anything that does not come from the library or from xdis itself
        import sys
        try:
            fn = args[1] if event == "compile" else args[0].co_filename
        except Exception:
            fn = "?"
        fn = str(fn)
        lib = (sys.prefix, sys.base_prefix, "/repo", "<frozen", "/root/.pyenv", "/venv", "/usr/lib/python")
        if fn.startswith(lib):
            return
        if event == "compile" and fn in ("<unknown>", "<string>"):
            # traceback.print_exc() parses the source lines of its own frames (ast.parse) to place carets:
            # harmless unless the text being compiled comes out of the file under test
            src = args[0]
            if isinstance(src, str):
                src = src.encode("utf-8", "replace")
            data = _AUDIT.get("data", b"")
            if not (isinstance(src, (bytes, bytearray)) and len(src) >= 4 and bytes(src) in data):
                return
        _AUDIT["events"].append(event + ":" + fn)
    elif event == "import":
        _AUDIT["events"].append("import:" + str(args[0]))
    elif event == "open":
        mode = args[1] if len(args) > 1 else ""
        if isinstance(mode, str) and any(ch in mode for ch in "wax+"):
            _AUDIT["events"].append("open-write:" + str(args[0]))


def op_load_outcome(c):
    """c = {"bytes": [...]}: load_module on a real file holding exactly these bytes.
    Observation: [class, seconds*1000, n forbidden audit events] + events; class 0 = returned a 7-tuple, 1 = ImportError, 2 = other exception"""
    import os, sys, tempfile, time
    from xdis.load import load_module
    if not _AUDIT_INSTALLED[0]:
        sys.addaudithook(_hook)
        _AUDIT_INSTALLED[0] = True
    fd, path = tempfile.mkstemp(prefix="xdis-c11-", suffix=".pyc", dir="/var/tmp")
    os.write(fd, bytes(c["bytes"]))
    os.close(fd)
    _AUDIT["events"] = []
    _AUDIT["data"] = bytes(c["bytes"])
    import signal

    class _TooLong(BaseException):
        pass

    def _alarm(signum, frame):
        raise _TooLong()
    t0 = time.time()
    cls, name = 0, ""
    _AUDIT["on"] = True
    old_handler = signal.signal(signal.SIGALRM, _alarm)
    signal.setitimer(signal.ITIMER_REAL, c.get("limit_s", 20))      # a runaway Python-level loop is cut here and reported through "ms"
    try:
        r = load_module(path)
        if not (isinstance(r, tuple) and len(r) == 7):
            cls, name = 2, "returned " + type(r).__name__
    except ImportError:
        cls = 1
    except _TooLong:
        cls, name = 3, "still running after the time limit"
    except BaseException as e:
        cls, name = 2, type(e).__name__
    finally:
        signal.setitimer(signal.ITIMER_REAL, 0)
        signal.signal(signal.SIGALRM, old_handler)
        _AUDIT["on"] = False
    dt = time.time() - t0
    os.unlink(path)
    allowed = ("import:traceback", "import:linecache", "import:tokenize", "import:token", "import:collections", "import:contextlib")
    bad = [e for e in _AUDIT["events"] if not e.startswith(allowed)]
    return {"cls": cls, "name": name, "ms": int(dt * 1000), "bad_events": bad[:5]}


def op_marsh_nested(c):
    """c = {depth, kind}: a container nested `depth` deep (the host's marshal handles 2000 levels): does xdis.marsh.dumps write it and does
    xdis.marsh.loads read the host's version-0 stream of it?"""
    import marshal
    import xdis.marsh as M
    v = ()
    for _ in range(c["depth"]):
        v = (v,) if c["kind"] == "tuple" else [v]
    out = {}
    try:
        b = M.dumps(v)
        out["dumps"] = "ok" if marshal.loads(b) == v else "differs"
    except BaseException as e:
        out["dumps"] = type(e).__name__
    try:
        out["loads"] = "ok" if M.loads(marshal.dumps(v, 0)) == v else "differs"
    except BaseException as e:
        out["loads"] = type(e).__name__
    return out

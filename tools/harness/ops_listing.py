"""C12 - listings.  Runs disassemble_file (or Bytecode.dis on a synthetic code object) in one format with the output
stream, sys.stdout and sys.stderr captured separately; reports the text, the Instruction records the listing was made
from, and whether the stream is exactly header + code info + listing (+ exception table) for the queue of code objects."""
import contextlib
import io
import sys

FORMATS = ["classic", "bytes", "extended", "extended-bytes", "xasm", "header"]


import re

ADDR = re.compile(r"0x[0-9a-fA-F]+")


def _noaddr(s):
    """object addresses are not content: a code-object constant is shown with the id() of whatever object stands for it"""
    return ADDR.sub("0xX", s)


def _records(bc, co, opc):
    """the Instruction stream exactly as Bytecode.dis() asks for it"""
    from xdis.bytecode import get_instructions_bytes
    if opc.version_tuple > (2, 0):
        cells, line_starts = bc._cell_names, bc._linestarts
    else:
        cells, line_starts = None, None
    # jump targets computed without Bytecode's own glue: the label finder of the table plus, from 3.11, the handler targets of the
    # code object's exception table
    indep = set(opc.findlabels(co.co_code, opc))
    if opc.version_tuple >= (3, 11) and getattr(co, "co_exceptiontable", None):
        from xdis.bytecode import parse_exception_table
        for e in parse_exception_table(co.co_exceptiontable):
            indep.add(e.target)
    recs = []
    for x in get_instructions_bytes(co.co_code, opc, co.co_varnames, co.co_names, co.co_consts, cells, line_starts,
                                    line_offset=bc._line_offset, exception_entries=bc.exception_entries):
        recs.append({"off": x.offset, "op": x.opcode, "name": x.opname, "arg": x.arg, "repr": _noaddr(x.argrepr if isinstance(x.argrepr, str) else repr(x.argrepr)) if x.argrepr else "",
                     "argval": x.argval if isinstance(x.argval, int) and not isinstance(x.argval, bool) else None,
                     "target": bool(x.is_jump_target), "target_indep": x.offset in indep, "line": x.starts_line, "size": x.inst_size, "hasarg": bool(x.has_arg)})
    return recs


def _bad_record(r):
    # things the Coq encoding cannot carry: non-int line numbers / args
    for k in ("off", "op", "size"):
        if not isinstance(r[k], int):
            return True
    for k in ("arg", "line"):
        if r[k] is not None and not isinstance(r[k], int):
            return True
    return False


def op_listing_file(c):
    """c = {file, fmt, max_text}"""
    from xdis.disasm import disassemble_file, show_module_header, get_opcode
    from xdis.bytecode import Bytecode
    from xdis.cross_dis import format_code_info, format_exception_table
    from xdis.codetype.base import iscode
    from xdis.magics import GRAAL3_MAGICS
    fmt = c["fmt"]
    out, so, se = io.StringIO(), io.StringIO(), io.StringIO()
    try:
        with contextlib.redirect_stdout(so), contextlib.redirect_stderr(se):
            r = disassemble_file(c["file"], out, asm_format=fmt)
    except BaseException as e:
        import traceback
        tb = traceback.extract_tb(e.__traceback__)[-1]
        return {"raised": type(e).__name__, "msg": str(e)[:200], "where": "%s:%s" % (tb[0], tb[1])}
    res = {"raised": None, "stdout": so.getvalue()[:500], "stderr": se.getvalue()[:500], "out_len": len(out.getvalue())}
    if fmt in ("xasm", "header"):
        text = out.getvalue()
        res["lines"] = text.count("\n")
        res["all_comment"] = all(ln.startswith("#") or not ln.strip() for ln in text.split("\n")) if fmt == "header" else None
        return res
    filename, co, vt, ts, magic, pypy, size, sip = r
    is_graal = magic in GRAAL3_MAGICS
    # rebuild the stream from its parts (disasm.disco / disco_loop)
    exp = io.StringIO()
    with contextlib.redirect_stdout(io.StringIO()), contextlib.redirect_stderr(io.StringIO()):
        show_module_header(vt, co, ts, exp, pypy, magic, size, sip, header=True, show_filename=False, is_graal=is_graal)
        if co.co_filename:
            exp.write(format_code_info(co, vt, is_graal=is_graal) + "\n")
        opc = get_opcode(vt, pypy, None)
        pieces = []
        queue = [co]
        while queue:
            k = queue.pop(0)
            if k.co_name not in ("<module>", "?"):
                exp.write("\n" + format_code_info(k, vt) + "\n")
            bc = Bytecode(k, opc, dup_lines=True)
            text = bc.dis(asm_format=fmt)
            exp.write(text + "\n")
            if vt >= (3, 11) and getattr(k, "co_exceptiontable", None):
                from xdis.bytecode import parse_exception_table

                class _Shim(object):
                    exception_entries = parse_exception_table(k.co_exceptiontable)
                if _Shim.exception_entries:
                    exp.write(format_exception_table(_Shim, vt) + "\n")
            recs = _records(bc, k, opc) if c.get("pieces") else []
            if not c.get("pieces"):
                pass
            elif len(text) <= c.get("max_text", 20000) and not any(_bad_record(x) for x in recs):
                pieces.append({"name": str(k.co_name), "recs": recs, "text": _noaddr(text)})
            else:
                pieces.append({"name": str(k.co_name), "skipped": True, "n": len(recs)})
            for cst in k.co_consts:
                if iscode(cst):
                    queue.append(cst)
    a, b = _noaddr(out.getvalue()), _noaddr(exp.getvalue())
    res["stream_ok"] = a == b
    if a != b:
        i = next((j for j in range(min(len(a), len(b))) if a[j] != b[j]), min(len(a), len(b)))
        res["stream_diff"] = {"at": i, "actual": a[max(0, i - 80):i + 120], "expected": b[max(0, i - 80):i + 120]}
    res["version"] = list(vt)
    res["pieces"] = pieces
    return res


def op_listing_synth(c):
    """c = {table, code, lnotab, fmt}: Bytecode.dis over a marker-table code object"""
    import ops_instr as OI
    from xdis.bytecode import Bytecode
    opc = OI.table(c["table"])
    out, so, se = io.StringIO(), io.StringIO(), io.StringIO()
    try:
        with contextlib.redirect_stdout(so), contextlib.redirect_stderr(se):
            co = OI._portable_with_markers(opc.version_tuple, c["code"])
            if c.get("lnotab") is not None:
                co.co_lnotab = bytes(c["lnotab"])
                if hasattr(co, "co_linetable"):
                    co.co_linetable = bytes(c["lnotab"])
            bc = Bytecode(co, opc, dup_lines=True)
            text = bc.dis(asm_format=c["fmt"])
            recs = _records(bc, co, opc)
    except BaseException as e:
        import traceback
        tb = traceback.extract_tb(e.__traceback__)[-1]
        return {"raised": type(e).__name__, "msg": str(e)[:200], "where": "%s:%s" % (tb[0], tb[1])}
    return {"raised": None, "stdout": so.getvalue()[:500], "stderr": se.getvalue()[:500], "recs": recs, "text": _noaddr(text),
            "bad": any(_bad_record(x) for x in recs)}


def op_unicode_reprs(c):
    """c = {file}: the operand text (argrepr) of every LOAD_CONST whose constant is a Python 2 unicode object, in co_consts order"""
    from xdis.load import load_module
    from xdis.disasm import get_opcode
    from xdis.bytecode import Bytecode
    from xdis.cross_types import UnicodeForPython3
    t = load_module(c["file"])
    co = t[3]
    opc = get_opcode(t[0], t[4])
    by_index = {}
    for i in Bytecode(co, opc):
        if i.opname == "LOAD_CONST" and isinstance(co.co_consts[i.arg], UnicodeForPython3):
            by_index[i.arg] = i.argrepr
    return [by_index[k] for k in sorted(by_index)]

# Runs under a reference interpreter: the real dis on code objects carrying given code bytes.
# For each case {"code": [...]} reports _unpack_opargs-level triples (offset, op, arg-opt),
# findlabels, and jump argvals.
import json, sys, types, dis, opcode

V = sys.version_info[:2]
def f(): pass
base = f.__code__

def mk(code):
    code = bytes(bytearray(code))
    if V >= (3, 8):
        return base.replace(co_code=code)
    if V >= (3, 0):
        return types.CodeType(0, 0, 0, 1, 0, code, (), (), (), "f.py", "f", 1, b"")
    names = tuple("n%d" % i for i in range(300))
    return types.CodeType(0, 0, 1, 0, code, tuple(range(300)), names, names, "f.py", "f", 1, b"", names, names)

def opt(x):
    return [0] if x is None else [1, int(x)]

def unpack27(code):
    # transcription-free: drive dis.disassemble (which honours EXTENDED_ARG) and parse its columns
    import StringIO
    old = sys.stdout
    sys.stdout = buf = StringIO.StringIO()
    try:
        dis.disassemble(mk(list(bytearray(code))))
    finally:
        sys.stdout = old
    out = []
    for line in buf.getvalue().splitlines():
        parts = line.replace(">>", "  ").replace("-->", "   ").split()
        if not parts:
            continue
        if len(parts) > 1 and parts[1].isdigit() and not parts[1].startswith("<"):
            parts = parts[1:]      # leading line-number column
        off = int(parts[0]); name = parts[1]
        arg = int(parts[2]) if len(parts) > 2 else None
        out.append((off, opcode.opmap.get(name, -1) if not name.startswith("<") else int(name[1:-1]), arg))
    return out

def main():
    cases = json.load(sys.stdin)
    res = []
    for c in cases:
        r = {}
        try:
            code = bytes(bytearray(c["code"]))
            if V >= (3, 4):
                us = list(dis._unpack_opargs(code))
                o = [0, len(us)]
                for t in us:
                    off, op, arg = t[0], t[1], t[2]
                    if V >= (3, 13):
                        # 3.13 yields (offset, start_offset, op, arg)
                        off, op, arg = t[0], t[2], t[3]
                    o += [int(off), int(op)] + opt(arg)
                r["unpack"] = o
                ls = dis.findlabels(code)
                r["labels"] = [0, len(ls)] + [int(x) for x in ls]
            else:
                us = unpack27(code)
                o = [0, len(us)]
                for off, op, arg in us:
                    o += [off, op] + opt(arg)
                r["unpack"] = o
                ls = dis.findlabels(code)
                r["labels"] = [0, len(ls)] + [int(x) for x in ls]
        except Exception as e:
            r["error"] = type(e).__name__ + ": " + str(e)
        res.append(r)
    sys.stdout.write("@@JSON@@" + json.dumps(res) + "\n")

main()

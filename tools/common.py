"""Shared machinery for the xdis Coq verification checks.

Everything here is plumbing: running the implementation (/repo working tree)
in sub-processes, (re)building the Coq development, evaluating generated
`cases_*.v` files inside Coq, and writing evidence.
"""
import fcntl
import hashlib
import json
import os
import re
import shutil
import subprocess
import sys
import time

VERIF = os.path.dirname(os.path.dirname(os.path.abspath(__file__)))
REPO = os.environ.get("XDIS_REPO", "/repo")
COQ = os.path.join(VERIF, "coq")
GEN = os.path.join(COQ, "Gen")
EVID = os.path.join(VERIF, "evidence")
REPLAY = os.path.join(VERIF, "replay")
WORKROOT = os.path.join(VERIF, ".work")
PYENV = "/root/.pyenv/versions"
HOST_DEFAULT = "/venv/bin/python"
HOSTS = {
    "3.8": f"{PYENV}/3.8.18/bin/python",
    "3.9": f"{PYENV}/3.9.18/bin/python",
    "3.10": f"{PYENV}/3.10.13/bin/python",
    "3.11": f"{PYENV}/3.11.7/bin/python",
    "3.12": f"{PYENV}/3.12.1/bin/python",
    "3.13": f"{PYENV}/3.13.0/bin/python",
}
ORACLES = dict(HOSTS)
ORACLES.update(
    {
        "2.7": f"{PYENV}/2.7.18/bin/python",
        "3.6": f"{PYENV}/3.6.15/bin/python",
        "3.7": f"{PYENV}/3.7.16/bin/python",
    }
)
NCPU = os.cpu_count() or 4

TRUSTED_BASE = [
    "Coq 8.16.1 kernel (coqc, vm_compute; no native_compute)",
    "hand-written Gallina model + correspondence check (tools/props, tools/harness) tying it to /repo",
    "translator tools/translate/* regenerating coq/Gen/*.v from /repo's working tree on every run",
    "Spec/* transcription of CPython behaviour, validated against the interpreters under /root/.pyenv/versions",
]


def seed():
    try:
        return int(os.environ.get("VERIF_SEED", "0"))
    except ValueError:
        return 0


def impl_env(extra=None):
    env = dict(os.environ)
    env["PYTHONPATH"] = REPO
    env["PYTHONHASHSEED"] = "0"
    env["PYTHONDONTWRITEBYTECODE"] = "1"
    env.pop("PYTHONSTARTUP", None)
    if extra:
        env.update(extra)
    return env


def oracle_env():
    env = dict(os.environ)
    env.pop("PYTHONPATH", None)
    env["PYTHONHASHSEED"] = "0"
    env["PYTHONDONTWRITEBYTECODE"] = "1"
    return env


def run_py(script, args=(), host=HOST_DEFAULT, stdin=None, impl=True, timeout=900, cwd=None):
    """Run a harness script under `host`; returns (rc, stdout, stderr)."""
    env = impl_env() if impl else oracle_env()
    p = subprocess.run(
        [host, "-B", script, *map(str, args)],
        input=stdin,
        stdout=subprocess.PIPE,
        stderr=subprocess.PIPE,
        env=env,
        timeout=timeout,
        cwd=cwd or VERIF,
        text=True,
    )
    return p.returncode, p.stdout, p.stderr


def run_json(script, payload, host=HOST_DEFAULT, impl=True, timeout=900):
    """Run script with a JSON payload on stdin; expects a JSON document on the
    last stdout line starting with the marker @@JSON@@ (xdis prints debug text)."""
    rc, out, err = run_py(script, host=host, stdin=json.dumps(payload), impl=impl, timeout=timeout)
    for line in reversed(out.splitlines()):
        if line.startswith("@@JSON@@"):
            return json.loads(line[8:])
    raise RuntimeError(f"harness script {script} under {host} produced no result rc={rc}\n{out[-2000:]}\n{err[-4000:]}")


# ------------------------------------------------------------------ Coq text

def zlit(n):
    n = int(n)
    return f"({n})" if n < 0 else str(n)


def zlist(xs):
    return "[" + "; ".join(zlit(x) for x in xs) + "]"


def blist(bs):
    """bytes -> Coq list Z literal"""
    return "[" + ";".join(str(b) for b in bs) + "]"


def slit(s):
    """Python str -> Coq string literal (ASCII printable only; others escaped via ?)."""
    out = []
    for ch in s:
        o = ord(ch)
        if ch == '"':
            out.append('""')
        elif 32 <= o < 127:
            out.append(ch)
        else:
            out.append("?")
    return '"' + "".join(out) + '"'


def optlit(x, f):
    return "None" if x is None else f"(Some {f(x)})"


def boollit(b):
    return "true" if b else "false"


def write_if_changed(path, text):
    try:
        with open(path) as f:
            if f.read() == text:
                return False
    except FileNotFoundError:
        pass
    os.makedirs(os.path.dirname(path), exist_ok=True)
    tmp = path + ".tmp%d" % os.getpid()
    with open(tmp, "w") as f:
        f.write(text)
    os.replace(tmp, path)
    return True


# ------------------------------------------------------------------ Coq build

class BuildLock:
    """Exclusive while .vo files are (re)built; shared (ReadLock) while case files are evaluated against them, so that two
    checks running at the same time never load a library another one is rewriting."""
    mode = fcntl.LOCK_EX

    def __enter__(self):
        os.makedirs(WORKROOT, exist_ok=True)
        self.f = open(os.path.join(WORKROOT, "build.lock"), "w")
        fcntl.flock(self.f, self.mode)
        return self

    def __exit__(self, *a):
        fcntl.flock(self.f, fcntl.LOCK_UN)
        self.f.close()


class ReadLock(BuildLock):
    mode = fcntl.LOCK_SH


FORBIDDEN = re.compile(
    r"\b(Admitted|admit|Axiom|Axioms|Parameter|Parameters|Conjecture|Admit Obligations|bypass_check|native_compute)\b|Unset\s+Guard|Unset\s+Positivity|Unset\s+Universe|type-in-type|impredicative-set"
)


def strip_coq_comments(text):
    out = []
    depth = 0
    i = 0
    n = len(text)
    instr = False
    while i < n:
        c = text[i]
        if depth == 0 and c == '"':
            instr = not instr
            out.append(c)
            i += 1
            continue
        if not instr and text.startswith("(*", i):
            depth += 1
            i += 2
            continue
        if not instr and depth and text.startswith("*)", i):
            depth -= 1
            i += 2
            continue
        if depth == 0:
            out.append(c)
        i += 1
    return "".join(out)


def forbidden_scan():
    """Fail-closed scan of the whole development for axioms/admits/flag tricks."""
    bad = []
    for root, _, files in os.walk(COQ):
        for fn in files:
            if not fn.endswith(".v"):
                continue
            p = os.path.join(root, fn)
            txt = strip_coq_comments(open(p).read())
            # Section-local Variable/Hypothesis is allowed; top-level is not. We
            # simply forbid them outside files that open a Section.
            for m in FORBIDDEN.finditer(txt):
                bad.append(f"{os.path.relpath(p, VERIF)}: {m.group(0)}")
            if re.search(r"^\s*(Variable|Variables|Hypothesis|Hypotheses|Context)\b", txt, re.M):
                if not re.search(r"^\s*Section\b", txt, re.M):
                    bad.append(f"{os.path.relpath(p, VERIF)}: Variable/Hypothesis outside Section")
    proj = open(os.path.join(COQ, "_CoqProject")).read()
    if re.search(r"type-in-type|impredicative-set|-vos|-vok", proj):
        bad.append("_CoqProject: forbidden flag")
    return bad


def coq_project_files():
    files = []
    for sub in ("Base", "Spec", "Model", "Gen", "Proofs", "Props"):
        d = os.path.join(COQ, sub)
        if os.path.isdir(d):
            for fn in sorted(os.listdir(d)):
                if fn.endswith(".v") and not fn.startswith("."):
                    files.append(f"{sub}/{fn}")
    return files


def coq_makefile():
    files = coq_project_files()
    proj = "-R . Xdis\n-arg -w -arg -notation-overridden,-deprecated-hint-without-locality,-deprecated-syntactic-definition\n" + "\n".join(files) + "\n"
    changed = write_if_changed(os.path.join(COQ, "_CoqProject"), proj)
    mk = os.path.join(COQ, "Makefile")
    if changed or not os.path.exists(mk):
        subprocess.run(["coq_makefile", "-f", "_CoqProject", "-o", "Makefile"], cwd=COQ, check=True, stdout=subprocess.PIPE, stderr=subprocess.PIPE)


def coq_build(targets, timeout=1500):
    """Build the given .vo targets (paths relative to coq/). Returns (ok, log)."""
    with BuildLock():
        coq_makefile()
        cmd = ["timeout", str(timeout), "make", f"-j{NCPU}", "-k", *targets]
        p = subprocess.run(cmd, cwd=COQ, stdout=subprocess.PIPE, stderr=subprocess.STDOUT, text=True)
        if p.returncode != 0:
            # a file that failed keeps its OLD .vo, compiled against the old Gen/*.vo: remove what is out of date so that
            # nothing loads it ("inconsistent assumptions"); the case files of a check then import only what still builds
            q = subprocess.run(["make", "-k", "-n", *targets], cwd=COQ, stdout=subprocess.PIPE, stderr=subprocess.STDOUT, text=True)
            for m in re.finditer(r"COQC\s+(\S+\.v)\b|coqc\b.*?\s(\S+\.v)\b", q.stdout):
                v = m.group(1) or m.group(2)
                vo = os.path.join(COQ, v[:-2] + ".vo")
                if os.path.exists(vo):
                    os.unlink(vo)
        return p.returncode == 0, p.stdout


def spec_problem(r, errs, bad):
    """Spec-vs-interpreter validation: True when the spec really disagrees (machinery error).  When the case files could
    not even be evaluated because the development did not build (a broken obligation is already reported), skip."""
    if errs and not getattr(r, "build_ok", True):
        r.note("spec validation skipped: the Coq development did not build, case files cannot be evaluated")
        return False
    return bool(errs or bad)


def workdir(tag):
    d = os.path.join(WORKROOT, f"{tag}-{os.getpid()}")
    shutil.rmtree(d, ignore_errors=True)
    os.makedirs(d)
    return d


def coqc_file(path, timeout=600):
    p = subprocess.run(
        ["timeout", str(timeout), "coqc", "-R", COQ, "Xdis", "-w", "-notation-overridden,-deprecated-hint-without-locality", path],
        stdout=subprocess.PIPE,
        stderr=subprocess.PIPE,
        text=True,
        cwd=os.path.dirname(path),
    )
    return p.returncode, p.stdout, p.stderr


def coq_eval_many(wd, files, jobs=None):
    """files: list of (name, text). Runs coqc on each in parallel; returns {name: (rc,out,err)}."""
    from concurrent.futures import ThreadPoolExecutor

    paths = []
    for name, text in files:
        p = os.path.join(wd, name)
        with open(p, "w") as f:
            f.write(text)
        paths.append((name, p))
    res = {}
    with ReadLock(), ThreadPoolExecutor(max_workers=jobs or NCPU) as ex:
        futs = {name: ex.submit(coqc_file, p) for name, p in paths}
        for name, fu in futs.items():
            res[name] = fu.result()
    return res


THEOREM_RE = re.compile(r"^\s*(?:Theorem|Corollary)\s+([A-Za-z_][A-Za-z0-9_']*)", re.M)


def theorem_names(prop_file):
    txt = strip_coq_comments(open(os.path.join(COQ, prop_file)).read())
    return THEOREM_RE.findall(txt)


def print_assumptions(modname, names, wd):
    """Returns {theorem: assumptions text} by running Print Assumptions in a fresh coqc."""
    if not names:
        return {}, ""
    text = f"Require Import Xdis.{modname}.\n" + "".join(
        f'Goal True. idtac "@@BEGIN {n}". Abort.\nPrint Assumptions {n}.\n' for n in names
    )
    p = os.path.join(wd, "PA_" + modname.replace(".", "_") + ".v")
    with open(p, "w") as f:
        f.write(text)
    with ReadLock():
        rc, out, err = coqc_file(p)
    res = {}
    if rc != 0:
        return {n: None for n in names}, err
    cur = None
    buf = []
    for line in out.splitlines():
        if line.startswith("@@BEGIN "):
            if cur:
                res[cur] = " ".join(buf).strip()
            cur = line[8:].strip()
            buf = []
        else:
            buf.append(line.strip())
    if cur:
        res[cur] = " ".join(buf).strip()
    return res, ""


# ------------------------------------------------------------------ findings

def load_known_findings():
    known, fixed = [], []
    p = os.path.join(VERIF, "KNOWN_FINDINGS.txt")
    if os.path.exists(p):
        for line in open(p):
            line = line.strip()
            if not line or line.startswith("#"):
                continue
            m = re.match(r"(known|fixed):\s+property=(C\d+)\s+(.*)$", line)
            if not m:
                continue
            kind, pid, rest = m.groups()
            ent = {"property": pid, "text": rest}
            km = re.search(r"\bid=(\S+)", rest)
            if km:
                ent["id"] = km.group(1)
            (known if kind == "known" else fixed).append(ent)
    return known, fixed


# ------------------------------------------------------------------ source drift

def ast_hash(path, qualnames):
    """Hash of the ast.dump of the named functions/methods ('f' or 'Class.m') in path."""
    import ast

    src = open(path).read()
    tree = ast.parse(src)
    found = {}

    def visit(node, prefix):
        for ch in ast.iter_child_nodes(node):
            if isinstance(ch, (ast.FunctionDef, ast.AsyncFunctionDef)):
                q = prefix + ch.name
                found[q] = hashlib.sha256(ast.dump(ch).encode()).hexdigest()[:16]
            elif isinstance(ch, ast.ClassDef):
                visit(ch, prefix + ch.name + ".")

    visit(tree, "")
    return {q: found.get(q) for q in qualnames}


def digest(obj):
    return hashlib.sha256(json.dumps(obj, sort_keys=True, default=str).encode()).hexdigest()[:16]


# ------------------------------------------------------------------ in-Coq case evaluation

def coq_cases(wd, tag, header, case_type, check_term, case_lits, chunk=400, model_term=None):
    """Evaluate `check_term : case_type -> bool` on every literal inside Coq (vm_compute).
    Returns (failing_indices, errors).  Each chunk is one coqc process."""
    files = []
    for ci in range(0, len(case_lits), chunk):
        part = case_lits[ci: ci + chunk]
        body = [header, "From Coq Require Import ZArith List String.", "Import ListNotations.", "Open Scope Z_scope.",
                f"Definition cases : list ({case_type}) := [", ";\n".join(part), "]."]
        body.append(
            "Fixpoint bad_idx (i : Z) (l : list (" + case_type + ")) : list Z := match l with [] => [] | c :: r => "
            "if (" + check_term + ") c then bad_idx (i + 1) r else i :: bad_idx (i + 1) r end."
        )
        body.append(f"Eval vm_compute in (bad_idx {ci} cases).")
        files.append((f"cases_{tag}_{ci}.v", "\n".join(body) + "\n"))
    res = coq_eval_many(wd, files)
    bad, errors = [], []
    for name, (rc, out, err) in res.items():
        if rc != 0:
            errors.append((name, err[-3000:]))
            continue
        m = re.search(r"=\s*\[(.*?)\]\s*:\s*list Z", out, re.S)
        if not m:
            errors.append((name, "unparsable output: " + out[-500:]))
            continue
        bad += [int(x) for x in re.findall(r"-?\d+", m.group(1))]
    return sorted(bad), errors


def coq_eval_term(wd, tag, header, term):
    """Eval vm_compute of one term; returns raw text after '='."""
    p = os.path.join(wd, f"eval_{tag}.v")
    with open(p, "w") as f:
        f.write(header + f"\nEval vm_compute in ({term}).\n")
    with ReadLock():
        rc, out, err = coqc_file(p)
    if rc != 0:
        return None, err
    return out, ""


IMPL_RUN = os.path.join(VERIF, "tools/harness/impl_run.py")


OUTER_ERRORS = []      # (op, host, result): an op of the harness itself raised - the case was not observed at all


def _note_outer(op, host, res):
    for o in res:
        if isinstance(o, dict) and o.get("outer"):
            OUTER_ERRORS.append((op, host, o))
    return res


def run_impl_op(op, cases, modules=(), host=HOST_DEFAULT, timeout=1800, shards=1):
    """Run an implementation-side op over cases (optionally sharded over processes)."""
    if shards <= 1 or len(cases) < 200:
        return _note_outer(op, host, run_json(IMPL_RUN, {"op": op, "cases": cases, "modules": list(modules)}, host=host, timeout=timeout)["results"])
    from concurrent.futures import ThreadPoolExecutor
    n = len(cases)
    step = (n + shards - 1) // shards
    parts = [cases[i:i + step] for i in range(0, n, step)]
    with ThreadPoolExecutor(max_workers=shards) as ex:
        outs = list(ex.map(lambda p: run_json(IMPL_RUN, {"op": op, "cases": p, "modules": list(modules)}, host=host, timeout=timeout)["results"], parts))
    res = []
    for o in outs:
        res += o
    return _note_outer(op, host, res)


def correspond(r, tag, header, op, cases, term_fn, modules=(), host=HOST_DEFAULT, chunk=400, max_report=3,
               describe=None, nontrivial=None, shards=1):
    """Model-vs-implementation correspondence, evaluated inside Coq.
    term_fn(case) -> Coq term (type list Z) computing the model's observation for that case.
    Returns the list of (case, impl_obs, model_obs_text) disagreements (also recorded as violations
    unless the caller passes describe=None and handles them)."""
    res = run_impl_op(op, cases, modules=modules, host=host, shards=shards)
    lits = []
    for c, o in zip(cases, res):
        if isinstance(o, dict):
            o = [1, 50]
        lits.append(f"({term_fn(c)}, {zlist(o)})")
        r.count(f"{tag}:" + ("ok" if o and o[0] == 0 else f"err{o[1] if len(o) > 1 else ''}"))
        nt = nontrivial(c, o) if nontrivial else (bool(o) and o[0] == 0 and len(o) > 2)
        r.case((tag, digest(c)), nontrivial=nt, sample={"op": op, "case": c, "impl_obs": o[:24]} if len(r.cov["samples"]) < 8 and nt and (len(r.cov["samples"]) == 0 or r.cov["samples"][-1].get("op") != op) else None)
    bad, errs = coq_cases(r.wd, tag, header, "list Z * list Z", "fun c => zlist_eqb (fst c) (snd c)", lits, chunk=chunk)
    if errs:
        raise RuntimeError(f"coq case evaluation failed for {tag}: {errs[0]}")
    out = []
    for b in bad[:max_report]:
        mout, _ = coq_eval_term(r.wd, f"{tag}_m{b}", header, term_fn(cases[b]))
        mtxt = " ".join((mout or "").split())
        out.append((cases[b], res[b], mtxt))
        if describe is not None:
            r.violation(describe(cases[b], res[b], mtxt))
    r.cov.setdefault("correspondence", {})[tag] = {"cases": len(cases), "disagreements": len(bad)}
    return out, bad, res

"""Rewrites section 0.6 of DESIGN.md from /verif/seeded/*/meta.json."""
import glob, json, os, re
rows = []
for d in sorted(glob.glob('/verif/seeded/*/'), key=lambda p: (p.split('/')[-2].split('-')[0], int(p.split('/')[-2].split('-')[1]))):
    m = json.load(open(d + 'meta.json'))
    how = "; ".join(c + ("" if not v.get("no_failing_input") else " (no-failing-input-found)") for c, v in (m.get('checks') or {}).items() if v.get('exit') == 1)
    rows.append(f"| {os.path.basename(d.rstrip('/'))} | {m.get('summary','')[:170].replace('|','/')} | {how or 'MISSED'} |")
n = len(rows)
txt = ("### 0.6 Seeded changes (sub-agents, one property text and a scratch worktree each) and which checks report them\n\n"
       "Each change compiles, keeps the 39 baseline tests passing, and makes its own demonstration fail; confirmed in a scratch worktree by "
       "`tools/seedconfirm.py`, stored in `/verif/seeded/<id>/` (patch.diff, demo.py, meta.json with the check results), then applied to /repo, "
       "checked with the quick tier at seed 1, and reverted (the third round ran the same checks from rsync copies of /verif against scratch worktrees, "
       "`SEED_REPO`/`SEED_VERIF`, so that /repo stayed free; every change was finally re-run with `tools/seedrecheck.py`).  Five rounds (from the second on the agents were told what had "
       f"been tried and asked for other mechanisms; the third asked for two changes per property that need something specific to manifest): {n} changes, all reported by the final "
       "checks.  Every patch.diff applies to /repo's HEAD with `git apply`: the 25 that the later `fix:` commits had left without matching context were re-made by hand on the current code "
       "(same change, demonstration failing again, 39 baseline tests passing) and re-run; one (C18-5) could no longer be expressed after fix 3c05f6c and sits in /verif/seeded-superseded/ "
       "with the reason.  Misses of earlier versions of the checks, and what they led to: "
       "C06-2 (the failing magic is now found by a checker that still loads when the table lemma breaks; stale .vo files are removed), "
       "C10-2 (FLAG_REF members of sets and slot-order streams; a shared-frozenset source for C01), C07-1 (line-gap source, all generated sources in the quick tier), "
       "C18-1 (class-level mutable attributes are roots of the scanner; interned-string streams in the histories), C20-2 (first_line=0); second round: "
       "C02-4 (every defined opcode of every table is now decoded at least once whatever the seed), C10-4 (repeated interned strings with references to every index), "
       "C12-3 (jump targets are recomputed without Bytecode's own glue - label finder plus handler targets - and the ExceptionTable section of the expected stream comes from the "
       "code object's table, not from Bytecode), C12-4 (a Python 2 syntax source: three-argument raise, print >>, exec, backticks), C13-3 (a source with positional-only and "
       "keyword-only parameters), C16-3 (replace() with zero / empty values), C17-3 (the 'ExceptionTable:' section is modelled and compared: C17_exception_section), "
       "C01-3 (64-bit int constants in the Python 2 source); third round (17 of 40 were missed by the check of their own property at first): C01-6 and C10-6 (a container reader "
       "dropping bytes_for_s: C10 now runs a deterministic matrix - every container code around every leaf code, small and with more than 255 items - and C01 compiles a source with "
       "byte strings inside a 260-item tuple, nested tuples and compiler-built frozensets; the random streams are now mostly tuples of several values instead of lone leaves), "
       "C02-5 (opname[n] must be spelled as CPython spells it: C09 obligation; C02 checks Instruction.opname against the table), C07-3 (fast path keyed on major.minor: C07 pins, for "
       "every corpus directory of a host's version, the smallest file of each distinct magic - 3.8 pre-releases, PyPy 3.8 - and its runner no longer depends silently on "
       "xdis.load.PYTHON_MAGIC_INT), C17-5 (exception table parsed only on 3.11+ HOSTS: C17 runs Bytecode.exception_entries on the 3.8 and 3.13 hosts too), C20-3 (line table "
       "memoised per code-object value: two functions with equal code objects and different line tables in the C20 objects), and the memoisation family C02-6, C03-6, C04-5, C06-6, "
       "C07-4, C08-5, C18-3, C18-4, C20-3 (a cache keyed too coarsely, or handing out a list that is later extended in place): history dependence is C18's property - its scanner now "
       "treats every use of functools.lru_cache / cache / cached_property as a mutation site of its own and follows local aliases of module-level objects, and its histories gained "
       "finer operations (the std functions per code object, co_lines() twice, whole-table stack effects, sysinfo2magic, pretty_flags) and operations related to the probe, so that "
       "concrete failing histories are found for C02-6, C04-5, C15-5, C18-4.  C03-5, C12-5, C12-6 are decoder changes reported by the decoder's own property (C01/C07, C02/C04, C03).  "
       "C13-5 was rebased onto the three C13 fixes.  Fourth round (caches were ruled out; 10 of 40 missed by the check of their own property at first): C08-7/C08-8 (sysinfo2magic is now "
       "EXECUTED for every final and release-candidate name of the tables, and get_opcode under the file names that switch PyPy detection), C10-8 (PyPy 3.2 files enter C01's corpus tie "
       "through the pypy32_fix adapter, plus a synthetic PyPy 3.2 code object with bytes constants), C13-8 (PyPy-magic twins 256/336/384 of files compiled by 3.8-3.10), C16-7 (native code "
       "objects with one field varied at a time: co_nlocals, co_stacksize, flag bits, first line, non-ASCII name), C07-5 (a 2100-line gap source: three-chunk varints), C18-5/C18-6 (the "
       "scanner flags calls of interpreter-global setters such as sys.set_int_max_str_digits and one-shot iterators bound at module level), C05-8 (first_line shift of line 0: reported by C20), "
       "C12-7/C12-8 and C03-7/C03-8 (table and decoder changes reported by C09/C04, C05, C02, C10/C01).  Fifth round (12 of 38 missed by the check of their own property at first): "
       "C04-9 (the public xdis.findlabels is now tied on the same code strings), C05-10 (the public findlinestarts with three-component versions), C05-9 (a function with more than 256 "
       "constants in C20's objects: lines that start with EXTENDED_ARG), C07-8 (constants shared by several code objects in the sources), C08-10 (unlisted patch releases must get their "
       "series' table), C17-10 (parse_positions per code unit), C18-8 (Dropbox files that fail part-way in the histories), C02-10 (operands of 2^31 and more in 3.6-3.10 word code), "
       "C01-9/C01-10, C12-9/C12-10, C20-7, C02-9 (reported by C10, C05, C17, C04, C09), C03-10 (Bytecode(a).get_instructions(b) is now compared with Bytecode(b)).  C12-1 is a label-finder change: it is reported by C04; C12 takes jump targets from that same label finder.  "
       "'(no-failing-input-found)' marks reports where the broken obligation is named but no concrete input was searched out.\n\n"
       "| id | change | reported by |\n|---|---|---|\n" + "\n".join(rows) + "\n\n")
p = '/verif/DESIGN.md'
s = open(p).read()
a = s.index("### 0.6 Seeded changes")
b = s.index("### 0.7 ") if "### 0.7 " in s else s.index("## 1. What is being decided")
s = s[:a] + txt + s[b:]
open(p, 'w').write(s)
print(n, "rows")

"""Rewrites section 0.6 of DESIGN.md from /verif/seeded/*/meta.json."""
import glob, json, os, re
rows = []
for d in sorted(glob.glob('/verif/seeded/*/'), key=lambda p: (p.split('/')[-2].split('-')[0], int(p.split('/')[-2].split('-')[1]))):
    m = json.load(open(d + 'meta.json'))
    how = "; ".join(c + ("" if not v.get("no_failing_input") else " (no-failing-input-found)") for c, v in (m.get('checks') or {}).items() if v.get('exit') == 1)
    rows.append(f"| {os.path.basename(d.rstrip('/'))} | {m.get('summary','')[:170].replace('|','/')} | {how or 'MISSED'} |")
n = len(rows)
txt = ("### 0.6 Seeded changes (sub-agents, one property text and a scratch worktree each) and which checks report them\n\n"
       "Each change compiles, keeps the 39 baseline tests passing, and makes its own demonstration fail; confirmed in a scratch worktree by "
       "`tools/seedconfirm.py`, stored in `/verif/seeded/<id>/` (patch.diff, demo.py, meta.json with the check results), then applied to /repo, "
       "checked with the quick tier at seed 1, and reverted.  Two rounds (the second round's agents were told what had been tried and asked for other "
       f"mechanisms): {n} changes, all reported by the final checks.  Misses of earlier versions of the checks, and what they led to: "
       "C06-2 (the failing magic is now found by a checker that still loads when the table lemma breaks; stale .vo files are removed), "
       "C10-2 (FLAG_REF members of sets and slot-order streams; a shared-frozenset source for C01), C07-1 (line-gap source, all generated sources in the quick tier), "
       "C18-1 (class-level mutable attributes are roots of the scanner; interned-string streams in the histories), C20-2 (first_line=0); second round: "
       "C02-4 (every defined opcode of every table is now decoded at least once whatever the seed), C10-4 (repeated interned strings with references to every index), "
       "C12-3 (jump targets are recomputed without Bytecode's own glue - label finder plus handler targets - and the ExceptionTable section of the expected stream comes from the "
       "code object's table, not from Bytecode), C12-4 (a Python 2 syntax source: three-argument raise, print >>, exec, backticks), C13-3 (a source with positional-only and "
       "keyword-only parameters), C16-3 (replace() with zero / empty values), C17-3 (the 'ExceptionTable:' section is modelled and compared: C17_exception_section), "
       "C01-3 (64-bit int constants in the Python 2 source).  C12-1 is a label-finder change: it is reported by C04; C12 takes jump targets from that same label finder.  "
       "'(no-failing-input-found)' marks reports where the broken obligation is named but no concrete input was searched out.\n\n"
       "| id | change | reported by |\n|---|---|---|\n" + "\n".join(rows) + "\n\n")
p = '/verif/DESIGN.md'
s = open(p).read()
a = s.index("### 0.6 Seeded changes")
b = s.index("## 1. What is being decided")
s = s[:a] + txt + s[b:]
open(p, 'w').write(s)
print(n, "rows")

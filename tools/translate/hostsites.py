"""Gen/HostSites.v: every place in the decode / listing path of /repo where the HOST interpreter's identity is consulted
(PYTHON_VERSION_TRIPLE, PYTHON_VERSION, sys.version_info, PYTHON3, IS_PYPY, IS_GRAAL, PYTHON_MAGIC_INT), from the AST.
Comparisons against constant tuples / ints are evaluated for the six supported hosts; every other use is listed as a
value use (the host's identity flows on as data).  Fail closed: a comparison that cannot be evaluated is a value use."""
import ast
import os
import sys

sys.path.insert(0, os.path.dirname(os.path.dirname(os.path.abspath(__file__))))
import common as C

HOST_NAMES = {"PYTHON_VERSION_TRIPLE", "PYTHON_VERSION", "PYTHON3", "IS_PYPY", "IS_GRAAL", "PYTHON_MAGIC_INT", "PYTHON_MAGIC", "PYTHON_VERSION_STR"}
HOSTS = [(3, 8, 18), (3, 9, 18), (3, 10, 13), (3, 11, 7), (3, 12, 1), (3, 13, 0)]
SKIP_DIRS = ("xdis/bin", "xdis/dropbox")


def host_env(h):
    class VI(tuple):
        major = h[0]
        minor = h[1]
        micro = h[2]
    return {"PYTHON_VERSION_TRIPLE": h, "PYTHON_VERSION": float("%d.%d" % h[:2]), "PYTHON3": True, "IS_PYPY": False, "IS_GRAAL": False,
            "version_info": VI(h + ("final", 0)), "sys_version_info": VI(h + ("final", 0))}


def mentions_host(n):
    for x in ast.walk(n):
        if isinstance(x, ast.Name) and x.id in HOST_NAMES:
            return True
        if isinstance(x, ast.Attribute) and x.attr in HOST_NAMES:
            return True
    return False


def pure_host_expr(n):
    """only host names, constants, tuples, comparisons, boolean ops, slices"""
    for x in ast.walk(n):
        if isinstance(x, (ast.Compare, ast.BoolOp, ast.And, ast.Or, ast.UnaryOp, ast.Not, ast.Tuple, ast.Constant, ast.Load, ast.Subscript, ast.Slice,
                          ast.Lt, ast.LtE, ast.Gt, ast.GtE, ast.Eq, ast.NotEq, ast.In, ast.NotIn)):
            continue
        if isinstance(x, ast.Name) and x.id in HOST_NAMES and x.id not in ("PYTHON_MAGIC_INT", "PYTHON_MAGIC", "PYTHON_VERSION_STR"):
            continue
        if isinstance(x, ast.Attribute) and x.attr == "version_info" and isinstance(x.value, ast.Name) and x.value.id == "sys":
            continue
        if isinstance(x, ast.Name) and x.id == "sys":
            continue
        return False
    return True


def evaluate(n, h):
    src = ast.unparse(n).replace("sys.version_info", "sys_version_info")
    return bool(eval(src, {"__builtins__": {}}, host_env(h)))


def scan():
    cmp_sites, value_uses = [], []
    root = os.path.join(C.REPO, "xdis")
    for dp, dn, fn in os.walk(root):
        rel = os.path.relpath(dp, C.REPO)
        if rel.startswith(SKIP_DIRS):
            continue
        for f in sorted(fn):
            if not f.endswith(".py") or f == "version_info.py":
                continue
            path = os.path.join(dp, f)
            mod = os.path.relpath(path, C.REPO)[:-3].replace(os.sep, ".")
            tree = ast.parse(open(path).read())
            parents = {}
            funcs = {}
            for n in ast.walk(tree):
                for ch in ast.iter_child_nodes(n):
                    parents[ch] = n

            def func_of(n):
                names = []
                while n in parents:
                    n = parents[n]
                    if isinstance(n, (ast.FunctionDef, ast.AsyncFunctionDef, ast.ClassDef)):
                        names.append(n.name)
                return ".".join(reversed(names)) or "<module>"

            seen = set()
            for n in ast.walk(tree):
                if isinstance(n, (ast.Import, ast.ImportFrom)):
                    continue
                is_host = isinstance(n, ast.Name) and n.id in HOST_NAMES or isinstance(n, ast.Attribute) and n.attr == "version_info" and isinstance(n.value, ast.Name) and n.value.id == "sys"
                if not is_host:
                    continue
                # climb to the largest enclosing pure host expression
                top = n
                while top in parents and isinstance(parents[top], (ast.Compare, ast.BoolOp, ast.UnaryOp, ast.Subscript, ast.Tuple)) and pure_host_expr(parents[top]):
                    top = parents[top]
                if id(top) in seen:
                    continue
                seen.add(id(top))
                where = f"{mod}:{func_of(top)}"
                text = " ".join(ast.unparse(top).split())
                p = parents.get(top)
                is_test = isinstance(top, (ast.Compare, ast.BoolOp, ast.UnaryOp)) or isinstance(p, (ast.If, ast.IfExp, ast.While, ast.Assert)) and getattr(p, "test", None) is top \
                    or isinstance(p, (ast.BoolOp, ast.UnaryOp))
                if is_test and pure_host_expr(top):
                    try:
                        vals = [evaluate(top, h) for h in HOSTS]
                        cmp_sites.append((where, text, vals))
                        continue
                    except Exception:
                        pass
                # context of a value use: the enclosing statement, shortened
                st = top
                while st in parents and not isinstance(st, ast.stmt):
                    st = parents[st]
                value_uses.append((where, " ".join(ast.unparse(st).split())[:110]))
    return sorted(set((a, b, tuple(c)) for a, b, c in cmp_sites)), sorted(set(value_uses))


def generate():
    cmp_sites, value_uses = scan()
    L = ["(* GENERATED by tools/translate/hostsites.py from the AST of /repo/xdis (bin/ and dropbox/ excluded). Do not edit. *)",
         "From Coq Require Import ZArith List String Bool.", "Import ListNotations.", "Open Scope Z_scope.", "Local Open Scope string_scope.", "",
         "Definition host_list : list (list Z) := [" + "; ".join(C.zlist(list(h)) for h in HOSTS) + "].",
         "(* tests on the host's identity: (module:function, expression, its value on each host of host_list) *)",
         "Definition host_tests : list (string * string * list bool) := [\n  " + ";\n  ".join(f"({C.slit(w)}, {C.slit(t)}, [" + "; ".join(C.boollit(v) for v in vals) + "])" for w, t, vals in cmp_sites) + "].",
         "(* other uses: the host's identity flows on as a value: (module:function, statement) *)",
         "Definition host_value_uses : list (string * string) := [\n  " + ";\n  ".join(f"({C.slit(w)}, {C.slit(t)})" for w, t in value_uses) + "]."]
    C.write_if_changed(os.path.join(C.GEN, "HostSites.v"), "\n".join(L) + "\n")


if __name__ == "__main__":
    generate()
    c, v = scan()
    for x in c:
        if len(set(x[2])) > 1:
            print("VARYING", x)
    print(len(c), "tests;", len(v), "value uses")
    for x in v:
        print("  ", x)

"""Gen/CodeType.v: the attribute plumbing of xdis/codetype, taken from the AST of /repo (fail closed):
   - codeType2Portable: which attribute is read as the line table, and per version which class is built from which
     native attributes;
   - each class __init__ (following super().__init__ chains): which parameter ends in which attribute;
   - each class to_native: host-version guard and the attributes passed positionally to types.CodeType;
   - portableCodeType: class per version.
   Gen/RefCodeType.v: per installed interpreter, the data attributes of its code objects and the attribute each positional
   parameter of its types.CodeType sets (from the constructor's signature text)."""
import ast
import json
import os
import sys

sys.path.insert(0, os.path.dirname(os.path.dirname(os.path.abspath(__file__))))
import common as C

VERSIONS = [(1, 0), (1, 3), (1, 4), (1, 5), (1, 6), (2, 0), (2, 1), (2, 2), (2, 3), (2, 4), (2, 5), (2, 6), (2, 7), (3, 0), (3, 1), (3, 2), (3, 3), (3, 4), (3, 5),
            (3, 6), (3, 7), (3, 8), (3, 9), (3, 10), (3, 11), (3, 12), (3, 13)]
CLASS_FILES = {"Code13": "code13.py", "Code15": "code15.py", "Code2": "code20.py", "Code3": "code30.py", "Code38": "code38.py", "Code310": "code310.py", "Code311": "code311.py"}


class TranslationUnsupported(Exception):
    pass


def U(msg):
    raise TranslationUnsupported(msg)


def parse(rel):
    return ast.parse(open(os.path.join(C.REPO, "xdis/codetype", rel)).read())


def find_fn(body, name):
    for n in body:
        if isinstance(n, ast.FunctionDef) and n.name == name:
            return n
    U(f"function {name} not found")


def find_class(tree, name):
    for n in tree.body:
        if isinstance(n, ast.ClassDef) and n.name == name:
            return n
    U(f"class {name} not found")


def is_docstring(s):
    return isinstance(s, ast.Expr) and isinstance(s.value, ast.Constant) and isinstance(s.value.value, str)


def eval_version_test(test, name, v, extra=None):
    """evaluate a comparison over `name` (a version tuple) - only tuples, ints, comparisons, slices, bool ops"""
    for n in ast.walk(test):
        if not isinstance(n, (ast.Compare, ast.Name, ast.Tuple, ast.Constant, ast.Load, ast.Lt, ast.LtE, ast.Gt, ast.GtE, ast.Eq, ast.NotEq, ast.BoolOp, ast.And, ast.Or,
                              ast.UnaryOp, ast.Not, ast.Subscript, ast.Slice)):
            U(f"version test uses {type(n).__name__}: {ast.unparse(test)}")
        if isinstance(n, ast.Name) and n.id != name:
            U(f"version test mentions {n.id}: {ast.unparse(test)}")
    return bool(eval(compile(ast.Expression(test), "<test>", "eval"), {"__builtins__": {}}, {name: v}))


# ------------------------------------------------------------------ class constructors
def ctor_map(cls_name, cache):
    """-> (params in order, {attr: param})"""
    if cls_name in cache:
        return cache[cls_name]
    tree = parse(CLASS_FILES[cls_name])
    cls = find_class(tree, cls_name)
    init = find_fn(cls.body, "__init__")
    a = init.args
    if a.vararg or a.kwarg or a.kwonlyargs or a.posonlyargs:
        U(f"{cls_name}.__init__: unsupported signature")
    params = [x.arg for x in a.args][1:]
    attr = {}
    for s in init.body:
        if is_docstring(s) or isinstance(s, ast.Return) and s.value is None or isinstance(s, ast.Pass):
            continue
        if isinstance(s, ast.Assign) and len(s.targets) == 1 and isinstance(s.targets[0], ast.Attribute) and isinstance(s.targets[0].value, ast.Name) \
                and s.targets[0].value.id == "self":
            tgt = s.targets[0].attr
            if tgt == "fieldtypes":
                continue
            if isinstance(s.value, ast.Name) and s.value.id in params:
                attr[tgt] = s.value.id
                continue
            U(f"{cls_name}.__init__: self.{tgt} = {ast.unparse(s.value)}")
        if isinstance(s, ast.If) and "self.check()" in ast.unparse(s) and len(s.body) == 1 and not s.orelse and "type(self)" in ast.unparse(s.test):
            continue
        if isinstance(s, ast.Expr) and isinstance(s.value, ast.Call) and isinstance(s.value.func, ast.Attribute) and s.value.func.attr == "__init__" \
                and isinstance(s.value.func.value, ast.Call) and isinstance(s.value.func.value.func, ast.Name) and s.value.func.value.func.id == "super":
            if len(cls.bases) != 1 or not isinstance(cls.bases[0], ast.Name):
                U(f"{cls_name}: bases")
            pparams, pattr = ctor_map(cls.bases[0].id, cache)
            binding = {}
            for i, e in enumerate(s.value.args):
                binding[pparams[i]] = e
            for k in s.value.keywords:
                if k.arg is None:
                    U(f"{cls_name}: **kwargs in super().__init__")
                binding[k.arg] = k.value
            if set(binding) != set(pparams):
                U(f"{cls_name}: super().__init__ binds {sorted(binding)} but the parent takes {pparams}")
            for at, pp in pattr.items():
                e = binding[pp]
                if not (isinstance(e, ast.Name) and e.id in params):
                    U(f"{cls_name}: super().__init__({pp}={ast.unparse(e)})")
                attr[at] = e.id
            continue
        U(f"{cls_name}.__init__: unsupported statement {ast.unparse(s)[:80]}")
    cache[cls_name] = (params, attr)
    return cache[cls_name]


def to_native_info(cls_name):
    """-> (hosts among VERSIONS accepted by the guard, attributes passed to types.CodeType in order)"""
    tree = parse(CLASS_FILES[cls_name])
    cls = find_class(tree, cls_name)
    try:
        f = find_fn(cls.body, "to_native")
    except TranslationUnsupported:
        return None
    guard = None
    attrs = None
    for s in f.body:
        if is_docstring(s):
            continue
        if isinstance(s, ast.If) and len(s.body) == 1 and isinstance(s.body[0], ast.Raise) and not s.orelse:
            if guard is not None:
                U(f"{cls_name}.to_native: two guards")
            guard = s.test
            continue
        u = ast.unparse(s)
        if u in ("code = deepcopy(self)", "code.freeze()"):
            continue
        if isinstance(s, ast.Try) and [ast.unparse(x) for x in s.body] == ["code.check()"] and len(s.handlers) == 1 and not s.orelse and not s.finalbody \
                and len(s.handlers[0].body) == 1 and isinstance(s.handlers[0].body[0], ast.Raise):
            continue
        if isinstance(s, ast.Return) and isinstance(s.value, ast.Call) and ast.unparse(s.value.func) == "types.CodeType" and not s.value.keywords:
            attrs = []
            for e in s.value.args:
                if not (isinstance(e, ast.Attribute) and isinstance(e.value, ast.Name) and e.value.id == "code"):
                    U(f"{cls_name}.to_native: argument {ast.unparse(e)}")
                attrs.append(e.attr)
            continue
        U(f"{cls_name}.to_native: unsupported statement {u[:80]}")
    if guard is None or attrs is None:
        U(f"{cls_name}.to_native: guard or constructor call missing")
    # the guard raises when true
    hosts = []
    for v in VERSIONS:
        vt = v + (0,)
        if not eval_version_test(guard, "PYTHON_VERSION_TRIPLE", vt):
            hosts.append(v)
    return hosts, attrs


def conv_info(cache):
    tree = parse("__init__.py")
    f = find_fn(tree.body, "codeType2Portable")
    pref = None
    chain = None
    seen_lt = False
    for s in f.body:
        if is_docstring(s):
            continue
        u = ast.unparse(s)
        if isinstance(s, ast.If) and "isinstance(code" in ast.unparse(s.test) and all(isinstance(b, (ast.Return, ast.Raise)) for b in s.body) and not s.orelse:
            if isinstance(s.body[0], ast.Return) and ast.unparse(s.body[0]) != "return code":
                U("codeType2Portable: isinstance shortcut returns something else")
            continue
        if isinstance(s, ast.Assign) and ast.unparse(s.targets[0]) == "line_table_field":
            e = s.value
            if isinstance(e, ast.IfExp) and isinstance(e.body, ast.Constant) and isinstance(e.orelse, ast.Constant) and isinstance(e.test, ast.Call) \
                    and ast.unparse(e.test.func) == "hasattr" and ast.unparse(e.test.args[0]) == "code" and isinstance(e.test.args[1], ast.Constant) \
                    and e.test.args[1].value == e.body.value:
                pref = [e.body.value, e.orelse.value]
                continue
            U(f"codeType2Portable: line_table_field = {ast.unparse(e)}")
        if u == "line_table = getattr(code, line_table_field)":
            seen_lt = True
            continue
        if isinstance(s, ast.If):
            if chain is not None:
                U("codeType2Portable: two version chains")
            chain = s
            continue
        U(f"codeType2Portable: unsupported statement {u[:80]}")
    if pref is None or not seen_lt or chain is None:
        U("codeType2Portable: line table choice or version chain missing")

    def select(stmts, v):
        for s in stmts:
            if isinstance(s, ast.If):
                if eval_version_test(s.test, "version_tuple", v):
                    return select(s.body, v)
                return select(s.orelse, v)
            if isinstance(s, ast.Return):
                return s.value
            if is_docstring(s) or isinstance(s, ast.Pass):
                continue
            U(f"codeType2Portable: statement in chain {ast.unparse(s)[:60]}")
        return None

    conv = []
    for v in VERSIONS:
        call = select([chain], v + (0,))
        if call is None:
            conv.append((v, None))
            continue
        if not (isinstance(call, ast.Call) and isinstance(call.func, ast.Name) and call.func.id in CLASS_FILES):
            U(f"codeType2Portable: returns {ast.unparse(call)[:60]}")
        params, _ = ctor_map(call.func.id, cache)
        binding = {}
        for i, e in enumerate(call.args):
            binding[params[i]] = e
        for k in call.keywords:
            binding[k.arg] = k.value
        if set(binding) != set(params):
            U(f"codeType2Portable: {call.func.id}(...) binds {sorted(binding)}, constructor takes {params}")
        args = []
        for p in params:
            e = binding[p]
            if isinstance(e, ast.Attribute) and isinstance(e.value, ast.Name) and e.value.id == "code":
                args.append((p, ("attr", e.attr)))
            elif isinstance(e, ast.Name) and e.id == "line_table":
                args.append((p, ("lt", None)))
            else:
                U(f"codeType2Portable: {call.func.id}({p}={ast.unparse(e)})")
        conv.append((v, (call.func.id, args)))
    # portableCodeType
    g = find_fn(tree.body, "portableCodeType")
    ptype = []

    def select_name(stmts, v):
        for s in stmts:
            if isinstance(s, ast.If):
                if eval_version_test(s.test, "version_tuple", v):
                    return select_name(s.body, v)
                return select_name(s.orelse, v)
            if isinstance(s, ast.Return) and isinstance(s.value, ast.Name):
                return s.value.id
            if is_docstring(s) or isinstance(s, ast.Pass):
                continue
            U(f"portableCodeType: statement {ast.unparse(s)[:60]}")
        return None
    for v in VERSIONS:
        ptype.append((v, select_name(g.body, v + (0,))))
    return pref, conv, ptype


REF_SCRIPT = r'''
import sys, types, json
def f(a, b=1):
    return a
co = f.__code__
attrs = sorted(n for n in dir(co) if n.startswith("co_") and not callable(getattr(co, n)))
doc = getattr(types.CodeType, "__text_signature__", None) or types.CodeType.__doc__ or ""
doc = doc.replace("=()", "")
sig = doc[doc.index("(") + 1:]
sig = sig[:sig.index(")")] if ")" in sig else sig
sig = sig.replace("[", "").replace("]", "").replace("/", "").replace("\n", " ")
params = [p.split("=")[0].strip() for p in sig.split(",")]
params = [p for p in params if p]
sys.stdout.write("@@JSON@@" + json.dumps({"version": list(sys.version_info[:2]), "attrs": attrs, "params": params}) + "\n")
'''
PARAM_ATTR = {"codestring": "co_code", "constants": "co_consts", "lnotab": "co_lnotab", "linetable": "co_linetable"}


def dump_refs():
    out = {}
    for v, host in sorted(C.ORACLES.items()):
        p = os.path.join(C.WORKROOT, "ref_codetype.py")
        os.makedirs(C.WORKROOT, exist_ok=True)
        with open(p, "w") as fh:
            fh.write(REF_SCRIPT)
        rc, o, err = C.run_py(p, host=host, impl=False)
        if "@@JSON@@" not in o:
            raise RuntimeError(f"reference interpreter {v}: {err[-500:]}")
        d = json.loads(o.split("@@JSON@@")[1])
        d["ctor_attrs"] = [PARAM_ATTR.get(x, "co_" + x) for x in d["params"]]
        missing = [a for a in d["ctor_attrs"] if a not in d["attrs"]]
        if missing:
            raise RuntimeError(f"reference interpreter {v}: constructor parameters {missing} are not attributes")
        out[v] = d
    return out


def vlit(v):
    return C.zlist(list(v))


def generate():
    cache = {}
    pref, conv, ptype = conv_info(cache)
    classes = sorted(CLASS_FILES)
    L = ["(* GENERATED by tools/translate/codetype.py from the AST of /repo/xdis/codetype/*.py. Do not edit. *)",
         "From Coq Require Import ZArith List String.", "Import ListNotations.", "Open Scope Z_scope.", "Local Open Scope string_scope.", "",
         "Inductive src := SAttr (a : string) | SLineTable.", ""]
    L.append("(* the attribute codeType2Portable reads the line table from: the first of these the object has *)")
    L.append("Definition ct_line_pref : list string := [" + "; ".join(C.slit(x) for x in pref) + "].")
    L.append("(* version -> class built and, per constructor parameter, where its value comes from *)")
    rows = []
    for v, c in conv:
        if c is None:
            continue
        cls, args = c
        al = "; ".join(f"({C.slit(p)}, {'SAttr ' + C.slit(s[1]) if s[0] == 'attr' else 'SLineTable'})" for p, s in args)
        rows.append(f"  ({vlit(v)}, ({C.slit(cls)}, [{al}]))")
    L.append("Definition ct_conv : list (list Z * (string * list (string * src))) := [\n" + ";\n".join(rows) + "].")
    L.append("(* class -> (attribute, constructor parameter stored in it), through the super().__init__ chain *)")
    rows = []
    for cls in classes:
        params, attr = ctor_map(cls, cache)
        rows.append(f"  ({C.slit(cls)}, [" + "; ".join(f"({C.slit(a)}, {C.slit(p)})" for a, p in sorted(attr.items())) + "])")
    L.append("Definition ct_ctor : list (string * list (string * string)) := [\n" + ";\n".join(rows) + "].")
    L.append("(* class -> hosts whose to_native() does not raise, attributes passed to types.CodeType in order *)")
    rows = []
    for cls in classes:
        info = to_native_info(cls)
        if info is None:
            continue
        hosts, attrs = info
        rows.append(f"  ({C.slit(cls)}, ([" + "; ".join(vlit(h) for h in hosts) + "], [" + "; ".join(C.slit(a) for a in attrs) + "]))")
    L.append("Definition ct_native : list (string * (list (list Z) * list string)) := [\n" + ";\n".join(rows) + "].")
    L.append("Definition ct_portable_type : list (list Z * string) := [" + "; ".join(f"({vlit(v)}, {C.slit(c)})" for v, c in ptype if c) + "].")
    C.write_if_changed(os.path.join(C.GEN, "CodeType.v"), "\n".join(L) + "\n")
    refs = dump_refs()
    R = ["(* GENERATED by tools/translate/codetype.py from the installed interpreters (dir(code), types.CodeType.__doc__). Do not edit. *)",
         "From Coq Require Import ZArith List String.", "Import ListNotations.", "Open Scope Z_scope.", "Local Open Scope string_scope.", ""]
    R.append("(* host version -> (data attributes of a code object, attribute set by each positional constructor parameter) *)")
    rows = []
    for v, d in sorted(refs.items(), key=lambda kv: tuple(kv[1]["version"])):
        rows.append(f"  ({C.zlist(d['version'])}, ([" + "; ".join(C.slit(a) for a in d["attrs"]) + "], [" + "; ".join(C.slit(a) for a in d["ctor_attrs"]) + "]))")
    R.append("Definition ref_code : list (list Z * (list string * list string)) := [\n" + ";\n".join(rows) + "].")
    C.write_if_changed(os.path.join(C.GEN, "RefCodeType.v"), "\n".join(R) + "\n")


if __name__ == "__main__":
    generate()
    print(open(os.path.join(C.GEN, "CodeType.v")).read())
    print(open(os.path.join(C.GEN, "RefCodeType.v")).read())

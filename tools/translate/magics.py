"""Gen/Magics.v: magic-number tables evaluated from /repo, plus literals taken
from the AST of xdis/load.py (interim-magic rejection list, Pyston/Dropbox magics).
Gen/RefMagics.v: reference registry from the installed CPython interpreters
(not from /repo)."""
import ast
import json
import os
import re
import subprocess
import sys

sys.path.insert(0, os.path.dirname(os.path.dirname(os.path.abspath(__file__))))
import common as C

HERE = os.path.dirname(os.path.abspath(__file__))


class TranslationUnsupported(Exception):
    pass


def load_py_literals():
    """Locate by shape in load_module_from_file_object:
       - `if magic_int in (<ints>): raise ImportError("... interim ...")`
       - `elif magic_int == 62135: ... fix_dropbox_pyc`
       - `elif magic_int == 62215: raise ImportError`
       - `if magic_int in (2657, 22138): raise ImportError(... Pyston ...)`"""
    src = open(os.path.join(C.REPO, "xdis/load.py")).read()
    tree = ast.parse(src)
    fn = None
    for n in ast.walk(tree):
        if isinstance(n, ast.FunctionDef) and n.name == "load_module_from_file_object":
            fn = n
    if fn is None:
        raise TranslationUnsupported("load.py: load_module_from_file_object not found")
    interim = None
    pyston = None
    eq_raise = []
    dropbox_fix = None

    def int_tuple(node):
        if isinstance(node, (ast.Tuple, ast.List, ast.Set)) and all(isinstance(e, ast.Constant) and isinstance(e.value, int) for e in node.elts):
            return [e.value for e in node.elts]
        return None

    def body_kind(body):
        txt = ast.dump(ast.Module(body=body, type_ignores=[]))
        if "fix_dropbox_pyc" in txt:
            return "dropbox_fix"
        for s in body:
            if isinstance(s, ast.Raise):
                d = ast.dump(s)
                if "ImportError" not in d:
                    return "raise_other"
                if "interim" in d:
                    return "raise_interim"
                if "Pyston" in d:
                    return "raise_pyston"
                return "raise_import"
        return "other"

    for n in ast.walk(fn):
        if isinstance(n, ast.If) and isinstance(n.test, ast.Compare) and len(n.test.ops) == 1 and isinstance(n.test.left, ast.Name) and n.test.left.id == "magic_int":
            op = n.test.ops[0]
            rhs = n.test.comparators[0]
            kind = body_kind(n.body)
            if isinstance(op, ast.In):
                vals = int_tuple(rhs)
                if vals is None:
                    continue
                if kind == "raise_interim":
                    interim = vals
                elif kind == "raise_pyston":
                    pyston = vals
            elif isinstance(op, ast.Eq) and isinstance(rhs, ast.Constant) and isinstance(rhs.value, int):
                if kind == "dropbox_fix":
                    dropbox_fix = rhs.value
                elif kind.startswith("raise_import"):
                    eq_raise.append(rhs.value)
    if interim is None:
        raise TranslationUnsupported("load.py: interim-magic rejection tuple not found by shape")
    return {"interim": interim, "pyston": pyston or [], "dropbox_fix": dropbox_fix, "eq_reject": eq_raise}


def registry_rows():
    """Parse the magic registry comment block of CPython 3.13's _bootstrap_external.py
    (reference data; not part of /repo). Rows: 'Python 3.5a1  3320 (...)'.
    Returns list of (magic, major, minor)."""
    p = f"{C.PYENV}/3.13.0/lib/python3.13/importlib/_bootstrap_external.py"
    rows = []
    for line in open(p):
        m = re.match(r"#\s+Python (\d)\.(\d+)([a-z]+\d*)?\.?\d*\s+(\d{4,5})\b", line)
        if m:
            rows.append((int(m.group(4)), int(m.group(1)), int(m.group(2))))
            continue
        m = re.match(r"#\s+Python (\d)\.(\d+)[a-z0-9.]*:? +(\d{4,5})\b", line)
        if m:
            rows.append((int(m.group(3)), int(m.group(1)), int(m.group(2))))
    return rows


def installed_magics():
    res = []
    for v, exe in sorted(C.ORACLES.items()):
        code = (
            "import sys\n"
            "try:\n from importlib.util import MAGIC_NUMBER as M\nexcept ImportError:\n import imp; M = imp.get_magic()\n"
            "b = bytearray(M); sys.stdout.write('%d %d %d %d %s\\n' % (b[0] + 256*b[1], sys.version_info[0], sys.version_info[1], sys.version_info[2], ' '.join(str(x) for x in b)))"
        )
        out = subprocess.run([exe, "-c", code], stdout=subprocess.PIPE, text=True, env=C.oracle_env()).stdout.split()
        res.append((int(out[0]), int(out[1]), int(out[2]), int(out[3]), [int(x) for x in out[4:8]]))
    return res


def generate():
    rc, out, err = C.run_py(os.path.join(HERE, "dump_magics.py"))
    data = None
    for line in out.splitlines():
        if line.startswith("@@JSON@@"):
            data = json.loads(line[8:])
    if data is None:
        raise TranslationUnsupported("dump_magics failed: " + err[-2000:])
    lits = load_py_literals()
    L = []
    L.append("(* GENERATED by tools/translate/magics.py from /repo on every run. Do not edit. *)")
    L.append("From Coq Require Import ZArith List String.\nImport ListNotations.\nOpen Scope Z_scope.\nLocal Open Scope string_scope.\n")
    L.append("Definition magicint2version : list (Z * string) := [\n  " + ";\n  ".join(f"({k}, {C.slit(v)})" for k, v in data["magicint2version"]) + "].\n")
    L.append("Definition magic_tuple : list (Z * option (list Z)) := [\n  " + ";\n  ".join(f"({k}, {C.optlit(t, C.zlist)})" for k, t in data["magic_tuple"]) + "].\n")
    L.append("Definition versions_tbl : list (list Z * string) := [\n  " + ";\n  ".join(f"({C.zlist(k)}, {C.slit(v)})" for k, v in data["versions"]) + "].\n")
    L.append("Definition magics_tbl : list (string * list Z) := [\n  " + ";\n  ".join(f"({C.slit(k)}, {C.zlist(v)})" for k, v in data["magics"]) + "].\n")
    L.append("Definition canonic_tbl : list (string * string) := [\n  " + ";\n  ".join(f"({C.slit(k)}, {C.slit(v)})" for k, v in data["canonic"]) + "].\n")
    L.append(f"Definition pypy3_magics : list Z := {C.zlist(data['pypy3_magics'])}.")
    L.append(f"Definition graal3_magics : list Z := {C.zlist(data['graal3_magics'])}.")
    L.append("Definition is_pypy_tbl : list (Z * bool) := [\n  " + ";\n  ".join(f"({k}, {C.boollit(b)})" for k, b in data["is_pypy"]) + "].\n")
    L.append("Definition op_import_keys : list string := [\n  " + ";\n  ".join(C.slit(k) for k in data["op_import_keys"]) + "].\n")
    L.append("Definition get_opcode_tbl : list (Z * option string) := [\n  " + ";\n  ".join(f"({k}, {C.optlit(n, C.slit)})" for k, n in data["get_opcode"]) + "].\n")
    L.append(f"Definition interim_rejected : list Z := {C.zlist(lits['interim'])}.")
    L.append(f"Definition pyston_rejected : list Z := {C.zlist(lits['pyston'])}.")
    L.append(f"Definition dropbox_fix_magic : list Z := {C.zlist([lits['dropbox_fix']] if lits['dropbox_fix'] is not None else [])}.")
    L.append(f"Definition other_rejected : list Z := {C.zlist(lits['eq_reject'])}.")
    rows = registry_rows()
    have_ref = {(a, b) for _, a, b in rows}
    rel = []
    for k, v in data["magics"]:
        m = re.match(r"^(\d)\.(\d|[1-9]\d+)(?:\.(\d+))?$", k)
        if m and (int(m.group(1)), int(m.group(2))) in have_ref:
            rel.append((k, int(m.group(1)), int(m.group(2)), int(m.group(3) or 0)))
    L.append("(* plain CPython release names d.d[.d] among the keys of xdis.magics.magics *)")
    L.append("Definition release_names : list (string * (Z * Z * Z)) := [\n  " + ";\n  ".join(f"({C.slit(k)}, ({a}, {b}, {c}))" for k, a, b, c in rel) + "].\n")
    # PyPy files of the historical corpus: (magic int, [major; minor]) read from the test tree
    import glob
    corpus = set()
    for dname in sorted(glob.glob(os.path.join(C.REPO, "test", "bytecode_*pypy*"))):
        m = re.search(r"bytecode_(?:pypy)?(\d)\.?(\d+)(?:pypy)?$", os.path.basename(dname))
        if not m:
            continue
        for f in sorted(glob.glob(os.path.join(dname, "*.pyc"))):
            with open(f, "rb") as fh:
                b = fh.read(4)
            corpus.add((b[0] + 256 * b[1], int(m.group(1)), int(m.group(2)), tuple(b)))
    L.append("(* PyPy files under /repo/test: (magic int, [major; minor], 4 magic bytes) *)")
    L.append("Definition corpus_pypy : list (Z * list Z * list Z) := [" + "; ".join(f"({m}, [{a}; {b}], {C.zlist(bs)})" for m, a, b, bs in sorted(corpus)) + "].")
    C.write_if_changed(os.path.join(C.GEN, "Magics.v"), "\n".join(L) + "\n")

    inst = installed_magics()
    R = []
    R.append("(* GENERATED from the installed CPython interpreters (reference data, not /repo). *)")
    R.append("From Coq Require Import ZArith List.\nImport ListNotations.\nOpen Scope Z_scope.\n")
    R.append("(* (magic, major, minor) rows of the registry comment block of CPython 3.13 importlib/_bootstrap_external.py *)")
    R.append("Definition registry : list (Z * Z * Z) := [\n  " + ";\n  ".join(f"({m}, {a}, {b})" for m, a, b in rows) + "].\n")
    R.append("(* (magic int, major, minor, micro, 4 magic bytes) of each interpreter under /root/.pyenv/versions *)")
    R.append("Definition installed : list (Z * Z * Z * Z * list Z) := [\n  " + ";\n  ".join(f"({m}, {a}, {b}, {c}, {C.zlist(bs)})" for m, a, b, c, bs in inst) + "].\n")
    C.write_if_changed(os.path.join(C.GEN, "RefMagics.v"), "\n".join(R) + "\n")
    return data, lits, rows, inst


if __name__ == "__main__":
    d, l, rows, inst = generate()
    print(len(d["magicint2version"]), "magics;", l, len(rows), "registry rows;", inst)

"""Runs under the implementation host with PYTHONPATH=/repo: evaluates every opcode table reachable from op_imports."""
import contextlib
import io
import json

buf = io.StringIO()
with contextlib.redirect_stdout(buf):
    from xdis.op_imports import op_imports

SETS = ["hasjrel", "hasjabs", "hasconst", "hasname", "haslocal", "hasfree", "hascompare", "hasnargs", "hasvargs",
        "nofollow", "hascondition", "hasstore"]
FROZEN = ["JREL_OPS", "JABS_OPS", "CONST_OPS", "NAME_OPS", "LOCAL_OPS", "FREE_OPS", "COMPARE_OPS", "JUMP_OPS", "NARGS_OPS", "VARGS_OPS"]

mods = {}
keymap = []
for k, m in op_imports.items():
    mods[m.__name__] = m
    if isinstance(k, str):
        keymap.append((k, m.__name__.split(".")[-1]))
    else:
        keymap.append(("float:%r" % k, m.__name__.split(".")[-1]))

tables = []
for name in sorted(mods):
    m = mods[name]
    t = {"name": name.split(".")[-1]}
    t["version_tuple"] = [int(x) for x in m.version_tuple]
    t["python_version"] = [int(x) for x in getattr(m, "python_version", m.version_tuple)]
    t["is_pypy"] = bool(getattr(m, "is_pypy", False))
    t["HAVE_ARGUMENT"] = int(m.HAVE_ARGUMENT)
    t["EXTENDED_ARG"] = int(m.EXTENDED_ARG)
    t["EXTENDED_ARG_SHIFT"] = int(m.EXTENDED_ARG_SHIFT)
    t["ARG_MAX_VALUE"] = int(m.ARG_MAX_VALUE)
    t["opname"] = [str(x) for x in m.opname]
    t["opmap"] = sorted((str(k), int(v)) for k, v in m.opmap.items())
    t["oppop"] = [int(x) for x in m.oppop]
    t["oppush"] = [int(x) for x in m.oppush]
    for s in SETS:
        t[s] = sorted(int(x) for x in getattr(m, s, []))
    for s in FROZEN:
        t[s] = sorted(int(x) for x in getattr(m, s, []))
    fl = m.findlabels
    t["findlabels"] = fl.__module__.split(".")[-1] + "." + fl.__name__
    fls = m.findlinestarts
    t["findlinestarts"] = fls.__module__.split(".")[-1] + "." + fls.__name__
    t["cmp_op"] = [str(x) for x in m.cmp_op]
    ice = getattr(m, "_inline_cache_entries", None)
    if isinstance(ice, dict):
        t["cache"] = sorted((str(k), int(v)) for k, v in ice.items() if v)
    elif ice is not None:
        t["cache"] = [(m.opname[i], int(v)) for i, v in enumerate(ice) if v]
    else:
        t["cache"] = []
    t["hasarg"] = sorted(int(x) for x in getattr(m, "hasarg", []))
    t["hasexc"] = sorted(int(x) for x in getattr(m, "hasexc", []))
    tables.append(t)

print("@@JSON@@" + json.dumps({"tables": tables, "keymap": sorted(keymap)}))

"""Gen/StackEffectX.v: xdis/cross_dis.py:xstack_effect translated from its AST into a Gallina
function that returns a `formula` (Base/Formula.v) for given version / opname / pop / push /
category flags.  Conditions that do not mention `oparg` become Gallina `if`s; the `return`
expressions (which do) are classified into formula constructors.  Anything outside the accepted
subset raises TranslationUnsupported (fail closed).

Gen/RefStackEffect.v: reference stack effects of every installed interpreter that has
dis.stack_effect (3.6 - 3.13), as formulas fitted to - and checked against - the interpreter's
answers (see tools/harness/oracle_se.py)."""
import ast
import json
import os
import sys

sys.path.insert(0, os.path.dirname(os.path.dirname(os.path.abspath(__file__))))
import common as C


class TranslationUnsupported(Exception):
    def __init__(self, node, why):
        super().__init__(f"xstack_effect line {getattr(node, 'lineno', '?')}: {why}: {ast.dump(node)[:200] if isinstance(node, ast.AST) else node}")


META_NAMES = {"opname": "opname", "version_tuple": "version_tuple", "pop": "pop", "push": "push"}


def mentions_oparg(node):
    return any(isinstance(n, ast.Name) and n.id == "oparg" for n in ast.walk(node))


def ztuple(node):
    if isinstance(node, ast.Tuple) and all(isinstance(e, ast.Constant) and isinstance(e.value, int) for e in node.elts):
        return C.zlist([e.value for e in node.elts])
    raise TranslationUnsupported(node, "expected a tuple of ints")


def meta_bool(node):
    """Python condition not mentioning oparg -> Gallina bool expression text."""
    if isinstance(node, ast.BoolOp):
        op = " && " if isinstance(node.op, ast.And) else " || "
        return "(" + op.join(meta_bool(v) for v in node.values) + ")"
    if isinstance(node, ast.UnaryOp) and isinstance(node.op, ast.Not):
        return f"(negb {meta_bool(node.operand)})"
    if isinstance(node, ast.Compare):
        parts = []
        left = node.left
        for op, right in zip(node.ops, node.comparators):
            parts.append(meta_cmp(left, op, right))
            left = right
        return "(" + " && ".join(parts) + ")"
    raise TranslationUnsupported(node, "unsupported condition")


def meta_cmp(left, op, right):
    def is_name(n, name):
        return isinstance(n, ast.Name) and n.id == name
    # opname == "X" / opname in ("A", "B") / opname in "LITERAL" (substring, as Python evaluates it)
    if is_name(left, "opname"):
        if isinstance(op, ast.Eq) and isinstance(right, ast.Constant) and isinstance(right.value, str):
            return f"(String.eqb opname {C.slit(right.value)}%string)"
        if isinstance(op, ast.In) and isinstance(right, ast.Tuple) and all(isinstance(e, ast.Constant) and isinstance(e.value, str) for e in right.elts):
            return "(smem opname [" + "; ".join(C.slit(e.value) for e in right.elts) + "]%string)"
        if isinstance(op, ast.In) and isinstance(right, ast.Constant) and isinstance(right.value, str):
            return f"(contains opname {C.slit(right.value)}%string)"
        raise TranslationUnsupported(right, "unsupported opname test")
    # version_tuple <op> (a, b)   and   (a, b) <op> version_tuple
    ops = {ast.GtE: "tuple_geb", ast.Gt: "tuple_gtb", ast.LtE: "tuple_leb", ast.Lt: "tuple_ltb", ast.Eq: "tuple_eqb"}
    if is_name(left, "version_tuple") and type(op) in ops:
        return f"({ops[type(op)]} version_tuple {ztuple(right)})"
    if is_name(right, "version_tuple") and type(op) in ops:
        return f"({ops[type(op)]} {ztuple(left)} version_tuple)"
    # push >= 0, pop < 0 ...
    zops = {ast.GtE: ">=?", ast.Gt: ">?", ast.LtE: "<=?", ast.Lt: "<?", ast.Eq: "=?"}
    if isinstance(left, ast.Name) and left.id in ("push", "pop") and isinstance(right, ast.Constant) and isinstance(right.value, int) and type(op) in zops:
        return f"({left.id} {zops[type(op)]} {C.zlit(right.value)})"
    # opcode in opc.VARGS_OPS / opc.NARGS_OPS
    if is_name(left, "opcode") and isinstance(op, ast.In) and isinstance(right, ast.Attribute) and isinstance(right.value, ast.Name) and right.value.id == "opc":
        if right.attr == "VARGS_OPS":
            return "in_vargs"
        if right.attr == "NARGS_OPS":
            return "in_nargs"
    raise TranslationUnsupported(left, "unsupported comparison")


def affine(node):
    """expression affine in oparg with coefficients over ints / push / pop -> (a_text, c_text) or None"""
    if isinstance(node, ast.Constant) and isinstance(node.value, int) and not isinstance(node.value, bool):
        return ("0", C.zlit(node.value))
    if isinstance(node, ast.Name):
        if node.id == "oparg":
            return ("1", "0")
        if node.id in ("push", "pop"):
            return ("0", node.id)
        return None
    if isinstance(node, ast.UnaryOp) and isinstance(node.op, ast.USub):
        r = affine(node.operand)
        return None if r is None else (f"(- {r[0]})", f"(- {r[1]})")
    if isinstance(node, ast.BinOp) and isinstance(node.op, (ast.Add, ast.Sub)):
        l, r = affine(node.left), affine(node.right)
        if l is None or r is None:
            return None
        o = "+" if isinstance(node.op, ast.Add) else "-"
        return (f"({l[0]} {o} {r[0]})", f"({l[1]} {o} {r[1]})")
    if isinstance(node, ast.BinOp) and isinstance(node.op, ast.Mult):
        l, r = affine(node.left), affine(node.right)
        if l is None or r is None:
            return None
        # one side must be a pure integer constant
        for k, e in ((l, r), (r, l)):
            if k[0] == "0" and k[1].lstrip("(-").rstrip(")").isdigit():
                return (f"({k[1]} * {e[0]})", f"({k[1]} * {e[1]})")
        return None
    return None


def is_oparg(n):
    return isinstance(n, ast.Name) and n.id == "oparg"


def and_mask(n):
    """oparg & M -> M"""
    if isinstance(n, ast.BinOp) and isinstance(n.op, ast.BitAnd) and is_oparg(n.left) and isinstance(n.right, ast.Constant) and isinstance(n.right.value, int):
        return n.right.value
    return None


def const_int(n):
    if isinstance(n, ast.Constant) and isinstance(n.value, int) and not isinstance(n.value, bool):
        return n.value
    if isinstance(n, ast.UnaryOp) and isinstance(n.op, ast.USub) and isinstance(n.operand, ast.Constant) and isinstance(n.operand.value, int):
        return -n.operand.value
    return None


def bit_test(n):
    """(oparg & M != 0) -> M   [Python precedence: oparg & M != 0 parses as oparg & (M != 0)!]"""
    return None


def formula_of_expr(e):
    if isinstance(e, ast.Constant) and e.value is None:
        return "FNone"
    a = affine(e)
    if a is not None:
        return f"(mk_lin {a[0]} {a[1]})"
    # A if <cond on oparg> else B   with integer A, B
    if isinstance(e, ast.IfExp):
        A, B = const_int(e.body), const_int(e.orelse)
        if A is None or B is None:
            raise TranslationUnsupported(e, "conditional expression with non-constant arms")
        t = e.test
        m = and_mask(t)
        if m is not None:
            return f"(FBit {C.zlit(m)} {C.zlit(A)} {C.zlit(B)})"
        if isinstance(t, ast.Compare) and len(t.ops) == 1 and isinstance(t.ops[0], ast.Eq):
            v = const_int(t.comparators[0])
            if is_oparg(t.left) and v is not None:
                return f"(FEq {C.zlit(v)} {C.zlit(A)} {C.zlit(B)})"
            m = and_mask(t.left)
            if m is not None and v is not None:
                return f"(FMaskEq {C.zlit(m)} {C.zlit(v)} {C.zlit(A)} {C.zlit(B)})"
        raise TranslationUnsupported(e, "unsupported conditional expression")
    # (oparg & 0xFF) + (oparg >> 8)
    if isinstance(e, ast.BinOp) and isinstance(e.op, ast.Add):
        l, r = e.left, e.right
        if and_mask(l) == 255 and isinstance(r, ast.BinOp) and isinstance(r.op, ast.RShift) and is_oparg(r.left) and const_int(r.right) == 8:
            return "(FLoHi 0)"
    # C - (oparg & 1 != 0) - (oparg & 2 != 0) - (oparg & 4 != 0) - (oparg & 8 != 0)
    terms = []
    cur = e
    while isinstance(cur, ast.BinOp) and isinstance(cur.op, ast.Sub):
        terms.append(cur.right)
        cur = cur.left
    c = const_int(cur)
    if c is not None and len(terms) == 4:
        masks = []
        for t in reversed(terms):
            # Python parses `oparg & 1 != 0` as a comparison chain? No: & binds tighter than != ,
            # so it is Compare(BinOp(oparg & 1), [NotEq], [0])
            if isinstance(t, ast.Compare) and len(t.ops) == 1 and isinstance(t.ops[0], ast.NotEq) and const_int(t.comparators[0]) == 0 and and_mask(t.left) is not None:
                masks.append(and_mask(t.left))
        if masks == [1, 2, 4, 8]:
            return f"(FPop4 {C.zlit(c)})"
    raise TranslationUnsupported(e, "unsupported return expression")


def compile_block(stmts, k):
    """statement list with fall-through continuation k (Gallina text of type formula)"""
    if not stmts:
        return k
    s, rest = stmts[0], stmts[1:]
    if isinstance(s, ast.Return):
        return formula_of_expr(s.value) if s.value is not None else "FNone"
    if isinstance(s, ast.If):
        kk = compile_block(rest, k)
        if mentions_oparg(s.test):
            # only the guard  lo <= oparg <= hi  around a table lookup, else None
            t = s.test
            if (isinstance(t, ast.Compare) and len(t.ops) == 2 and all(isinstance(o, ast.LtE) for o in t.ops) and is_oparg(t.comparators[0])
                    and const_int(t.left) is not None and const_int(t.comparators[1]) is not None
                    and len(s.body) == 1 and isinstance(s.body[0], ast.Return) and isinstance(s.body[0].value, ast.Subscript)
                    and is_oparg(s.body[0].value.slice) and isinstance(s.body[0].value.value, ast.List)
                    and len(s.orelse) == 1 and isinstance(s.orelse[0], ast.Return) and isinstance(s.orelse[0].value, ast.Constant) and s.orelse[0].value.value is None):
                vals = [const_int(x) for x in s.body[0].value.value.elts]
                if any(v is None for v in vals):
                    raise TranslationUnsupported(s, "non-integer table")
                return f"(FTable {C.zlit(const_int(t.left))} {C.zlit(const_int(t.comparators[1]))} {C.zlist(vals)})"
            raise TranslationUnsupported(s, "unsupported statement condition on oparg")
        return f"(if {meta_bool(s.test)}\n then {compile_block(s.body, kk)}\n else {compile_block(s.orelse, kk)})"
    if isinstance(s, ast.Expr) and isinstance(s.value, ast.Constant) and isinstance(s.value.value, str):
        return compile_block(rest, k)  # docstring
    if isinstance(s, ast.Pass):
        return compile_block(rest, k)
    raise TranslationUnsupported(s, "unsupported statement")


PREAMBLE = {
    "version_tuple = opc.version_tuple",
    "pop, push = opc.oppop[opcode], opc.oppush[opcode]",
    "(pop, push) = (opc.oppop[opcode], opc.oppush[opcode])",
    "opname = opc.opname[opcode]",
}


def translate_xstack_effect():
    src = open(os.path.join(C.REPO, "xdis/cross_dis.py")).read()
    tree = ast.parse(src)
    fn = None
    for n in ast.walk(tree):
        if isinstance(n, ast.FunctionDef) and n.name == "xstack_effect":
            fn = n
    if fn is None:
        raise TranslationUnsupported(tree, "xstack_effect not found")
    params = [a.arg for a in fn.args.args]
    if params != ["opcode", "opc", "oparg", "jump"]:
        raise TranslationUnsupported(fn, f"unexpected parameters {params}")
    body = list(fn.body)
    stmts = []
    for s in body:
        if isinstance(s, ast.Assign):
            if ast.unparse(s) not in PREAMBLE and ast.unparse(s).replace("(", "").replace(")", "") not in {x.replace("(", "").replace(")", "") for x in PREAMBLE}:
                raise TranslationUnsupported(s, "unexpected assignment")
            continue
        stmts.append(s)
    term = compile_block(stmts, "FNone")
    return term


def fit(samples):
    """samples: list of (arg, value-or-None).  Returns formula text fitting all samples, or None."""
    vals = dict(samples)
    args = sorted(vals)
    if all(v is None for v in vals.values()):
        return "FNone"
    if any(v is None for v in vals.values()):
        return None
    c0 = vals[0]
    cands = [("FConst %s" % C.zlit(c0), lambda x: c0)]
    for a in (-3, -2, -1, 1, 2, 3):
        cands.append((f"FLin {C.zlit(a)} {C.zlit(c0)}", lambda x, a=a: a * x + c0))
    for mask in (1, 2, 4, 8, 16):
        if mask in vals:
            c1 = vals[mask]
            cands.append((f"FBit {mask} {C.zlit(c1)} {C.zlit(c0)}", lambda x, mask=mask, c1=c1: c1 if x & mask else c0))
    for v in range(0, 9):
        if v in vals:
            other = vals[v + 1] if v + 1 in vals else c0
            cands.append((f"FEq {v} {C.zlit(vals[v])} {C.zlit(other)}", lambda x, v=v, other=other: vals[v] if x == v else other))
    for mask, v in ((4, 4), (3, 3), (1, 1)):
        if v in vals:
            cands.append((f"FMaskEq {mask} {v} {C.zlit(vals[v])} {C.zlit(c0)}", lambda x, mask=mask, v=v: vals[v] if (x & mask) == v else c0))
    cands.append((f"FLoHi {C.zlit(c0)}", lambda x: (x & 255) + (x >> 8) + c0))
    cands.append((f"FPop4 {C.zlit(c0)}", lambda x: c0 - bool(x & 1) - bool(x & 2) - bool(x & 4) - bool(x & 8)))
    for text, f in cands:
        if all(f(x) == vals[x] for x in args):
            return text
    return None


EXHAUSTIVE_COUNT = {}


def reference_formulas(exhaustive=False):
    """{version: [(opname, opcode, formula_text)]} from the installed interpreters"""
    out = {}
    script = os.path.join(C.VERIF, "tools/harness/oracle_se.py")
    for v in ("3.6", "3.7", "3.8", "3.9", "3.10", "3.11", "3.12", "3.13"):
        rc, o, e = C.run_py(script, args=["quick"], host=C.ORACLES[v], impl=False, timeout=3000)
        if "@@JSON@@" not in o:
            raise RuntimeError(f"oracle_se under {v} failed: {e[-2000:]}")
        data = json.loads(o.split("@@JSON@@")[1])
        rows = []
        for name, op, samples in data:
            f = fit([(a, r) for a, r in samples])
            if f is None:
                raise RuntimeError(f"no formula shape fits CPython {v} {name}: {samples[:12]}")
            rows.append((name, op, f))
        if exhaustive:
            rc, o, e = C.run_py(script, args=["verify"], host=C.ORACLES[v], impl=False, timeout=3000, stdin=json.dumps(rows))
            res = json.loads(o.split("@@JSON@@")[1])
            if res["bad"]:
                raise RuntimeError(f"reference formula does not hold for every operand on CPython {v}: {res['bad'][:3]}")
            EXHAUSTIVE_COUNT[v] = res["checked"]
        out[v] = rows
    return out


def generate(exhaustive=False):
    term = translate_xstack_effect()
    L = ["(* GENERATED by tools/translate/stackeffect.py from the AST of xdis/cross_dis.py:xstack_effect. Do not edit. *)",
         "From Xdis Require Import Base.Prelude Base.Formula Model.Instr.", "",
         "Definition xse_formula (version_tuple : list Z) (opname : string) (pop push : Z) (in_vargs in_nargs : bool) : formula :=",
         term + ".", ""]
    C.write_if_changed(os.path.join(C.GEN, "StackEffectX.v"), "\n".join(L) + "\n")
    ref = reference_formulas(exhaustive)
    R = ["(* GENERATED from dis.stack_effect of the installed interpreters (reference data, not /repo):",
         "   each opcode's answers over the sampled operands are fitted to - and checked against - a formula. *)",
         "From Xdis Require Import Base.Prelude Base.Formula.", "Local Open Scope string_scope.", ""]
    for v, rows in ref.items():
        n = "se_ref_" + v.replace(".", "")
        R.append(f"Definition {n} : list (string * Z * formula) := [\n  " + ";\n  ".join(f"({C.slit(name)}, {op}, {f})" for name, op, f in rows) + "].\n")
    C.write_if_changed(os.path.join(C.GEN, "RefStackEffect.v"), "\n".join(R) + "\n")
    return ref


if __name__ == "__main__":
    print(translate_xstack_effect()[:3000])

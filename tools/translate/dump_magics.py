"""Runs under the implementation host with PYTHONPATH=/repo: evaluates magics tables."""
import io, json, sys, contextlib
buf = io.StringIO()
with contextlib.redirect_stdout(buf):
    import xdis.magics as M
    from xdis.load import is_pypy
    from xdis.op_imports import op_imports
    from xdis.disasm import get_opcode

def tup(m):
    try:
        t = M.magic_int2tuple(m)
        return [int(x) for x in t]
    except Exception as e:
        return None

out = {}
out["magicint2version"] = sorted((int(k), v) for k, v in M.magicint2version.items())
out["magic_tuple"] = [(int(k), tup(k)) for k, _ in out["magicint2version"]]
out["versions"] = sorted((list(k), v) for k, v in M.versions.items())
out["magics"] = sorted((k, list(v)) for k, v in M.magics.items())
out["canonic"] = sorted(M.canonic_python_version.items())
out["pypy3_magics"] = list(M.PYPY3_MAGICS)
out["graal3_magics"] = list(M.GRAAL3_MAGICS)
out["is_pypy"] = [(int(k), bool(is_pypy(k, "x.pyc"))) for k, _ in out["magicint2version"]]
out["op_import_keys"] = sorted(k for k in op_imports.keys() if isinstance(k, str))
ok = []
for k, _ in out["magicint2version"]:
    t = tup(k)
    name = None
    if t is not None:
        try:
            with contextlib.redirect_stdout(buf):
                name = get_opcode(tuple(t), is_pypy(k, "x.pyc")).__name__
        except Exception as e:
            name = None
    ok.append((int(k), name))
out["get_opcode"] = ok
# the same under the file names that switch PyPy detection (load.is_pypy looks at the name for magics PyPy shares with CPython)
named = []
for k, base in ok:
    t = tup(k)
    if t is None or base is None:
        continue
    for fname in ("x.pypy38.pyc", "x.pypy39.pyc", "x.pypy310.pyc", "x.pypy37.pyc", "pypy38.pyc"):
        try:
            with contextlib.redirect_stdout(buf):
                nm = get_opcode(tuple(t), is_pypy(k, fname)).__name__
        except Exception as e:
            nm = None
        named.append((int(k), fname, nm))
out["get_opcode_named"] = named
# sysinfo2magic as a function: every release name of the table that is a plain X.Y.Z (final) or X.Y.ZrcN (candidate)
import re
si = []
for name, bs in out["magics"]:
    m = re.match(r"^(\d+)\.(\d+)\.(\d+)(?:(rc|alpha|beta)(\d+))?$", name)
    if not m:
        continue
    level = {"rc": "candidate", "alpha": "alpha", "beta": "beta", None: "final"}[m.group(4)]
    info = (int(m.group(1)), int(m.group(2)), int(m.group(3)), level, int(m.group(5) or 0))
    try:
        got = list(M.sysinfo2magic(info))
    except Exception as e:
        got = "raised " + type(e).__name__
    si.append((name, list(info), got, bs))
out["sysinfo2magic_calls"] = si
# a patch release the tables do not list falls back to its series: the table for (major, minor, 99) is the series' table
from xdis.op_imports import get_opcode_module
ul = []
for a, b in ((2, 7), (3, 3), (3, 6), (3, 7), (3, 8), (3, 9), (3, 10), (3, 11), (3, 12), (3, 13)):
    try:
        with contextlib.redirect_stdout(buf):
            m_ = get_opcode_module((a, b, 99))
        ul.append(((a, b), list(m_.version_tuple[:2])))
    except Exception as e:
        ul.append(((a, b), "raised " + type(e).__name__))
out["opcode_for_unlisted_patch"] = ul
# the header stage on a file of every table magic: the magic load_module reports back
import io, struct
from xdis.load import load_module_from_file_object
rep = []
for k, _ in out["magicint2version"]:
    try:
        with contextlib.redirect_stdout(buf), contextlib.redirect_stderr(buf):
            t = load_module_from_file_object(io.BytesIO(struct.pack("<H", k) + b"\r\n" + b"\0" * 60), "x.pyc", get_code=False)
        rep.append((int(k), int(t[2])))
    except Exception as e:
        rep.append((int(k), None))
out["reported_magic"] = rep
out["python_magic_int"] = int(M.PYTHON_MAGIC_INT)
print("@@JSON@@" + json.dumps(out))

"""Runs under the implementation host with PYTHONPATH=/repo: evaluates magics tables."""
import io, json, sys, contextlib
buf = io.StringIO()
with contextlib.redirect_stdout(buf):
    import xdis.magics as M
    from xdis.load import is_pypy
    from xdis.op_imports import op_imports
    from xdis.disasm import get_opcode

def tup(m):
    try:
        t = M.magic_int2tuple(m)
        return [int(x) for x in t]
    except Exception as e:
        return None

out = {}
out["magicint2version"] = sorted((int(k), v) for k, v in M.magicint2version.items())
out["magic_tuple"] = [(int(k), tup(k)) for k, _ in out["magicint2version"]]
out["versions"] = sorted((list(k), v) for k, v in M.versions.items())
out["magics"] = sorted((k, list(v)) for k, v in M.magics.items())
out["canonic"] = sorted(M.canonic_python_version.items())
out["pypy3_magics"] = list(M.PYPY3_MAGICS)
out["graal3_magics"] = list(M.GRAAL3_MAGICS)
out["is_pypy"] = [(int(k), bool(is_pypy(k, "x.pyc"))) for k, _ in out["magicint2version"]]
out["op_import_keys"] = sorted(k for k in op_imports.keys() if isinstance(k, str))
ok = []
for k, _ in out["magicint2version"]:
    t = tup(k)
    name = None
    if t is not None:
        try:
            with contextlib.redirect_stdout(buf):
                name = get_opcode(tuple(t), is_pypy(k, "x.pyc")).__name__
        except Exception as e:
            name = None
    ok.append((int(k), name))
out["get_opcode"] = ok
out["python_magic_int"] = int(M.PYTHON_MAGIC_INT)
print("@@JSON@@" + json.dumps(out))

"""Gen/MutState.v: inventory of shared mutable state of the xdis package and of the statements that change it after
import, from the AST of every module under /repo/xdis (fail closed on unparsable files).

Roots:   R1 module-level names; R2 parameters whose default is a mutable literal/constructor; R3 `self.a = <R2 param>` aliases.
Sites:   statements inside function bodies (methods and nested functions included; module and class bodies run at import)
         that subscript-assign / attribute-assign / delete / aug-assign / call a mutating method on a root, rebind a
         `global`, or setattr() on a parameter.
         A local name bound to a module-level / global object (`d = TABLE`, `d = A if c else B`) is an alias of that object.
         Every use of a memoising helper (functools.lru_cache / cache / cached_property and the like, as decorator or call) is a
         site of its own ("memo:<name>"): the memo is shared state that outlives the call, and what it hands out may be mutated later.
Also:    for every function containing a site, where it is called from (module level only = import time)."""
import ast
import os
import sys

sys.path.insert(0, os.path.dirname(os.path.dirname(os.path.abspath(__file__))))
import common as C

MUTATORS = {"append", "extend", "update", "add", "pop", "clear", "remove", "insert", "setdefault", "sort", "reverse", "discard", "popitem", "appendleft", "popleft"}
MUTABLE_CALLS = {"dict", "list", "set", "deque", "defaultdict", "OrderedDict", "bytearray"}
# functions that change a setting of the whole interpreter / process: a call from library code outlives the call
INTERP_SETTERS = {"set_int_max_str_digits", "setrecursionlimit", "setswitchinterval", "setprofile", "settrace", "setlocale", "chdir", "putenv", "unsetenv",
                  "simplefilter", "filterwarnings", "resetwarnings", "setdefaulttimeout", "set_asyncgen_hooks", "setdlopenflags", "umask", "seed", "setcheckinterval"}
ONE_SHOT_CALLS = {"iter", "map", "filter", "zip", "reversed", "enumerate"}
MEMO_NAMES = {"lru_cache", "cache", "cached_property", "memoize", "memoized", "memoise", "memo", "singledispatch", "cached"}


def is_mutable_default(e):
    if isinstance(e, (ast.Dict, ast.List, ast.Set, ast.ListComp, ast.DictComp, ast.SetComp)):
        return True
    if isinstance(e, ast.Call) and isinstance(e.func, ast.Name) and e.func.id in MUTABLE_CALLS:
        return True
    return False


def modules():
    root = os.path.join(C.REPO, "xdis")
    out = []
    for dp, dn, fn in os.walk(root):
        for f in sorted(fn):
            if f.endswith(".py"):
                p = os.path.join(dp, f)
                rel = os.path.relpath(p, C.REPO)[:-3].replace(os.sep, ".")
                out.append((rel, p))
    return sorted(out)


def local_names(fn):
    """names bound inside the function (params, assignments, for targets, with, imports, comprehensions excluded)"""
    loc = set(a.arg for a in fn.args.args + fn.args.kwonlyargs + getattr(fn.args, "posonlyargs", []))
    if fn.args.vararg:
        loc.add(fn.args.vararg.arg)
    if fn.args.kwarg:
        loc.add(fn.args.kwarg.arg)
    glob = set()
    for n in ast.walk(fn):
        if isinstance(n, ast.Global):
            glob |= set(n.names)
    for n in ast.walk(fn):
        if isinstance(n, ast.Name) and isinstance(n.ctx, ast.Store):
            loc.add(n.id)
        elif isinstance(n, (ast.Import, ast.ImportFrom)):
            for a in n.names:
                loc.add((a.asname or a.name).split(".")[0])
        elif isinstance(n, (ast.FunctionDef, ast.ClassDef)) and n is not fn:
            loc.add(n.name)
    return loc - glob, glob


def root_of(e):
    """Name / self.attr at the bottom of a subscript/attribute chain -> ('name', id) | ('self', attr) | None"""
    while isinstance(e, ast.Subscript):
        e = e.value
    if isinstance(e, ast.Name):
        return ("name", e.id)
    if isinstance(e, ast.Attribute) and isinstance(e.value, ast.Name) and e.value.id == "self":
        return ("self", e.attr)
    if isinstance(e, ast.Attribute):
        r = root_of(e.value)
        return r
    return None


def scan():
    mods = modules()
    module_names = {}
    defaults = []      # (func qualname, param)
    sites = []         # (func qualname, target, kind)
    calls = {}         # callee simple name -> list of (module, at_module_level)
    funcs_with_sites = set()
    for mod, path in mods:
        try:
            tree = ast.parse(open(path).read())
        except SyntaxError as e:
            raise RuntimeError(f"cannot parse {path}: {e}")
        top = set()
        for s in tree.body:
            for n in ast.walk(s) if isinstance(s, (ast.Assign, ast.AugAssign, ast.AnnAssign, ast.For, ast.If, ast.Try, ast.With)) else []:
                if isinstance(n, ast.Name) and isinstance(n.ctx, ast.Store):
                    top.add(n.id)
            if isinstance(s, (ast.Import, ast.ImportFrom)):
                for a in s.names:
                    top.add((a.asname or a.name).split(".")[0])
        module_names[mod] = top

        # call sites, with whether they are at module level
        def walk_calls(node, in_func):
            for ch in ast.iter_child_nodes(node):
                inner = in_func or isinstance(ch, (ast.FunctionDef, ast.AsyncFunctionDef, ast.Lambda))
                if isinstance(ch, ast.Call):
                    f = ch.func
                    nm = f.id if isinstance(f, ast.Name) else f.attr if isinstance(f, ast.Attribute) else None
                    if nm:
                        calls.setdefault(nm, []).append((mod, not in_func))
                walk_calls(ch, inner)
        walk_calls(tree, False)

        for n in ast.walk(tree):
            nm = n.id if isinstance(n, ast.Name) else n.attr if isinstance(n, ast.Attribute) else None
            if nm in MEMO_NAMES and isinstance(getattr(n, "ctx", None), ast.Load):
                sites.append((f"{mod}:line{n.lineno}", f"memo:{nm}", "use"))
            # a setting of the whole interpreter changed by library code (outside xdis/bin, which is a program)
            if isinstance(n, ast.Call) and not mod.startswith("xdis.bin"):
                f = n.func
                fn = f.attr if isinstance(f, ast.Attribute) else f.id if isinstance(f, ast.Name) else None
                if fn in INTERP_SETTERS:
                    sites.append((f"{mod}:line{n.lineno}", f"interp:{fn}", "call"))
            if isinstance(n, (ast.Assign, ast.AugAssign, ast.Delete)) and not mod.startswith("xdis.bin"):
                for t in (n.targets if isinstance(n, (ast.Assign, ast.Delete)) else [n.target]):
                    if isinstance(t, ast.Subscript) and isinstance(t.value, ast.Attribute) and t.value.attr == "environ":
                        sites.append((f"{mod}:line{n.lineno}", "interp:os.environ", "store"))
        # a one-shot iterator bound at module level is consumed by its first reader: `X = (m for m in ...)`, `X = map(...)`
        for st in tree.body:
            if isinstance(st, ast.Assign) and (isinstance(st.value, ast.GeneratorExp)
                                               or (isinstance(st.value, ast.Call) and isinstance(st.value.func, ast.Name) and st.value.func.id in ONE_SHOT_CALLS)):
                for t in st.targets:
                    if isinstance(t, ast.Name):
                        sites.append((f"{mod}:line{st.lineno}", f"iter:{t.id}", "one-shot iterator at module level"))

        def visit_fn(fn, qual, cls_aliases, enclosing_params):
            q = f"{qual}.{fn.name}" if qual else fn.name
            full = f"{mod}:{q}"
            a = fn.args
            pos = a.args
            mut_params = set()
            for arg, d in zip(pos[len(pos) - len(a.defaults):], a.defaults):
                if is_mutable_default(d):
                    defaults.append((full, arg.arg))
                    mut_params.add(arg.arg)
            for arg, d in zip(a.kwonlyargs, a.kw_defaults):
                if d is not None and is_mutable_default(d):
                    defaults.append((full, arg.arg))
                    mut_params.add(arg.arg)
            loc, glob = local_names(fn)
            params = set(x.arg for x in pos + a.kwonlyargs)
            # local aliases of module-level objects: x = G | x = G if c else H  (G not itself a local)
            alias = {}
            for n in ast.walk(fn):
                if isinstance(n, ast.Assign) and len(n.targets) == 1 and isinstance(n.targets[0], ast.Name):
                    vals = [n.value.body, n.value.orelse] if isinstance(n.value, ast.IfExp) else [n.value]
                    for v in vals:
                        if isinstance(v, ast.Name) and v.id in top and v.id not in loc and v.id not in params:
                            alias.setdefault(n.targets[0].id, v.id)

            def is_root(r):
                if r is None:
                    return None
                kind, nm = r
                if kind == "self":
                    return f"self.{nm}" if nm in cls_aliases else None
                if nm in mut_params:
                    return f"param:{nm}"
                if nm in params and nm != "self" and nm != "cls":
                    return f"arg:{nm}"
                if nm in glob or (nm in top and nm not in loc):
                    return f"global:{nm}"
                if nm in alias:
                    return f"global:{alias[nm]}"
                return None

            def add(target, kind):
                sites.append((full, target, kind))
                funcs_with_sites.add(fn.name)

            for n in ast.walk(fn):
                if isinstance(n, (ast.FunctionDef, ast.AsyncFunctionDef)) and n is not fn:
                    continue
                if isinstance(n, (ast.Assign, ast.AugAssign, ast.AnnAssign)):
                    tgts = n.targets if isinstance(n, ast.Assign) else [n.target]
                    for t in tgts:
                        for tt in (t.elts if isinstance(t, (ast.Tuple, ast.List)) else [t]):
                            if isinstance(tt, (ast.Subscript, ast.Attribute)):
                                if isinstance(tt, ast.Attribute) and isinstance(tt.value, ast.Name) and tt.value.id == "self":
                                    continue      # plain instance attribute
                                r = is_root(root_of(tt))
                                if r:
                                    add(r, "store")
                            elif isinstance(tt, ast.Name) and tt.id in glob:
                                add(f"global:{tt.id}", "rebind")
                            elif isinstance(n, ast.AugAssign) and isinstance(tt, ast.Name) and tt.id in mut_params:
                                add(f"param:{tt.id}", "augassign")
                elif isinstance(n, ast.Delete):
                    for t in n.targets:
                        if isinstance(t, (ast.Subscript, ast.Attribute)):
                            r = is_root(root_of(t))
                            if r:
                                add(r, "delete")
                elif isinstance(n, ast.Call):
                    f = n.func
                    if isinstance(f, ast.Attribute) and f.attr in MUTATORS:
                        r = is_root(root_of(f.value))
                        if r:
                            add(r, "call:" + f.attr)
                    elif isinstance(f, ast.Name) and f.id == "setattr" and n.args and isinstance(n.args[0], ast.Name) and n.args[0].id in params:
                        add(f"arg:{n.args[0].id}", "setattr")
            for n in fn.body:
                pass
            for n in ast.iter_child_nodes(fn):
                for sub in ast.walk(n):
                    if isinstance(sub, (ast.FunctionDef, ast.AsyncFunctionDef)) and sub is not fn:
                        visit_fn(sub, q, cls_aliases, params)
                        break

        for s in tree.body:
            if isinstance(s, (ast.FunctionDef, ast.AsyncFunctionDef)):
                visit_fn(s, "", set(), set())
            elif isinstance(s, ast.ClassDef):
                # aliases: self.a = p where p is a mutable-default parameter of a method of this class
                aliases = set()
                for m in s.body:
                    if isinstance(m, ast.FunctionDef):
                        mp = set()
                        pos = m.args.args
                        for arg, d in zip(pos[len(pos) - len(m.args.defaults):], m.args.defaults):
                            if is_mutable_default(d):
                                mp.add(arg.arg)
                        for n in ast.walk(m):
                            if isinstance(n, ast.Assign) and isinstance(n.value, ast.Name) and n.value.id in mp:
                                for t in n.targets:
                                    if isinstance(t, ast.Attribute) and isinstance(t.value, ast.Name) and t.value.id == "self":
                                        aliases.add(t.attr)
                # R4: class-level attributes bound to a mutable object and never re-bound per instance are shared by all instances
                class_mut = set()
                for m in s.body:
                    if isinstance(m, (ast.Assign, ast.AnnAssign)) and m.value is not None and is_mutable_default(m.value):
                        for t in (m.targets if isinstance(m, ast.Assign) else [m.target]):
                            if isinstance(t, ast.Name):
                                class_mut.add(t.id)
                rebound = set()
                for m in s.body:
                    if isinstance(m, ast.FunctionDef):
                        for n in ast.walk(m):
                            if isinstance(n, (ast.Assign, ast.AnnAssign)):
                                for t in (n.targets if isinstance(n, ast.Assign) else [n.target]):
                                    if isinstance(t, ast.Attribute) and isinstance(t.value, ast.Name) and t.value.id == "self":
                                        rebound.add(t.attr)
                for m in s.body:
                    if isinstance(m, (ast.FunctionDef, ast.AsyncFunctionDef)):
                        visit_fn(m, s.name, aliases | (class_mut - rebound), set())
    callers = []
    for f in sorted(funcs_with_sites):
        cs = calls.get(f, [])
        callers.append((f, sorted(set(m for m, top_level in cs if not top_level)), len([1 for m, t in cs if t])))
    return sorted(set(defaults)), sorted(set(sites)), callers


def content_reads(names):
    """places where the CONTENT of a cell called `name` (a Name or an attribute .name) is read:
    subscript load, non-mutating method call, `in`, iteration, len()/bool()/list()... argument"""
    out = []
    for mod, path in modules():
        tree = ast.parse(open(path).read())
        parents = {}
        for n in ast.walk(tree):
            for ch in ast.iter_child_nodes(n):
                parents[ch] = n
        for n in ast.walk(tree):
            nm = n.id if isinstance(n, ast.Name) else n.attr if isinstance(n, ast.Attribute) else None
            if nm not in names or not isinstance(getattr(n, "ctx", None), ast.Load):
                continue
            p = parents.get(n)
            how = None
            if isinstance(p, ast.Subscript) and p.value is n and isinstance(p.ctx, ast.Load):
                how = "subscript"
            elif isinstance(p, ast.Attribute) and p.value is n and isinstance(parents.get(p), ast.Call) and parents[p].func is p and p.attr not in MUTATORS:
                how = "method:" + p.attr
            elif isinstance(p, ast.Compare) and n in p.comparators and any(isinstance(o, (ast.In, ast.NotIn)) for o in p.ops):
                how = "in"
            elif isinstance(p, (ast.For, ast.comprehension)) and p.iter is n:
                how = "iterate"
            elif isinstance(p, ast.Call) and n in p.args and isinstance(p.func, ast.Name) and p.func.id in ("len", "list", "tuple", "sorted", "reversed", "dict", "set", "bool", "iter", "enumerate"):
                how = "call:" + p.func.id
            elif isinstance(p, (ast.If, ast.While, ast.IfExp)) and p.test is n or isinstance(p, ast.UnaryOp) and isinstance(p.op, ast.Not) or isinstance(p, ast.BoolOp):
                how = "truth"
            if how:
                out.append((nm, f"{mod}:{n.lineno}", how))
    return sorted(set(out))


def generate():
    defaults, sites, callers = scan()
    mutated_defaults = sorted(set(t.split(":", 1)[1] if t.startswith("param:") else t.split(".", 1)[1] for f, t, k in sites if t.startswith(("param:", "self."))))
    reads = content_reads(set(mutated_defaults))
    L = ["(* GENERATED by tools/translate/mutstate.py from the AST of every module under /repo/xdis. Do not edit. *)",
         "From Coq Require Import ZArith List String.", "Import ListNotations.", "Open Scope Z_scope.", "Local Open Scope string_scope.", "",
         "(* parameters whose default value is a shared mutable object: (module:function, parameter) *)",
         "Definition mutable_defaults : list (string * string) := [" + ";\n  ".join(f"({C.slit(f)}, {C.slit(p)})" for f, p in defaults) + "].", "",
         "(* statements in function bodies that change shared state: (module:function, target, kind) *)",
         "Definition mutation_sites : list (string * string * string) := [" + ";\n  ".join(f"({C.slit(f)}, {C.slit(t)}, {C.slit(k)})" for f, t, k in sites) + "].", "",
         "(* for each function name containing such a statement: modules that call it from inside a function, number of module-level call sites *)",
         "Definition site_callers : list (string * list string * Z) := [" + ";\n  ".join(f"({C.slit(f)}, [" + "; ".join(C.slit(m) for m in ms) + f"], {n})" for f, ms, n in callers) + "].", "",
         "(* cells that are shared default objects AND are mutated: every place in the package that reads the content of something of that name *)",
         "Definition mutated_default_cells : list string := [" + "; ".join(C.slit(x) for x in mutated_defaults) + "].",
         "Definition content_reads : list (string * string * string) := [" + ";\n  ".join(f"({C.slit(a)}, {C.slit(b)}, {C.slit(c)})" for a, b, c in reads) + "]."]
    C.write_if_changed(os.path.join(C.GEN, "MutState.v"), "\n".join(L) + "\n")


if __name__ == "__main__":
    generate()
    d, s, c = scan()
    print("defaults", len(d)); [print("  ", x) for x in d]
    print("sites", len(s)); [print("  ", x) for x in s]
    print("callers"); [print("  ", x) for x in c]

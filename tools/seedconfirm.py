"""Confirm a seeded change (sub-agent output in /tmp/seedout/<id>/<n>) in a scratch worktree, then try the checks on it.
usage: seedconfirm.py <id> <n> [--checks C04,C12]   ->  prints a JSON summary; copies confirmed ones to /verif/seeded/<id>-<n>/"""
import json, os, shutil, subprocess, sys, xml.etree.ElementTree as ET

pid, n = sys.argv[1], sys.argv[2]
# SEED_REPO / SEED_VERIF: run the checks from a copy of /verif against a scratch worktree of /repo (so that /repo and /verif stay free);
# default: the prescribed way - apply to /repo itself, run /verif's checks, undo
SREPO = os.environ.get("SEED_REPO", "/repo")
SVERIF = os.environ.get("SEED_VERIF", "/verif")
checks = [pid]
if "--checks" in sys.argv:
    checks = sys.argv[sys.argv.index("--checks") + 1].split(",")
base = sys.argv[sys.argv.index("--src") + 1] if "--src" in sys.argv else "/tmp/seedout"
offset = int(sys.argv[sys.argv.index("--offset") + 1]) if "--offset" in sys.argv else 0
src = f"{base}/{pid}/{n}"
wt = f"/var/tmp/confirm_wt_{pid}_{n}"
label = f"{pid}-{int(n) + offset}"
out = {"id": label, "property": pid}


def sh(cmd, **kw):
    return subprocess.run(cmd, shell=True, stdout=subprocess.PIPE, stderr=subprocess.STDOUT, text=True, **kw)


sh(f"git -C /repo worktree remove --force {wt}")
r = sh(f"git -C /repo worktree add -f {wt} HEAD -q")
try:
    r = sh(f"git -C {wt} apply {src}/patch.diff")
    out["applies"] = r.returncode == 0
    if not out["applies"]:
        out["apply_error"] = r.stdout[-500:]
    else:
        j = f"/var/tmp/seedconfirm_{pid}_{n}.xml"
        sh(f"cd {wt} && PYTHONPATH={wt} /venv/bin/python -m pytest -ra -q -p no:cacheprovider --timeout=900 --continue-on-collection-errors --junitxml={j}", timeout=1800)
        base = json.load(open("/root/.vp/BASELINE.json"))
        want = set(base["stable_pass"])
        passed = set()
        for tc in ET.parse(j).iter("testcase"):
            name = tc.get("classname", "") + "::" + tc.get("name", "")
            if not any(ch.tag in ("failure", "error", "skipped") for ch in tc):
                passed.add(name)
        os.unlink(j)
        out["baseline_pass"] = len(want & passed)
        out["baseline_missing"] = sorted(want - passed)
        d1 = sh(f"cd /var/tmp && PYTHONPATH={wt} /venv/bin/python {src}/demo.py", timeout=900)
        d0 = sh(f"cd /var/tmp && PYTHONPATH=/repo /venv/bin/python {src}/demo.py", timeout=900)
        out["demo_patched_exit"] = d1.returncode
        out["demo_clean_exit"] = d0.returncode
        out["demo_patched_tail"] = d1.stdout[-600:]
        out["confirmed"] = out["baseline_pass"] == len(want) and d1.returncode == 1 and d0.returncode == 0
finally:
    sh(f"git -C /repo worktree remove --force {wt}")
if out.get("confirmed") and "--no-checks" not in sys.argv:
    st = sh(f"git -C {SREPO} status --porcelain")
    assert st.stdout.strip() == "", f"{SREPO} is not clean"
    sh(f"git -C {SREPO} apply {src}/patch.diff")
    try:
        out["checks"] = {}
        for c in checks:
            r = sh(f"cd {SVERIF} && XDIS_REPO={SREPO} VERIF_SEED=1 VERIF_TIER=quick ./check {c}", timeout=3000)
            lines = [l for l in r.stdout.splitlines() if l.startswith(("VIOLATION", "OK property", "MACHINERY", "KNOWN-FINDING"))]
            out["checks"][c] = {"exit": r.returncode, "lines": [l[:200] for l in lines[:4]], "n_violation_lines": sum(l.startswith("VIOLATION") for l in lines),
                                "no_failing_input": any("no-failing-input-found" in l for l in lines)}
    finally:
        sh(f"git -C {SREPO} checkout -- .")
        sh(f"rm -f {SVERIF}/replay/*.json")
    out["caught_by"] = [c for c, v in out["checks"].items() if v["exit"] == 1]
if out.get("confirmed"):
    dst = f"/verif/seeded/{label}"
    os.makedirs(dst, exist_ok=True)
    for f in ("patch.diff", "demo.py"):
        shutil.copy(os.path.join(src, f), dst)
    meta = json.load(open(os.path.join(src, "meta.json")))
    meta.update({"confirmed": {k: out[k] for k in ("baseline_pass", "demo_patched_exit", "demo_clean_exit")}, "checks": out.get("checks"), "caught_by": out.get("caught_by")})
    json.dump(meta, open(os.path.join(dst, "meta.json"), "w"), indent=1)
print(json.dumps(out, indent=1))

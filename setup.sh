#!/bin/bash
# Offline build of the whole framework from files on disk: regenerate coq/Gen from
# /repo and the installed interpreters, then a full .vo build of the Coq development.
set -e
cd "$(dirname "$0")"
export PYTHONHASHSEED=0
/venv/bin/python -B tools/setup.py

#!/usr/bin/env python
"""EXISTING DEFECT 2 (unchanged library): magic 224 is registered as "3.7pypy"
(xdis/magics.py: add_magic_from_int(224, "3.7pypy")) but PYPY3_MAGICS, the
tuple load.is_pypy()/unmarshal use to recognise PyPy, lists 244 instead - a
number that is not a registered magic at all.  So a file with magic 224 loads
as version (3, 7) with is_pypy False and is disassembled with CPython's 3.7
opcode table instead of the PyPy 3.7 one.

Exit 1 (bug present) / 0 (fixed).
"""
import contextlib, io, os, shutil, subprocess, sys, tempfile

from xdis.disasm import get_opcode
from xdis.load import is_pypy, load_module
from xdis.magics import PYPY3_MAGICS, int2magic, magicint2version

PY37 = "/root/.pyenv/versions/3.7.16/bin/python"


def main():
    problems = []
    for magic_int, name in sorted(magicint2version.items()):
        if name.endswith("pypy") and not is_pypy(magic_int, "x.pyc"):
            problems.append("magic %d is registered as %r but load.is_pypy(%d) is False" % (magic_int, name, magic_int))
    for magic_int in PYPY3_MAGICS:
        if magic_int not in magicint2version:
            problems.append("PYPY3_MAGICS lists %d, which is not a registered magic" % magic_int)

    tmp = tempfile.mkdtemp(prefix="c08_existing2_")
    try:
        src = os.path.join(tmp, "m.py")
        with open(src, "w") as f:
            f.write("x = 1\n")
        pyc = os.path.join(tmp, "m37.pyc")
        subprocess.check_call(
            [PY37, "-c", "import py_compile,sys; py_compile.compile(sys.argv[1], cfile=sys.argv[2], doraise=True)", src, pyc]
        )
        data = open(pyc, "rb").read()
        for magic_int in (224, 240):  # both registered as "3.7pypy"
            path = os.path.join(tmp, "m%d.pyc" % magic_int)
            with open(path, "wb") as f:
                f.write(int2magic(magic_int) + data[4:])
            with contextlib.redirect_stderr(io.StringIO()):
                vt, ts, got_magic, co, pypy, size, sip = load_module(path)
            opc = get_opcode(vt, pypy)
            print("magic %d (%s): is_pypy %r, opcode table %s" % (magic_int, magicint2version[magic_int], pypy, opc.__name__))
            if not pypy or "pypy" not in opc.__name__:
                problems.append("a %s file (magic %d) is disassembled with %s" % (magicint2version[magic_int], magic_int, opc.__name__))
    finally:
        shutil.rmtree(tmp, ignore_errors=True)

    if problems:
        print("DEFECT PRESENT:")
        for p in problems:
            print("  " + p)
        return 1
    print("ok")
    return 0


if __name__ == "__main__":
    sys.exit(main())

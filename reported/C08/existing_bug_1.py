#!/usr/bin/env python
"""EXISTING DEFECT 1 (unchanged library): magic 3376 - "Python 3.6b1 3376" in
CPython's registry, registered by xdis as "3.6b1+2" - cannot be disassembled.

xdis/load.py load_module_from_file_object():
    if magic[0:1] in ["0", b"0"]:          # "PyPy 3.2 stores a magic of '0'"
        magic = int2magic(3180 + 7)
looks only at the LOW byte of the magic.  3376 == 0x0D30, low byte 0x30 == '0',
so a 3.6b1 file is silently re-labelled PyPy 3.2: load_module() returns
version (3, 6) together with magic_int 3187 and is_pypy True, the code object
is unmarshalled with the 3.2 rules, and disco() of the result fails.

Exit 1 (bug present) / 0 (fixed).
"""
import contextlib, io, os, shutil, subprocess, sys, tempfile

from xdis.disasm import disco
from xdis.load import load_module
from xdis.magics import int2magic, magic_int2tuple, magicint2version

PY36 = "/root/.pyenv/versions/3.6.15/bin/python"


def main():
    tmp = tempfile.mkdtemp(prefix="c08_existing1_")
    try:
        src = os.path.join(tmp, "m.py")
        with open(src, "w") as f:
            f.write("def f(a, b=2):\n    return a + b\nx = f(1)\n")
        pyc = os.path.join(tmp, "m36.pyc")
        subprocess.check_call(
            [PY36, "-c", "import py_compile,sys; py_compile.compile(sys.argv[1], cfile=sys.argv[2], doraise=True)", src, pyc]
        )
        data = open(pyc, "rb").read()
        problems = []
        # control: the neighbouring registry magics of the same layout behave
        for magic_int in (3375, 3376, 3377):
            path = os.path.join(tmp, "m%d.pyc" % magic_int)
            with open(path, "wb") as f:
                f.write(int2magic(magic_int) + data[4:])
            err = io.StringIO()
            try:
                with contextlib.redirect_stderr(err):
                    vt, ts, got_magic, co, pypy, size, sip = load_module(path)
            except Exception as e:
                problems.append("magic %d (%s): load_module raised %r" % (magic_int, magicint2version[magic_int], e))
                continue
            line = "magic %d (%s): load_module -> version %r magic_int %r is_pypy %r" % (
                magic_int, magicint2version[magic_int], vt, got_magic, pypy)
            print(line)
            if got_magic != magic_int or pypy or vt[:2] != magic_int2tuple(magic_int)[:2]:
                problems.append(line + "   <-- relabelled as %s" % magicint2version.get(got_magic))
            try:
                with contextlib.redirect_stderr(err):
                    disco(vt, co, ts, io.StringIO(), pypy, got_magic, size, sip)
            except BaseException as e:
                problems.append("magic %d: the loaded file cannot be disassembled: %r" % (magic_int, e))
        if problems:
            print("DEFECT PRESENT:")
            for p in problems:
                print("  " + p)
            return 1
        print("ok")
        return 0
    finally:
        shutil.rmtree(tmp, ignore_errors=True)


if __name__ == "__main__":
    sys.exit(main())

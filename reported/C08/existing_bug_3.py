#!/usr/bin/env python
"""EXISTING DEFECT 3 (unchanged library): release names in xdis/magics.py that
map to a magic the release never wrote.

 * "3.6b2": add_magic_from_int(3378, "3.6b2") registers it, then
   add_canonic_versions("3.6b2 3.6 3.6.0 ...", "3.6rc1") overwrites
   magics["3.6b2"] with 3379.  CPython's registry: "Python 3.6b2 3378",
   "Python 3.6rc1 3379".  magicint2version[3378] is still "3.6b2", so the two
   directions of the table disagree.
 * "3.8a1": add_canonic_versions("3.8a1", "3.8.0beta2") -> 3412.  CPython's
   registry gives 3400/3401/3410 to 3.8a1; 3412 is "Python 3.8b2".

Ground truth is read from the magic-number registry comment in
Lib/importlib/_bootstrap_external.py of the installed CPythons.

Exit 1 (bug present) / 0 (fixed).
"""
import glob, re, sys

from xdis.magics import magic2int, magicint2version, magics


def registry():
    reg = {}  # release name -> set of magics
    for f in sorted(glob.glob("/root/.pyenv/versions/3.*/lib/python3.*/importlib/_bootstrap_external.py")):
        for line in open(f, encoding="utf-8", errors="replace"):
            m = re.match(r"^#\s+Python (\d+\.\d+\S*)\s+(\d+)\b", line)
            if m:
                reg.setdefault(m.group(1), set()).add(int(m.group(2)))
    return reg


def main():
    reg = registry()
    problems = []
    for name in ("3.6b2", "3.8a1", "3.7b1", "3.6rc1", "3.4rc2"):
        if name not in reg or name not in magics:
            continue
        got = magic2int(magics[name])
        print("magics[%r] = %d; CPython registry lists %s for %s" % (name, got, sorted(reg[name]), name))
        if got not in reg[name]:
            problems.append("magics[%r] is %d, CPython %s wrote %s" % (name, got, name, sorted(reg[name])))
    # the table's two directions must agree when a name has a single magic
    if magicint2version.get(3378) == "3.6b2" and magic2int(magics["3.6b2"]) != 3378:
        problems.append("magicint2version[3378] is '3.6b2' but magics['3.6b2'] is %d" % magic2int(magics["3.6b2"]))
    if problems:
        print("DEFECT PRESENT:")
        for p in problems:
            print("  " + p)
        return 1
    print("ok")
    return 0


if __name__ == "__main__":
    sys.exit(main())

#!/usr/bin/env python
"""EXISTING DEFECT 4 (unchanged library): sysinfo2magic() ignores the release
level of a pre-release interpreter.

xdis/magics.py sysinfo2magic():
    vers_str = version_tuple_to_str(version_info)
    if version_info[3] != "final":
        vers_str += version_tuple_to_str(version_info, start=3)
version_tuple_to_str() slices version_tuple[start:end] with the default end=3,
so start=3 always yields "".  The pre-release names the tables carry for
exactly this purpose ("3.8.0alpha3" -> 3401, "3.9.0alpha1" -> 3422,
"3.7.0alpha3" -> 3391, "3.8.0candidate1" ...) can never be produced; a
3.8.0a3 host is told it writes 3413 (the 3.8 final magic) although the tables
(and CPython's registry: "Python 3.8a1 3401") say 3401.
(op_imports.get_opcode_module() has the same dead suffix code.)

Exit 1 (bug present) / 0 (fixed).
"""
import sys

from xdis.magics import magic2int, magics, sysinfo2magic

CASES = [
    ((3, 8, 0, "alpha", 3), "3.8.0alpha3"),
    ((3, 9, 0, "alpha", 1), "3.9.0alpha1"),
    ((3, 7, 0, "alpha", 3), "3.7.0alpha3"),
]


def main():
    problems = []
    for vi, table_name in CASES:
        want = magic2int(magics[table_name])
        try:
            got = magic2int(sysinfo2magic(vi))
        except KeyError as e:
            got = "KeyError(%s)" % e
        print("sysinfo2magic(%r) -> %s ; tables: magics[%r] = %d" % (vi, got, table_name, want))
        if got != want:
            problems.append("host %r: sysinfo2magic gives %s, the tables name this release %r with magic %d" % (vi, got, table_name, want))
    if problems:
        print("DEFECT PRESENT:")
        for p in problems:
            print("  " + p)
        return 1
    print("ok")
    return 0


if __name__ == "__main__":
    sys.exit(main())
